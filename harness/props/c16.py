"""C16 — TLE source precedence: given lines, then file, then TLES, then network only; platforms registry."""
import glob as _glob
import io
import json
import os
import shutil
import struct
import subprocess
import sys
import tempfile
import time

_HARNESS = os.path.dirname(os.path.dirname(os.path.abspath(__file__)))
if _HARNESS not in sys.path:
    sys.path.insert(0, _HARNESS)
import lib  # noqa: E402  (puts PV_REPO or /repo first on sys.path)

ID = "C16"
LEAN_TARGETS = ["PV.Props.C16"]
# T-D: functions translated from the source by harness/pytrans.py, proved equal to the model (DESIGN section 0)
EQUIV = {"PV.Equiv.TranslatedSources": ["get_config_path_eq", "get_platforms_filepath_eq", "maxByKey_eq",
                                        "get_uris_and_open_func_eq", "choose_lines", "read_tle_choose"],
         "PV.Equiv.TranslatedInit": ["read_tle_lines", "read_tle_source"]}
RULE = ("exhaustive product {line1/line2: both, line1 only, line2 only, none} x {tle_file: None, path, StringIO, admin-message "
        "XML, '', a path that is a named pipe (fed by a writer thread while the call runs), a path that is a symbolic link to "
        "a file, and the given sources that yield nothing: a path that does not exist, a dangling symbolic link, admin message without <navigation>, admin message with another "
        "satellite's elements only, empty file, file holding only the name line, file / StringIO without the platform, empty "
        "StringIO} x {TLES: unset, three directories of three files whose newest (by ctime) is the lexicographically last / "
        "first / middle one, a pattern matching nothing, ''} x {PYORBITAL_CONFIG_PATH: unset, dir with platforms.txt, "
        "existing dir without (holding another file), non-existent dir} x {PPP_CONFIG_DIR: unset, set (holding its own "
        "platforms.txt), set to a non-existent dir}; one fresh interpreter per registry combination (an import "
        "of pyorbital.tlefile that fails there is a violation of 'the packaged file otherwise', not a harness error); every "
        "source serves the same satellite with a different element number, so the returned "
        "Tle names its origin; urlopen / urllib.request.urlopen / requests / socket.connect are interposed and counted; "
        "plus: a hard-link pair of equal ctime (ties), a TLES match whose newest file does not hold the platform (must fail "
        "without a download); further TLES values in the product (table TLES_MORE; 'matching' is what glob.glob gives, "
        "checked with glob.glob when the files are made): patterns relative to the working directory, with ./, .. and // "
        "components, directories holding hidden files newer than every matching file (*, *.txt, *tle*; patterns only hidden "
        "files could match must fail without a download), ? and [..] and [!..] patterns, a pattern without wildcard, "
        "wildcards in one and in two directory components (a hidden sub-directory being the newest), a pattern matching an "
        "older directory besides the files; further PYORBITAL_CONFIG_PATH values (table CFG_SPECS): relative to the working "
        "directory (plain, ./, trailing /, .., nested, '.' from inside the directory), absolute with trailing / and .., "
        "relative directories without the file / not existing; PPP_CONFIG_DIR also as a relative path; 16 x 4 = 64 "
        "children; EVERY cell is run through every public entry point that takes these arguments - tlefile.Tle(...), "
        "tlefile.read(...), orbital.Orbital(...).tle, each in keyword and in positional spelling - and each must take its "
        "elements from the statement's source (the constructor in keyword spelling is the one compared with the model); "
        "plus 5 x 4 children whose PYORBITAL_CONFIG_PATH directory holds a platforms.txt at an edge of the file format "
        "(zero bytes, comment lines only, blank lines only, one entry without a final newline, CRLF line ends): the registry "
        "must be the content of THAT file (an empty registry for the first three), with a reduced source product; "
        "distinct = (lines, tle_file, TLES, config path, ppp)")
ASSUMPTIONS = ["strings are abstracted to the classes the code distinguishes: tle_file None / falsy / StringIO / str containing "
               "'ADMIN_MESSAGE' / other str; TLES unset / '' / a pattern with its glob result",
               "ctimes compared as the floats os.path.getctime returns (passed to the model as the order-preserving bit pattern)",
               "tle_file='' and TLES='' (falsy values, outside the statement's quantifier) are tied to the model but not judged "
               "by the oracle",
               "a pathlib.Path tle_file is outside the quantifier ('ADMIN_MESSAGE' in Path raises TypeError)",
               "a given source that yields nothing for the platform must end in an exception with zero network requests; "
               "which exception (KeyError, StopIteration for a truncated entry) is not judged",
               "a PYORBITAL_CONFIG_PATH naming a non-existent directory is the model's class 'set, no platforms.txt there'; "
               "PPP_CONFIG_DIR naming a non-existent directory is 'set'",
               "a relative PYORBITAL_CONFIG_PATH / TLES value names the directory / pattern relative to the working directory of "
               "the process at the time pyorbital is imported / the Tle is built (the children never change directory)",
               "a TLES pattern that matches a directory is exercised only where the directory is older than the newest matching "
               "file (what a newest matching directory should mean is left open by 'newest file')",
               "an exception (or interpreter exit) raised by `import pyorbital.tlefile` in a fresh interpreter is read as "
               "'no registry in this environment' (the registry is built at import)",
               "'that directory holds a platforms.txt' is read as: a directory entry of that name that is a file, whatever its "
               "size or content; the registry then is what the file lists (name ... number per line, '#' comment lines), "
               "possibly nothing",
               "'the given file' is read as: the path that was given, whether it names a regular file, a named pipe or a "
               "symbolic link; a path that names nothing is a configured source that yields nothing (an exception, zero "
               "network requests, no other source consulted)",
               "the children share compiled byte code through PYTHONPYCACHEPREFIX inside the experiment's directory and run "
               "numpy's thread pools with one thread (the registry and the sources do not depend on either)"]
TRUSTED = ["model: PV.Model.Sources (hand-written from tlefile.py _read_tle, _get_uris_and_open_func, _get_config_path, "
           "get_platforms_filepath), tied by the exhaustive product with the chosen URIs/open function recorded at "
           "_get_uris_and_open_func and the registry read in fresh interpreters"]
LEVEL_TEXT = ("Theorems (Lean 4 kernel, core only): the model of _read_tle/_get_uris_and_open_func equals the statement's order "
              "(both lines, else file/stream/XML, else newest TLES match, else network) for every configuration; the network is "
              "chosen exactly when no local source is configured (an empty glob is an error, not a download); for arbitrary "
              "lists of (file, ctime) the chosen file has maximal ctime and is the first such in glob order; the registry is "
              "custom iff PYORBITAL_CONFIG_PATH holds platforms.txt and never depends on PPP_CONFIG_DIR. The model is tied to "
              "tlefile.py by the exhaustive configuration product (exact agreement).")
LEVEL_NOTE = ("Trusted: Lean kernel; axioms propext, Quot.sound, Classical.choice; the hand-written model PV.Model.Sources and the "
              "correspondence harness (interposition of urlopen/requests/socket, file ctimes produced by creation order, mtimes/atimes set in the opposite order).")
TECHNIQUE = ("Lean 4 proof by case analysis + list induction over an executable model; differential correspondence, exhaustive "
             "over the property's configuration product")

PLATFORM = "NOAA-19"
BASE1 = "1 33591U 09005A   21355.91138073  .00000074  00000+0  65091-4 0  9998"
BASE2 = "2 33591  99.1688  21.1338 0013414 329.8936  30.1462 14.12516400663123"
DECOY = ("NOAA-18", "1 28654U 05018A   23045.48509621  .00000446  00000+0  26330-3 0  9998",
         "2 28654  98.9223 120.4228 0014233  11.3574 348.7916 14.12862494914152")
OTHER = ("METOP-B", "1 38771U 12049A   21355.50000000  .00000010  00000+0  24550-4 0  9990",
         "2 38771  98.7000  50.0000 0002000  90.0000 270.0000 14.21480000480001")


def _cks(line68):
    s = 0
    for ch in line68:
        if ch.isdigit():
            s += int(ch)
        elif ch == "-":
            s += 1
    return str(s % 10)


def tagged(num):
    """The NOAA-19 element set with element number `num` (identifies the source that served it)."""
    l1 = BASE1[:64] + "%4d" % num
    l1 = l1 + _cks(l1)
    return l1, BASE2


TAGS = {"L": 101, "P": 102, "S": 103, "X": 104, "N": 105, "F": 106, "K": 107}
LINES_KINDS = ["both", "l1", "l2", "none"]
# Every public way of handing (platform, tle_file, line1, line2) to the library, keyword and positional spelling: the
# statement speaks of "every combination of arguments", not of one constructor, so each cell of the product goes through
# all of them and each must take its elements from the same (the statement's) source.
ENTRY_POINTS = ["Tle_kw", "Tle_pos", "read_kw", "read_pos", "Orbital_kw", "Orbital_pos"]
# given sources that are configured but yield nothing for the platform ("... no network request is made, even if it yields nothing")
TF_NOTHING = ["xml_nonav", "xml_without", "path_empty", "path_nameonly", "path_without", "stringio_empty", "stringio_without"]
# a given path need not name a regular file: a named pipe (fed by a writer while the call runs) and a symbolic link to a file
# are read like any file ("else from the given file"); a path that does not exist (or a dangling link) is a configured source
# that yields nothing
TF_NOTHING += ["path_missing", "path_dangling"]
TF_KINDS = ["none", "path", "stringio", "xml", "empty", "path_fifo", "path_symlink"] + TF_NOTHING
TF_TAG = {"path": "P", "stringio": "S", "xml": "X", "path_fifo": "F", "path_symlink": "K"}
ORDERS = {"A": ["a", "b", "c"], "B": ["c", "b", "a"], "C": ["a", "c", "b"]}   # creation order; the last is the newest
# Further TLES values: (kind, pattern, directory/file whose elements the statement requires | None = matches nothing).
# {W} is the experiment's directory (absolute spelling); a pattern without it is RELATIVE to the child's working directory.
# What "matching the TLES pattern" means is what glob.glob gives: `*`, `?`, `[...]` in any path component, a leading dot is
# matched only by a literal dot.  prepare() verifies every line of this table with glob.glob itself.
#   tlesH: tle-1.txt < tle-2.txt < .tle-3.txt.part < .tle-4.txt           (hidden files newer than every visible file)
#   tlesP: tle-1.txt < tle-2.txt < tle-3.txt < tle-10.txt < .tle-4.txt
#   tlesD: 2021/tle.txt < 2008/tle.txt < 2015/tle.txt < .staging/tle.txt   (wildcards in the directory part)
#   tlesM: archive.tle/ (a directory, older) < a.tle < b.tle               (the pattern matches a directory as well)
TLES_MORE = [
    ("A_rel", "tlesA/*.tle", "A"), ("B_dot", "./tlesB/*.tle", "B"), ("C_up", "tlesA/../tlesC/*.tle", "C"),
    ("C_absup", "{W}/tlesA/../tlesC/*.tle", "C"), ("A_dslash", "{W}/tlesA//*.tle", "A"), ("nothing_rel", "no_such_dir/*.tle", None),
    ("H_star", "{W}/tlesH/*", "tlesH/tle-2.txt"), ("H_ext", "{W}/tlesH/*.txt", "tlesH/tle-2.txt"),
    ("H_rel", "./tlesH/*tle*", "tlesH/tle-2.txt"), ("H_only", "{W}/tlesH/*.part", None), ("H_q", "tlesH/?tle-?.txt", None),
    ("P_q", "{W}/tlesP/tle-?.txt", "tlesP/tle-3.txt"), ("P_set", "{W}/tlesP/tle-[12].txt", "tlesP/tle-2.txt"),
    ("P_neg", "tlesP/tle-[!3].txt", "tlesP/tle-2.txt"), ("P_star", "{W}/tlesP/tle-*.txt", "tlesP/tle-10.txt"),
    ("P_one", "{W}/tlesP/tle-1.txt", "tlesP/tle-1.txt"),
    ("D_star", "{W}/tlesD/*/tle.txt", "tlesD/2015/tle.txt"), ("D_q", "tlesD/20?[18]/tle.txt", "tlesD/2008/tle.txt"),
    ("D_two", "{W}/tles[D]/2*/t*.txt", "tlesD/2015/tle.txt"),
    ("M_dir", "{W}/tlesM/*.tle", "tlesM/b.tle"),
]
TLES_DIRS = {"tlesH": ["tle-1.txt", "tle-2.txt", ".tle-3.txt.part", ".tle-4.txt"],
             "tlesP": ["tle-1.txt", "tle-2.txt", "tle-3.txt", "tle-10.txt", ".tle-4.txt"],
             "tlesD": ["2021/tle.txt", "2008/tle.txt", "2015/tle.txt", ".staging/tle.txt"],
             "tlesM": ["a.tle", "b.tle"]}
TLES_KINDS = ["unset", "A", "B", "C", "nothing", "empty"] + [k for k, _, _ in TLES_MORE]
# PYORBITAL_CONFIG_PATH: (kind, value, does that directory hold a platforms.txt, working directory of the child below {W}).
# A relative value is a directory of the process like any other ("when that directory holds a platforms.txt").
CFG_SPECS = [
    ("unset", None, False, ""),
    ("withfile", "{W}/cfg_with", True, ""),
    ("without", "{W}/cfg_without", False, ""),
    ("missing", "{W}/cfg_no_such_dir", False, ""),       # the variable names a directory that does not exist
    ("rel_with", "cfg_with", True, ""),
    ("reldot_with", "./cfg_with", True, ""),
    ("relslash_with", "cfg_with/", True, ""),
    ("relup_with", "cfg_without/../cfg_with", True, ""),
    ("relnested_with", "conf/with", True, ""),
    ("absslash_with", "{W}/cfg_with/", True, ""),
    ("absup_with", "{W}/cfg_without/../cfg_with", True, ""),
    ("dot_with", ".", True, "cfg_with"),
    ("rel_without", "cfg_without", False, ""),
    ("relnested_without", "./conf/without/", False, ""),
    ("rel_missing", "cfg_no_such_dir", False, ""),
    ("dot_without", ".", False, ""),
    # the directory holds a platforms.txt whose CONTENT is at an edge of the file format: the registry is that file's content
    ("file_empty", "{W}/cfg_empty", True, ""),                 # zero bytes: a registry without platforms
    ("file_comment", "{W}/cfg_comment", True, ""),             # comment lines only
    ("file_blank", "cfg_blank", True, ""),                     # blank lines only
    ("file_nonl", "{W}/cfg_nonl", True, ""),                   # one entry, no newline at the end of the file
    ("file_crlf", "./cfg_crlf", True, ""),                     # CRLF line ends
]
# registry files of the kinds above; the expected registry is parse_registry_file of what is written here
REGISTRY_FILES = {"cfg_empty": "", "cfg_comment": "# platforms of this installation\n#NOAA-19 33591\n# (none yet)\n",
                  "cfg_blank": "\n\n   \n\t\n\n", "cfg_nonl": "NOAA-19 33591",
                  "cfg_crlf": "# custom registry\r\nNOAA-19 33591\r\nPVSAT 99001\r\n"}
# children of these kinds run a reduced product that does not need the platform's catalogue number (sources with name lines)
CFG_REDUCED = ["file_empty", "file_comment", "file_blank", "file_nonl", "file_crlf"]
REDUCED = {"lines_kinds": LINES_KINDS, "tf_kinds": ["none", "path", "stringio", "path_symlink", "path_missing", "stringio_without"],
           "tles_kinds": ["unset", "B", "nothing", "H_rel"], "extras": [("none", "none", "W"), ("l1", "path_empty", "Tie")]}
CFG_KINDS = [k for k, _, _, _ in CFG_SPECS]
CFG_HOLDS = {k: h for k, _, h, _ in CFG_SPECS}
# nodir: PPP_CONFIG_DIR is set to a directory that does not exist; rel: a relative spelling of the directory holding its own file
PPP_KINDS = [False, True, "nodir", "rel"]
CFG_CODE = {k: ("u" if v is None else "f" if h else "d") for k, v, h, _ in CFG_SPECS}   # the model's classes (no file = dirWithout)


def collection(l1, l2, with_platform=True):
    txt = "%s\n%s\n%s\n" % DECOY
    if with_platform:
        txt += "%s\n%s\n%s\n" % (PLATFORM, l1, l2)
    return txt


def xml_text(l1, l2):
    return "\n".join(('<?xml version="1.0" encoding="UTF-8"?>', "<multi-mission-administrative-message>", "<message>",
                      "<two-line-elements>", "<navigation>", "<line-1>" + l1 + "</line-1>", "<line-2>" + l2 + "</line-2>",
                      "</navigation>", "</two-line-elements>", "</message>", "</multi-mission-administrative-message>"))


def xml_without_navigation():
    """An announcement (manoeuvre, outage): a well-formed admin message that carries no element sets."""
    return "\n".join(('<?xml version="1.0" encoding="UTF-8"?>', "<multi-mission-administrative-message>", "<message>",
                      "<announcement>", "<text>out-of-plane manoeuvre planned; this message carries no elements</text>",
                      "</announcement>", "</message>", "</multi-mission-administrative-message>"))


def fbits(x):
    return int(struct.pack(">d", float(x)).hex(), 16)


def _create_in_order(paths_texts):
    """Create files in the given order so that getctime strictly increases; returns the ctimes."""
    for pause in (0.02, 0.06, 0.25, 1.1):
        for p, _ in paths_texts:
            if os.path.exists(p):
                os.unlink(p)
        time.sleep(pause)
        base = time.time() - 86400.0
        for i, (p, txt) in enumerate(paths_texts):
            with open(p, "w") as f:
                f.write(txt)
            # modification and access times run AGAINST the change times (as after `cp -p`, rsync -t, tar): setting them
            # is itself a status change, so the ctime stays "now" and keeps increasing in creation order
            os.utime(p, (base - 3600.0 * i, base - 3600.0 * i))
            time.sleep(pause)
        cts = [os.path.getctime(p) for p, _ in paths_texts]
        mts = [os.path.getmtime(p) for p, _ in paths_texts]
        if all(a < b for a, b in zip(cts, cts[1:])) and all(a > b for a, b in zip(mts, mts[1:])):
            return cts
    raise RuntimeError("file system does not give strictly increasing ctimes: %r" % (cts,))


def prepare(work):
    """All files of the experiment; returns the spec handed to the children."""
    spec = {"work": work, "platform": PLATFORM, "tags": {}, "tles": {}, "repo": lib.REPO}
    for k, n in TAGS.items():
        spec["tags"][k] = list(tagged(n))
    os.makedirs(os.path.join(work, "cfg_with"))
    os.makedirs(os.path.join(work, "cfg_without"))
    os.makedirs(os.path.join(work, "ppp"))
    os.makedirs(os.path.join(work, "conf", "with"))
    os.makedirs(os.path.join(work, "conf", "without"))
    for d in ("cfg_with", os.path.join("conf", "with")):
        with open(os.path.join(work, d, "platforms.txt"), "w") as f:
            f.write("# custom registry\nNOAA-19 33591\nPVSAT 99001\n")
    with open(os.path.join(work, "ppp", "platforms.txt"), "w") as f:
        f.write("NOAA-19 33591\nPPPSAT 99002\n")
    with open(os.path.join(work, "cfg_without", "other.cfg"), "w") as f:      # the directory is in use, for something else
        f.write("[section]\nkey = value\n")
    for d, text in sorted(REGISTRY_FILES.items()):
        os.makedirs(os.path.join(work, d))
        with open(os.path.join(work, d, "platforms.txt"), "w", newline="") as f:
            f.write(text)
        if os.path.getsize(os.path.join(work, d, "platforms.txt")) != len(text.encode()):
            raise RuntimeError("C16 harness: registry file %s was not written byte for byte" % d)
    spec["cfg"] = {"withfile": os.path.join(work, "cfg_with"), "without": os.path.join(work, "cfg_without"),
                   "missing": os.path.join(work, "cfg_no_such_dir"),
                   "ppp": os.path.join(work, "ppp"), "ppp_nodir": os.path.join(work, "ppp_no_such_dir")}
    # every spelling of PYORBITAL_CONFIG_PATH with the working directory it is used from
    spec["cfg_env"] = {}
    for kind, value, holds, cwd in CFG_SPECS:
        v = None if value is None else value.replace("{W}", work)
        spec["cfg_env"][kind] = {"value": v, "cwd": os.path.join(work, cwd) if cwd else work, "holds": holds,
                                 "spelled": value, "cwd_spelled": "{W}/" + cwd if cwd else "{W}"}
        if v is not None and os.path.isfile(os.path.join(spec["cfg_env"][kind]["cwd"], v, "platforms.txt")) != holds:
            raise RuntimeError("C16 harness: PYORBITAL_CONFIG_PATH kind %s is not what its table line says" % kind)
        if holds:   # "the registry comes from PYORBITAL_CONFIG_PATH": the content of THAT file
            spec["cfg_env"][kind]["registry"] = parse_registry_file(os.path.join(spec["cfg_env"][kind]["cwd"], v, "platforms.txt"))
    p = os.path.join(work, "given.tle")
    with open(p, "w") as f:
        f.write(collection(*tagged(TAGS["P"])))
    spec["path"] = p
    p0 = os.path.join(work, "given_without_platform.tle")
    with open(p0, "w") as f:
        f.write(collection("", "", with_platform=False))
    spec["path_without"] = p0
    x = os.path.join(work, "20210420_NOAA-19_ADMIN_MESSAGE_NO_127.xml")
    with open(x, "w") as f:
        f.write(xml_text(*tagged(TAGS["X"])))
    spec["xml"] = x
    # given sources that yield nothing
    spec["given"] = {"path": p, "path_without": p0, "xml": x}
    xn = os.path.join(work, "20210421_NOAA-19_ADMIN_MESSAGE_NO_128.xml")
    with open(xn, "w") as f:
        f.write(xml_without_navigation())
    spec["given"]["xml_nonav"] = xn
    xo = os.path.join(work, "20210422_METOP-B_ADMIN_MESSAGE_NO_129.xml")
    with open(xo, "w") as f:
        f.write(xml_text(OTHER[1], OTHER[2]))
    spec["given"]["xml_without"] = xo
    pe = os.path.join(work, "given_empty.tle")
    open(pe, "w").close()
    spec["given"]["path_empty"] = pe
    pn = os.path.join(work, "given_name_only.tle")
    with open(pn, "w") as f:
        f.write(PLATFORM + "\n")
    spec["given"]["path_nameonly"] = pn
    # given paths that are not regular files
    os.makedirs(os.path.join(work, "targets"))
    with open(os.path.join(work, "targets", "linked.tle"), "w") as f:
        f.write(collection(*tagged(TAGS["K"])))
    os.symlink(os.path.join("targets", "linked.tle"), os.path.join(work, "given_link.tle"))       # relative to the link
    spec["given"]["path_symlink"] = os.path.join(work, "given_link.tle")
    os.symlink(os.path.join("targets", "removed.tle"), os.path.join(work, "given_dangling.tle"))
    spec["given"]["path_dangling"] = os.path.join(work, "given_dangling.tle")
    spec["given"]["path_missing"] = os.path.join(work, "no_such_dir", "given_missing.tle")
    for k, regular, exists in (("path_symlink", True, True), ("path_dangling", False, False), ("path_missing", False, False)):
        g = spec["given"][k]
        if os.path.isfile(g) != regular or os.path.exists(g) != exists or (k != "path_missing") != os.path.islink(g):
            raise RuntimeError("C16 harness: given path kind %s is not what its name says" % k)
    # the named pipe is made by each child for itself (children run side by side); what its writer sends:
    spec["fifo_text"] = collection(*tagged(TAGS["F"]))
    spec["stringio"] = {"stringio": collection(*tagged(TAGS["S"])), "stringio_without": collection("", "", with_platform=False),
                        "stringio_empty": ""}
    spec["stringio_text"] = collection(*tagged(TAGS["S"]))
    spec["stringio_without"] = collection("", "", with_platform=False)
    spec["net_text"] = collection(*tagged(TAGS["N"]))
    num = 200
    for d, order in sorted(ORDERS.items()):
        dd = os.path.join(work, "tles" + d)
        os.makedirs(dd)
        items = []
        for name in order:
            num += 1
            spec["tags"]["T%s%s" % (d, name)] = list(tagged(num))
            items.append((os.path.join(dd, name + ".tle"), collection(*tagged(num))))
        cts = _create_in_order(items)
        spec["tles"][d] = {"pattern": os.path.join(dd, "*.tle"),
                           "files": {os.path.basename(p)[0]: {"path": p, "ctime_bits": fbits(ct), "tag": "T%s%s" % (d, os.path.basename(p)[0])}
                                     for (p, _), ct in zip(items, cts)},
                           "created": order}
    # newest file does not hold the platform, an older one does
    dd = os.path.join(work, "tlesW")
    os.makedirs(dd)
    spec["tags"]["TWold"] = list(tagged(291))
    items = [(os.path.join(dd, "old.tle"), collection(*tagged(291))), (os.path.join(dd, "new.tle"), collection("", "", False))]
    _create_in_order(items)
    spec["tles"]["W"] = {"pattern": os.path.join(dd, "*.tle")}
    # equal ctimes: two names of one inode (newest), one older file
    dd = os.path.join(work, "tlesTie")
    os.makedirs(dd)
    spec["tags"]["TTie"] = list(tagged(292))
    spec["tags"]["TTieOld"] = list(tagged(293))
    _create_in_order([(os.path.join(dd, "m.tle"), collection(*tagged(293))), (os.path.join(dd, "k.tle"), collection(*tagged(292)))])
    os.link(os.path.join(dd, "k.tle"), os.path.join(dd, "z.tle"))
    os.link(os.path.join(dd, "k.tle"), os.path.join(dd, "b.tle"))
    spec["tles"]["Tie"] = {"pattern": os.path.join(dd, "*.tle")}
    spec["tles"]["nothing"] = {"pattern": os.path.join(work, "no_such_dir", "*.tle")}
    # hidden files, ?, [...] and wildcard directories; a directory among the matches (TLES_MORE)
    num = 300
    tag_at = {}
    os.makedirs(os.path.join(work, "tlesM", "archive.tle"))       # a directory that `*.tle` matches, older than the files
    with open(os.path.join(work, "tlesM", "archive.tle", "old.tle"), "w") as f:
        f.write(collection(*tagged(299)))
    spec["tags"]["TM/archive.tle/old.tle"] = list(tagged(299))
    for d, names in sorted(TLES_DIRS.items()):
        items = []
        for name in names:
            num += 1
            tag = "T%s/%s" % (d[4:], name)
            spec["tags"][tag] = list(tagged(num))
            tag_at["%s/%s" % (d, name)] = tag
            os.makedirs(os.path.dirname(os.path.join(work, d, name)), exist_ok=True)
            items.append((os.path.join(work, d, name), collection(*tagged(num))))
        _create_in_order(items)
    for d in "ABC":
        tag_at[d] = spec["tles"][d]["files"][ORDERS[d][-1]]["tag"]
    for kind, pattern, want in TLES_MORE:
        rel = "{W}" not in pattern
        pat = pattern.replace("{W}", work)
        # the table's expectation IS glob.glob's answer (checked here, with the library itself, from the directory the
        # relative spellings are relative to)
        matches = _glob.glob(pat, root_dir=work) if rel else _glob.glob(pat)
        if want is None:
            if matches:
                raise RuntimeError("C16 harness: TLES kind %s should match nothing, matches %r" % (kind, matches))
        else:
            full = [os.path.normpath(os.path.join(work, m)) for m in matches]
            cts = [os.path.getctime(m) for m in full]
            newest = [m for m, ct in zip(full, cts) if ct == max(cts)]
            want_path = os.path.join(work, want) if "/" in want else spec["tles"][want]["files"][ORDERS[want][-1]]["path"]
            if newest != [os.path.normpath(want_path)] or len(full) < 2 and kind != "P_one":
                raise RuntimeError("C16 harness: TLES kind %s: newest match %r, table says %r" % (kind, newest, want_path))
        spec["tles"][kind] = {"pattern": pat, "rel": rel, "expect": tag_at[want] if want else None, "spelled": pattern}
    for info in spec["tles"].values():
        info.setdefault("spelled", info["pattern"].replace(work, "{W}"))
    return spec


# ------------------------------------------------------------------ child: runs inside a fresh interpreter
class _PipeFeeder(object):
    """Writer side of a named pipe: while armed, it waits for a reader to open the pipe, sends the text once and closes
    (what `producer > pipe` does).  It never blocks itself (non-blocking open, retried), so a call that does not open the
    pipe at all leaves nothing hanging; should the pipe be opened again more than two seconds after it was served, it is
    served again rather than left to block for ever."""

    def __init__(self, path, data):
        import threading
        self.path, self.data = path, data
        self.armed = threading.Event()
        self.quit = False
        self.idle = threading.Event()
        self.idle.set()
        self.served = 0
        self.thread = threading.Thread(target=self._run, daemon=True)
        self.thread.start()

    def _run(self):
        while not self.quit:
            if not self.armed.wait(0.2):
                continue
            self.idle.clear()
            last = None
            while self.armed.is_set() and not self.quit:
                if last is not None and time.monotonic() - last < 2.0:
                    time.sleep(0.001)
                    continue
                try:
                    fd = os.open(self.path, os.O_WRONLY | os.O_NONBLOCK)
                except OSError:          # ENXIO: nobody has the pipe open for reading (yet)
                    time.sleep(0.0003)
                    continue
                try:
                    os.write(fd, self.data)
                except OSError:          # the reader went away before the text was sent
                    pass
                finally:
                    os.close(fd)
                self.served += 1
                last = time.monotonic()
            self.idle.set()

    def arm(self):
        self.idle.wait()
        self.served = 0
        self.armed.set()

    def disarm(self):
        self.armed.clear()
        self.idle.wait()
        return self.served


def child_main(spec_path, cfg_kind=None):
    spec = json.load(open(spec_path))
    if cfg_kind in spec.get("cfg_reduced", []):
        spec.update(spec["reduced"])
    repo = spec["repo"]
    while repo in sys.path:
        sys.path.remove(repo)
    sys.path.insert(0, repo)
    import glob as _glob
    import socket
    import urllib.request
    import requests
    # everything up to here is the harness's own; from here on a failure belongs to the code under test: the registry is
    # built when pyorbital.tlefile is imported, so an import that fails in this environment means no registry at all
    sys.stdout.write("\n@@C16-STAGE@@import\n")
    sys.stdout.flush()
    try:
        from pyorbital import tlefile
        satellites = dict(tlefile.SATELLITES)
    except BaseException as e:  # noqa
        import traceback
        tb = traceback.extract_tb(e.__traceback__)
        where = "%s:%d %s" % (os.path.basename(tb[-1].filename), tb[-1].lineno, tb[-1].name) if tb else ""
        out = {"import_error": "%s: %s" % (type(e).__name__, str(e)[:300]), "import_error_at": where, "cases": [], "extras": []}
        sys.stdout.write("\n@@C16@@" + json.dumps(out) + "\n")
        sys.stdout.flush()
        return
    sys.stdout.write("\n@@C16-STAGE@@imported\n")
    sys.stdout.flush()
    try:
        from pyorbital.orbital import Orbital
        orbital_import_error = None
    except Exception as e:  # noqa   (reported by every cell that goes through Orbital)
        Orbital, orbital_import_error = None, e

    def attempt(f):
        try:
            return f()
        except Exception as e:  # noqa
            return "raised %s: %s" % (type(e).__name__, str(e)[:200])

    out = {"module_file": tlefile.__file__, "satellites": satellites,
           "platforms_filepath": attempt(tlefile.get_platforms_filepath), "config_path": attempt(tlefile._get_config_path),
           "pkg_config_dir": tlefile.PKG_CONFIG_DIR, "cases": []}
    net = {"n": 0, "urls": []}

    def fake_urlopen(url, *a, **k):
        net["n"] += 1
        net["urls"].append(str(url))
        return io.BytesIO(spec["net_text"].encode("utf-8"))

    def refuse(*a, **k):
        net["n"] += 1
        raise OSError("network interposed by the C16 check")

    tlefile.urlopen = fake_urlopen
    urllib.request.urlopen = fake_urlopen
    requests.get = refuse
    requests.post = refuse
    requests.Session.request = refuse
    socket.socket.connect = refuse
    socket.create_connection = refuse

    real_guo = tlefile._get_uris_and_open_func
    rec = {}

    def recording_guo(*a, **k):
        rec["called"] = True
        try:
            uris, open_func = real_guo(*a, **k)
        except Exception as e:  # noqa
            rec["raised"] = type(e).__name__
            raise
        rec["uris"] = uris
        rec["open"] = open_func
        return uris, open_func

    tlefile._get_uris_and_open_func = recording_guo
    tag_of = {tuple(v): k for k, v in spec["tags"].items()}
    L1, L2 = spec["tags"]["L"]
    up_to_work = os.path.relpath(os.path.realpath(spec["work"]), os.path.realpath(os.getcwd()))
    up_to_work = "" if up_to_work == "." else up_to_work

    # this child's own named pipe (children run side by side) and its writer
    pipe_dir = tempfile.mkdtemp(prefix="pipe-", dir=spec["work"])
    pipe_path = os.path.join(pipe_dir, "given_pipe.tle")
    os.mkfifo(pipe_path)
    spec["given"]["path_fifo"] = pipe_path
    out["given_override"] = {"path_fifo": pipe_path}
    feeder = _PipeFeeder(pipe_path, spec["fifo_text"].encode("utf-8"))
    platform = spec["platform"]

    def call(entry, kw):
        """One public entry point with the cell's arguments, keyword or positional spelling -> the Tle it holds."""
        pos = (platform, kw.get("tle_file"), kw.get("line1"), kw.get("line2"))
        if entry == "Tle_kw":
            return tlefile.Tle(platform, **kw)
        if entry == "Tle_pos":
            return tlefile.Tle(*pos)
        if entry == "read_kw":
            return tlefile.read(platform, **kw)
        if entry == "read_pos":
            return tlefile.read(*pos)
        if Orbital is None:
            raise orbital_import_error
        if entry == "Orbital_kw":
            return Orbital(platform, **kw).tle
        if entry == "Orbital_pos":
            return Orbital(*pos).tle
        raise RuntimeError("unknown entry point %r" % (entry,))

    def run_entry(entry, lines, tf_kind, globbed):
        kw = {}
        if lines in ("both", "l1"):
            kw["line1"] = L1
        if lines in ("both", "l2"):
            kw["line2"] = L2
        given = None
        if tf_kind in spec["given"]:
            given = spec["given"][tf_kind]
        elif tf_kind in spec["stringio"]:
            given = io.StringIO(spec["stringio"][tf_kind])       # a fresh stream for every call
        elif tf_kind == "empty":
            given = ""
        elif tf_kind != "none":
            raise RuntimeError("unknown tle_file kind %r" % (tf_kind,))
        if tf_kind != "none":
            kw["tle_file"] = given
        rec.clear()
        net["n"] = 0
        net["urls"] = []
        res = {}
        if tf_kind == "path_fifo":
            feeder.arm()
        try:
            t = call(entry, kw)
            res["tag"] = tag_of.get((t.line1, t.line2), "?%s|%s" % (t.line1, t.line2))
        except Exception as e:  # noqa  (StopIteration of a truncated entry included)
            res["exc"] = type(e).__name__
            res["msg"] = str(e)[:120]
        finally:
            if tf_kind == "path_fifo":
                feeder.disarm()
        # which source did _get_uris_and_open_func select
        if not rec.get("called"):
            src = "lines" if "tag" in res else "not-called"
        elif "raised" in rec:
            src = "error:" + rec["raised"]
        else:
            uris, of = rec["uris"], rec["open"]
            ofn = getattr(of, "__name__", repr(of))
            if of is fake_urlopen and list(uris) == list(tlefile.TLE_URLS):
                src = "network"
            elif ofn == "_dummy_open_stringio" and len(uris) == 1 and uris[0] is given and isinstance(given, io.StringIO):
                src = "stream"
            elif ofn == "_dummy_open_stringio" and len(uris) == 1 and isinstance(uris[0], io.StringIO):
                src = "xml:" + str(given)
            elif ofn == "_open" and len(uris) == 1 and isinstance(given, str) and given and uris[0] == given:
                src = "path:" + given
            elif ofn == "_open" and len(uris) == 1 and uris[0] in [g[0] for g in globbed]:
                src = "newest:" + uris[0]
            else:
                src = "other:%s:%r" % (ofn, [u if isinstance(u, str) else type(u).__name__ for u in uris][:3])
        return {"res": res, "net": net["n"], "src": src}

    def run_case(lines, tf_kind, tles_kind):
        os.environ.pop("TLES", None)
        globbed = []
        if tles_kind == "empty":
            os.environ["TLES"] = ""
        elif tles_kind != "unset":
            pat = spec["tles"][tles_kind]["pattern"]
            if spec["tles"][tles_kind].get("rel") and up_to_work:
                pat = os.path.join(up_to_work, pat)       # relative to THIS working directory
            os.environ["TLES"] = pat
            globbed = [[p, fbits(os.path.getctime(p))] for p in _glob.glob(os.environ["TLES"])]
        # the first entry point (the constructor, keyword spelling) is the one tied to the model; the others are recorded
        # in full where they differ from it in anything (result, number of requests, selected source)
        first = run_entry(spec["entry_points"][0], lines, tf_kind, globbed)
        same, differ = [], {}
        for entry in spec["entry_points"][1:]:
            r = run_entry(entry, lines, tf_kind, globbed)
            if r == first:
                same.append(entry)
            else:
                differ[entry] = r
        os.environ.pop("TLES", None)
        return dict(first, lines=lines, tf=tf_kind, tles=tles_kind, glob=globbed, entry=spec["entry_points"][0],
                    same=same, differ=differ)

    for lines in spec["lines_kinds"]:
        for tf in spec["tf_kinds"]:
            for tl in spec["tles_kinds"]:
                out["cases"].append(run_case(lines, tf, tl))
    out["extras"] = [run_case(lines, tf, tl) for (lines, tf, tl) in spec["extras"]]
    feeder.quit = True
    shutil.rmtree(pipe_dir, ignore_errors=True)
    sys.stdout.write("\n@@C16@@" + json.dumps(out) + "\n")


# ------------------------------------------------------------------ parent
EXTRAS = [("none", "none", "W"), ("l1", "none", "W"), ("none", "empty", "W"), ("none", "none", "Tie"), ("l2", "empty", "Tie"),
          ("none", "xml_nonav", "W"), ("l1", "path_empty", "Tie"), ("l2", "stringio_empty", "W"), ("none", "path_nameonly", "Tie")]


def parse_registry_file(path, upper=True):
    """platforms.txt -> dict, written from the file format's description (name ... number per line, # comments)."""
    d = {}
    for row in open(path):
        if row.startswith("#"):
            continue
        parts = row.split()
        if len(parts) < 2:
            continue
        d[" ".join(parts[:-1]).upper()] = parts[-1]
    return d


def observe(ctx):
    if getattr(ctx, "_c16_obs", None) is not None:
        return ctx._c16_obs
    work = tempfile.mkdtemp(prefix="pv-c16-")
    try:
        spec = prepare(work)
        spec["lines_kinds"], spec["tf_kinds"], spec["tles_kinds"], spec["extras"] = LINES_KINDS, TF_KINDS, TLES_KINDS, EXTRAS
        spec["entry_points"], spec["cfg_reduced"], spec["reduced"] = ENTRY_POINTS, CFG_REDUCED, REDUCED
        spec_path = os.path.join(work, "spec.json")
        json.dump(spec, open(spec_path, "w"))
        jobs = []
        for cfg in CFG_KINDS:
            for ppp in PPP_KINDS:
                env = dict(os.environ)
                for k in ("TLES", "PYORBITAL_CONFIG_PATH", "PPP_CONFIG_DIR"):
                    env.pop(k, None)
                cenv = spec["cfg_env"][cfg]
                if cenv["value"] is not None:
                    env["PYORBITAL_CONFIG_PATH"] = cenv["value"]
                if ppp == "rel":
                    env["PPP_CONFIG_DIR"] = os.path.join(os.path.relpath(work, cenv["cwd"]), "ppp") if cenv["cwd"] != work else "./ppp/"
                elif ppp:
                    env["PPP_CONFIG_DIR"] = spec["cfg"]["ppp_nodir" if ppp == "nodir" else "ppp"]
                env["PV_REPO"] = lib.REPO
                # 84 fresh interpreters import numpy/scipy/pyorbital: let them share compiled byte code, kept inside the
                # experiment's directory (nothing is written next to the sources, /repo included)
                env.pop("PYTHONDONTWRITEBYTECODE", None)
                env["PYTHONPYCACHEPREFIX"] = os.path.join(work, "pycache")
                # numpy's thread pools (one spinning thread per core, started at import) are of no use to 84 interpreters
                # that run side by side and never multiply a matrix
                for k in ("OPENBLAS_NUM_THREADS", "OMP_NUM_THREADS", "MKL_NUM_THREADS"):
                    env.setdefault(k, "1")
                jobs.append((cfg, ppp, env, cenv["cwd"]))

        def run_child(job):
            cfg, ppp, env, cwd = job
            p = subprocess.run([sys.executable, os.path.abspath(__file__), "--child", spec_path, cfg], env=env,
                               stdout=subprocess.PIPE, stderr=subprocess.PIPE, cwd=cwd, timeout=600)
            return p.returncode, p.stdout, p.stderr

        from concurrent.futures import ThreadPoolExecutor
        with ThreadPoolExecutor(max_workers=max(2, min(12, (os.cpu_count() or 4) - 2))) as pool:
            results = list(pool.map(run_child, jobs))
        obs = {"spec": spec, "children": []}
        for (cfg, ppp, env, cwd), (returncode, so, se) in zip(jobs, results):
            so = so.decode(errors="replace")
            if "@@C16@@" in so and returncode == 0:
                data = json.loads(so.split("@@C16@@", 1)[1].strip().split("\n")[0])
            elif "@@C16-STAGE@@import\n" in so and "@@C16-STAGE@@imported" not in so:
                # the interpreter itself went down while importing the code under test (exit, abort): same meaning as an
                # exception there
                tail = [l for l in se.decode(errors="replace").strip().split("\n") if l.strip()][-1:]
                data = {"import_error": "interpreter exited with status %s during the import%s" % (
                    returncode, (": " + tail[0][:300]) if tail else ""), "import_error_at": "", "cases": [], "extras": []}
            else:
                raise RuntimeError("child (%s, ppp=%s) failed rc=%s: %s" % (cfg, ppp, returncode, se.decode(errors="replace")[-800:]))
            obs["children"].append({"cfg": cfg, "ppp": ppp, "data": data,
                                    "env": {"PYORBITAL_CONFIG_PATH": spec["cfg_env"][cfg]["spelled"],
                                            "PPP_CONFIG_DIR": (env.get("PPP_CONFIG_DIR") or "").replace(work, "{W}") or None,
                                            "cwd": spec["cfg_env"][cfg]["cwd_spelled"]}})
        pkg_dirs = [c["data"]["pkg_config_dir"] for c in obs["children"] if "pkg_config_dir" in c["data"]]
        # (as tlefile.PKG_CONFIG_DIR is defined, should no child have been able to import the module)
        pkg_dir = pkg_dirs[0] if pkg_dirs else os.path.join(os.path.realpath(os.path.join(lib.REPO, "pyorbital")), "etc")
        obs["packaged"] = parse_registry_file(os.path.join(pkg_dir, "platforms.txt"))
        obs["custom"] = parse_registry_file(os.path.join(spec["cfg"]["withfile"], "platforms.txt"))
        obs["pppreg"] = parse_registry_file(os.path.join(spec["cfg"]["ppp"], "platforms.txt"))
    finally:
        shutil.rmtree(work, ignore_errors=True)
    ctx._c16_obs = obs
    return obs


def registry_observed(obs, data, cfg=None):
    """Which registry the fresh interpreter loaded; `custom` is the content of the platforms.txt in the directory that
    PYORBITAL_CONFIG_PATH names in this child's environment."""
    if "import_error" in data:
        return "unavailable"
    sat = data["satellites"]
    custom = obs["spec"]["cfg_env"].get(cfg, {}).get("registry", obs["custom"])
    if sat == custom:
        return "custom"
    if sat == obs["packaged"]:
        return "packaged"
    if sat == obs["pppreg"]:
        return "ppp"
    return "other(%d entries)" % len(sat)


def encode_case(spec, case, cfg, ppp, given=None):
    """Driver line for the model."""
    given = given or spec["given"]
    l1 = "1" if case["lines"] in ("both", "l1") else "0"
    l2 = "1" if case["lines"] in ("both", "l2") else "0"
    if case["tf"] in ("none", "empty"):
        tf = case["tf"][0]
    elif case["tf"] in spec["stringio"]:
        tf = "s"
    else:
        tf = ("x:" if case["tf"].startswith("xml") else "p:") + lib.s2h(given[case["tf"]])
    if case["tles"] == "unset":
        tl = "u"
    elif case["tles"] == "empty":
        tl = "e"
    elif not case["glob"]:
        tl = "g"
    else:
        tl = "g:" + ",".join("%s=%d" % (lib.s2h(p), ct) for p, ct in case["glob"])
    return "c16 %s %s %s %s %s %s" % (l1, l2, tf, tl, CFG_CODE[cfg], "1" if ppp else "0")


def model_to_obs(tok):
    """Model's source token -> the child's vocabulary."""
    if ":" in tok:
        k, h = tok.split(":", 1)
        return k + ":" + lib.h2s(h)
    return tok


def correspond(ctx):
    """Model's choice (choose, registryFrom) vs the URIs/open function the code selects and the registry it loads."""
    obs = observe(ctx)
    spec = obs["spec"]
    lines, meta = [], []
    for ch in obs["children"]:
        if "import_error" in ch["data"]:
            # no source could be chosen in this interpreter; the model's registry for the environment is still compared
            lines.append("c16 0 0 n u %s %s" % (CFG_CODE[ch["cfg"]], "1" if ch["ppp"] else "0"))
            meta.append((ch, None, "import"))
            continue
        for kind in ("cases", "extras"):
            for case in ch["data"][kind]:
                lines.append(encode_case(spec, case, ch["cfg"], ch["ppp"], dict(spec["given"], **ch["data"].get("given_override", {}))))
                meta.append((ch, case, kind))
    outs = ctx.driver().run(lines)
    for line, (ch, case, kind), o in zip(lines, meta, outs):
        msrc, mreg = o.split(" ")
        if case is None:
            ctx.count("eval_corr")
            ctx.disagree("c16-registry", {"config_path": ch["cfg"], "ppp": ch["ppp"], "driver": line},
                         "unavailable (%s)" % ch["data"]["import_error"], mreg)
            continue
        msrc = model_to_obs(msrc)
        got = case["src"]
        if got.startswith("error:"):
            got = "error" if got == "error:ValueError" else got
        ctx.count("eval_corr")
        ctx.bump("model_source", msrc.split(":")[0])
        key = {"lines": case["lines"], "tle_file": case["tf"], "TLES": case["tles"], "config_path": ch["cfg"], "ppp": ch["ppp"]}
        if got != msrc:
            ctx.disagree("c16", dict(key, driver=line), got, msrc)
        greg = registry_observed(obs, ch["data"], ch["cfg"])
        if greg != mreg:
            ctx.disagree("c16-registry", dict(key, driver=line), greg, mreg)
        if len(ctx.samples) < 6 and case["tles"] in ("B", "C") and case["lines"] != "both" and case["tf"] in ("none", "empty"):
            ctx.sample(dict(key, chosen=got, registry=greg))
    ctx.exhaustive = True


def newest_by_statement(spec, case):
    """'the newest (by change time) file matching the TLES pattern', from the glob the child saw."""
    best = max(ct for _, ct in case["glob"])
    return [p for p, ct in case["glob"] if ct == best]


def expected(spec, case):
    """The statement's precedence -> (set of acceptable tags | None for 'must fail', network allowed?)."""
    tagpath = {}
    for d, info in spec["tles"].items():
        for f in info.get("files", {}).values():
            tagpath[f["path"]] = f["tag"]
    if case["lines"] == "both":
        return {"L"}, False
    if case["tf"] in TF_TAG:
        # a path (regular file, named pipe, symbolic link to a file), a stream, an admin message: that source and no other
        return {TF_TAG[case["tf"]]}, False
    if case["tf"] in TF_NOTHING:
        return None, False
    if case["tf"] == "empty":
        return "skip", False
    if case["tles"] in ("A", "B", "C"):
        return {tagpath[p] for p in newest_by_statement(spec, case)}, False
    if "expect" in spec["tles"].get(case["tles"], {}):
        # relative / dotted / `..` spellings, hidden files, ?, [...], wildcard directories, a directory among the matches:
        # the newest file that glob.glob finds for the pattern (verified by prepare()), or nothing
        want = spec["tles"][case["tles"]]["expect"]
        return ({want} if want else None), False
    if case["tles"] == "Tie":
        return {"TTie"}, False
    if case["tles"] in ("nothing", "W"):
        return None, False
    if case["tles"] == "empty":
        return "skip", False
    return {"N"}, True


def entries_of(case):
    """[(entry point, {res, net, src})] of one cell (the child records in full only what differs from the first entry point)."""
    first = {"res": case["res"], "net": case["net"], "src": case["src"]}
    out = [(case.get("entry", ENTRY_POINTS[0]), first)]
    for e in case.get("same", []):
        out.append((e, first))
    for e, r in sorted(case.get("differ", {}).items()):
        out.append((e, r))
    return out


def judge(ctx, obs, ch, case, only_entry=None):
    spec = obs["spec"]
    exp, net_ok = expected(spec, case)
    ctx.distinct((case["lines"], case["tf"], case["tles"], ch["cfg"], ch["ppp"]))
    bad = 0
    for entry, got in entries_of(case):
        if only_entry is not None and entry != only_entry:
            continue
        bad |= judge_entry(ctx, spec, ch, case, entry, got, exp, net_ok)
    return bad


def judge_entry(ctx, spec, ch, case, entry, got, exp, net_ok):
    key = {"lines": case["lines"], "tle_file": case["tf"], "TLES": case["tles"], "config_path": ch["cfg"], "ppp": ch["ppp"],
           "entry": entry,
           "spelled": dict(ch.get("env", {}), TLES=spec["tles"].get(case["tles"], {}).get("spelled"))}
    ctx.count("eval_oracle")
    if exp == "skip":
        return 0
    bad = 0
    res = got["res"]
    site = "_get_uris_and_open_func" if entry.startswith("Tle") else "tlefile.read" if entry.startswith("read") else "Orbital.__init__"
    if not net_ok and got["net"] != 0:
        ctx.violation("network_used_with_local_source", key, "%d network request(s); result %s" % (got["net"], res),
                      "no network request", site=site)
        bad = 1
    if exp is None:
        if "tag" in res:
            ctx.violation("local_yields_nothing_but_elements_returned", key, "elements from %s" % res["tag"],
                          "an error and no download", site="Tle._read_tle" if entry.startswith("Tle") else site)
            bad = 1
    else:
        if res.get("tag") not in exp:
            ctx.violation("wrong_source", key, res.get("tag") or "%s: %s" % (res.get("exc"), res.get("msg")),
                          "elements from " + "/".join(sorted(exp)), site=site)
            bad = 1
        if net_ok and got["net"] == 0:
            ctx.violation("no_download", key, "no request", "download", site=site)
            bad = 1
    return bad


def judge_registry(ctx, obs, ch):
    want = "custom" if CFG_HOLDS[ch["cfg"]] else "packaged"
    got = registry_observed(obs, ch["data"], ch["cfg"])
    ctx.count("eval_oracle_registry")
    if got == "unavailable":
        ctx.violation("registry_unavailable", {"config_path": ch["cfg"], "ppp": ch["ppp"], "spelled": ch.get("env")},
                      "in a fresh interpreter `import pyorbital.tlefile` fails with %s%s" % (
                          ch["data"]["import_error"], (" (" + ch["data"]["import_error_at"] + ")") if ch["data"].get("import_error_at") else ""),
                      "the %s registry" % want, site="get_platforms_filepath")
        return 1
    if got != want:
        ctx.violation("wrong_registry", {"config_path": ch["cfg"], "ppp": ch["ppp"], "spelled": ch.get("env")},
                      "%s (file %s)" % (got, ch["data"]["platforms_filepath"]), want, site="get_platforms_filepath")
        return 1
    return 0


def oracle(ctx):
    """The property on the implementation, from the statement alone."""
    obs = observe(ctx)
    for ch in obs["children"]:
        judge_registry(ctx, obs, ch)
        for kind in ("cases", "extras"):
            for case in ch["data"][kind]:
                judge(ctx, obs, ch, case)
                ctx.bump("observed", case["res"].get("tag") or case["res"].get("exc"))
    ctx.exhaustive = True
    ctx.note("ctime orders verified strictly increasing at creation; children: %d" % len(obs["children"]))


def match_known(entry, v):
    m = entry.get("match", {})
    return bool(m) and m.get("kind") == v.get("kind") and all(v.get("case", {}).get(k) == val for k, val in m.get("case", {}).items())


def replay(ctx, case):
    """Re-run the whole (small) product and report the recorded configuration."""
    inp = case.get("input", case)
    obs = observe(ctx)
    rc = 0
    for ch in obs["children"]:
        if "lines" not in inp:
            if ch["cfg"] == inp.get("config_path") and ch["ppp"] == inp.get("ppp"):
                rc |= judge_registry(ctx, obs, ch)
                print("environment:", json.dumps({"PYORBITAL_CONFIG_PATH": ch["cfg"], "PPP_CONFIG_DIR": ch["ppp"],
                                                  "spelled": ch.get("env")}))
                print("registry:", registry_observed(obs, ch["data"], ch["cfg"]),
                      ch["data"].get("platforms_filepath") or ch["data"].get("import_error"))
            continue
        if ch["cfg"] != inp.get("config_path") or ch["ppp"] != inp.get("ppp"):
            continue
        if "import_error" in ch["data"]:       # nothing can be read in this environment at all
            rc |= judge_registry(ctx, obs, ch)
        for kind in ("cases", "extras"):
            for c in ch["data"][kind]:
                if (c["lines"], c["tf"], c["tles"]) == (inp["lines"], inp["tle_file"], inp["TLES"]):
                    print("configuration:", json.dumps(inp))
                    for entry, g in entries_of(c):
                        if inp.get("entry") in (None, entry):
                            print("observed (%s): result=%s network_requests=%d selected=%s" % (entry, g["res"], g["net"], g["src"]))
                    print("statement requires:", expected(obs["spec"], c))
                    rc |= judge(ctx, obs, ch, c, only_entry=inp.get("entry"))
    for v in ctx.violations[:5]:
        print("VIOLATES:", v["kind"], "observed:", v["observed"], "required:", v["required"])
    return 1 if rc else 0


if __name__ == "__main__":
    if len(sys.argv) == 3 and sys.argv[1] == "--child":
        child_main(sys.argv[2])
    elif len(sys.argv) == 4 and sys.argv[1] == "--child":
        child_main(sys.argv[2], sys.argv[3])
