"""C19 — instrument scan definitions are well-formed, symmetric and subset-consistent."""
import datetime as dt
import math
import os

import numpy as np

import lib
from props.c03 import DST_ZONES, process_zone, zone_switches   # switch instants of the process time zone (tm_gmtoff scan)

ID = "C19"
LEAN_TARGETS = ["PV.Props.C19"]
# T-C tie: the arrays handed to ScanGeometry(...) by every instrument definition, traced from the current source on
# symbolic scan positions, are the model's per-point formulas / line structure for all real positions (PV.Equiv.Instr)
import symtrace_instr  # noqa: E402
EQUIV = dict(symtrace_instr.EQUIV_INSTR)
RULE = ("every definition function (avhrr, avhrr_gac [int and datetime-list scan_times], avhrr_all/edge/40_geom, viirs, "
        "viirs_edge_geom, amsua, mhs, hirs4, atms, mwhs2, ascat, olci, slstr_nadir) x scan-line counts {1,2,3,7,50} "
        "(1..50 in thorough / intensified) x selections {default None, explicit full set, edges, slices, sorted and "
        "unsorted random subsets, single point, empty; VIIRS: scan_indices slices (also negative step) and lists with "
        "negative indices}; full-width VIIRS only for 1-2 scans (3 in thorough). correspondence: fovs (both rows, every "
        "line) at 1e-12 relative and times(start) as integer ns, exactly, against the Float reading of the Lean model; "
        "oracle: every clause of the statement on the implementation alone; "
        "avhrr_gac with a LIST of line time stamps (correspondence and oracle): stamps on the 0.5 s scan grid, consecutive "
        "(2-50 lines; the geometry must be the one of the count form: all timing clauses, columns of the full geometry) and "
        "with gaps of 1 scan .. 2.8 h (span < 1 day; oracle only: increasing along a line, a line ends before the next "
        "begins, consecutive stamps one period apart, columns of the full geometry of the same list), and stamps OFF the grid "
        "(0.5 s * k + whole ms / a few ms + a few us / any us within +-5 ms / a drifting line clock; consecutive and with gaps; "
        "oracle only: the same clauses, successive scans offset by the exact difference of their stamps - integer us - within "
        "2 ns), starting at arbitrary microseconds on ordinary days 1990-2049 and placed so that the list straddles the begin / the end of the skipped or "
        "repeated wall-clock hour, or the UTC instant, of both clock changes of the process time zone in a random year (zones "
        "without switches: a POSIX rule zone set with time.tzset for the case and recorded in it; one case of another zone); "
        "reuse: ONE position array (float64 holding whole or half-pixel positions, or int64) handed as itself and as views "
        "(slices, reversed, strided) to 4-7 calls of avhrr / avhrr_gac (count and list form) / amsua / mhs / hirs4 / mwhs2 / "
        "atms / ascat / olci / slstr_nadir in a row: after every call the array is bit-identical to what the caller put in "
        "and fovs and times equal those of a call with a fresh copy of the same positions; "
        "distinct = (instrument, lines, selection[, stamps | call sequence])")
ASSUMPTIONS = ["default options of the definition functions (scan_angle, frequency, chn_pixels=6400, scan_lines=32, "
               "scan_step=1, apply_offset=True); scan points are integers inside the instrument's full set "
               "(negative indices only through VIIRS scan_indices)",
               "the real-number theorems do not model binary64 rounding: the 1e-12 antisymmetry tolerance and the 2 ns "
               "scan-offset tolerance are checked on the sampled inputs (the theorem gives exact antisymmetry and < 1 ns "
               "for exact arithmetic followed by truncation to whole ns)",
               "'lines of a scan share the same angles' is read for VIIRS as: across-track angles equal on every line, "
               "along-track angle constant along a line and equal for the same detector in every scan; 'a line ends "
               "before the next begins' is read per scan for VIIRS (its 32 detector lines are simultaneous)",
               "avhrr_gac given a list of line time stamps: stamps on the 0.5 s scan grid or within 5 ms of it (whole "
               "microseconds; the scan period between two successive lines is then the difference of their stamps), strictly increasing, the whole list "
               "spanning less than one day (the statement's scans are successive; the code takes `(t - t0).seconds`, which "
               "wraps for a stamp a day or more after - or any time before - the first one)",
               "swath limits, scan periods and position counts the oracle judges against are the published values "
               "currently in the source (theorems swath_values / period_values / npos_values pin them)"]
TRUSTED = ["model PV.Model.Instruments (hand-written after geoloc_instrument_definitions.py and ScanGeometry.__init__; every "
           "constant regenerated from the source as Gen.instr__*), tied by bit-level agreement of all angles and exact "
           "agreement of all integer-ns times on every sampled (instrument, lines, selection)",
           "numpy's float64 * timedelta64 -> int64 truncation is modelled as floor (times proved >= 0)"]
LEVEL_TEXT = ("Theorems (Lean 4 kernel) for EVERY line count and EVERY selection of positions inside the full set: shapes "
              "(2, lines, positions) / (lines, positions) (VIIRS lines = scans*32); all lines carry the per-point angle "
              "list of the selection; along-track angles are 0 for line scanners; |angle| <= swath (VIIRS across and "
              "along, OLCI/SLSTR between -22.1 and 46.5 deg for every resampled count); exact antisymmetry about nadir "
              "over the full set (ramp scanners, ATMS linspace, the two ASCAT half swaths, VIIRS pixels and detectors); "
              "sub-selection = columns of the full geometry for angles and times (times excluded for ASCAT, with a "
              "theorem showing its times do depend on the selection); times >= 0, strictly increasing along a line, every "
              "sample of line k before every sample of line k+1 (VIIRS: per scan), successive lines exactly one scan "
              "period apart over the reals and within 1 ns after truncation to integer ns. The model is tied to the code "
              "by the T-C tie (PV.Equiv.Instr, 87 theorems: the angle and time arrays every definition hands to ScanGeometry, "
              "traced from the source on symbolic scan positions for 1-3 lines, are the model's per-point formulas and line "
              "structure for all real positions; ScanGeometry stores them unchanged and times are start + ns offsets), by the "
              "regenerated constants, and by bit-exact agreement of fovs and exact agreement of times(start) in ns.")
LEVEL_NOTE = ("Trusted: Lean kernel + Mathlib reals; propext/Classical.choice/Quot.sound; the hand-written model and its "
              "correspondence harness; constants regenerated from the AST; binary64 rounding is outside the theorems "
              "(tolerances 1e-12 and 2 ns are measured).")
TECHNIQUE = ("Lean 4 proof over a generic list model (List.map/replicate; ring/linarith/norm_num on the regenerated "
             "constants, floor lemma for ns truncation) + differential correspondence of complete arrays + "
             "statement oracle on the implementation")

# ------------------------------------------------------------------ what the statement fixes (independent of the model)
# full-set size, swath half-width (deg), scan period (s), symmetric?, models timing?
SPEC = {
    "avhrr": dict(n=2048, swath=55.37, period=1 / 6.0, sym=True, timing=True),
    "avhrr_gac": dict(n=2048, swath=55.37, period=0.5, sym=True, timing=True),
    "viirs": dict(n=6400, swath=56.28, period=1.779166667, sym=True, timing=True, det=32),
    "amsua": dict(n=30, swath=48.3, period=8.0, sym=True, timing=True),
    "mhs": dict(n=90, swath=49.444, period=8 / 3.0, sym=True, timing=True),
    "hirs4": dict(n=56, swath=49.5, period=6.4, sym=True, timing=True),
    "atms": dict(n=96, swath=52.7, period=8 / 3.0, sym=True, timing=True),
    "mwhs2": dict(n=98, swath=53.35, period=8 / 3.0, sym=True, timing=True),
    "ascat": dict(n=42, swath=53.0, period=3.74747474747, sym=True, timing=True),
    "olci": dict(n=4000, west=46.5, east=-22.1, sym=False, timing=False),
    "slstr_nadir": dict(n=3000, west=46.5, east=-22.1, sym=False, timing=False),
}
VIIRS_YMAX = math.atan2(11.87 / 2, 824.0)
RESAMPLERS = ("olci", "slstr_nadir")
ORDER = ["avhrr", "avhrr_gac", "viirs", "amsua", "mhs", "hirs4", "atms", "mwhs2", "ascat", "olci", "slstr_nadir"]
START = "2020-02-29T23:59:58.123456789"


def _defs():
    from pyorbital import geoloc_instrument_definitions as g
    return g


# ------------------------------------------------------------------ selections
def resolve(name, sel):
    """Selection spec -> list of scan-point values (plain Python list semantics, no numpy)."""
    n = SPEC[name]["n"]
    k = sel["kind"]
    if k in ("default", "full"):
        return list(range(n))
    if k == "slice":
        a, b, c = sel["slice"]
        return list(range(n))[slice(a, b, c)]
    if k == "indices":          # VIIRS scan_indices list (negative allowed)
        return [range(n)[i] for i in sel["points"]]
    return list(sel["points"])  # "points"


def line_stamps(lines, line_times=None):
    """The list of line time stamps of the datetime-list form of avhrr_gac: t0 + 0.5 s * steps[k] (+ jitter_us[k] whole
    microseconds when the stamps are off the scan grid; default: 2020-01-01 12:00, consecutive scans)."""
    if not line_times:
        t0, steps = dt.datetime(2020, 1, 1, 12, 0, 0), list(range(lines))
    else:
        t0, steps = dt.datetime.fromisoformat(line_times["t0"]), list(line_times["steps"])
    return [t0 + dt.timedelta(microseconds=us) for us in stamp_offsets_us(steps, line_times)]


def stamp_offsets_us(steps, line_times=None):
    """Exact integer microseconds of every line stamp after t0: 500000 * steps[k] + jitter_us[k]."""
    jit = list((line_times or {}).get("jitter_us") or [0] * len(steps))
    return [500000 * int(m) + int(j) for m, j in zip(steps, jit)]


def build(name, lines, sel, variant=None, line_times=None):
    """Call the real definition function."""
    g = _defs()
    k = sel["kind"]
    if variant == "avhrr_all_geom":
        return g.avhrr_all_geom(lines)
    if variant == "avhrr_edge_geom":
        return g.avhrr_edge_geom(lines)
    if variant == "avhrr_40_geom":
        return g.avhrr_40_geom(lines)
    if variant == "viirs_edge_geom":
        return g.viirs_edge_geom(lines)
    if name == "viirs":
        if k == "default":
            return g.viirs(lines)
        if k == "full":
            return g.viirs(lines, slice(0, None))
        if k == "slice":
            return g.viirs(lines, slice(*sel["slice"]))
        if k == "indices":
            return g.viirs(lines, list(sel["points"]))
        return g.viirs(lines, list(sel["points"]))
    fn = getattr(g, name)
    if k == "default":
        pts = np.arange(SPEC[name]["n"]) if name in ("avhrr", "avhrr_gac") else None
    elif k == "slice":
        pts = np.arange(SPEC[name]["n"])[slice(*sel["slice"])]
    else:
        pts = np.array(resolve(name, sel), dtype=int)
    if name == "avhrr_gac":
        if variant == "datetimes":
            return g.avhrr_gac(line_stamps(lines, line_times), pts)
        return g.avhrr_gac(lines, pts)
    if name in ("avhrr",):
        return g.avhrr(lines, pts)
    return fn(lines) if pts is None else fn(lines, pts)


def use_geometry(geom):
    """Use the geometry the way geolocation does (view vectors with a non-zero attitude, pixel times) before it is inspected:
    a definition is a value - using it must not change its angles or times."""
    try:
        f = np.asarray(geom.fovs)
        shp = f.shape[1:]
        pos = np.broadcast_to(np.array([7000.0, 120.0, -300.0]).reshape((3,) + (1,) * len(shp)), (3,) + shp).copy()
        vel = np.broadcast_to(np.array([0.3, 7.2, 1.9]).reshape((3,) + (1,) * len(shp)), (3,) + shp).copy()
        with np.errstate(all="ignore"):
            geom.vectors(pos, vel, 0.0017453292519943296, -0.0008726646259971648, 0.0005)
        geom.times(np.datetime64("2020-01-01T00:00:00"))
    except Exception:  # noqa  the use itself is C07's subject
        pass


def times_ns(geom, start_kind="np"):
    """times(start) - start as int64 nanoseconds (start given as datetime64 or as datetime.datetime)."""
    s64 = np.datetime64(START, "ns")
    if start_kind == "np":
        t = geom.times(s64)
        return (t - s64).astype("timedelta64[ns]").astype(np.int64), t.dtype
    pyd = dt.datetime(2020, 2, 29, 23, 59, 58, 123456)
    t = geom.times(pyd)
    return (t - np.datetime64(pyd, "ns")).astype("timedelta64[ns]").astype(np.int64), t.dtype


def sel_key(sel):
    if sel["kind"] == "slice":
        return "slice%s" % (tuple(sel["slice"]),)
    if sel["kind"] in ("default", "full"):
        return sel["kind"]
    p = sel["points"]
    return "%s:%d:%s" % (sel["kind"], len(p), hash(tuple(p)) & 0xFFFFFF)


def gen_selections(ctx, name, rich):
    """Selections for one instrument; `rich` adds more random ones."""
    r = ctx.rng
    n = SPEC[name]["n"]
    out = [{"kind": "default"}, {"kind": "full"}, {"kind": "points", "points": [0, n - 1]}]
    a = r.randrange(0, n - 1)
    b = r.randrange(a + 1, n + 1)
    out.append({"kind": "slice", "slice": [a, b, None]})
    out.append({"kind": "slice", "slice": [r.randrange(0, min(n, 50)), None, r.randrange(2, max(3, n // 4))]})
    for _ in range(3 if rich else 1):
        k = r.randrange(2, min(n, 48) + 1)
        pts = r.sample(range(n), k)
        out.append({"kind": "points", "points": sorted(pts)})
        out.append({"kind": "points", "points": pts})            # unsorted
    out.append({"kind": "points", "points": [r.randrange(n), r.randrange(n), r.randrange(n)]})   # possibly repeated
    if name != "ascat":
        out.append({"kind": "points", "points": [r.randrange(n)]})
        out.append({"kind": "points", "points": []})
    if name == "viirs":
        out.append({"kind": "indices", "points": [0, -1]})
        out.append({"kind": "indices", "points": [r.randrange(-n, n) for _ in range(r.randrange(2, 20))]})
        out.append({"kind": "slice", "slice": [None, None, -r.randrange(50, 400)]})
        out.append({"kind": "slice", "slice": [-r.randrange(1, 300), None, None]})
    if name == "ascat":      # "Need at least two scan points!" is ASCAT's documented precondition
        out = [s for s in out if len(resolve(name, s)) >= 2]
    return out


def line_counts(ctx):
    if ctx.tier == "thorough" or ctx.intensified:
        return list(range(1, 51))
    return [1, 2, 3, 7, 50]


def gen_cases(ctx):
    """(name, lines, sel, variant) with a volume cap for the wide instruments."""
    cases = []
    thorough = ctx.tier == "thorough" or ctx.intensified
    for name in ORDER:
        n = SPEC[name]["n"]
        for lines in line_counts(ctx):
            rich = lines in (1, 2, 3, 7, 50)
            for sel in gen_selections(ctx, name, rich and thorough):
                width = len(resolve(name, sel))
                L = lines * (32 if name == "viirs" else 1)
                cap = 1300000 if thorough else 450000
                if L * width > cap:
                    continue
                if not rich and sel["kind"] in ("default", "full") and n > 100:
                    continue
                cases.append((name, lines, sel, None))
    for lines in (1, 2, 3, 7, 50):
        cases.append(("avhrr", lines, {"kind": "full"}, "avhrr_all_geom"))
        cases.append(("avhrr", lines, {"kind": "points", "points": [0, 2047]}, "avhrr_edge_geom"))
        cases.append(("avhrr", lines, {"kind": "slice", "slice": [24, 2048, 40]}, "avhrr_40_geom"))
        cases.append(("viirs", lines, {"kind": "indices", "points": [0, -1]}, "viirs_edge_geom"))
        cases.append(("avhrr_gac", lines, {"kind": "slice", "slice": [0, 2048, 5]}, "datetimes"))
    return cases


# ------------------------------------------------------------------ model side
def model_line(name, lines, pts):
    return "c19 %s %d" % (name, lines) + "".join(" %d" % p for p in pts)


def parse_model(out):
    parts = out.split(" | ")
    if len(parts) != 4:
        raise lib.DriverError("c19: unexpected driver output %r" % out[:80])
    L, P = (int(x) for x in parts[0].split())

    def fl(s):
        if L * P == 0:
            return np.zeros((L, P))
        return np.frombuffer(bytes.fromhex(s.replace(" ", "")), dtype=">f8").astype(np.float64).reshape(L, P)
    r0, r1 = fl(parts[1]), fl(parts[2])
    t = np.array([int(x) for x in parts[3].split()], dtype=np.int64).reshape(L, P) if L * P else np.zeros((L, P), np.int64)
    return r0, r1, t


def angles_close(a, b):
    return bool(np.all(np.abs(a - b) <= 1e-12 * np.maximum(np.abs(a), np.abs(b)) + 1e-300))


def case_json(name, lines, sel, variant=None):
    c = {"instrument": name, "lines": lines, "selection": sel}
    if variant:
        c["variant"] = variant
    return c


def correspond(ctx):
    drv = ctx.driver()
    cases = gen_cases(ctx)
    batch, pending, vol = [], [], 0

    def flush():
        nonlocal batch, pending, vol
        if not batch:
            return
        outs = drv.run(batch)
        for (name, lines, sel, variant, pts), o in zip(pending, outs):
            compare_one(ctx, name, lines, sel, variant, pts, o)
        batch, pending, vol = [], [], 0

    for (name, lines, sel, variant) in cases:
        pts = resolve(name, sel)
        batch.append(model_line(name, lines, pts))
        pending.append((name, lines, sel, variant, pts))
        vol += lines * (32 if name == "viirs" else 1) * max(1, len(pts))
        if vol > 600000:
            flush()
    flush()
    # avhrr_gac with a list of line time stamps on the scan grid (consecutive scans): the model's count-form geometry
    stamped = [c for c in gen_gac_lists(ctx) if c["consecutive"]]
    outs = drv.run([model_line("avhrr_gac", c["lines"], resolve("avhrr_gac", c["selection"])) for c in stamped])
    for c, o in zip(stamped, outs):
        ctx.bump("corr_gac_stamps", c["placement"])
        compare_one(ctx, "avhrr_gac", c["lines"], c["selection"], "datetimes", resolve("avhrr_gac", c["selection"]), o,
                    extra={"line_times": c["line_times"], "process_tz": c["process_tz"], "placement": c["placement"]})


def compare_one(ctx, name, lines, sel, variant, pts, out, extra=None):
    case = case_json(name, lines, sel, variant)
    if extra:
        case.update(extra)
        with process_zone(extra.get("process_tz")):
            return _compare_one(ctx, name, lines, sel, variant, pts, out, case, extra.get("line_times"))
    return _compare_one(ctx, name, lines, sel, variant, pts, out, case, None)


def _compare_one(ctx, name, lines, sel, variant, pts, out, case, line_times):
    ctx.count("eval_corr")
    ctx.bump("corr_instrument", name)
    ctx.distinct((name, lines, sel_key(sel), variant or ""))
    if out in ("bad-args", "bad-instrument", "bad-op"):
        raise lib.DriverError("c19 handler: " + out)
    r0, r1, tm = parse_model(out)
    try:
        geom = build(name, lines, sel, variant, line_times)
    except Exception as e:  # noqa
        ctx.disagree("c19", case, "raised %s: %s" % (type(e).__name__, e), "shape %s" % (r0.shape,))
        return
    fovs = np.asarray(geom.fovs)
    if fovs.shape != (2,) + r0.shape:
        ctx.disagree("c19-shape", case, list(fovs.shape), [2] + list(r0.shape))
        return
    if not (angles_close(fovs[0], r0) and angles_close(fovs[1], r1)):
        d0 = np.abs(fovs[0] - r0)
        idx = np.unravel_index(int(np.argmax(d0)), d0.shape) if d0.size else ()
        ctx.disagree("c19-angles", case, {"at": [int(i) for i in idx], "impl": float(fovs[0][idx]) if d0.size else None,
                                          "max_dy": float(np.abs(fovs[1] - r1).max()) if d0.size else 0.0},
                     {"model": float(r0[idx]) if d0.size else None})
        return
    ctx.count("corr_values_compared", 3 * r0.size)
    for kind in ("np", "py"):
        t, dtype = times_ns(geom, kind)
        if t.shape != tm.shape:
            ctx.disagree("c19-times-shape", case, list(t.shape), list(tm.shape))
            return
        if str(dtype) != "datetime64[ns]":
            ctx.disagree("c19-times-dtype", case, str(dtype), "datetime64[ns]")
            return
        if not np.array_equal(t, tm):
            d = np.abs(t - tm)
            idx = np.unravel_index(int(np.argmax(d)), d.shape)
            ctx.disagree("c19-times", case, {"at": [int(i) for i in idx], "impl_ns": int(t[idx]), "start": kind},
                         {"model_ns": int(tm[idx])})
            return
    if len(ctx.samples) < 6 and len(pts) <= 6:
        ctx.sample({"case": case, "fovs_row0_line0": fovs[0][0].tolist() if fovs.shape[1] else [],
                    "times_ns_line0": tm[0].tolist() if tm.shape[0] else []})


# ------------------------------------------------------------------ the property on the implementation
def judge(name, lines, sel, variant=None, full_cache=None, check_subset=True, line_times=None):
    """All clauses of the statement for one (instrument, lines, selection). Returns list of (kind, observed, required).
    line_times (datetime-list form of avhrr_gac): {"t0", "steps"}: line k is scan steps[k] of the 0.5 s scan grid."""
    sp = SPEC[name]
    bad = []
    pts = resolve(name, sel)
    P = len(pts)
    L = lines * sp.get("det", 1)
    steps = list(line_times["steps"]) if line_times else list(range(lines))
    jittered = bool(line_times and line_times.get("jitter_us"))      # stamps off the 0.5 s grid (whole microseconds)
    gapped = steps != list(range(lines)) or jittered
    geom = build(name, lines, sel, variant, line_times)
    use_geometry(geom)
    fovs = np.asarray(geom.fovs)
    t, dtype = times_ns(geom, "np")
    # shapes
    if fovs.shape != (2, L, P):
        bad.append(("shape_fovs", list(fovs.shape), [2, L, P]))
    if t.shape != (L, P):
        bad.append(("shape_times", list(t.shape), [L, P]))
    if bad:
        return bad
    if str(dtype) != "datetime64[ns]":
        bad.append(("times_resolution", str(dtype), "datetime64[ns]"))
    if not np.all(np.isfinite(fovs)):
        bad.append(("nonfinite_angle", "nan/inf", "finite"))
        return bad
    if L == 0 or P == 0:
        return bad
    x, y = fovs[0], fovs[1]
    # all lines share the same angles
    if not np.array_equal(x, np.tile(x[0], (L, 1))):
        bad.append(("lines_differ_across", "some line differs from line 0", "identical across-track angles on every line"))
    if name == "viirs":
        det = sp["det"]
        if not np.array_equal(y, np.tile(y[:, :1], (1, P))):
            bad.append(("along_not_constant_on_line", "varies", "constant along a line"))
        if not np.array_equal(y, np.tile(y[:det], (lines, 1))):
            bad.append(("scans_differ_along", "differs between scans", "same along-track angles in every scan"))
        if np.abs(y).max() > VIIRS_YMAX * (1 + 1e-12):
            bad.append(("along_outside_swath", float(np.abs(y).max()), VIIRS_YMAX))
        if P and not np.allclose(y[:det, 0][::-1], -y[:det, 0], rtol=0, atol=1e-12 * VIIRS_YMAX):
            bad.append(("along_not_antisymmetric", y[:det, 0].tolist()[:4], "detector d = - detector 31-d"))
    else:
        if not np.array_equal(y, np.zeros_like(y)):
            bad.append(("along_nonzero", float(np.abs(y).max()), 0.0))
    # swath limits
    if name in RESAMPLERS:
        lo, hi = math.radians(sp["east"]), math.radians(sp["west"])
        if x.min() < lo - 1e-12 or x.max() > hi + 1e-12:
            bad.append(("outside_swath", [float(x.min()), float(x.max())], [lo, hi]))
    else:
        lim = math.radians(sp["swath"])
        if np.abs(x).max() > lim * (1 + 1e-12):
            bad.append(("outside_swath", float(np.abs(x).max()), lim))
    # antisymmetry over the full set
    if sp["sym"] and pts == list(range(sp["n"])):
        lim = math.radians(sp["swath"])
        d = np.abs(x[0][::-1] + x[0]).max()
        if d > 1e-12 * lim:
            bad.append(("not_antisymmetric", float(d), "<= 1e-12 * swath"))
    # timing
    if not sp["timing"]:
        if np.any(t != 0):
            bad.append(("resampler_times_nonzero", int(np.abs(t).max()), 0))
    else:
        order = sorted(range(P), key=lambda j: pts[j])
        strictly = [j for k, j in enumerate(order) if k == 0 or pts[j] != pts[order[k - 1]]]
        ts = t[:, strictly]
        if ts.shape[1] > 1 and not np.all(np.diff(ts, axis=1) > 0):
            bad.append(("times_not_increasing", "non-positive step along a line", "strictly increasing with the position"))
        if P <= 64:
            for j in range(P):
                for k in range(j + 1, P):
                    if pts[j] == pts[k] and np.any(t[:, j] != t[:, k]):
                        bad.append(("same_position_different_time", [int(t[0, j]), int(t[0, k])], "equal"))
        det = sp.get("det", 1)
        per_ns = sp["period"] * 1e9
        if L > det:
            ends = t.max(axis=1).reshape(lines, det).max(axis=1)
            begins = t.min(axis=1).reshape(lines, det).min(axis=1)
            if not np.all(ends[:-1] < begins[1:]):
                k = int(np.argmax(~(ends[:-1] < begins[1:])))
                bad.append(("line_overlaps_next", {"scan": k, "ends_ns": int(ends[k]), "next_begins_ns": int(begins[k + 1])},
                            "end < next begin"))
            if jittered:
                # the stamps ARE the line times: the period between two successive scans is the difference of their stamps,
                # taken exactly (integer microseconds -> integer ns); every sample of the later line is that much later
                succ = np.diff(np.array(steps)) == 1
                want = (np.diff(np.array(stamp_offsets_us(steps, line_times), dtype=np.int64)) * 1000)[:, None]
                delta = t[1:] - t[:-1]
                dev = np.abs(delta - want)[succ]
                if dev.size and dev.max() > 2:
                    idx = np.unravel_index(int(np.argmax(dev)), dev.shape)
                    bad.append(("scan_offset", {"line": int(np.flatnonzero(succ)[idx[0]]), "col": int(idx[1]),
                                                "delta_ns": int(delta[succ][idx])},
                                "the difference of the two line stamps, %d ns, +- 2" % int(want[succ][idx[0], 0])))
                dev = np.zeros(0)
            else:
                dev = np.abs((t[det:] - t[:-det]).astype(np.float64) - per_ns)
            if gapped and not jittered:        # stamps that are not consecutive scans: only consecutive pairs are "successive scans"
                dev = dev[np.diff(np.array(steps)) == 1]
            if dev.size and dev.max() > 2.0:
                idx = np.unravel_index(int(np.argmax(dev)), dev.shape)
                bad.append(("scan_offset", {"line": int(idx[0]), "col": int(idx[1]),
                                            "delta_ns": int((t[det:] - t[:-det])[idx])}, "period %.3f ns +- 2" % per_ns))
        if np.any(t < 0):
            bad.append(("negative_time", int(t.min()), ">= 0"))
    # subset consistency
    if check_subset and name not in RESAMPLERS and sel["kind"] not in ("default",):
        key = (name, lines)
        if gapped:            # the full geometry of the same list of stamps
            fg = build(name, lines, {"kind": "default"}, variant, line_times)
            ffov, ft = np.asarray(fg.fovs), times_ns(fg, "np")[0]
        elif full_cache is not None and key in full_cache:
            ffov, ft = full_cache[key]
        else:
            fg = build(name, lines, {"kind": "default"})
            ffov, ft = np.asarray(fg.fovs), times_ns(fg, "np")[0]
            if full_cache is not None:
                full_cache.clear()
                full_cache[key] = (ffov, ft)
        if ffov.shape == (2, L, sp["n"]):
            cols = np.array(pts, dtype=int)
            if not np.array_equal(fovs, ffov[:, :, cols]):
                d = np.abs(fovs - ffov[:, :, cols]).max()
                bad.append(("subset_angles_differ", float(d), "exactly the columns of the full geometry"))
            if name != "ascat" and not np.array_equal(t, ft[:, cols]):
                d = int(np.abs(t - ft[:, cols]).max())
                bad.append(("subset_times_differ", d, "0 ns"))
    return bad


# ------------------------------------------------------------------ avhrr_gac: lists of line time stamps
def gen_gac_lists(ctx):
    """Lists of line time stamps for avhrr_gac: t0 + 0.5 s * steps[k].  The stamps are UTC; pyorbital's answer is the line
    timing relative to the first line, whatever the wall clock of the process' zone does at those instants: lists on
    ordinary days, and lists that straddle the begin / the end of the skipped or repeated wall-clock hour (stamps read as
    naive local values) or the UTC instant of a clock change of the process time zone."""
    r = ctx.rng
    thorough = ctx.tier == "thorough" or ctx.intensified
    cur = os.environ.get("TZ")
    with process_zone(cur):
        has = bool(zone_switches(2021))
    zone = cur if has else r.choice(DST_ZONES)
    other = r.choice([z for z in DST_ZONES if z != zone])
    out = []

    def one(anchor, placement, tz, consecutive, jitter=None):
        lines = r.choice([2, 3, 7, 50]) if not thorough or r.random() < 0.5 else r.randint(2, 50)
        if consecutive or (jitter and r.random() < 0.7):
            steps = list(range(lines))
        else:
            steps = [0]
            for _ in range(lines - 1):
                m = steps[-1] + r.choice([1, 1, 2, 3, 120, 7200, 20000])
                if m * 0.5 >= 86000.0:           # the statement's scans are successive: no list spanning a day
                    break
                steps.append(m)
            lines = len(steps)
        span = steps[-1] * 0.5
        if anchor is None:
            t0 = dt.datetime(1990, 1, 1) + dt.timedelta(seconds=r.randrange(0, 60 * 366 * 86400), microseconds=r.choice([0, r.randrange(10 ** 6)]))
        else:
            k = r.random()
            if k < 0.4:        # a stamp exactly on the anchor
                t0 = anchor - dt.timedelta(microseconds=500000 * r.choice(steps[1:]))
            else:
                t0 = anchor - dt.timedelta(seconds=r.uniform(0.0, span))
                t0 = t0.replace(microsecond=r.choice([t0.microsecond, 0, 250000]))
        n = SPEC["avhrr_gac"]["n"]
        a = r.randrange(0, n - 1)
        sel = r.choice([{"kind": "default"}, {"kind": "slice", "slice": [a, r.randrange(a + 1, n + 1), r.choice([None, 5, 40])]},
                        {"kind": "points", "points": sorted(r.sample(range(n), r.randrange(2, 40)))},
                        {"kind": "points", "points": r.sample(range(n), r.randrange(1, 40))}, {"kind": "points", "points": [0, n - 1]}])
        lt = {"t0": t0.isoformat(), "steps": steps}
        if jitter:
            # stamps as found in level-1b line headers: the nominal 0.5 s grid + an offset of whole microseconds, well
            # below the 0.4 s between the end of a line and the begin of the next (so the stamps stay strictly increasing)
            if jitter == "ms":            # whole milliseconds
                jit = [1000 * r.randint(0, 4) for _ in steps]
            elif jitter == "ms+us":       # a few ms + a few us
                jit = [1000 * r.randint(-4, 4) + r.randint(-9, 9) for _ in steps]
            elif jitter == "us":          # any microsecond within +-5 ms
                jit = [r.randint(-5000, 5000) for _ in steps]
            else:                         # "drift": a line clock running fast or slow by 1 - 40 us per line + 0-2 us noise
                d = r.choice([-1, 1]) * r.randint(1, 40)
                jit = [d * k + r.randint(0, 2) for k in range(len(steps))]
            if not any(j % 250000 for j in jit):
                jit[-1] += 1003
            lt["jitter_us"] = jit
        out.append({"lines": lines, "selection": sel, "consecutive": consecutive and not jitter, "process_tz": tz,
                    "placement": placement, "line_times": lt})

    for tz, reps, all_switches in ((zone, 3 if thorough else 1, True), (other, 2 if thorough else 1, False)):
        for _ in range(reps):
            with process_zone(tz):
                sw = zone_switches(r.randint(1990, 2049))
            if not sw:
                continue
            for (s_, off0, off1) in (sw if all_switches else [r.choice(sw)]):
                s_utc = dt.datetime(1970, 1, 1) + dt.timedelta(seconds=s_)
                d = "forward" if off1 > off0 else "back"
                anchors = (("hour_begin", s_utc + dt.timedelta(seconds=min(off0, off1))),
                           ("hour_end", s_utc + dt.timedelta(seconds=max(off0, off1))), ("utc_instant", s_utc))
                for nm, x in (anchors if all_switches else [r.choice(anchors)]):
                    one(x, "%s/%s" % (d, nm), tz, True)
                    if all_switches:
                        one(x, "%s/%s/gaps" % (d, nm), tz, False)
    for _ in range(12 if thorough else 3):
        one(None, "ordinary_day", None, True)
        one(None, "ordinary_day/gaps", None, False)
    # stamps OFF the 0.5 s grid (oracle only: the model is the count-form geometry)
    for _ in range(8 if thorough else 2):
        for j in ("ms", "ms+us", "us", "drift"):
            one(None, "ordinary_day/jitter-" + j, None, False, jitter=j)
    return out


def gac_list_oracle(ctx):
    cache = {}
    for c in gen_gac_lists(ctx):
        ctx.count("eval_oracle")
        ctx.count("eval_oracle_gac_stamp_lists")
        ctx.bump("oracle_gac_stamps", c["placement"])
        ctx.distinct(("avhrr_gac", c["lines"], sel_key(c["selection"]), c["line_times"]["t0"]))
        case = case_json("avhrr_gac", c["lines"], c["selection"], "datetimes")
        case.update({"line_times": c["line_times"], "process_tz": c["process_tz"], "placement": c["placement"]})
        try:
            with process_zone(c["process_tz"]):
                bad = judge("avhrr_gac", c["lines"], c["selection"], "datetimes", cache, line_times=c["line_times"])
        except Exception as e:  # noqa
            bad = [("raised", "%s: %s" % (type(e).__name__, e), "a ScanGeometry")]
        for (kind, obs, req) in bad[:3]:
            ctx.violation(kind, case, obs, req, site="geoloc_instrument_definitions.avhrr_gac")


# ------------------------------------------------------------------ one position array reused across calls
FLOAT_OK = ("avhrr", "avhrr_gac", "avhrr_gac:datetimes", "amsua", "mhs", "hirs4", "mwhs2", "olci", "slstr_nadir")
INT_ONLY = ("atms", "ascat")


def _view(arr, view):
    return arr if view[0] == "whole" else arr[slice(*view[1:])]


def _call_def(fn, lines, pts):
    g = _defs()
    if fn == "avhrr_gac:datetimes":
        return g.avhrr_gac(line_stamps(lines), pts)
    return getattr(g, fn)(lines, pts)


def gen_reuse(ctx):
    """{"dtype", "half", "size", "calls": [[definition, lines, view]]}: the caller's array holds the positions 0 .. size-1
    (+ 0.5 when half), view = ["whole"] or ["slice", a, b, c] of that array."""
    r = ctx.rng
    dtype = r.choice(["float64", "float64", "float64", "int64"])
    half = dtype == "float64" and r.random() < 0.4
    size = 2047 if half else 2048
    fns = list(FLOAT_OK) + (list(INT_ONLY) if dtype == "int64" else [])
    calls = []
    for i in range(r.randint(4, 7)):
        fn = r.choice(["avhrr", "avhrr", "avhrr_gac", "avhrr_gac:datetimes"] + fns) if i else r.choice(["avhrr", "avhrr_gac", "avhrr_gac:datetimes", r.choice(fns)])
        n = min(size, SPEC[fn.split(":")[0]]["n"] - (1 if half else 0))
        k = r.random()
        if n == size and k < 0.3:
            view = ["whole"]
        elif k < 0.5:
            view = ["slice", 0, n, None]
        elif k < 0.7:
            view = ["slice", r.randrange(0, n // 2), n, r.choice([2, 3, 5, 40])]
        elif k < 0.85:
            a = r.randrange(0, n - 2)
            view = ["slice", a, r.randrange(a + 2, n + 1), None]
        else:
            view = ["slice", n - 1, None, -r.choice([1, 2, 7])]
        if fn == "ascat" and len(range(size)[slice(*view[1:])] if view[0] != "whole" else range(size)) < 2:
            view = ["slice", 0, n, None]
        calls.append([fn, r.choice([1, 2, 3, 7]), view])
    return {"dtype": dtype, "half": half, "size": size, "calls": calls}


def reuse_probe(spec):
    """One array object, handed (itself / views of it) to the calls in turn.  Returns (kind, call index, observed, required)
    of the first call after which the array differs from what the caller put in, or whose geometry differs from the one a
    fresh copy of the same positions gives; None when all calls are clean."""
    arr = np.arange(spec["size"], dtype=np.dtype(spec["dtype"]))
    if spec["half"]:
        arr += 0.5
    orig = arr.copy()
    for i, (fn, lines, view) in enumerate(spec["calls"]):
        want_pts = _view(orig, view).copy()
        try:
            fresh = _call_def(fn, lines, want_pts.copy())
            got = _call_def(fn, lines, _view(arr, view))
        except Exception as e:  # noqa
            return ("raised", i, "%s(%d lines, %s): %s: %s" % (fn, lines, view, type(e).__name__, e), "a ScanGeometry")
        if arr.dtype != orig.dtype or not np.array_equal(arr, orig):
            j = int(np.flatnonzero(arr != orig)[0]) if arr.shape == orig.shape else -1
            return ("argument_modified", i, "after %s(%d lines, positions %s of the array) the caller's array holds %r at index %d" % (
                fn, lines, view, float(arr[j]), j), "the position array unchanged (%r)" % float(orig[j]))
        s64 = np.datetime64(START, "ns")
        if not (np.array_equal(np.asarray(got.fovs), np.asarray(fresh.fovs)) and np.array_equal(got.times(s64), fresh.times(s64))):
            d = float(np.abs(np.asarray(got.fovs) - np.asarray(fresh.fovs)).max()) if np.shape(got.fovs) == np.shape(fresh.fovs) else "shape"
            return ("reuse_differs", i, "%s(%d lines, positions %s of the reused array): angles differ by %s rad from the geometry "
                    "of a fresh copy of the same positions" % (fn, lines, view, d), "the same geometry as for a fresh copy")
    return None


def reuse_oracle(ctx):
    for _ in range(ctx.size(16, 200)):
        spec = gen_reuse(ctx)
        ctx.count("eval_oracle")
        ctx.count("eval_oracle_reuse_calls", len(spec["calls"]))
        ctx.bump("oracle_reuse", "%s%s" % (spec["dtype"], "/half-pixel" if spec["half"] else ""))
        ctx.distinct(("reuse", spec["dtype"], spec["half"], str(spec["calls"])))
        res = reuse_probe(spec)
        if res:
            kind, i, obs, req = res
            fn = spec["calls"][i][0].split(":")[0]
            ctx.violation(kind, {"reuse": spec, "failing_call": i, "instrument": fn}, obs, req, site="geoloc_instrument_definitions." + fn)


SITE = {"viirs": "geoloc_instrument_definitions.viirs"}


def oracle(ctx):
    cases = gen_cases(ctx)
    cache = {}
    # group by (name, lines) so that the full geometry is built once per group
    cases.sort(key=lambda c: (ORDER.index(c[0]), c[1]))
    for (name, lines, sel, variant) in cases:
        L = lines * (32 if name == "viirs" else 1)
        # the full geometry needed for the subset clause is built only while it stays small
        subset = L * SPEC[name]["n"] <= 1300000
        ctx.count("eval_oracle")
        ctx.bump("oracle_instrument", name)
        ctx.distinct((name, lines, sel_key(sel), variant or ""))
        try:
            bad = judge(name, lines, sel, variant, cache, check_subset=subset)
            if subset and sel["kind"] != "default" and name not in RESAMPLERS:
                ctx.count("oracle_subset_checked")
        except Exception as e:  # noqa  a definition function that raises on a valid selection is a violation
            bad = [("raised", "%s: %s" % (type(e).__name__, e), "a ScanGeometry")]
        for (kind, obs, req) in bad[:3]:
            ctx.violation(kind, case_json(name, lines, sel, variant), obs, req,
                          site=SITE.get(name, "geoloc_instrument_definitions." + (variant if variant and variant != "datetimes" else name)))
    # ASCAT refuses fewer than two points (documented precondition, not a violation)
    g = _defs()
    try:
        g.ascat(1, np.array([3]))
        ctx.note("ascat accepted a single scan point")
    except ValueError:
        ctx.count("ascat_single_point_refused")
    # avhrr_gac given a list of line time stamps: ordinary days and lists straddling the clock changes of the process zone
    gac_list_oracle(ctx)
    # one position array (float64 / int64, whole and half-pixel positions) reused, with views of it, across calls
    reuse_oracle(ctx)


def match_known(entry, v):
    m = entry.get("match", {})
    return bool(m) and m.get("kind") == v["kind"] and m.get("instrument") == v["case"].get("instrument")


def replay(ctx, case):
    inp = case.get("input", case)
    if "instrument" not in inp and "reuse" not in inp:
        stages = [b.get("stage") for b in case.get("broken", [])]
        print("tie replay (no failing input was found); broken:", stages)
        if any(st in ("build-proofs", "audit", "audit-grep", "regenerate") for st in stages):
            # the proofs no longer hold for the constants in the source: regenerate and rebuild, as the check does
            import extract
            extract.regenerate()
            ok, log = lib.lake_build(LEAN_TARGETS)
            print("lake build %s: %s" % (" ".join(LEAN_TARGETS), "ok" if ok else "FAILED"))
            if not ok:
                print("\n".join(l for l in log.split("\n") if "error" in l)[:600])
                return 1
        for d in case.get("first_disagreements", [])[:3]:
            c = d.get("case", {})
            if "instrument" in c:
                try:
                    out = lib.Driver().run([model_line(c["instrument"], c["lines"], resolve(c["instrument"], c["selection"]))])[0]
                    r0, r1, tm = parse_model(out)
                    with process_zone(c.get("process_tz")):
                        geom = build(c["instrument"], c["lines"], c["selection"], c.get("variant"), c.get("line_times"))
                    f = np.asarray(geom.fovs)
                    same = f.shape == (2,) + r0.shape and angles_close(f[0], r0) and angles_close(f[1], r1) and \
                        np.array_equal(times_ns(geom)[0], tm)
                    print("case", c, "-> model and implementation", "agree" if same else "DISAGREE")
                    if not same:
                        return 1
                except Exception as e:  # noqa
                    print("case", c, "->", type(e).__name__, e)
                    return 1
        return 0
    if "reuse" in inp:
        res = reuse_probe(inp["reuse"])
        print("reuse of one position array:", res if res else "all calls clean")
        return 1 if res else 0
    try:
        with process_zone(inp.get("process_tz")):
            bad = judge(inp["instrument"], inp["lines"], inp["selection"], inp.get("variant"), line_times=inp.get("line_times"))
    except Exception as e:  # noqa
        bad = [("raised", "%s: %s" % (type(e).__name__, e), "a ScanGeometry")]
    for b in bad:
        print("violates %s: observed %s, required %s" % b)
    if not bad:
        print("all clauses hold for", inp)
    return 1 if bad else 0
