"""C14 — vector rotation is a proper rotation with the documented (clockwise) sense; geodetic helpers consistent."""
import math

import numpy as np

import geo
import lib

ID = "C14"
LEAN_TARGETS = ["PV.Props.C14"]
# further files of property theorems (all are obligations): convergence / root-closeness stretch theorems
EXTRA_PROPS = ['PV.Props.C04Conv', 'PV.Props.C14Bound']
# T-C tie (DESIGN 2.3): kernels traced from the current source are proved equal to the model over the reals
EQUIV = {'PV.Equiv.Geoloc': ['qrotate_eq', 'qrotate_shared_axis_eq', 'geodetic_lat_p1', 'geodetic_lat_p1_c1', 'geodetic_lat_p2', 'geodetic_lat_p2_c2', 'geodLoop_succ', 'subpoint_eq']}
RULE = ("random vectors/axes of any magnitude (1e-3..1e5, and log-uniform over 1e-15..1e8, judged relative to the length of "
        "the vector), angles in [-4pi, 4pi] incl. 0, +-pi, +-2pi, over every combination "
        "of vector shape {(3,), (3,n), (3,m,n)} x axis {shared (3,), (3,1), one per column} x angle {python float, numpy "
        "scalar, 0-d array, one per column}; the one combination the implementation rejects (3-D stack + shared axis + "
        "per-column angle array) is out of scope; every array argument additionally in a random memory layout with the "
        "values unchanged (C, Fortran, transposed / axis-swapped views, strided and reversed slices of NaN-padded buffers, "
        "0-d views); every column is compared with the one-column model at 1e-13; points from "
        "the surface to 50000 km for geodetic_lat/subpoint, incl. points 1e-9 .. 10 km from the polar axis and exactly "
        "on it, both hemispheres; the helpers also on (3,n) / (3,m,n) ARRAYS of such points in one call, exact polar-axis "
        "columns (x == y == 0, either sign of zero, either pole) mixed with off-axis columns, every column judged; a few "
        "rotations of more than 262144 columns per run (300001, 524289, ... columns as (3,n) and (3,m,n), every axis / angle "
        "kind), EVERY column against a vectorised Rodrigues reference at 1e-11 of its length; "
        "distinct = (shape kind, axis kind, angle kind, values)")
ASSUMPTIONS = ["the 1 m bound of the geodetic helpers depends on np.allclose's stopping rule (rtol 1e-5): measured",
               "shape handling (reshape/einsum broadcasting) is covered by the correspondence over all shape/kind combinations, "
               "the theorems are about one column"]
TRUSTED = ["model PV.Model.Geoloc (qrotate, geodStep/geodLoop, ellipsoidPoint, subpoint)", "spec PV.Spec.Rodrigues"]
LEVEL_TEXT = ("Theorems over the reals, for every vector, non-zero axis and angle: the einsum of the quaternion matrix exactly as "
              "coded equals Rodrigues' rotation about the normalised axis by minus the angle; hence lengths and inner products "
              "are preserved, the axis is fixed, rotations by 0 and 2pi are the identity, successive rotations about one axis add, "
              "the result does not depend on the axis magnitude; the subpoint lies on the ellipsoid exactly for any latitude the "
              "iteration returns, and the geodetic latitude is a fixed point of the iteration body. Tie: every column of every "
              "shape/kind combination against the one-column model at 1e-13.")
LEVEL_NOTE = ("Trusted: Lean kernel + Mathlib reals; hand-written model + correspondence harness; numpy reshape/einsum semantics "
              "(covered by enumeration, not proved); binary64 rounding.")
TECHNIQUE = "Lean 4 proof (half-angle identities + linear_combination over R) + differential correspondence over all shape/kind combinations + Rodrigues oracle"

SPECIAL_ANGLES = [0.0, math.pi, -math.pi, 2 * math.pi, -2 * math.pi, math.pi / 2, 4 * math.pi, -4 * math.pi]


def rvec(r, scale=None):
    """A vector of any non-zero magnitude: half of them 1e-3..1e5, half log-uniform over 1e-15..1e8."""
    if scale is not None:
        s = scale
    elif r.random() < 0.5:
        s = 10 ** r.uniform(-3, 5)
    else:
        s = 10 ** r.uniform(-15, 8)
    return np.array([r.gauss(0, 1) for _ in range(3)]) * s


# memory layouts: the same values and shape, other strides (the gaps of strided buffers hold NaN)
LAYOUTS_0D = ["view0d"]
LAYOUTS_1D = ["strided", "reversed", "strided0", "offset"]
LAYOUTS_ND = ["F", "T", "swap", "strided", "strided0", "reversed", "rev0", "revall", "offset"]


def relayout(x, name):
    """x (an ndarray) with the same shape and values in the memory layout called `name`; "C" is a fresh C-ordered copy."""
    x = np.array(x, dtype=float, order="C", copy=True)
    if name == "C":
        return x
    if x.ndim == 0:
        if name == "view0d":
            buf = np.full(3, np.nan)
            buf[1] = x
            return buf[1:2].reshape(())
        return x
    if name == "F":
        return np.asfortranarray(x)
    if name == "T":
        return np.ascontiguousarray(x.T).T
    if name == "swap":
        if x.ndim < 2:
            return x
        return np.ascontiguousarray(x.swapaxes(-1, -2)).swapaxes(-1, -2)
    if name == "strided":
        big = np.full(x.shape[:-1] + (2 * x.shape[-1] + 1,), np.nan)
        view = big[..., 1::2]
        view[...] = x
        return view
    if name == "strided0":
        big = np.full((3 * x.shape[0],) + x.shape[1:], np.nan)
        view = big[::3]
        view[...] = x
        return view
    if name == "reversed":
        return np.ascontiguousarray(x[..., ::-1])[..., ::-1]
    if name == "rev0":
        return np.ascontiguousarray(x[::-1])[::-1]
    if name == "revall":
        sl = (slice(None, None, -1),) * x.ndim
        return np.ascontiguousarray(x[sl])[sl]
    if name == "offset":
        big = np.full(tuple(d + 2 for d in x.shape), np.nan)
        sl = tuple(slice(1, d + 1) for d in x.shape)
        big[sl] = x
        return big[sl]
    raise ValueError("unknown layout " + str(name))


def pick_layout(r, x):
    """A layout name for the argument x ("-" for python floats / numpy scalars, which have none)."""
    if not isinstance(x, np.ndarray):
        return "-"
    if r.random() < 0.4:
        return "C"
    return r.choice(LAYOUTS_0D if x.ndim == 0 else LAYOUTS_1D if x.ndim == 1 else LAYOUTS_ND)


def apply_layout(x, name):
    if name == "-" or not isinstance(x, np.ndarray):
        return x
    y = relayout(x, name)
    if not (y.shape == x.shape and np.array_equal(y, x)):
        raise RuntimeError('y.shape == x.shape and np.array_equal(y, x)')
    return y


def rangle(r):
    return r.choice(SPECIAL_ANGLES) if r.random() < 0.25 else r.uniform(-4 * math.pi, 4 * math.pi)


def rodrigues(v, k, ang):
    """Rotation of v about k/|k| by MINUS ang (clockwise), independent of pyorbital."""
    k = k / np.linalg.norm(k)
    c, s = math.cos(ang), math.sin(ang)
    return v * c - np.cross(k, v) * s + k * float(k @ v) * (1 - c)


def make_case(r):
    """Returns (vector, axis, angle, kinds, per-column list of (v, k, a), layout names of the three arguments)."""
    vkind = r.choice(["(3,)", "(3,n)", "(3,m,n)", "(3,m,n)"])
    if vkind == "(3,)":
        shape = ()
    elif vkind == "(3,n)":
        shape = (r.randrange(1, 6),)
    else:
        shape = (r.randrange(1, 5), r.randrange(1, 5))
    ncol = int(np.prod(shape)) if shape else 1
    vec = np.stack([rvec(r) for _ in range(ncol)], axis=1).reshape((3,) + shape)
    akind = r.choice(["shared(3,)", "shared(3,1)", "per-column", "per-column"])
    gkind = r.choice(["pyfloat", "npscalar", "0-d", "per-column", "per-column"])
    if vkind == "(3,)":
        akind = "shared(3,)"
        gkind = r.choice(["pyfloat", "npscalar", "0-d"])
    if vkind == "(3,m,n)" and akind != "per-column" and gkind == "per-column":
        gkind = "pyfloat"          # the rejected combination is out of scope
    if vkind == "(3,m,n)" and akind == "shared(3,1)":
        akind = "shared(3,)"
    if akind == "per-column":
        axes = np.stack([rvec(r) for _ in range(ncol)], axis=1)
        axis = axes.reshape((3,) + shape)
    else:
        one = rvec(r)
        axes = np.repeat(one.reshape(3, 1), ncol, axis=1)
        axis = one if akind == "shared(3,)" else one.reshape(3, 1)
    if gkind == "per-column":
        angs = np.array([rangle(r) for _ in range(ncol)])
        angle = angs.reshape(shape)
    else:
        a = rangle(r)
        angs = np.full(ncol, a)
        angle = {"pyfloat": a, "npscalar": np.float64(a), "0-d": np.array(a)}[gkind]
    cols = [(vec.reshape(3, -1)[:, j].copy(), axes[:, j].copy(), float(angs[j])) for j in range(ncol)]
    layout = [pick_layout(r, x) for x in (vec, axis, angle)]
    vec, axis, angle = [apply_layout(x, nm) for x, nm in zip((vec, axis, angle), layout)]
    return vec, axis, angle, (vkind, akind, gkind), cols, layout


def rpoint(r):
    """A point from the surface to 50000 km: anywhere; or 1e-9 .. 10 km from the polar axis; or exactly on the axis."""
    from pyorbital import geoloc
    u = r.random()
    if u < 0.6:
        return geo.random_unit(r) * r.choice([r.uniform(6360, 6400), r.uniform(6400, 56400)]), "anywhere"
    h = r.choice([0.0, r.uniform(0, 1), r.uniform(0, 2000), r.uniform(0, 50000), 50000.0])
    z = r.choice([1.0, -1.0]) * (geoloc.B + h)       # |z| >= B: on or above the surface whatever the distance from the axis
    if u < 0.93:
        d = 10 ** r.uniform(-9, 1)
        az = r.uniform(-math.pi, math.pi)
        return np.array([d * math.cos(az), d * math.sin(az), z]), "near-axis"
    return np.array([0.0, 0.0, z]), "on-axis"


# ---------------------------------------------------------------- large inputs: hundreds of thousands of columns in one call
LARGE_COLS = (300001, 524289, 262145, 262144 + 131, 393217, 2 * 262144)
LARGE_AKINDS = ("shared(3,)", "shared(3,1)", "per-column", "per-column")
LARGE_GKINDS = ("pyfloat", "npscalar", "0-d", "per-column", "per-column")


def gen_large_spec(r):
    """A recipe {seed, shape (of the columns), akind, gkind} for one rotation of more than 262144 columns."""
    target = r.choice(LARGE_COLS + (r.randrange(262145, 540000),))
    if r.random() < 0.5:
        shape = [target]
    else:
        m = r.choice([2, 3, 5, 7, r.randrange(2, 40)])
        shape = [m, -(-target // m)]
        if r.random() < 0.3:
            shape = shape[::-1]
    akind = r.choice(LARGE_AKINDS)
    gkind = r.choice(LARGE_GKINDS)
    if len(shape) == 2 and akind != "per-column" and gkind == "per-column":
        gkind = r.choice(["pyfloat", "npscalar", "0-d"])       # the rejected combination is out of scope
    if len(shape) == 2 and akind == "shared(3,1)":
        akind = "shared(3,)"
    return {"seed": r.randrange(2 ** 31), "shape": shape, "akind": akind, "gkind": gkind}


def build_large(spec):
    """(vector, axis, angle, per-column (3,N) vectors, (3,N)|(3,1) axes, (N,) angles) of a recipe; deterministic in it."""
    g = np.random.default_rng(int(spec["seed"]))
    shape = tuple(int(x) for x in spec["shape"])
    ncol = int(np.prod(shape))

    def mags(n):
        return np.where(g.random(n) < 0.5, 10 ** g.uniform(-3, 5, n), 10 ** g.uniform(-15, 8, n))
    v2 = g.standard_normal((3, ncol)) * mags(ncol)
    if spec["akind"] == "per-column":
        ax2 = g.standard_normal((3, ncol)) * mags(ncol)
        axis = ax2.reshape((3,) + shape).copy()
    else:
        ax2 = (g.standard_normal(3) * mags(1)).reshape(3, 1)
        axis = ax2[:, 0].copy() if spec["akind"] == "shared(3,)" else ax2.copy()
    if spec["gkind"] == "per-column":
        angs = g.uniform(-4 * math.pi, 4 * math.pi, ncol)
        sp = g.random(ncol) < 0.1
        angs[sp] = np.array(SPECIAL_ANGLES)[g.integers(0, len(SPECIAL_ANGLES), int(sp.sum()))]
        angle = angs.reshape(shape).copy()
    else:
        a = float(g.uniform(-4 * math.pi, 4 * math.pi))
        angs = np.full(ncol, a)
        angle = {"pyfloat": a, "npscalar": np.float64(a), "0-d": np.array(a)}[spec["gkind"]]
    return v2.reshape((3,) + shape).copy(), axis, angle, v2, ax2, angs


def rodrigues_cols(v2, ax2, angs):
    """Rodrigues' rotation of every column of v2 (3,N) about ax2 (3,N) or (3,1), normalised, by MINUS angs (N,)."""
    k = np.broadcast_to(ax2 / np.sqrt((ax2 * ax2).sum(axis=0)), v2.shape)
    c, s = np.cos(angs), np.sin(angs)
    return v2 * c - np.cross(k, v2, axis=0) * s + k * (k * v2).sum(axis=0) * (1 - c)


def large_probe(spec):
    """[(kind, column | None, observed, required)] for one large rotation: shape kept, EVERY column equal to Rodrigues'
    rotation by minus the angle at 1e-11 of the column's length (the tolerance of the small cases)."""
    from pyorbital import geoloc
    vec, axis, angle, v2, ax2, angs = build_large(spec)
    try:
        out = geoloc.qrotate(vec, axis, angle)
    except Exception as e:  # noqa
        return [("raises", None, type(e).__name__ + ": " + str(e)[:100], "rotated vectors")], v2.shape[1]
    if np.shape(out) != vec.shape:
        return [("shape", None, list(np.shape(out)), list(vec.shape))], v2.shape[1]
    o2 = np.asarray(out, dtype=float).reshape(3, -1)
    ref = rodrigues_cols(v2, ax2, angs)
    sc = np.sqrt((v2 * v2).sum(axis=0))
    with np.errstate(all="ignore"):
        ok = np.all(np.abs(o2 - ref) <= 1e-11 * sc, axis=0)
    w = np.nonzero(~ok)[0]
    bad = []
    for j in sorted(set(int(x) for x in list(w[:2]) + list(w[-1:]))):
        bad.append(("rodrigues", j, o2[:, j].tolist(), "%s (Rodrigues by minus the angle %r about %s of the column %s; %d of %d "
                    "columns differ, first %d, last %d)" % (ref[:, j].tolist(), float(angs[j]), ax2[:, j if ax2.shape[1] > 1 else 0].tolist(),
                                                           v2[:, j].tolist(), len(w), v2.shape[1], int(w[0]), int(w[-1]))))
    return bad, v2.shape[1]


# ---------------------------------------------------------------- geodetic helpers on arrays mixing polar-axis and other points
def gen_point_array(r):
    """(3,n) or (3,m,n) array of points from the surface to 50000 km: exact polar-axis points (x == y == 0, both signs of
    zero, both poles) mixed with off-axis points (anywhere, or within 10 km of the axis); also none / only polar points."""
    from pyorbital import geoloc
    shape = (r.randrange(1, 9),) if r.random() < 0.6 else (r.randrange(1, 4), r.randrange(1, 5))
    ncol = int(np.prod(shape))
    mix = r.choice(["mixed", "mixed", "mixed", "one-polar", "no-polar", "all-polar"])
    cols, regions = [], []
    for j in range(ncol):
        polar = {"mixed": r.random() < 0.4, "one-polar": False, "no-polar": False, "all-polar": True}[mix]
        if polar:
            h = r.choice([0.0, r.uniform(0, 1), r.uniform(0, 2000), r.uniform(0, 50000), 50000.0])
            p = np.array([r.choice([0.0, -0.0]), r.choice([0.0, -0.0]), r.choice([1.0, -1.0]) * (geoloc.B + h)])
            reg = "on-axis"
        else:
            p, reg = rpoint(r)
            while reg == "on-axis":
                p, reg = rpoint(r)
        cols.append(p)
        regions.append(reg)
    if mix in ("mixed", "one-polar"):
        j = r.randrange(ncol)
        h = r.choice([0.0, r.uniform(0, 2000), r.uniform(0, 50000)])
        cols[j] = np.array([0.0, 0.0, r.choice([1.0, -1.0]) * (geoloc.B + h)])
        regions[j] = "on-axis"
    pts = np.stack(cols, axis=1).reshape((3,) + shape)
    return pts, mix, regions


def normal_offsets(p2, s2, a, b):
    """Per column: (value of the ellipsoid equation at the subpoint, distance in km of the point from the geodetic normal
    through the subpoint)."""
    q = s2[0] ** 2 / a ** 2 + s2[1] ** 2 / a ** 2 + s2[2] ** 2 / b ** 2
    nrm = np.stack([s2[0] / a ** 2, s2[1] / a ** 2, s2[2] / b ** 2], axis=0)
    nrm = nrm / np.sqrt((nrm * nrm).sum(axis=0))
    d = p2 - s2
    off = np.sqrt(((d - nrm * (d * nrm).sum(axis=0)) ** 2).sum(axis=0))
    return q, off


def point_array_probe(pts, layout="C"):
    """[(kind, column, observed, required)]: for EVERY column of the array handed to the helpers in one call, the subpoint
    lies on the ellipsoid (1e-12) and the point lies within 1 m of the geodetic normal through its subpoint; the geodetic
    latitude is the latitude of a normal passing within 1 m of the point (foot in the point's own meridian plane)."""
    from pyorbital import geoloc
    a, b = geoloc.A, geoloc.B
    pts = apply_layout(np.array(pts, dtype=float), layout)
    before = np.array(pts, copy=True)
    p2 = before.reshape(3, -1)
    ncol = p2.shape[1]
    above = np.sqrt((p2 * p2).sum(axis=0)) >= min(a, b) * 0.999
    bad = []
    try:
        with np.errstate(all="ignore"):
            sp = geoloc.subpoint(pts)
    except Exception as e:  # noqa
        sp = None
        bad.append(("geodetic_array_raises", None, "subpoint: %s: %s" % (type(e).__name__, str(e)[:100]), "a subpoint per column"))
    if sp is not None:
        if np.shape(sp) != before.shape:
            bad.append(("geodetic_array_shape", None, list(np.shape(sp)), "a subpoint per column: shape %s" % list(before.shape)))
        else:
            s2 = np.asarray(sp, dtype=float).reshape(3, -1)
            with np.errstate(all="ignore"):
                q, off = normal_offsets(p2, s2, a, b)
            for j in range(ncol):
                if not abs(q[j] - 1.0) <= 1e-12:
                    bad.append(("subpoint_off_ellipsoid", j, float(q[j]), "1 within 1e-12 (column %d: point %s, subpoint %s)" % (
                        j, p2[:, j].tolist(), s2[:, j].tolist())))
                elif above[j] and not off[j] <= 1e-3:
                    bad.append(("normal_distance", j, float(off[j]), "<= 1 m (column %d: point %s, subpoint %s)" % (
                        j, p2[:, j].tolist(), s2[:, j].tolist())))
    try:
        with np.errstate(all="ignore"):
            gl = geoloc.geodetic_lat(pts)
    except Exception as e:  # noqa
        gl = None
        bad.append(("geodetic_array_raises", None, "geodetic_lat: %s: %s" % (type(e).__name__, str(e)[:100]), "a latitude per column"))
    if gl is not None:
        if np.shape(gl) != before.shape[1:]:
            bad.append(("geodetic_array_shape", None, list(np.shape(gl)), "a latitude per column: shape %s" % list(before.shape[1:])))
        else:
            lat = np.asarray(gl, dtype=float).reshape(-1)
            e2 = (a * a - b * b) / (a * a)
            with np.errstate(all="ignore"):
                n__ = a / np.sqrt(1 - e2 * np.sin(lat) ** 2)
                r = np.sqrt(p2[0] ** 2 + p2[1] ** 2)
                off = np.abs((r - n__ * np.cos(lat)) * np.sin(lat) - (p2[2] - (1 - e2) * n__ * np.sin(lat)) * np.cos(lat))
            for j in range(ncol):
                if above[j] and not off[j] <= 1e-3:
                    bad.append(("latitude_normal_distance", j, float(lat[j]), "the latitude of a normal of the ellipsoid passing within "
                                "1 m of the point %s of column %d (it passes %.6g km away)" % (p2[:, j].tolist(), j, float(off[j]))))
    if not np.array_equal(np.asarray(pts), before):
        bad.append(("argument_modified", None, np.asarray(pts).tolist(), "points unchanged by the call"))
    return bad


def correspond(ctx):
    from pyorbital import geoloc
    drv = ctx.driver()
    n = ctx.size(1500, 60000)
    lines, exp = [], []
    for _ in range(n):
        vec, axis, angle, kinds, cols, layout = make_case(ctx.rng)
        ctx.bump("kinds", "/".join(kinds))
        ctx.bump("layouts", "/".join(layout))
        try:
            out = geoloc.qrotate(vec, axis, angle)
        except Exception as e:  # noqa
            ctx.disagree("qrotate-raises", {"kinds": kinds, "layout": layout}, type(e).__name__ + ": " + str(e)[:80],
                         "a rotated array")
            continue
        if out.shape != vec.shape:
            ctx.disagree("qrotate-shape", {"kinds": kinds, "layout": layout}, list(out.shape), list(vec.shape))
            continue
        o2 = out.reshape(3, -1)
        for j, (v, k, a) in enumerate(cols):
            lines.append("qrot " + " ".join(lib.f2h(x) for x in list(v) + list(k) + [a]))
            exp.append((kinds, v, k, a, o2[:, j], layout))
    outs = drv.run_parallel(lines)
    for (kinds, v, k, a, got, layout), o in zip(exp, outs):
        ctx.count("eval_corr_qrotate")
        ctx.distinct((kinds, tuple(v), a))
        m = np.array([lib.h2f(x) for x in o.split()])
        scale = float(np.linalg.norm(v))
        if not np.all(np.abs(m - got) <= 1e-12 * scale + 1e-300):
            ctx.disagree("qrotate", {"kinds": kinds, "layout": layout, "v": list(v), "axis": list(k), "angle": a},
                         list(got), list(m))
    ctx.sample({"kinds": exp[0][0], "v": list(exp[0][1]), "axis": list(exp[0][2]), "angle": exp[0][3]})
    # geodetic helpers
    lines, exp = [], []
    for _ in range(ctx.size(800, 30000)):
        p, region = rpoint(ctx.rng)
        ctx.bump("corr_point_region", region)
        gl = float(geoloc.geodetic_lat(p))
        sp = geoloc.subpoint(p)
        lines.append("geodlat " + " ".join(lib.f2h(x) for x in list(p) + [geoloc.A, geoloc.B]))
        exp.append(("geodlat", p, gl))
        lines.append("subpoint " + " ".join(lib.f2h(x) for x in list(p) + [geoloc.A, geoloc.B]))
        exp.append(("subpoint", p, sp))
    outs = drv.run_parallel(lines)
    for (op, p, got), o in zip(exp, outs):
        ctx.count("eval_corr_geodetic")
        toks = o.split()
        if toks[0] == "diverged":
            ctx.disagree(op, {"point": list(p)}, "returned", "diverged")
            continue
        if op == "geodlat":
            if abs(lib.h2f(toks[0]) - got) > 1e-12:
                ctx.disagree(op, {"point": list(p)}, got, lib.h2f(toks[0]))
        else:
            m = np.array([lib.h2f(x) for x in toks])
            if not np.all(np.abs(m - got) <= 1e-8):
                ctx.disagree(op, {"point": list(p)}, list(got), list(m))


def oracle(ctx):
    from pyorbital import geoloc
    n = ctx.size(1500, 60000)
    for _ in range(n):
        vec, axis, angle, kinds, cols, layout = make_case(ctx.rng)
        ctx.count("eval_oracle")
        case = {"kinds": kinds, "layout": layout, "vector": vec.tolist(), "axis": np.asarray(axis).tolist(),
                "angle": np.asarray(angle).tolist()}
        before = [np.array(x, copy=True) for x in (vec, axis, angle)]
        try:
            out = geoloc.qrotate(vec, axis, angle)
            out_again = geoloc.qrotate(vec, axis, angle)     # the same argument objects, a second time
        except Exception as e:  # noqa
            ctx.violation("raises", case, type(e).__name__ + ": " + str(e)[:100], "rotated vectors", site="geoloc.qrotate")
            continue
        # the rotation is a function of its arguments' values: it leaves them alone and repeats itself
        if not all(np.array_equal(np.asarray(x), b) for x, b in zip((vec, axis, angle), before)):
            ctx.violation("argument_modified", case, [np.asarray(x).tolist() for x in (vec, axis, angle)],
                          "arguments unchanged by the call", site="geoloc.qrotate")
            continue
        if out_again.shape != out.shape or not np.array_equal(out_again, out):
            ctx.violation("repeat_differs", case, out_again.tolist(), out.tolist(), site="geoloc.qrotate")
            continue
        if out.shape != vec.shape:
            ctx.violation("shape", case, list(out.shape), list(vec.shape), site="geoloc.qrotate")
            continue
        o2 = out.reshape(3, -1)
        for j, (v, k, a) in enumerate(cols):
            ref = rodrigues(v, k, a)
            sc = float(np.linalg.norm(v))
            if not np.all(np.abs(o2[:, j] - ref) <= 1e-11 * sc):
                ctx.violation("rodrigues", dict(case, column=j), list(o2[:, j]), list(ref), site="geoloc.qrotate")
                break
        # additivity, identity at 0 and 2pi, axis fixed (one column, shared axis)
        v, k, a = cols[0]
        b = rangle(ctx.rng)
        r1 = geoloc.qrotate(geoloc.qrotate(v, k, a), k, b)
        r2 = geoloc.qrotate(v, k, a + b)
        sc = float(np.linalg.norm(v))
        if not np.all(np.abs(r1 - r2) <= 1e-11 * sc):
            ctx.violation("additivity", {"v": list(v), "axis": list(k), "a": a, "b": b}, list(r1), list(r2), site="geoloc.qrotate")
        for z in (0.0, 2 * math.pi):
            rz = geoloc.qrotate(v, k, z)
            if not np.all(np.abs(rz - v) <= 1e-11 * sc):
                ctx.violation("identity", {"v": list(v), "axis": list(k), "angle": z}, list(rz), list(v), site="geoloc.qrotate")
        rk = geoloc.qrotate(k, k, a)
        if not np.all(np.abs(rk - k) <= 1e-11 * np.linalg.norm(k)):
            ctx.violation("axis_fixed", {"axis": list(k), "angle": a}, list(rk), list(k), site="geoloc.qrotate")
    # geodetic helpers: subpoint on the ellipsoid; point on the geodetic normal through its subpoint within 1 m
    worst = 0.0
    for _ in range(ctx.size(1500, 60000)):
        ctx.count("eval_oracle_geodetic")
        p, region = rpoint(ctx.rng)
        ctx.bump("oracle_point_region", region)
        sp = geoloc.subpoint(p)
        a, b = geoloc.A, geoloc.B
        q = sp[0] ** 2 / a ** 2 + sp[1] ** 2 / a ** 2 + sp[2] ** 2 / b ** 2
        if abs(q - 1.0) > 1e-12:
            ctx.violation("subpoint_off_ellipsoid", {"point": list(p)}, q, "1 within 1e-12", site="geoloc.subpoint")
        nrm = np.array([sp[0] / a ** 2, sp[1] / a ** 2, sp[2] / b ** 2])
        nrm = nrm / np.linalg.norm(nrm)
        d = p - sp
        off = float(np.linalg.norm(d - nrm * float(d @ nrm)))
        worst = max(worst, off)
        if off > 1e-3 and np.linalg.norm(p) >= min(a, b) * 0.999:
            ctx.violation("normal_distance", {"point": list(p)}, off, "<= 1 m", site="geoloc.subpoint")
    ctx.note("worst distance of a point from the geodetic normal through its subpoint = %.3g km" % worst)
    # the helpers on ARRAYS of points in one call: exact polar-axis columns mixed with off-axis columns, every column judged
    for _ in range(ctx.size(600, 20000)):
        pts, mix, regions = gen_point_array(ctx.rng)
        layout = pick_layout(ctx.rng, pts)
        ctx.count("eval_oracle_geodetic_array", 2 * len(regions))
        ctx.bump("oracle_point_array", "%s %d-D" % (mix, pts.ndim - 1))
        for kind, j, obs, req in point_array_probe(pts, layout)[:3]:
            ctx.violation(kind, {"points": pts.tolist(), "points_layout": layout, "column": j}, obs, req,
                          site="geoloc.geodetic_lat" if kind.startswith("latitude") else "geoloc.subpoint")
    # a few rotations of more than 262144 columns per run, every column against Rodrigues
    for _ in range(ctx.size(4, 24) + (4 if ctx.intensified else 0)):
        spec = gen_large_spec(ctx.rng)
        bad, ncol = large_probe(spec)
        ctx.count("eval_oracle_large_columns", ncol)
        ctx.bump("large_kinds", "%d-D/%s/%s" % (len(spec["shape"]), spec["akind"], spec["gkind"]))
        for kind, j, obs, req in bad[:3]:
            ctx.violation(kind, {"large": spec, "column": j}, obs, req, site="geoloc.qrotate")


def match_known(entry, v):
    return False


def replay(ctx, case):
    """Re-evaluate the recorded rotation (Rodrigues by minus the angle per column, shape, arguments untouched, repeatable;
    the arguments rebuilt with the recorded kinds and memory layouts) or the recorded point of the geodetic helpers."""
    from pyorbital import geoloc
    inp = case.get("input", case)
    if "large" in inp:
        bad, ncol = large_probe(inp["large"])
        print("large rotation", inp["large"], "(%d columns)" % ncol)
        for b in bad[:4]:
            print("  %s column %s: %s, required %s" % (b[0], b[1], b[2], str(b[3])[:400]))
        return 1 if bad else 0
    if "points" in inp:
        bad = point_array_probe(np.array(inp["points"], dtype=float), inp.get("points_layout", "C"))
        for b in bad[:6]:
            print("  %s column %s: %s, required %s" % b)
        return 1 if bad else 0
    if "point" in inp:
        p = np.array(inp["point"], dtype=float)
        sp = geoloc.subpoint(p)
        a, b = geoloc.A, geoloc.B
        q = float(sp[0] ** 2 / a ** 2 + sp[1] ** 2 / a ** 2 + sp[2] ** 2 / b ** 2)
        n = np.array([sp[0] / a ** 2, sp[1] / a ** 2, sp[2] / b ** 2])
        n = n / np.linalg.norm(n)
        d = p - sp
        off = float(np.linalg.norm(d - (d @ n) * n))
        print("subpoint", list(sp), "ellipsoid eq", q, "distance from the normal km", off)
        return 1 if (abs(q - 1) > 1e-12 or (off > 1e-3 and np.linalg.norm(p) >= min(a, b) * 0.999)) else 0
    if "vector" not in inp:
        if "v" in inp and "a" in inp and "b" in inp:
            v, k = np.array(inp["v"], dtype=float), np.array(inp["axis"], dtype=float)
            r1 = geoloc.qrotate(geoloc.qrotate(v, k, inp["a"]), k, inp["b"])
            r2 = geoloc.qrotate(v, k, inp["a"] + inp["b"])
            return 1 if not np.all(np.abs(r1 - r2) <= 1e-11 * np.linalg.norm(v)) else 0
        if "v" in inp and "angle" in inp:
            v, k = np.array(inp["v"], dtype=float), np.array(inp["axis"], dtype=float)
            return 1 if not np.all(np.abs(geoloc.qrotate(v, k, inp["angle"]) - v) <= 1e-11 * np.linalg.norm(v)) else 0
        if "axis" in inp and "angle" in inp:
            k = np.array(inp["axis"], dtype=float)
            return 1 if not np.all(np.abs(geoloc.qrotate(k, k, inp["angle"]) - k) <= 1e-11 * np.linalg.norm(k)) else 0
        print(inp)
        return 0
    vec = np.array(inp["vector"], dtype=float)
    axis = np.array(inp["axis"], dtype=float)
    angle = np.array(inp["angle"], dtype=float) if isinstance(inp["angle"], list) else float(inp["angle"])
    gkind = (list(inp.get("kinds") or []) + [None] * 3)[2]
    if not isinstance(angle, np.ndarray) and gkind in ("npscalar", "0-d"):
        angle = np.float64(angle) if gkind == "npscalar" else np.array(angle)
    # the recorded memory layout of each argument (values and shapes are those recorded)
    layout = list(inp.get("layout") or ["C", "C", "C"])
    vec, axis, angle = [apply_layout(x, nm) for x, nm in zip((vec, axis, angle), layout)]
    print("kinds", inp.get("kinds"), "layout", layout)
    before = [np.array(x, copy=True) for x in (vec, axis, angle)]
    try:
        out = geoloc.qrotate(vec, axis, angle)
        again = geoloc.qrotate(vec, axis, angle)
    except Exception as e:  # noqa
        print("raises", e)
        return 1
    bad = out.shape != vec.shape
    bad = bad or not all(np.array_equal(np.asarray(x), b) for x, b in zip((vec, axis, angle), before))
    bad = bad or again.shape != out.shape or not np.array_equal(again, out)
    if not bad:
        v2 = before[0].reshape(3, -1)
        n = v2.shape[1]
        ax2 = before[1].reshape(3, -1)
        an = np.broadcast_to(np.asarray(before[2], dtype=float).ravel(), (n,)) if np.asarray(before[2]).size in (1, n) else None
        o2 = out.reshape(3, -1)
        for j in range(n):
            k = ax2[:, j] if ax2.shape[1] == n else ax2[:, 0]
            a_ = float(an[j]) if an is not None else float(np.asarray(before[2]).ravel()[0])
            ref = rodrigues(v2[:, j], k, a_)
            if not np.all(np.abs(o2[:, j] - ref) <= 1e-11 * np.linalg.norm(v2[:, j])):
                bad = True
    print("qrotate case:", "violated" if bad else "holds")
    return 1 if bad else 0
