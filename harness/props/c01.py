"""C01 — propagated position/velocity conform to the published SGP4 near-earth model."""
import datetime as dt
import warnings
import math
import os

import numpy as np

import lib
import sgp4io
import tlegen

ID = "C01"
LEAN_TARGETS = ["PV.Props.C01"]
# further files of property theorems (all are obligations): convergence / root-closeness stretch theorems
EXTRA_PROPS = ['PV.Props.C01Kepler', 'PV.Props.Pipeline']
# T-C tie (DESIGN 2.3): kernels traced from the current source are proved equal to the model over the reals
EQUIV = {'PV.Equiv.Look': ['kep2xyz_eq']}
import symtrace_sgp4  # noqa: E402  (static lists of the SGP4 stage-equivalence theorems)
EQUIV.update(symtrace_sgp4.EQUIV_SGP4)
RULE = ("element sets from the structured TLE generator (regimes: operational LEO, near-earth incl. e<=1e-4, i near 0/180, "
        "critical inclination, negative/large B*, plus every field over its printable range) and the repo's own test TLEs; "
        "epochs at the edges of the range 1969-2056 (two-digit years 69, 70, 99, 00, 01, 55, 56 each drawn explicitly, day of year at "
        "both ends of the year, leap day, day after February); times epoch + {0, <=1 d, <=60 d, ends of the +-60 d window} in every "
        "representation (datetime64[ns|us|ms|s], naive, UTC-aware, offset-aware), measured from the epoch as PRINTED (civil year by "
        "the TLE convention 57-99 -> 19xx, 00-56 -> 20xx, decoded by the harness, not by pyorbital); every named intermediate of initialisation and propagation is compared "
        "(model driver vs pyorbital) at 1e-11 relative; the oracle compares pyorbital with the published model "
        "(Spec.Str3 on Float) at 1 mm / 1 um/s where a/a0 in [1/2, 2]; the `normalize` flag in every truthy / falsy spelling "
        "(True/False, numpy booleans as returned by comparisons, 0/1 as Python and numpy integers, 0-d boolean array, None, "
        "omitted) given by keyword and by position, for scalar and array times: truthy -> state / (6378.135, 106.30225), falsy -> "
        "the km state; constructor arguments by keyword / position / numpy strings; distinct = (tle text, minutes)")
ASSUMPTIONS = ["IEEE-754 rounding and libm/numpy ulp differences are not modelled by the real-number theorems; the 1 mm, "
               "1 um/s and 5 mm tolerances are measured on the sampled inputs, not proved",
               "Spec.Str3 is transcribed from Spacetrack Report #3 / AIAA-2006-6753 (text not available offline) and "
               "validated against the AIAA vectors shipped in pyorbital/tests/aiaa_results"]
TRUSTED = ["model PV.Model.Sgp4 (hand-written after orbital.py, constants and guard thresholds regenerated from the source)",
           "spec PV.Spec.Str3"]
LEVEL_TEXT = ("Theorems over the reals: every initialisation coefficient of the model equals the Spacetrack-Report-#3 formula; "
              "the propagated state equals the report's state at the model's Kepler iterate; early exit of the Kepler loop "
              "bounds the residual; normalised output = state / (6378.135 km, 106.30225 km/s); answers imply NEAR_NORM "
              "(perigee >= 220 km, period < 225 min) and the simplified-drag formulas equal the report's branch. The model is "
              "tied to orbital.py by comparing all ~75 named intermediates per (TLE, time) at 1e-11 and by regenerating "
              "constants/thresholds from the source, and by the T-C tie: every stage of OrbitElements.__init__, _SGDP4Base.__init__, "
              "_Keplerians.calculate (all Newton passes) and get_position traced from the source equals the model's stage for all "
              "real inputs (169 theorems, PV.Equiv.Sgp4*). Kepler's equation has exactly one root and the returned anomaly is within "
              "1e-12/(1-e_L) of it whenever the loop exits through its test; for e_L <= 0.2 it always does (PV.Props.C01Kepler). "
              "PV.Props.Pipeline composes text decoding, refusals, time arithmetic and propagation: every pair of lines is "
              "rejected, refused with a stated class, or answered with the Str3 state of the PRINTED elements. "
              "Float tolerances (1 mm, 1 um/s, AIAA 5 mm) are measured, not proved.")
LEVEL_NOTE = ("Trusted: Lean kernel + Mathlib reals; propext/Classical.choice/Quot.sound; hand-written model and its "
              "correspondence harness; transcription of the published equations; binary64 rounding is outside the theorems.")
TECHNIQUE = "Lean 4 proof (model = published equations over R, ring/field_simp) + differential correspondence on all intermediates + spec-on-Float oracle"


EDGE_YEARS = [69, 70, 99, 0, 1, 55, 56]           # both ends of the quantified range 1969-2056 and the century turn
LEAP_YEARS = [72, 96, 0, 4, 52, 56]               # 1972, 1996, 2000 (divisible by 400), 2004, 2052, 2056
DAY_KINDS = ["first", "first_frac", "last_frac", "last_end", "leap_day", "day_after_feb", "mid"]


def civil_year(yy):
    """The civil year a printed two-digit epoch year denotes under the TLE convention (57-99 -> 19xx, 00-56 -> 20xx)."""
    return 1900 + yy if yy >= 57 else 2000 + yy


def edge_epoch_fields(rng, k):
    """Printed epoch fields for the k-th member of the epoch-edge family: the two-digit years at the edges of the
    quantified range (each drawn explicitly, in turn) and leap years, with the day of year at both ends of the year,
    on the leap day and on the day after February."""
    nk = len(DAY_KINDS)
    if k < len(EDGE_YEARS) * nk:
        yy, kind = EDGE_YEARS[k % len(EDGE_YEARS)], DAY_KINDS[(k // len(EDGE_YEARS)) % nk]
    else:
        yy, kind = rng.choice(EDGE_YEARS + LEAP_YEARS), rng.choice(DAY_KINDS)
    year = civil_year(yy)
    leap = year % 4 == 0 and (year % 100 != 0 or year % 400 == 0)
    ndays = 366 if leap else 365
    frac = "%08d" % rng.randrange(10 ** 8)
    if kind == "first":
        day, frac = 1, "00000000"
    elif kind == "first_frac":
        day = 1
    elif kind == "last_frac":
        day = ndays
    elif kind == "last_end":
        day, frac = ndays, "99999999"
    elif kind == "leap_day":
        day = 60                                  # 29 February of a leap year, 1 March otherwise
    elif kind == "day_after_feb":
        day = 61 if leap else 60
        frac = rng.choice(["00000000", frac])
    else:
        day = rng.randrange(1, ndays + 1)
    ed = "%03d.%s" % (day, frac)
    if rng.random() < 0.3:
        ed = "%3d.%s" % (day, frac)               # blank-padded day of year, as some sources print it
    return {"epoch_year": "%02d" % yy, "epoch_day": ed}, "%02d/%s" % (yy, kind)


def gen_cases(ctx, n):
    cases = [(l1, l2) for (_, l1, l2) in tlegen.REAL_TLES]
    regimes = ["near"] * 5 + ["leo"] * 3 + ["any"] * 2
    # epochs at the EDGES of the quantified range (years 69, 70, 99, 00, 01, 55, 56 x day-of-year kinds), on top of n
    for k in range(ctx.size(len(EDGE_YEARS) * len(DAY_KINDS), 600)):
        ov, kind = edge_epoch_fields(ctx.rng, k)
        _, l1, l2 = tlegen.random_tle(ctx.rng, ctx.rng.choice(["near", "near", "leo"]), overrides=ov)
        ctx.bump("epoch_edge_year", kind[:2])
        ctx.bump("epoch_edge_day", kind[3:])
        cases.append((l1, l2))
    n += len(cases) - len(tlegen.REAL_TLES)
    while len(cases) < n:
        if ctx.rng.random() < 0.05:
            # "any B*": a drag term printed with a POSITIVE exponent (|B*| >= 1) on an orbit high enough to stay accepted
            ov = {"mmotion": "%11.8f" % ctx.rng.uniform(11.0, 12.6), "ecc": "%07d" % ctx.rng.randrange(1000, 200000),
                  "bstar": ctx.rng.choice([" ", "-", "+"]) + "%05d" % ctx.rng.randrange(10000, 99999) + "+" + ctx.rng.choice("112")}
            _, l1, l2 = tlegen.random_tle(ctx.rng, "near", overrides=ov)
            ctx.bump("threshold_family", "bstar_positive_exponent")
        elif ctx.rng.random() < 0.12:
            # element sets hugging the 220 km / 225 min (and 156 / 98 km) thresholds: which branch answers, if any
            ov, kind = tlegen.threshold_fields(ctx.rng)
            _, l1, l2 = tlegen.random_tle(ctx.rng, "near", overrides=ov)
            ctx.bump("threshold_family", kind)
        else:
            _, l1, l2 = tlegen.random_tle(ctx.rng, ctx.rng.choice(regimes))
        cases.append((l1, l2))
    return cases[:max(n, len(tlegen.REAL_TLES))]


def gen_ts(ctx):
    """minutes since epoch that are exact multiples of a microsecond (so every time representation can carry them)"""
    r = ctx.rng
    return [0.0, r.randrange(-86400 * 10 ** 6, 86400 * 10 ** 6) / 60e6,
            r.randrange(-60 * 86400 * 10 ** 6, 60 * 86400 * 10 ** 6) / 60e6]


def regime_of(im):
    if im["init"] != "ok":
        return im["init"]
    p = im["params"]
    per = p["perigee"]
    band = "p<220" if per < 220 else "p<400" if per < 400 else "p<1500" if per < 1500 else "p>=1500"
    e = im["elements"]["eo"]
    eb = "e<=1e-4" if e <= 1e-4 else "e<0.01" if e < 0.01 else "e<0.3" if e < 0.3 else "e>=0.3"
    return "%s/%s/%s" % (p["mode"], band, eb)


def correspond(ctx):
    n = ctx.size(300, 8000)
    drv = ctx.driver()
    cases = gen_cases(ctx, n)
    impls, lines, tss = [], [], []
    for (l1, l2) in cases:
        ts = gen_ts(ctx)
        norm = ctx.rng.random() < 0.3
        im = sgp4io.impl_trace(l1, l2, ts, normalize=norm)
        impls.append(im)
        tss.append(ts)
        lines.append(sgp4io.model_line(im["tle_nums"], ts, normalize=norm))
    outs = drv.run_parallel(lines)
    for (l1, l2), ts, im, o in zip(cases, tss, impls, outs):
        m = sgp4io.parse_model(o)
        bad = sgp4io.compare(im, m)
        ctx.count("eval_corr", 1 + len(ts))
        ctx.bump("regime", regime_of(im))
        for st in im["steps"]:
            ctx.bump("step_outcome", st["prop"])
        for t in ts:
            ctx.distinct((l1, l2, t))
        if bad:
            ctx.disagree("sgp4", {"line1": l1, "line2": l2, "ts": ts}, [b[2] for b in bad[:6]], [b[3] for b in bad[:6]],
                         note="; ".join("%s.%s" % (b[0], b[1]) for b in bad[:6]))
    ctx.sample({"line1": cases[0][0], "line2": cases[0][1], "ts": tss[0]})
    ctx.sample({"line1": cases[-1][0], "line2": cases[-1][1], "ts": tss[-1]})
    correspond_time(ctx)


def correspond_time(ctx):
    """minutes-since-epoch for every time representation: integer model vs numpy."""
    from pyorbital import dt2np
    drv = ctx.driver()
    n = ctx.size(200, 5000)
    lines, exp = [], []
    for _ in range(n):
        epoch_us = ctx.rng.randrange(-31536000 * 10 ** 6, 2713824000 * 10 ** 6)   # 1969 .. 2056
        off = ctx.rng.randrange(-60 * 86400 * 10 ** 6, 60 * 86400 * 10 ** 6)
        t_us = epoch_us + off
        epoch = np.datetime64(epoch_us, "us")
        for unit, div in (("us", 1), ("ms", 1000), ("s", 10 ** 6), ("ns", None)):
            if unit == "ns":
                ticks = t_us * 1000 + ctx.rng.randrange(1000)
            else:
                ticks = t_us // div
            t = np.datetime64(ticks, unit)
            ts = float((dt2np(t) - epoch) / np.timedelta64(1, "m"))
            lines.append("tsince %s %d %d" % (unit, ticks, epoch_us))
            exp.append((unit, ticks, epoch_us, ts))
        # python datetime
        pyt = dt.datetime(1970, 1, 1) + dt.timedelta(microseconds=t_us)
        ts = float((dt2np(pyt) - epoch) / np.timedelta64(1, "m"))
        lines.append("tsince us %d %d" % (t_us, epoch_us))
        exp.append(("datetime", t_us, epoch_us, ts))
        # the same instant as a time-zone-aware datetime (UTC and another offset): numpy converts it to UTC
        off_min = ctx.rng.choice([0, 60, -480, 330, 765])
        try:
            aware = pyt.replace(tzinfo=dt.timezone.utc).astimezone(dt.timezone(dt.timedelta(minutes=off_min)))
        except (OverflowError, ValueError):
            aware = None
        if aware is not None:
            with warnings.catch_warnings():
                warnings.simplefilter("ignore")
                ts = float((dt2np(aware) - epoch) / np.timedelta64(1, "m"))
            lines.append("tsince us %d %d" % (t_us, epoch_us))
            exp.append(("aware%+d" % off_min, t_us, epoch_us, ts))
    outs = drv.run(lines)
    for (unit, ticks, ep, ts), o in zip(exp, outs):
        ctx.count("eval_corr_time")
        mv = lib.h2f(o)
        if mv != ts:
            ctx.disagree("tsince", {"unit": unit, "ticks": ticks, "epoch_us": ep}, ts, mv)


def aiaa_vectors():
    """(satnum, line1, line2, [(minutes, pos, vel)]) from SGP4-VER.TLE and the single result file `aiaa_results`."""
    base = os.path.join(lib.REPO, "pyorbital", "tests")
    tlepath = os.path.join(base, "SGP4-VER.TLE")
    respath = os.path.join(base, "aiaa_results")
    if not (os.path.exists(tlepath) and os.path.isfile(respath)):
        return []
    results = {}
    cur = None
    for row in open(respath):
        if row.endswith(" xx\n"):
            try:
                cur = int(row[:-3])
            except ValueError:
                cur = None
            results.setdefault(cur, [])
            continue
        parts = row.split()
        if cur is not None and len(parts) >= 7:
            try:
                vals = [float(x) for x in parts[:7]]
            except ValueError:
                continue
            results[cur].append((vals[0], vals[1:4], vals[4:7]))
    out = []
    lines = [l.rstrip("\n") for l in open(tlepath)]
    for i in range(len(lines) - 1):
        if lines[i].startswith("1 ") and lines[i + 1].startswith("2 "):
            l1, l2 = lines[i][:69], lines[i + 1][:69]
            try:
                sat = int(l1[2:7])
            except ValueError:
                continue
            if sat in results:
                out.append((sat, l1, l2, results[sat]))
    return out


def oracle(ctx):
    """pyorbital vs the published model executed on Float; AIAA vectors; normalisation; low-perigee refusal."""
    from pyorbital import orbital, tlefile
    drv = ctx.driver() if ctx.driver_ok else None
    n = ctx.size(250, 8000)
    cases = gen_cases(ctx, n)
    lines, recs = [], []
    for (l1, l2) in cases:
        try:
            tle = tlefile.Tle("x", line1=l1, line2=l2)
            o = orbital.Orbital("x", line1=l1, line2=l2)
        except Exception:  # noqa  refusals are C13's subject
            ctx.count("oracle_refused_at_init")
            continue
        ts0 = gen_ts(ctx) + [ctx.rng.randrange(-7 * 86400 * 10 ** 6, 7 * 86400 * 10 ** 6) / 60e6]
        if ctx.rng.random() < 0.25:            # the ends of the +-60 day window
            ts0.append(ctx.rng.choice([-1, 1]) * (60 * 86400 * 10 ** 6 - ctx.rng.randrange(0, 3600 * 10 ** 6)) / 60e6)
        nums = printed_elements(l1, l2)      # the elements as PRINTED in the two lines (decoded here, not by pyorbital)
        # the epoch as PRINTED (civil year of the TLE convention, decoded here); pyorbital's own only for years 57-68,
        # which lie outside the quantified range 1969-2056
        ep = epoch_of(o, l1)
        ctx.bump("epoch_source", "printed" if printed_epoch_us(l1) is not None else "library(year 57-68)")
        offs, ts = [], []
        for k, t in enumerate(ts0):
            us = int(round(t * 60e6))
            tkind = TIME_KINDS[(k + len(l1) + us) % len(TIME_KINDS)] if k else "dt64us"
            ns = snap_ns(ep, us * 1000 + (ctx.rng.randrange(1000) if tkind == "dt64ns" and k % 2 else 0), tkind)
            offs.append((ns, tkind))
            ts.append(ns / 60e9)
        lines.append("str3 " + " ".join(lib.f2h(x) for x in nums) + "".join(" " + lib.f2h(t) for t in ts))
        recs.append((l1, l2, o, ts, ep, offs))
    outs = drv.run_parallel(lines) if drv else [None] * len(lines)
    worst_p = worst_v = 0.0
    for (l1, l2, o, ts, ep, offs), out in zip(recs, outs):
        steps = out.split(" | ")[1:] if out else []
        for k, t_exact in enumerate(ts):
            ns, tkind = offs[k]
            tt = time_of(ep, ns, tkind)
            case = {"line1": l1, "line2": l2, "minutes": t_exact, "time_kind": tkind, "offset_ns": ns}
            ctx.bump("time_kind", tkind)
            try:
                with warnings.catch_warnings():
                    warnings.simplefilter("ignore")      # numpy: datetime64 has no time zone (aware datetimes are converted to UTC)
                    pos, vel = o.get_position(tt, normalize=False)
            except NotImplementedError:
                ctx.count("oracle_notimpl")
                continue
            except Exception:  # noqa decay etc.
                ctx.count("oracle_decay_exc")
                continue
            ctx.count("eval_oracle")
            if not (np.all(np.isfinite(pos)) and np.all(np.isfinite(vel))):
                ctx.violation("nonfinite", case, [list(pos), list(vel)], "finite state", site="Orbital.get_position")
                continue
            # normalised output
            with warnings.catch_warnings():
                warnings.simplefilter("ignore")
                pn, vn = o.get_position(tt, normalize=True)
            if not (np.allclose(pn * 6378.135, pos, rtol=1e-13, atol=0) and np.allclose(vn * 106.30225, vel, rtol=1e-13, atol=0)):
                ctx.violation("normalisation", case, [list(pn), list(vn)], "state/(6378.135, 106.30225)", site="Orbital.get_position")
            if out is None:
                continue
            vals = [lib.h2f(x) for x in steps[k].split()[:7]]
            simp = steps[k].split()[7] == "1"
            ratio = vals[6]
            sp = np.array(vals[0:3])
            sv = np.array(vals[3:6])
            dtmin = 0.0
            slack_p = 0.0
            dp = np.linalg.norm(pos - sp)
            dv = np.linalg.norm(vel - sv)
            if simp:
                ctx.violation("answered_below_220km", case, "answered", "refuse, or follow simplified-drag branch",
                              site="_SGDP4.propagate") if dp > 1e-6 + slack_p else None
                continue
            if 0.5 <= ratio <= 2.0:
                worst_p = max(worst_p, dp - slack_p)
                worst_v = max(worst_v, dv)
                if dp > 1e-6 + slack_p + 1e-9:
                    ctx.violation("position_vs_str3", case, {"impl": list(pos), "spec": list(sp), "diff_km": dp},
                                  "|dr| <= 1 mm", site="Orbital.get_position")
                elif dv > 1e-9 + 2e-3 * dtmin:
                    ctx.violation("velocity_vs_str3", case, {"impl": list(vel), "spec": list(sv), "diff_kms": dv},
                                  "|dv| <= 1 um/s", site="Orbital.get_position")
            else:
                ctx.count("oracle_outside_a_ratio")
    ctx.note("worst |dr| vs Spec.Str3 = %.3g km, worst |dv| = %.3g km/s" % (worst_p, worst_v))
    # the answer is a function of (elements, instant): array-valued times, re-used and updated in place between queries
    for (l1, l2, o, ts, ep, offs) in recs[:ctx.size(25, 400)]:
        ctx.bump("sequence_probe", seq_probe(ctx, l1, l2, [ts[1], ts[1] + 1.5, ts[1] + 7.0], ctx.rng.choice([90.0, 600.0, 5.0]), o))
    # the normalised output is the same state / (6378.135 km, 106.30225 km/s) for every truthy spelling of the flag, the km
    # state for every falsy one; keyword / positional arguments; scalar and array times; constructor spellings
    for j, (l1, l2, o, ts, ep, offs) in enumerate(recs[:ctx.size(40, 600)]):
        ns, tkind = offs[ctx.rng.randrange(len(offs))]
        ctor = CTOR_FORMS[(j // 2) % len(CTOR_FORMS)]
        for array_n in (0, ctx.rng.choice([1, 2, 3, 5])):
            r_ = flag_probe(ctx, l1, l2, ns, tkind, array_n, ctor)
            ctx.bump("flag_probe", "%s/%s/%s" % (r_, "array" if array_n else "scalar", ctor))
    # array-valued times spanning whole revolutions on eccentric orbits: each element conforms on its own
    if drv:
        done = 0
        edge_done = 0
        for (l1, l2, o, ts, ep, offs) in recs:
            if done >= ctx.size(12, 150):
                break
            if float(o.tle.excentricity) < 0.02:
                # ... and a few arrays on the epoch-edge family whatever the eccentricity
                if not (edge_done < ctx.size(4, 40) and int(l1[18:20]) in (69, 0, 56)):
                    continue
                edge_done += 1
            else:
                done += 1
            ctx.bump("array_probe", array_probe(ctx, drv, l1, l2, ctx.rng.uniform(-3000.0, 3000.0), o))
    # AIAA vectors
    worst = 0.0
    for sat, l1, l2, vecs in aiaa_vectors():
        try:
            o = orbital.Orbital("x", line1=l1, line2=l2)
        except Exception:  # noqa
            continue
        for (mins, p, v) in vecs:
            tt = epoch_of(o, l1) + np.timedelta64(int(round(mins * 60e6)), "us")
            try:
                pos, vel = o.get_position(tt, normalize=False)
            except Exception:  # noqa
                continue
            ctx.count("eval_oracle_aiaa")
            dp = float(np.linalg.norm(pos - np.array(p)))
            worst = max(worst, dp)
            if dp > 5e-6 + 1.5e-8:   # file prints 8 decimals of km
                ctx.violation("aiaa_vector", {"line1": l1, "line2": l2, "minutes": mins},
                              {"impl": list(pos), "aiaa": p, "diff_km": dp}, "<= 5 mm", site="Orbital.get_position")
    ctx.note("worst |dr| vs AIAA vectors = %.3g km" % worst)


def printed_elements(l1, l2):
    """[e, i, raan, argp, M, n, B*] decoded from the standard columns, independently of pyorbital's parser."""
    bs = l1[53:61]
    mant = int(bs[1:6])
    bstar = (-1.0 if bs[0] == "-" else 1.0) * float("0.%05d" % mant) * 10.0 ** int(bs[6:8].replace(" ", "") or 0)
    return [float("0." + l2[26:33].replace(" ", "0")), float(l2[8:16]), float(l2[17:25]), float(l2[34:42]), float(l2[43:51]),
            float(l2[52:63]), bstar]


def printed_epoch_us(l1):
    """The epoch PRINTED in line 1 as exact integer microseconds since 1970-01-01T00:00 UTC, decoded here independently of
    pyorbital: civil year by the TLE convention (57-99 -> 19xx, 00-56 -> 20xx), 1 January + (day of year - 1); the eight
    printed decimals of a day are a whole number of 864 us.  None for the years 57-68 (outside the range 1969-2056 the
    property quantifies over; pyorbital reads them as 2057-2068) and for a field that is not `yy` + `ddd.dddddddd`."""
    yy, fld = l1[18:20], l1[20:32]
    ip, _, fp = fld.partition(".")
    if not (yy.isdigit() and ip.strip().isdigit() and len(fp) == 8 and fp.isdigit()):
        return None
    if 57 <= int(yy) <= 68:
        return None
    jan1 = (dt.date(civil_year(int(yy)), 1, 1) - dt.date(1970, 1, 1)).days
    return (jan1 + int(ip) - 1) * 86400 * 10 ** 6 + int(fp) * 864


def epoch_of(o, l1):
    """datetime64[us] of the element set's epoch: as printed (see printed_epoch_us); the library's own reading only where
    the property does not fix the century."""
    us = printed_epoch_us(l1)
    return o.tle.epoch.astype("datetime64[us]") if us is None else np.datetime64(us, "us")


def snap_ns(epoch, ns, kind):
    """offset (ns since epoch) moved down to the grid of the time representation `kind` (absolute grid: ms / s kinds)"""
    grid = {"dt64ns": 1, "dt64ms": 10 ** 6, "dt64s": 10 ** 9}.get(kind, 1000)
    ep_ns = int(epoch.astype("datetime64[us]").astype("int64")) * 1000
    return (ep_ns + ns) // grid * grid - ep_ns


def time_of(epoch, ns, kind):
    """The instant epoch + ns nanoseconds in one of the time representations the API accepts (ns on the kind's grid)."""
    t64 = epoch.astype("datetime64[us]") + np.timedelta64(ns // 1000, "us")
    if kind == "dt64us":
        return t64
    if kind == "dt64ns":
        return epoch.astype("datetime64[ns]") + np.timedelta64(ns, "ns")
    if kind == "dt64ms":
        return t64.astype("datetime64[ms]")
    if kind == "dt64s":
        return t64.astype("datetime64[s]")
    naive = t64.astype(object)
    if kind == "datetime":
        return naive
    if kind == "aware_utc":
        return naive.replace(tzinfo=dt.timezone.utc)
    return naive.replace(tzinfo=dt.timezone.utc).astimezone(dt.timezone(dt.timedelta(minutes=330 if kind == "aware+0530" else -480)))


TIME_KINDS = ["dt64us", "dt64us", "datetime", "aware_utc", "aware+0530", "aware-0800", "dt64ns", "dt64ms", "datetime", "dt64s", "dt64ns"]


def array_probe(ctx, drv, l1, l2, start_min, o=None, n=180, step_min=1.5):
    """get_position for an ARRAY of n instants (a 1.5-minute grid, i.e. several revolutions) against the published model
    evaluated per instant: 1 mm / 1 um/s per element (where the model keeps a within a factor two of its epoch value)."""
    from pyorbital import orbital
    o = o or orbital.Orbital("x", line1=l1, line2=l2)
    mins = [start_min + k * step_min for k in range(n)]
    us = [int(round(m * 60e6)) for m in mins]
    arr = epoch_of(o, l1) + np.array(us, dtype="int64").astype("timedelta64[us]")
    try:
        pos, vel = o.get_position(arr, normalize=False)
    except Exception:  # noqa  refusals/decay: C13
        return "refused"
    nums = sgp4io.tle_nums(o.tle)
    out = drv.run(["str3 " + " ".join(lib.f2h(x) for x in nums) + "".join(" " + lib.f2h(u / 60e6) for u in us)])[0]
    steps = out.split(" | ")[1:]
    for i in range(n):
        ctx.count("eval_oracle_array")
        vals = [lib.h2f(x) for x in steps[i].split()[:7]]
        if steps[i].split()[7] == "1" or not (0.5 <= vals[6] <= 2.0):
            continue
        dp = float(np.linalg.norm(np.asarray(pos)[:, i] - np.array(vals[0:3])))
        dv = float(np.linalg.norm(np.asarray(vel)[:, i] - np.array(vals[3:6])))
        if dp > 1e-6 + 1e-9 or dv > 1e-9 + 1e-12:
            ctx.violation("array_position_vs_str3", {"line1": l1, "line2": l2, "array_start_min": start_min, "n": n, "step_min": step_min, "index": i},
                          {"impl": list(np.asarray(pos)[:, i]), "spec": vals[0:3], "diff_km": dp, "diff_kms": dv},
                          "|dr| <= 1 mm and |dv| <= 1 um/s for every element of an array of times", site="Orbital.get_position")
            return "violated"
    return "ok"


def seq_probe(ctx, l1, l2, mins, step_s, o=None):
    """One Orbital object queried with a time ARRAY, the array advanced in place, queried again (three times): each answer
    must be the state at the array's current instants, i.e. equal what a fresh object returns for fresh scalar times."""
    from pyorbital import orbital
    o = o or orbital.Orbital("x", line1=l1, line2=l2)
    arr = np.array([epoch_of(o, l1) + np.timedelta64(int(round(m * 60e6)), "us") for m in mins], dtype="datetime64[us]")
    step = np.timedelta64(int(round(step_s * 1e6)), "us")
    for rnd in range(3):
        try:
            pos, vel = o.get_position(arr, normalize=False)
        except Exception:  # noqa  refusals are C13's subject
            return "refused"
        fresh = orbital.Orbital("x", line1=l1, line2=l2)
        for i in range(len(arr)):
            ctx.count("eval_oracle_sequence")
            try:
                p1, v1 = fresh.get_position(arr[i].astype("datetime64[us]").astype(object), normalize=False)
            except Exception:  # noqa
                continue
            dp = float(np.linalg.norm(np.asarray(pos)[:, i] - p1))
            dv = float(np.linalg.norm(np.asarray(vel)[:, i] - v1))
            if not (dp <= 1e-6 and dv <= 1e-9):
                ctx.violation("stale_or_history_dependent", {"line1": l1, "line2": l2, "minutes_list": list(mins), "step_s": step_s,
                                                            "round": rnd, "index": i},
                              {"array_query": [list(np.asarray(pos)[:, i]), list(np.asarray(vel)[:, i])], "diff_km": dp, "diff_kms": dv},
                              "state at the instant now held by the array (fresh object, scalar time): %r" % [list(p1), list(v1)],
                              site="Orbital.get_position")
                return "violated"
        arr += step
    return "ok"


_OMITTED = object()
# Every spelling of the `normalize` flag whose truth value Python defines unambiguously (bool(x) is what `if x:` tests):
# the two singletons, numpy's booleans (what any numpy comparison / np.all / np.any returns), Python and numpy integers
# 0/1, a 0-d boolean array, None, and the flag left out (documented default: normalised).  (name, factory, truthy)
FLAG_SPELLINGS = [
    ("True", lambda: True, True), ("False", lambda: False, False),
    ("np.True_", lambda: np.True_, True), ("np.False_", lambda: np.False_, False),
    ("np.bool_(True)", lambda: np.bool_(True), True), ("np.bool_(False)", lambda: np.bool_(False), False),
    ("numpy comparison, true", lambda: np.float64(850.0) > 0, True), ("numpy comparison, false", lambda: np.float64(850.0) < 0, False),
    ("np.all(...) true", lambda: np.all(np.array([1.0, 2.0]) > 0), True), ("np.any(...) false", lambda: np.any(np.array([1.0, 2.0]) < 0), False),
    ("1", lambda: 1, True), ("0", lambda: 0, False),
    ("np.int64(1)", lambda: np.int64(1), True), ("np.int64(0)", lambda: np.int64(0), False),
    ("np.int32(1)", lambda: np.int32(1), True), ("np.uint8(1)", lambda: np.uint8(1), True), ("np.uint8(0)", lambda: np.uint8(0), False),
    ("np.array(True) 0-d", lambda: np.array(True), True), ("np.array(False) 0-d", lambda: np.array(False), False),
    ("None", lambda: None, False),
    ("omitted", lambda: _OMITTED, True),
]
CALL_FORMS = ["keyword", "positional", "all_keyword"]
CTOR_FORMS = ["keyword", "positional", "all_keyword", "np_str"]


def construct(l1, l2, form="keyword"):
    """Orbital for the two lines, the constructor's arguments spelled in one of the ways its signature
    (satellite, tle_file=None, line1=None, line2=None) allows; np_str: numpy strings (a str subclass) for Python strings."""
    from pyorbital import orbital
    if form == "positional":
        return orbital.Orbital("x", None, l1, l2)
    if form == "all_keyword":
        return orbital.Orbital(line2=l2, line1=l1, tle_file=None, satellite="x")
    if form == "np_str":
        return orbital.Orbital(np.str_("x"), line1=np.str_(l1), line2=np.str_(l2))
    return orbital.Orbital("x", line1=l1, line2=l2)


def call_get_position(o, tt, flag, form):
    """get_position(utc_time, normalize=True) with its arguments spelled as keyword / positional / all by keyword."""
    if flag is _OMITTED:
        return o.get_position(utc_time=tt) if form == "all_keyword" else o.get_position(tt)
    if form == "positional":
        return o.get_position(tt, flag)
    if form == "all_keyword":
        return o.get_position(normalize=flag, utc_time=tt)
    return o.get_position(tt, normalize=flag)


def flag_probe(ctx, l1, l2, offset_ns, tkind, array_n, ctor="keyword", only=None):
    """'The normalised output is the same state divided by 6378.135 km and 106.30225 km/s': the state the object returns for
    `normalize=False` is the km, km/s state (the one the main oracle judges against the published model); every TRUTHY
    spelling of the flag (and the flag left out) must return that state divided by (6378.135, 106.30225), every FALSY spelling
    that state itself -- to the 1e-13 relative agreement the normalisation clause of the main oracle uses -- whether the flag
    is given by keyword or by position, for a scalar time and for an array of `array_n` instants.  The constructor's arguments
    are spelled per `ctor`; the answer is a function of (elements, instant), so it must be the keyword-constructed object's
    (1 mm / 1 um/s).  only = (flag name, call form) re-evaluates one recorded combination."""
    try:
        o = construct(l1, l2, ctor)
        ref = o if ctor == "keyword" else construct(l1, l2, "keyword")
    except Exception:  # noqa  refusals are C13's subject
        return "refused"
    ep = epoch_of(ref, l1)
    if array_n:
        us = [offset_ns // 1000 + k * 97 * 10 ** 6 for k in range(array_n)]
        tt = ep + np.array(us, dtype="int64").astype("timedelta64[us]")
        tkind = "dt64us"
    else:
        tt = time_of(ep, offset_ns, tkind)
    base = {"line1": l1, "line2": l2, "offset_ns": offset_ns, "time_kind": tkind, "array_n": array_n, "ctor": ctor}
    with warnings.catch_warnings():
        warnings.simplefilter("ignore")
        try:
            rp, rv = [np.array(x, dtype=np.float64, copy=True) for x in o.get_position(tt, normalize=False)]
            kp, kv = [np.array(x, dtype=np.float64, copy=True) for x in ref.get_position(tt, normalize=False)]
        except Exception:  # noqa  decay / refusal: C13
            return "refused"
        if not (np.all(np.isfinite(rp)) and np.all(np.isfinite(rv))):
            return "nonfinite"
        if ctor != "keyword":
            ctx.count("eval_oracle_ctor_spelling")
            same = rp.shape == kp.shape and rv.shape == kv.shape
            dp = float(np.max(np.linalg.norm(rp - kp, axis=0))) if same else float("inf")
            dv = float(np.max(np.linalg.norm(rv - kv, axis=0))) if same else float("inf")
            if not (dp <= 1e-6 and dv <= 1e-9):
                ctx.violation("constructor_spelling", dict(base, flag="False", call="keyword"),
                              {"state": [rp.tolist(), rv.tolist()], "diff_km": dp, "diff_kms": dv},
                              "the state of the same element set constructed with keyword arguments: %r" % [kp.tolist(), kv.tolist()],
                              site="Orbital.__init__")
                return "violated"
        for (name, mk, truthy) in FLAG_SPELLINGS:
            for form in CALL_FORMS:
                if only is not None and (name, form) != tuple(only):
                    continue
                ctx.count("eval_oracle_flag")
                try:
                    gp, gv = call_get_position(o, tt, mk(), form)
                except Exception:  # noqa  a spelling the library declines is not a wrong answer
                    ctx.count("oracle_flag_declined")
                    continue
                gp, gv = np.asarray(gp, dtype=np.float64), np.asarray(gv, dtype=np.float64)
                sp, sv = (6378.135, 106.30225) if truthy else (1.0, 1.0)
                ok = gp.shape == rp.shape and gv.shape == rv.shape and \
                    np.allclose(gp * sp, rp, rtol=1e-13, atol=0) and np.allclose(gv * sv, rv, rtol=1e-13, atol=0)
                if not ok:
                    ctx.violation("normalisation_flag", dict(base, flag=name, call=form),
                                  {"returned": [gp.tolist(), gv.tolist()], "state_km_kms": [rp.tolist(), rv.tolist()]},
                                  ("the km, km/s state divided by (6378.135, 106.30225): the flag is true" if truthy else
                                   "the km, km/s state itself: the flag is false") + " (normalize = %s, given %s)" % (name, form),
                                  site="Orbital.get_position")
                    return "violated"
    return "ok"


def match_known(entry, v):
    m = entry.get("match", {})
    if m.get("kind") != v["kind"]:
        return False
    if "satnumber" in m:
        return v["case"].get("line1", "")[2:7] == m["satnumber"]
    return False


def replay(ctx, case):
    from pyorbital import orbital
    inp = case.get("input", case)
    if "array_start_min" in inp:
        r = array_probe(ctx, lib.Driver(), inp["line1"], inp["line2"], inp["array_start_min"], None, inp["n"], inp["step_min"])
        print("array probe:", r)
        return 1 if r == "violated" else 0
    if "flag" in inp:
        r = flag_probe(ctx, inp["line1"], inp["line2"], inp["offset_ns"], inp["time_kind"], inp["array_n"], inp.get("ctor", "keyword"),
                       only=(inp["flag"], inp["call"]))
        print("normalize-flag probe (normalize = %s, given %s, constructor %s):" % (inp["flag"], inp["call"], inp.get("ctor")), r)
        return 1 if r == "violated" else 0
    if "minutes_list" in inp:
        r = seq_probe(ctx, inp["line1"], inp["line2"], inp["minutes_list"], inp["step_s"])
        print("sequence probe:", r)
        return 1 if r == "violated" else 0
    o = orbital.Orbital("x", line1=inp["line1"], line2=inp["line2"])
    ns = inp["offset_ns"] if "offset_ns" in inp else int(round(inp["minutes"] * 60e6)) * 1000
    tt = time_of(epoch_of(o, inp["line1"]), ns, inp.get("time_kind", "dt64us"))
    print("printed epoch", epoch_of(o, inp["line1"]), "library epoch", o.tle.epoch, "time asked", repr(tt))
    with warnings.catch_warnings():
        warnings.simplefilter("ignore")
        pos, vel = o.get_position(tt, normalize=False)
    drv = lib.Driver()
    nums = printed_elements(inp["line1"], inp["line2"])
    out = drv.run(["str3 " + " ".join(lib.f2h(x) for x in nums) + " " + lib.f2h(inp["minutes"])])[0]
    vals = [lib.h2f(x) for x in out.split(" | ")[1].split()[:7]]
    dp = float(np.linalg.norm(pos - np.array(vals[:3])))
    dv = float(np.linalg.norm(vel - np.array(vals[3:6])))
    print("impl pos", list(pos), "spec pos", vals[:3], "|dr| km", dp, "|dv| km/s", dv, "a/a0", vals[6])
    return 1 if (0.5 <= vals[6] <= 2 and (dp > 1e-6 or dv > 1e-9)) else 0
