"""C02 — TLE fields are decoded exactly as encoded in their fixed columns."""
import atexit
import datetime as _dt
import io
import math
import os
import shutil
import sys
import tempfile
import traceback
from decimal import Decimal
from fractions import Fraction

import lib
import tlegen

ID = "C02"
LEAN_TARGETS = ["PV.Props.C02"]
# T-D: functions translated from the source by harness/pytrans.py, proved equal to the model (DESIGN section 0)
EQUIV = {"PV.Equiv.TranslatedParse": ["read_tle_decimal_eq", "parse_tle_eq", "init_eq_model"],
         "PV.Equiv.TranslatedInit": ["init_order", "init_lines_eq", "init_lines_eq_tleOfLines"]}
EQUIV.update({"PV.Equiv.TranslatedStr": ["filter_public", "str_eq", "str_reads_items"]})      # T-D, sixth wave
RULE = ("correspondence: Lean model (interpreter of the column table regenerated from the AST of Tle._parse_tle) vs "
        "tlefile.Tle(line1=, line2=) on (a) encoder-generated TLEs over the full printable range of every column "
        "(tlegen.full_range_fields: 3-digit angles, 5-digit revolution numbers, every sign/exponent combination, blank- or "
        "zero-padded integers, day 001..366 with fractions .00000000/.99999999, blank ephemeris, years 00-99), "
        "(b) tlegen.random_fields / REAL_TLES, (c) an epoch sweep (one base TLE, epoch year/day varied), (d) a malformed "
        "stream (characters of numeric columns replaced by letters/signs/blanks/points, truncated lines; checksum fixed up "
        "so that the parser is reached).  Strings, integers, error class and epoch microseconds compared exactly; float() "
        "attributes must be the correctly rounded double of the model's exact decimal (<= 1/2 ulp), excentricity within 1 ulp. "
        "oracle: the statement evaluated on the implementation with Python's own Decimal/Fraction of the printed text "
        "(1 ulp), integer epoch arithmetic, stripped lines; a third of the objects are then used the way callers use them "
        "(str/repr/print/format/logging, copy, deepcopy, pickle, vars/dir, attributes read twice, a sibling object from the "
        "same lines printed) and the statement is evaluated on the same object again after each use; some are judged as "
        "Orbital(...).tle before and after str(Orbital); about one object in seven is built from the two lines AND a tle_file "
        "(a StringIO or a path holding OTHER element sets under the same platform name / catalogue number and under other "
        "names) through Tle(...), tlefile.read(...) or Orbital(...), keyword or positional spelling: the statement is about "
        "the lines that were given, so the object must show THEIR columns.  A case is non-trivial when it is a distinct (line1, line2) pair; "
        "distinct = (line1, line2).")
ASSUMPTIONS = [
    "input restricted to printable ASCII (Python's Unicode digits / whitespace are outside the Text model)",
    "float-valued attributes are proved as exact decimals mant*10^exp; CPython's float() is trusted to round correctly "
    "(checked per case: |Fraction(attr) - decimal| <= ulp/2) and int(..)*10**-7 is within 1 ulp (checked per case; "
    "exhaustively over all 10^7 column values in the thorough tier)",
    "epoch: datetime.strptime('%y') pivot (00-68 -> 20yy, 69-99 -> 19yy) and timedelta(days=float) rounding are modelled "
    "as integer microseconds yearStart + (day*1e8 - 1e8)*864 for |day| <= 1000 with <= 8 decimals; the binary64 error of "
    "the day (< 0.02 us) cannot cross a rounding boundary because the exact product is an integer (checked against "
    "CPython over the whole range by the epoch sweep); other day values are counted, not compared",
    "width-1 columns of the table are index accesses line[i] (IndexError on short lines); error classes on lines shorter "
    "than 69 characters are compared as error/no-error only",
    "well-formed = PV.Spec.TleLayout.WellFormed: sign in {' ','+','-'}, exponent sign in {'+','-'}, one exponent digit, "
    "right-justified integer parts with at least one digit, day 001.00000000..366.99999999",
]
TRUSTED = [
    "model: PV.Model.TleParse (interpreter; conversions hand-written from tlefile.py:240-278), PV.Model.Text (int/float "
    "grammar), tied by exact agreement on every attribute over well-formed and malformed streams",
    "spec: PV.Spec.TleLayout (encoder, published column numbers, printed values), written independently of the parser",
    "harness/extract.py gen_tle_columns (AST -> column table)",
]

FLOAT_ATTRS = ["epoch_day", "mean_motion_derivative", "mean_motion_sec_derivative", "bstar", "inclination",
               "right_ascension", "excentricity", "arg_perigee", "mean_anomaly", "mean_motion"]
STR_ATTRS = ["satnumber", "classification", "id_launch_year", "id_launch_number", "id_launch_piece", "epoch_year"]
INT_ATTRS = ["ephemeris_type", "element_number", "orbit"]
# order of the driver's `ok` line after the two stored lines
DRV_ORDER = [("satnumber", "s"), ("classification", "s"), ("id_launch_year", "s"), ("id_launch_number", "s"),
             ("id_launch_piece", "s"), ("epoch_year", "s"), ("epoch_day", "d"), ("mean_motion_derivative", "d"),
             ("mean_motion_sec_derivative", "d"), ("bstar", "d"), ("ephemeris_type", "i"), ("element_number", "i"),
             ("inclination", "d"), ("right_ascension", "d"), ("excentricity", "d"), ("arg_perigee", "d"),
             ("mean_anomaly", "d"), ("mean_motion", "d"), ("orbit", "i")]

EPOCH0 = _dt.datetime(1970, 1, 1)


def _tlefile():
    from pyorbital import tlefile
    return tlefile


# ------------------------------------------------------------------ implementation side
def epoch_us(t):
    import numpy as np
    return int(np.datetime64(t.epoch, "us").astype("int64"))


def impl_run(l1, l2):
    """('ok', Tle) | ('rej', class) | ('err', class)"""
    tlefile = _tlefile()
    try:
        return "ok", tlefile.Tle("x", line1=l1, line2=l2)
    except tlefile.ChecksumError:
        return "rej", "checksumError"
    except Exception as e:  # noqa
        frames = [fr.name for fr in traceback.extract_tb(sys.exc_info()[2])]
        stage = "err" if "_parse_tle" in frames else "rej"
        if isinstance(e, ValueError):
            return stage, "valueError"
        if isinstance(e, IndexError):
            return stage, "indexError"
        if isinstance(e, OverflowError):
            return stage, "overflowError"
        return stage, "?" + type(e).__name__


# ------------------------------------------------------------------ exact comparison of floats
def dec_fraction(m, e):
    """m * 10^e as a Fraction; None when the magnitude is absurd (handled by the caller)."""
    if m == 0:
        return Fraction(0)
    if e > 400 or e < -800:
        return None
    return Fraction(m) * (Fraction(10) ** e)


def float_matches(py, m, e, half):
    """py (a Python float) against the exact decimal m*10^e: within ulp/2 (half=True: correctly rounded) or 1 ulp."""
    if not isinstance(py, float):
        return False
    if m == 0:
        return py == 0.0
    if e > 400:
        return math.isinf(py) and (py > 0) == (m > 0)
    if e < -800:
        return py == 0.0
    x = dec_fraction(m, e)
    if math.isinf(py):
        return abs(x) >= Fraction(2) ** 1024 - Fraction(2) ** 970 and (py > 0) == (x > 0)
    if math.isnan(py):
        return False
    u = Fraction(math.ulp(py))
    err = abs(Fraction(py) - x)
    return err <= (u / 2 if half else u)


def ulps_off(py, x):
    return float(abs(Fraction(py) - x) / Fraction(math.ulp(py))) if py == py and not math.isinf(py) else float("inf")


# ------------------------------------------------------------------ model side
def parse_drv(line):
    tok = line.split(" ")
    if tok[0] in ("rej", "err"):
        return tok[0], tok[1]
    if tok[0] != "ok":
        return "bad", line
    vals = {"line1": lib.h2s(tok[1]), "line2": lib.h2s(tok[2])}
    i = 3
    for name, kind in DRV_ORDER:
        if kind == "s":
            vals[name] = lib.h2s(tok[i]); i += 1
        elif kind == "i":
            vals[name] = int(tok[i]); i += 1
        else:
            vals[name] = (int(tok[i]), int(tok[i + 1])); i += 2
    vals["epoch_us"] = int(tok[i])
    return "ok", vals


def compare_case(ctx, l1, l2, out, tag):
    """One correspondence case; returns True when compared."""
    kind, model = parse_drv(out)
    ikind, impl = impl_run(l1, l2)
    ctx.count("eval_corr_" + tag)
    case = {"line1": l1, "line2": l2, "stream": tag}
    if kind == "bad":
        ctx.disagree("c02", case, str(impl)[:80], model, "driver output not understood")
        return False
    if kind == "err" and model == "outOfModel":
        ctx.count("out_of_model")
        return False
    if kind == "err" and model == "badTable":
        ctx.disagree("c02", case, ikind, "badTable", "the extracted column table lacks an attribute or has the wrong kind")
        return False
    short = len(l1.strip()) < 69 or len(l2.strip()) < 69
    ctx.bump("model_outcome", kind if kind != "err" else "err:" + model)
    if kind != "ok" or ikind != "ok":
        if kind != ikind:
            ctx.disagree("c02", case, "%s %s" % (ikind, impl if ikind != "ok" else ""), "%s %s" % (kind, model if kind != "ok" else ""))
        elif not short and kind == "err" and impl != model:
            ctx.disagree("c02", case, "err " + impl, "err " + model, "exception class")
        elif kind == "rej" and impl != model and not short:
            ctx.disagree("c02", case, "rej " + impl, "rej " + model, "checksum stage class")
        return True
    t = impl
    bad = []
    if t.line1 != model["line1"] or t.line2 != model["line2"]:
        bad.append(("line1/line2", (t.line1, t.line2), (model["line1"], model["line2"])))
    for a in STR_ATTRS:
        if getattr(t, a) != model[a]:
            bad.append((a, getattr(t, a), model[a]))
    for a in INT_ATTRS:
        v = getattr(t, a)
        if not isinstance(v, int) or v != model[a]:
            bad.append((a, v, model[a]))
    for a in FLOAT_ATTRS:
        v = getattr(t, a)
        m, e = model[a]
        if not float_matches(v, m, e, half=(a != "excentricity")):
            bad.append((a, repr(v), "%d*10^%d" % (m, e)))
    eu = epoch_us(t)
    if eu != model["epoch_us"]:
        bad.append(("epoch_us", eu, model["epoch_us"]))
    for (a, got, want) in bad:
        ctx.disagree("c02", dict(case, attribute=a), got, want)
    return True


# ------------------------------------------------------------------ generators
def wrap_ws(rng, line):
    if rng.random() < 0.25:
        return rng.choice(["", " ", "  ", "\t"]) + line + rng.choice(["", " ", "\n", " \r\n", "  "])
    return line


MUT_CHARS = "ABZabzeE+-. _xX,:/0123456789     "


def malformed(rng, l1, l2):
    """Corrupt numeric columns / truncate, then fix the checksum so that the parser is reached."""
    lines = [l1, l2]
    r = rng.random()
    w = rng.randrange(2)
    s = lines[w][:68]
    if r < 0.25:
        # truncated line
        cut = rng.choice([rng.randrange(1, 68), rng.randrange(50, 68), rng.randrange(1, 25)])
        s = s[:cut]
        if s.strip() == "":
            s = "1"
    else:
        n = rng.choice([1, 1, 1, 2, 3])
        for _ in range(n):
            i = rng.randrange(0 if rng.random() < 0.05 else 2, len(s))
            s = s[:i] + rng.choice(MUT_CHARS) + s[i + 1:]
        if rng.random() < 0.1:
            # shift: delete a character (all later columns move) and pad at the end
            i = rng.randrange(2, len(s))
            s = s[:i] + s[i + 1:] + rng.choice("0 ")
    s = s.rstrip() or "1"
    lines[w] = s + str(tlegen.checksum(s))
    return lines[0], lines[1]


def gen_wellformed(ctx, n):
    out = []
    for (_, a, b) in tlegen.REAL_TLES:
        out.append((a, b, None))
    while len(out) < n:
        r = ctx.rng.random()
        if r < 0.75:
            f = tlegen.full_range_fields(ctx.rng)
        else:
            f = tlegen.random_fields(ctx.rng, "any")
        a, b = tlegen.encode(f)
        out.append((a, b, f))
    return out[:max(n, len(tlegen.REAL_TLES))]


def epoch_sweep(ctx, n):
    """One base TLE; epoch year and day over the whole printable range (the epoch rule against CPython)."""
    rng = ctx.rng
    base = tlegen.full_range_fields(rng)
    out = []
    specials = [(d, fr) for d in (1, 2, 59, 60, 61, 99, 100, 365, 366) for fr in
                ("00000000", "99999999", "00000001", "50000000", "49999999", "12345678", "99999998")]
    for k in range(n):
        f = dict(base)
        f["epoch_year"] = "%02d" % rng.randrange(0, 100)
        if k < len(specials) * 4:
            d, fr = specials[k % len(specials)]
        else:
            d = rng.randrange(1, 367) if rng.random() < 0.9 else rng.randrange(0, 1000)
            fr = tlegen._digits(rng, 8)
        f["epoch_day"] = (("%03d" if rng.random() < 0.6 else "%3d") % d) + "." + fr
        out.append(tlegen.encode(f) + (f,))
    return out


# ------------------------------------------------------------------ D correspondence
def correspond(ctx):
    drv = ctx.driver()
    rng = ctx.rng
    n_wf = ctx.size(12000, 150000)
    n_ep = ctx.size(40000, 400000)
    n_mal = ctx.size(20000, 200000)

    wf = gen_wellformed(ctx, n_wf)
    streams = []
    for (a, b, f) in wf:
        streams.append(("wellformed", wrap_ws(rng, a), wrap_ws(rng, b)))
    for (a, b, f) in epoch_sweep(ctx, n_ep):
        streams.append(("epoch", a, b))
    for k in range(n_mal):
        a, b, _ = wf[rng.randrange(len(wf))]
        a, b = malformed(rng, a, b)
        streams.append(("malformed", a, b))
    lines = ["c02 %s %s" % (lib.s2h(a), lib.s2h(b)) for (_, a, b) in streams]
    outs = drv.run_parallel(lines)
    for (tag, a, b), out in zip(streams, outs):
        if compare_case(ctx, a, b, out, tag):
            ctx.distinct((a, b))
    if streams:
        ctx.sample({"line1": streams[0][1], "line2": streams[0][2], "model": outs[0][:200]})
        k = len(wf) + n_ep
        if k < len(streams):
            ctx.sample({"line1": streams[k][1], "line2": streams[k][2], "model": outs[k][:200]})


# ------------------------------------------------------------------ E oracle (statement only, implementation only)
def printed_values(f):
    """The values the printed columns denote, by Python's own Decimal/Fraction of the text."""
    def expo(txt):
        sign = -1 if txt[0] == "-" else 1
        mant = int(txt[1:6])
        ex = int(txt[6:8])
        return sign * Fraction(mant, 10 ** 5) * Fraction(10) ** ex
    return {
        "epoch_day": Fraction(Decimal(f["epoch_day"].strip())),
        "mean_motion_derivative": Fraction(Decimal(f["ndot"].strip())),
        "mean_motion_sec_derivative": expo(f["nddot"]),
        "bstar": expo(f["bstar"]),
        "inclination": Fraction(Decimal(f["incl"].strip())),
        "right_ascension": Fraction(Decimal(f["raan"].strip())),
        "excentricity": Fraction(int(f["ecc"]), 10 ** 7),
        "arg_perigee": Fraction(Decimal(f["argp"].strip())),
        "mean_anomaly": Fraction(Decimal(f["manom"].strip())),
        "mean_motion": Fraction(Decimal(f["mmotion"].strip())),
    }


def expected_epoch_us(f):
    yy = int(f["epoch_year"])
    year = 2000 + yy if yy <= 56 else 1900 + yy
    day_e8 = int(f["epoch_day"].replace(".", "").strip())        # day * 10^8, exact
    days0 = (_dt.date(year, 1, 1) - _dt.date(1970, 1, 1)).days
    return days0 * 86400000000 + (day_e8 - 100000000) * 864


def _read(t, a):
    """(True, value) | (False, 'Class: message') - reading an attribute of the object must not fail."""
    try:
        return True, getattr(t, a)
    except Exception as e:  # noqa
        return False, "%s: %s" % (type(e).__name__, str(e)[:120])


def check_object(ctx, t, f, in1, in2, case, kind="field_mismatch", site="Tle._parse_tle"):
    """The statement on the object t that was built from (in1, in2) with printed fields f: every attribute equals the value
    printed in its columns, the epoch rule, line1/line2 stripped.  Returns the number of violations raised."""
    n = [0]

    def bad(attr, got, want):
        n[0] += 1
        ctx.violation(kind, dict(case, attribute=attr), lib.jsonable(got), lib.jsonable(want), site=site)

    want_s = {"satnumber": f["satnum"], "classification": f["classification"], "id_launch_year": f["launch_year"],
              "id_launch_number": f["launch_number"], "id_launch_piece": "%-3s" % f["launch_piece"],
              "epoch_year": f["epoch_year"]}
    for a, wv in want_s.items():
        ok, v = _read(t, a)
        if not ok or v != wv:
            bad(a, v, wv)
    want_i = {"ephemeris_type": int(f["ephemeris"]) if f["ephemeris"].strip() else 0,
              "element_number": int(f["elnum"]), "orbit": int(f["rev"])}
    for a, wv in want_i.items():
        ok, v = _read(t, a)
        if not ok or v != wv or isinstance(v, bool):
            bad(a, v, wv)
    for a, x in printed_values(f).items():
        ok, v = _read(t, a)
        ok = ok and isinstance(v, float) and not math.isnan(v) and not math.isinf(v) and abs(Fraction(v) - x) <= Fraction(math.ulp(v))
        if not ok:
            bad(a, repr(v), "%s (printed %s)" % (float(x), str(x)))
    yy = int(f["epoch_year"])
    if yy <= 56 or yy >= 69:
        want = expected_epoch_us(f)
        ok, ep = _read(t, "epoch")
        try:
            got = epoch_us(t) if ok else None
        except Exception as e:  # noqa
            ok, ep = False, "%s: %s" % (type(e).__name__, str(e)[:120])
        if not ok:
            bad("epoch", ep, "%d us (%s)" % (want, EPOCH0 + _dt.timedelta(microseconds=want)))
        elif got != want:
            bad("epoch", "%d us (%s)" % (got, ep), "%d us (%s)" % (want, EPOCH0 + _dt.timedelta(microseconds=want)))
    ok1, v1 = _read(t, "line1")
    ok2, v2 = _read(t, "line2")
    if not (ok1 and ok2) or v1 != in1.strip() or v2 != in2.strip():
        bad("line1/line2", [v1, v2], [in1.strip(), in2.strip()])
    return n[0]


# Ways a caller uses a Tle it holds: none of them is an assignment, so the statement must hold of the object afterwards as it
# did before (the attributes ARE "the decoded orbital elements handed to the propagator", not a snapshot taken at construction).
def _use_str(t, in1, in2):
    str(t)


def _use_repr(t, in1, in2):
    repr(t)


def _use_print(t, in1, in2):
    import io
    print(t, file=io.StringIO())


def _use_format(t, in1, in2):
    "%s" % (t,)
    "{}".format(t)
    "{!r:.20}".format(t)


def _use_log(t, in1, in2):
    import io
    import logging
    lg = logging.Logger("pv.c02.use")          # private logger, not registered, its own handler
    lg.addHandler(logging.StreamHandler(io.StringIO()))
    lg.warning("element set %s", t)


def _use_copy(t, in1, in2):
    import copy
    copy.copy(t)


def _use_deepcopy(t, in1, in2):
    import copy
    copy.deepcopy(t)


def _use_pickle(t, in1, in2):
    import pickle
    pickle.loads(pickle.dumps(t))


def _use_inspect(t, in1, in2):
    dict(vars(t))
    dir(t)
    t == t
    hash(t)
    bool(t)
    getattr(t, "no_such_attribute", None)


def _use_reread(t, in1, in2):
    for a in ["line1", "line2", "platform", "epoch"] + STR_ATTRS + INT_ATTRS + FLOAT_ATTRS:
        getattr(t, a)


def _use_sibling(t, in1, in2):
    """A second object from the same lines, formatted: the first object must not notice."""
    str(_tlefile().Tle("y", line1=in1, line2=in2))


USES = {"str": _use_str, "repr": _use_repr, "print": _use_print, "format": _use_format, "log": _use_log, "copy": _use_copy,
        "deepcopy": _use_deepcopy, "pickle": _use_pickle, "inspect": _use_inspect, "reread": _use_reread,
        "sibling": _use_sibling}
USE_NAMES = sorted(USES)


def draw_uses(rng):
    return [rng.choice(USE_NAMES) for _ in range(rng.choice([1, 1, 2, 3]))]


def use_probe(ctx, t, f, in1, in2, case, uses, via):
    """Apply the uses one after the other; after each, the statement is evaluated on the object again.  An exception of
    the use itself is not judged (it is not part of the statement); what the object says afterwards is."""
    done = []
    for u in uses:
        fn = USES.get(u)
        if fn is None:
            continue
        try:
            fn(t, in1, in2)
        except Exception as e:  # noqa
            ctx.count("use_raised_" + u)
        done.append(u)
        ctx.count("eval_oracle_after_use")
        if check_object(ctx, t, f, in1, in2, dict(case, via=via, after=list(done)), kind="changed_by_use",
                        site="Tle.__str__ / Tle attributes after %s" % u):
            return 1
    return 0


# ------------------------------------------------------------------ objects built from the lines AND a tle_file
# "line1/line2 are the input lines": when the caller passes the two lines, the object describes THOSE lines, whatever else is
# passed along (a wrapper that always hands over its catalogue file and overrides it with fresh lines).  The file holds other
# element sets - under the very platform name / catalogue number asked for, and under other names.
_TMP = {"dir": None, "n": 0}
GIVEN_PLATFORMS = ["x", "NOAA-19", "METOP-B", "ISS (ZARYA)", "pvsat 7"]
OTHER_NAMES = ["NOAA-18", "METOP-C", "SUOMI NPP", "X-2", "AQUA", "PVSAT", "ISS"]


def _tmpdir():
    if _TMP["dir"] is None or not os.path.isdir(_TMP["dir"]):
        _TMP["dir"] = tempfile.mkdtemp(prefix="pv-c02-")
        atexit.register(shutil.rmtree, _TMP["dir"], ignore_errors=True)
    return _TMP["dir"]


def draw_given(rng, spelling=None):
    """A tle_file passed ALONG with the lines: {kind: stringio|path, platform, text, spelling: kw|pos}."""
    tlefile = _tlefile()
    platform = rng.choice(GIVEN_PLATFORMS)
    name = platform.strip().upper()
    number = tlefile.SATELLITES.get(name)
    entries = []
    for _ in range(rng.choice([1, 1, 2])):          # other element sets filed under the platform that is asked for
        g = tlegen.full_range_fields(rng, statement_years=True) if rng.random() < 0.5 else tlegen.random_fields(rng, "any")
        if number is not None and rng.random() < 0.5:
            a, b = tlegen.encode(dict(g, satnum=number))
            entries.append((rng.choice([None, name]), a, b))      # found by catalogue number, with or without a name line
        else:
            a, b = tlegen.encode(g)
            entries.append((name, a, b))
    for _ in range(rng.choice([0, 1, 2, 3])):       # and under other names
        if rng.random() < 0.5:
            _, a, b = rng.choice(tlegen.REAL_TLES)
        else:
            a, b = tlegen.encode(tlegen.random_fields(rng, "any"))
        entries.append((rng.choice(OTHER_NAMES), a, b))
    if rng.random() < 0.15:
        entries = [e for e in entries if e[0] != name and e[0] is not None]      # a file that does not hold the platform at all
    rng.shuffle(entries)
    text = "".join(("%s\n" % n if n is not None else "") + a + "\n" + b + "\n" for (n, a, b) in entries)
    return {"kind": rng.choice(["stringio", "path"]), "platform": platform, "text": text,
            "spelling": spelling or rng.choice(["kw", "kw", "pos"])}


class _Given(object):
    """Context manager: the tle_file object of a descriptor (a fresh stream / a fresh file that is removed afterwards)."""

    def __init__(self, desc):
        self.desc, self.path = desc, None

    def __enter__(self):
        if self.desc["kind"] == "stringio":
            return io.StringIO(self.desc["text"])
        _TMP["n"] += 1
        self.path = os.path.join(_tmpdir(), "given-%d-%d.tle" % (os.getpid(), _TMP["n"]))
        with open(self.path, "w", newline="") as fh:
            fh.write(self.desc["text"])
        return self.path

    def __exit__(self, *exc):
        if self.path is not None:
            try:
                os.unlink(self.path)
            except OSError:
                pass
        return False


def build(how, in1, in2, given=None):
    """The object under the statement, built through one public entry point: Tle | read | Orbital.tle; with `given`, the
    lines AND a tle_file are passed (keyword or positional spelling)."""
    tlefile = _tlefile()
    if how == "Orbital.tle":
        from pyorbital.orbital import Orbital
        fn = Orbital
    else:
        fn = tlefile.read if how == "read" else tlefile.Tle
    if given is None:
        return fn("x", line1=in1, line2=in2)
    with _Given(given) as tf:
        if given.get("spelling") == "pos":
            return fn(given["platform"], tf, in1, in2)
        return fn(given["platform"], tle_file=tf, line1=in1, line2=in2)


def orbital_probe(ctx, f, in1, in2, case, uses, given=None):
    """observe_at: Orbital(...).tle - the element set an Orbital holds, right after construction and after the Orbital and
    its element set have been used.  Element sets the propagator refuses are not a matter of this statement."""
    try:
        orb = build("Orbital.tle", in1, in2, given)
    except Exception as e:  # noqa
        ctx.count("orbital_refused")
        return 0
    ctx.count("eval_oracle_orbital")
    c = dict(case, via="Orbital.tle")
    site = "Tle._parse_tle" if given is None else "Orbital.__init__ / tlefile.read / Tle._read_tle"
    if check_object(ctx, orb.tle, f, in1, in2, c, site=site):
        return 1
    try:
        str(orb)
    except Exception:  # noqa
        ctx.count("use_raised_str_orbital")
    if check_object(ctx, orb.tle, f, in1, in2, dict(c, after=["str(Orbital)"]), kind="changed_by_use",
                    site="Orbital.__str__ / Tle.__str__"):
        return 1
    return use_probe(ctx, orb.tle, f, in1, in2, case, uses, "Orbital.tle")


def oracle_case(ctx, f, l1, l2, in1, in2, how="Tle", uses=(), orbital=False, given=None):
    base = {"line1": in1, "line2": in2}
    if given is not None:
        base["tle_file"] = given
        ctx.count("eval_oracle_lines_and_file")
    case = dict(base, via=how)
    if how == "Orbital.tle":
        return orbital_probe(ctx, f, in1, in2, base, [u for u in uses if u != "str(Orbital)"], given)
    try:
        t = build(how, in1, in2, given)
    except Exception as e:  # noqa
        ctx.violation("wellformed_rejected", case, "%s: %s" % (type(e).__name__, str(e)[:120]), "attributes decoded",
                      site="Tle.__init__")
        return 1
    ctx.count("eval_oracle")
    if check_object(ctx, t, f, in1, in2, case, site="Tle._parse_tle" if given is None else "Tle._read_tle / tlefile.read"):
        return 1
    if uses and use_probe(ctx, t, f, in1, in2, base, uses, how):
        return 1
    if orbital:
        return orbital_probe(ctx, f, in1, in2, base, uses, given)
    return 0


def ecc_exhaustive(ctx, lo, hi):
    """int(k) * 10**-7 within 1 ulp of k/10^7 for all k in [lo, hi): integer arithmetic, vectorised."""
    import numpy as np
    scale = 10 ** -7                     # what the source computes
    worst = 0.0
    step = 1000000
    P7 = 10 ** 7
    for a in range(lo, hi, step):
        k = np.arange(max(a, 1), min(a + step, hi), dtype=np.int64)
        if k.size == 0:
            continue
        p = k * scale                    # float64: int -> double exact, one IEEE multiplication (as int.__mul__(float))
        m, e = np.frexp(p)
        M = (m * 2.0 ** 53).astype(np.int64)          # exact 53-bit significand
        s = (53 - e).astype(np.int64)                 # p = M * 2^-s, ulp(p) = 2^-s
        lhs = np.abs(M.astype(object) * P7 - (k.astype(object) << s.astype(object)))   # |p - k/1e7| / ulp * 1e7
        mx = int(lhs.max())
        worst = max(worst, mx / P7)
        badk = k[np.asarray(lhs > P7, dtype=bool)]
        ctx.count("eval_ecc_exhaustive", int(k.size))
        for kk in badk[:3]:
            ctx.violation("ecc_over_1ulp", {"ecc_column": "%07d" % int(kk)}, repr(int(kk) * 10 ** -7),
                          "within 1 ulp of %d/10^7" % int(kk), site="Tle._parse_tle excentricity")
    return worst


def oracle(ctx):
    rng = ctx.rng
    n = ctx.size(10000, 150000)
    k = 0
    for (_, l1, l2) in tlegen.REAL_TLES:
        # real element sets: check through the generic text route (fields read off the columns of the standard)
        f = fields_of_lines(l1, l2)
        oracle_case(ctx, f, l1, l2, l1, l2, uses=rng.sample(USE_NAMES, len(USE_NAMES)), orbital=True)
        # the same lines passed together with a tle_file, through every entry point and both spellings
        for how in ("Tle", "read", "Orbital.tle"):
            for spelling in ("kw", "pos"):
                oracle_case(ctx, f, l1, l2, l1, l2, how=how, given=draw_given(rng, spelling))
    while k < n:
        f = tlegen.full_range_fields(rng, statement_years=True) if rng.random() < 0.7 else tlegen.random_fields(rng, "any")
        l1, l2 = tlegen.encode(f)
        in1, in2 = l1, l2
        r = rng.random()
        if r < 0.3:
            in1 = rng.choice([" ", "  ", "\t", ""]) + l1 + rng.choice([" ", "\n", "\r\n", "  \n", ""])
            in2 = rng.choice([" ", "", "\t "]) + l2 + rng.choice(["\n", " ", ""])
        # every third object is also used the way callers use it (printed, logged, copied, pickled, read twice ...) and
        # judged again after each use; some are judged as the element set an Orbital holds
        uses = draw_uses(rng) if rng.random() < 0.34 else ()
        oracle_case(ctx, f, l1, l2, in1, in2, how=("read" if rng.random() < 0.1 else "Tle"), uses=uses,
                    orbital=(rng.random() < 0.04))
        k += 1
        if rng.random() < 0.15:
            # the lines AND a tle_file holding other element sets (same platform, other platforms): the object shows the LINES
            oracle_case(ctx, f, l1, l2, in1, in2, how=rng.choice(["Tle", "Tle", "read", "read", "Orbital.tle"]),
                        uses=(draw_uses(rng) if rng.random() < 0.2 else ()), given=draw_given(rng))
    # the 1-ulp claim of the eccentricity product
    if ctx.tier == "thorough":
        worst = ecc_exhaustive(ctx, 0, 10 ** 7)
        ctx.exhaustive = True
        ctx.note("excentricity int*10**-7: all 10^7 column values within 1 ulp; worst %.4f ulp" % worst)
    else:
        a = rng.randrange(0, 10 ** 7 - 400000)
        worst = max(ecc_exhaustive(ctx, a, a + 400000), ecc_exhaustive(ctx, 0, 100000), ecc_exhaustive(ctx, 9900000, 10 ** 7))
        ctx.note("excentricity int*10**-7: 600000 column values within 1 ulp; worst %.4f ulp (exhaustive in the thorough tier)" % worst)
    # the vectorised product is the implementation's: spot-check through Tle
    base = tlegen.full_range_fields(rng, statement_years=True)
    for _ in range(ctx.size(1500, 30000)):
        kk = rng.randrange(0, 10 ** 7)
        f = dict(base, ecc="%07d" % kk)
        l1, l2 = tlegen.encode(f)
        t = _tlefile().Tle("x", line1=l1, line2=l2)
        ctx.count("eval_oracle_ecc")
        import numpy as np
        if t.excentricity != float(np.int64(kk) * 10 ** -7) or abs(Fraction(t.excentricity) - Fraction(kk, 10 ** 7)) > Fraction(math.ulp(t.excentricity)):
            ctx.violation("field_mismatch", {"line1": l1, "line2": l2, "attribute": "excentricity"}, repr(t.excentricity),
                          "%d/10^7 within 1 ulp" % kk, site="Tle._parse_tle")


def fields_of_lines(l1, l2):
    """Printed fields of a literal element set, read off the published 1-based column numbers."""
    def c(line, first, last):
        return line[first - 1:last]
    return {
        "satnum": c(l1, 3, 7), "classification": c(l1, 8, 8), "launch_year": c(l1, 10, 11), "launch_number": c(l1, 12, 14),
        "launch_piece": c(l1, 15, 17), "epoch_year": c(l1, 19, 20), "epoch_day": c(l1, 21, 32), "ndot": c(l1, 34, 43),
        "nddot": c(l1, 45, 52), "bstar": c(l1, 54, 61), "ephemeris": c(l1, 63, 63), "elnum": c(l1, 65, 68),
        "incl": c(l2, 9, 16), "raan": c(l2, 18, 25), "ecc": c(l2, 27, 33), "argp": c(l2, 35, 42), "manom": c(l2, 44, 51),
        "mmotion": c(l2, 53, 63), "rev": c(l2, 64, 68)}


def match_known(entry, v):
    return False


def replay(ctx, case):
    inp = case.get("input", case)
    if "line1" not in inp and "ecc_column" not in inp:
        # a broken-tie record (no failing input was found): re-run the recorded correspondence disagreements
        for b in case.get("broken", []):
            print("broken tie:", b.get("stage"), str(b.get("detail"))[:300].replace("\n", " | "))
        still = 0
        for d in case.get("first_disagreements", []):
            c = d.get("case", {})
            if "line1" not in c:
                continue
            out = ctx.driver().run(["c02 %s %s" % (lib.s2h(c["line1"]), lib.s2h(c["line2"]))])[0]
            before = len(ctx.disagreements)
            compare_case(ctx, c["line1"], c["line2"], out, "replay")
            if len(ctx.disagreements) > before:
                still += 1
                print("still disagrees:", c["line1"], "|", c["line2"], "->", ctx.disagreements[-1]["implementation"], "vs model",
                      ctx.disagreements[-1]["model"])
        if not case.get("first_disagreements"):
            print("(proof/build tie: re-run ./check C02 to rebuild the theorems against the current source)")
            return 1
        return 1 if still else 0
    if "ecc_column" in inp:
        kk = int(inp["ecc_column"])
        v = kk * 10 ** -7
        off = ulps_off(v, Fraction(kk, 10 ** 7))
        print("int(%r) * 10**-7 = %r, %.4f ulp from %d/10^7" % (inp["ecc_column"], v, off, kk))
        return 1 if off > 1 else 0
    l1, l2 = inp["line1"], inp["line2"]
    print("line1 = %r\nline2 = %r" % (l1, l2))
    s1, s2 = l1.strip(), l2.strip()
    if len(s1) != 69 or len(s2) != 69:
        print("not a 69-column element set: outside the statement (malformed-stream correspondence case)")
        kind, impl = impl_run(l1, l2)
        print("implementation:", kind, impl if kind != "ok" else "")
        return 0
    f = fields_of_lines(s1, s2)

    class _C:
        violations = []
        counts = {}

        def violation(self, kind, case, observed, required, site=""):
            self.violations.append((kind, case.get("attribute"), observed, required, case.get("after", [])))

        def count(self, *a, **k):
            pass
    c = _C()
    via = inp.get("via", "Tle")
    uses = [u for u in inp.get("after", [])]
    if uses:
        print("sequence: object from %s, then %s, then every attribute read again" % (via, ", ".join(uses)))
    try:
        given = inp.get("tle_file") if isinstance(inp.get("tle_file"), dict) else None
        if given is not None:
            print("built from the lines AND tle_file (%s, platform %r, %s spelling) holding:\n%s" % (
                given.get("kind"), given.get("platform"), given.get("spelling"), given.get("text")))
        oracle_case(c, f, s1, s2, l1, l2, how=via if via in ("Tle", "read", "Orbital.tle") else "Tle", uses=uses, given=given)
    except Exception as e:  # noqa  (fields not well-formed: not a statement case)
        print("fields are not well-formed (%s): outside the statement" % e)
        return 0
    for v in c.violations:
        print("VIOLATES: %s attribute=%s observed=%s required=%s after=%s" % v)
    if not c.violations:
        print("all attributes equal the printed column values")
    return 1 if c.violations else 0


LEVEL_TEXT = ("Theorems (Lean 4 kernel, core only, for ALL well-formed records, nothing bounded): the column table extracted from "
              "the AST of Tle._parse_tle has, row by row, the published column numbers (table_matches_layout, layout_covered); "
              "slicing a concatenation of fixed-width columns at a column's offset returns the column (slice_concat_fields) and "
              "the published numbers are the encoder's (encode_columns); parse_encode: interpreting the extracted table on the "
              "encoding of any well-formed record yields, for every attribute, the value printed in its column (strings verbatim; "
              "integers with leading blanks/zeros; printed decimal points; sign of s.dddddddd; sdddddSe as +-0.ddddd*10^(+-e); "
              "ddddddd*10^-7; blank ephemeris = 0); tle_encode: the same through strip -> checksum -> parse; epoch_eq: epoch = "
              "1 January (Fliegel-Van Flandern day number) of 20yy (yy<=56) / 19yy (yy>=69) + (day-1) days in exact microseconds; "
              "lines_stripped. Float attributes are proved as exact decimals; binary64 rounding is checked, not proved.")
LEVEL_NOTE = ("Trusted: Lean kernel; axioms propext, Quot.sound, Classical.choice; the hand-written conversions of "
              "PV.Model.TleParse/PV.Model.Text and the encoder/values of PV.Spec.TleLayout; harness/extract.py; the "
              "correspondence harness; CPython float()/int()/strptime/timedelta on ASCII; the 1-ulp bound of int*10**-7 is "
              "established by exhaustive integer arithmetic (thorough tier) rather than by proof.")
TECHNIQUE = ("Lean 4 proof (list induction, omega, decide) of an encoder/decoder round trip over an executable interpreter of "
             "the AST-extracted column table; differential correspondence on well-formed, epoch-sweep and malformed streams; "
             "exhaustive integer-arithmetic check of the 10^7 eccentricity products")
