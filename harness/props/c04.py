"""C04 — sub-satellite lon/lat/alt are the WGS-84 geodetic coordinates of the position."""
import datetime as dt
import math

import numpy as np

import geo
import lib
import orbits
import tlegen

ID = "C04"
LEAN_TARGETS = ["PV.Props.C04"]
# T-C tie (DESIGN 2.3): kernels traced from the current source are proved equal to the model over the reals
EQUIV = {'PV.Equiv.Astro': ['gmst_eq', 'observer_position_eq'], 'PV.Equiv.Look': ['latLoop_succ', 'lonLatAlt_first_pass', 'lonlatalt_method_p1', 'lonlatalt_method_p1_c1', 'lonlatalt_method_p2', 'lonlatalt_method_p2_c1', 'lonlatalt_method_p2_c2', 'lonlatalt_geoloc_p1', 'lonlatalt_geoloc_p1_c1', 'lonlatalt_geoloc_p2', 'lonlatalt_geoloc_p2_c2']}
RULE = ("(TLE, time) pairs from the repo's test TLEs and the near-earth generator, times within 2 days of epoch, scalar and "
        "array; observers over the globe incl. poles, the date line and altitudes 0-40000 km; correspondence: lon/lat/alt "
        "and the iteration count (model vs Orbital.get_lonlatalt and geoloc.get_lonlatalt), observer position/velocity at "
        "1e-11; oracle: ranges, WGS-84 round trip 2e-6 |r| against an independent geodesy + IAU-82 GMST, observer = inverse, "
        "velocity = omega x r, module = method exactly, local time; distinct = (tle, time) or observer")
ASSUMPTIONS = ["convergence of the latitude fixed-point iteration (contraction factor ~0.007) and the float round trip are measured",
               "the code normalises by 6378.135 km and rescales the altitude by 6378.137 km: relative mismatch 3.1e-7, inside the 2e-6 tolerance"]
TRUSTED = ["model PV.Model.Look (wrapLon, latStep/latLoop, lonLatAlt) and PV.Model.Astro.observerPosition", "spec PV.Spec.Topo"]
LEVEL_TEXT = ("Theorems over the reals: longitude after `% 2pi` and the two `where`s lies in (-pi, pi]; every latitude iterate lies "
              "in [-pi/2, pi/2]; observer_position equals the WGS-84 geodetic->cartesian formulas rotated by GMST+lon, its "
              "velocity is omega x position; the module-level and object-level conversions are the same function of the "
              "normalised position; local time is lon/15 h; a fixed point of the iteration body converts back to the position "
              "exactly up to the explicit unit mismatch A/XKMPER. Tie: lon/lat/alt and iteration counts model vs code at "
              "1e-10, observer position at 1e-11. Convergence and float error are measured (2e-6 round trip).")
LEVEL_NOTE = ("Trusted: Lean kernel + Mathlib reals; hand-written models + correspondence harness; constants F, A, XKMPER, MFACTOR "
              "regenerated from the source; binary64 rounding and loop convergence not proved.")
TECHNIQUE = "Lean 4 proof (range lemmas via Complex.arg, WGS-84 identities by field_simp/ring) + differential correspondence + independent-geodesy oracle"


def orbitals(ctx, n):
    return orbits.make_orbitals(ctx, max(n, 8))


def rand_observer(ctx):
    r = ctx.rng
    lon = r.choice([r.uniform(-180, 180), 180.0, -180.0, 0.0, r.uniform(179.999, 180), r.uniform(-180, -179.999)])
    lat = r.choice([r.uniform(-90, 90), 90.0, -90.0, 0.0, r.uniform(89.99, 90), r.uniform(-90, -89.99)])
    alt = r.choice([0.0, r.uniform(0, 5), r.uniform(0, 40000)])
    return lon, lat, alt


def correspond(ctx):
    from pyorbital import astronomy, geoloc
    drv = ctx.driver()
    n = ctx.size(40, 400)
    per = ctx.size(40, 300)
    lines, exp = [], []
    for (a, b, o) in orbitals(ctx, n):
        for t in orbits.rand_times(ctx, o, per):
            d = float(astronomy.jdays2000(t))
            pn, _ = o.get_position(t, normalize=True)
            pk, _ = o.get_position(t, normalize=False)
            lla = [float(x) for x in o.get_lonlatalt(t)]
            lla2 = [float(x) for x in geoloc.get_lonlatalt(pk, t)]
            lines.append("lla " + " ".join(lib.f2h(x) for x in [d] + list(pn)))
            exp.append(("lla", a, b, t, lla))
            lines.append("llakm " + " ".join(lib.f2h(x) for x in [d] + list(pk)))
            exp.append(("llakm", a, b, t, lla2))
    for _ in range(ctx.size(1500, 60000)):
        lon, lat, alt = rand_observer(ctx)
        t = dt.datetime(2000, 1, 1) + dt.timedelta(seconds=ctx.rng.uniform(-20 * 365 * 86400, 40 * 365 * 86400))
        d = float(astronomy.jdays2000(t))
        (p, v) = astronomy.observer_position(t, lon, lat, alt)
        lines.append("obs " + " ".join(lib.f2h(x) for x in [d, lon, lat, alt]))
        exp.append(("obs", lon, lat, alt, [float(x) for x in list(p) + list(v)]))
    outs = drv.run_parallel(lines)
    for e, o in zip(exp, outs):
        if e[0] in ("lla", "llakm"):
            ctx.count("eval_corr_lla")
            ctx.distinct((e[1], str(e[3])))
            toks = o.split()
            if toks[0] == "diverged":
                ctx.disagree(e[0], {"line1": e[1], "line2": e[2], "utc": str(e[3])}, e[4], "diverged")
                continue
            m = [lib.h2f(x) for x in toks[:3]]
            ctx.bump("lat_iterations", toks[3])
            ok = (abs(m[0] - e[4][0]) <= 1e-9 or abs(abs(m[0] - e[4][0]) - 360) <= 1e-9) and abs(m[1] - e[4][1]) <= 1e-9 \
                and abs(m[2] - e[4][2]) <= 1e-7
            if not ok:
                ctx.disagree(e[0], {"line1": e[1], "line2": e[2], "utc": str(e[3])}, e[4], m)
        else:
            ctx.count("eval_corr_obs")
            ctx.distinct(("obs", e[1], e[2], e[3]))
            m = [lib.h2f(x) for x in o.split()]
            if not all(lib.close(a_, b_, 7000.0, 1e-12) for a_, b_ in zip(e[4], m)):
                ctx.disagree("obs", {"lon": e[1], "lat": e[2], "alt": e[3]}, e[4], m)
    ctx.sample({"op": exp[0][0], "line1": exp[0][1], "utc": str(exp[0][3]), "lonlatalt": exp[0][4]})


def oracle(ctx):
    from pyorbital import astronomy, geoloc
    n = ctx.size(30, 300)
    per = ctx.size(40, 400)
    worst = 0.0
    for (a, b, o) in orbitals(ctx, n):
        ts = orbits.rand_times(ctx, o, per)
        for t in ts:
            ctx.count("eval_oracle")
            case = {"line1": a, "line2": b, "utc": t.isoformat()}
            lon, lat, alt = [float(x) for x in o.get_lonlatalt(t)]
            pos, _ = o.get_position(t, normalize=False)
            if not (-180.0 < lon <= 180.0):
                ctx.violation("lon_range", case, lon, "(-180, 180]", site="Orbital.get_lonlatalt")
            if not (-90.0 <= lat <= 90.0):
                ctx.violation("lat_range", case, lat, "[-90, 90]", site="Orbital.get_lonlatalt")
            back = geo.geodetic_to_eci(lon, lat, alt, geo.gmst_ref(t))
            err = float(np.linalg.norm(back - pos) / np.linalg.norm(pos))
            worst = max(worst, err)
            if not err <= 2e-6:
                ctx.violation("roundtrip", case, {"lonlatalt": [lon, lat, alt], "rel_err": err}, "<= 2e-6 |r|", site="Orbital.get_lonlatalt")
            # module-level == object-level, exactly
            m = geoloc.get_lonlatalt(pos, t)
            if not (float(m[0]) == lon and float(m[1]) == lat and float(m[2]) == alt):
                ctx.violation("module_vs_method", case, [float(x) for x in m], [lon, lat, alt], site="geoloc.get_lonlatalt")
            # local time
            loc = o.utc2local(t)
            want = t + dt.timedelta(hours=lon / 15.0)
            if abs((loc - want).total_seconds()) > 2e-6:
                ctx.violation("utc2local", case, str(loc), str(want), site="Orbital.utc2local")
        # array call = scalar calls
        arr = np.array([np.datetime64(t) for t in ts[:20]])
        la = o.get_lonlatalt(arr)
        for i, t in enumerate(ts[:20]):
            s = o.get_lonlatalt(t)
            ctx.count("eval_oracle_array")
            if not (abs(float(la[0][i]) - float(s[0])) < 1e-6 and abs(float(la[1][i]) - float(s[1])) < 1e-6 and abs(float(la[2][i]) - float(s[2])) < 1e-6):
                ctx.violation("array_vs_scalar", {"line1": a, "line2": b, "utc": t.isoformat()}, [float(la[k][i]) for k in range(3)],
                              [float(x) for x in s], site="Orbital.get_lonlatalt")
    # observer position is the inverse for any lon/lat/alt; velocity = omega x position
    for _ in range(ctx.size(1500, 60000)):
        lon, lat, alt = rand_observer(ctx)
        t = dt.datetime(2000, 1, 1) + dt.timedelta(seconds=ctx.rng.uniform(-20 * 365 * 86400, 40 * 365 * 86400))
        ctx.count("eval_oracle_obs")
        (p, v) = astronomy.observer_position(t, lon, lat, alt)
        p = np.array([float(x) for x in p])
        v = np.array([float(x) for x in v])
        ref = geo.geodetic_to_eci(lon, lat, alt, geo.gmst_ref(t))
        case = {"utc": t.isoformat(), "lon": lon, "lat": lat, "alt": alt}
        if not np.linalg.norm(p - ref) <= 2e-7 * np.linalg.norm(ref) + 1e-9:
            ctx.violation("observer_position", case, list(p), list(ref), site="astronomy.observer_position")
        w = np.array([0.0, 0.0, geo.OMEGA_E])
        if not np.linalg.norm(v - np.cross(w, p)) <= 1e-12 * (1 + np.linalg.norm(v)):
            ctx.violation("observer_velocity", case, list(v), list(np.cross(w, p)), site="astronomy.observer_position")
    ctx.note("worst WGS-84 round-trip relative error = %.3g" % worst)


def match_known(entry, v):
    return False


def replay(ctx, case):
    from pyorbital import orbital
    inp = case.get("input", case)
    if "line1" not in inp:
        print("observer case", inp)
        return 0
    o = orbital.Orbital("x", line1=inp["line1"], line2=inp["line2"])
    t = dt.datetime.fromisoformat(inp["utc"])
    lon, lat, alt = [float(x) for x in o.get_lonlatalt(t)]
    pos, _ = o.get_position(t, normalize=False)
    back = geo.geodetic_to_eci(lon, lat, alt, geo.gmst_ref(t))
    err = float(np.linalg.norm(back - pos) / np.linalg.norm(pos))
    print("lonlatalt", lon, lat, alt, "round-trip rel err", err)
    return 1 if (err > 2e-6 or not (-180 < lon <= 180) or not (-90 <= lat <= 90)) else 0
