"""C04 — sub-satellite lon/lat/alt are the WGS-84 geodetic coordinates of the position."""
import datetime as dt
import math

import numpy as np

import geo
import lib
import orbits
import tlegen

ID = "C04"
LEAN_TARGETS = ["PV.Props.C04"]
# further files of property theorems (all are obligations): convergence / root-closeness stretch theorems
EXTRA_PROPS = ['PV.Props.C04Conv']
# T-C tie (DESIGN 2.3): kernels traced from the current source are proved equal to the model over the reals
EQUIV = {'PV.Equiv.Astro': ['gmst_eq', 'observer_position_eq'], 'PV.Equiv.Look': ['latLoop_succ', 'lonLatAlt_first_pass', 'lonlatalt_method_p1', 'lonlatalt_method_p1_c1', 'lonlatalt_method_p2', 'lonlatalt_method_p2_c1', 'lonlatalt_method_p2_c2', 'lonlatalt_geoloc_p1', 'lonlatalt_geoloc_p1_c1', 'lonlatalt_geoloc_p2', 'lonlatalt_geoloc_p2_c2']}
EQUIV.update({'PV.Equiv.TranslatedTime': ['utc2local_eq']})      # T-D
RULE = ("(TLE, time) pairs from the repo's test TLEs and the near-earth generator, times within 2 days of epoch, scalar and "
        "array; observers over the globe incl. poles, the date line and altitudes 0-40000 km; correspondence: lon/lat/alt "
        "and the iteration count (model vs Orbital.get_lonlatalt and geoloc.get_lonlatalt), observer position/velocity at "
        "1e-11; oracle: ranges, WGS-84 round trip 2e-6 |r| against an independent geodesy + IAU-82 GMST, observer = inverse, "
        "velocity = omega x r (scalar observers and observer arrays of dtype float64/float32/int64, 0-d, 1-d, 2-d), module = "
        "method exactly (also for batches in which some positions are NaN), local time; batches of 1, 2, 3, 4, 5, 7 positions "
        "and (M, N) blocks incl. M or N = 3 in the documented layout (components along the first axis) through geoloc.get_lonlatalt "
        "(time array / one instant), Orbital.get_lonlatalt and observer_position (same shapes, one instant / one per observer): "
        "result shape, each element = the scalar conversion and the 2e-6 round trip of its own position; explicit positions on the polar axis and "
        "1e-12..1 km off it (both hemispheres, pole surface to GEO height) through geoloc.get_lonlatalt with the same 2e-6 round "
        "trip; distinct = (tle, time) or observer or explicit position")
ASSUMPTIONS = ["convergence of the latitude fixed-point iteration is proved over the reals (PV.Props.C04Conv); its float execution and the float round trip are measured",
               "the code normalises by 6378.135 km and rescales the altitude by 6378.137 km: relative mismatch 3.1e-7, inside the 2e-6 tolerance"]
TRUSTED = ["model PV.Model.Look (wrapLon, latStep/latLoop, lonLatAlt) and PV.Model.Astro.observerPosition", "spec PV.Spec.Topo"]
LEVEL_TEXT = ("Theorems over the reals: longitude after `% 2pi` and the two `where`s lies in (-pi, pi]; every latitude iterate lies "
              "in [-pi/2, pi/2]; observer_position equals the WGS-84 geodetic->cartesian formulas rotated by GMST+lon, its "
              "velocity is omega x position; the module-level and object-level conversions are the same function of the "
              "normalised position; local time is lon/15 h; a fixed point of the iteration body converts back to the position "
              "exactly up to the explicit unit mismatch A/XKMPER; the iteration body is a contraction (factor 7/1000) for every "
              "position with |p| >= 0.99 earth radii, polar axis included, so the loop exits within 5 passes, the returned "
              "latitude is within 7e-13 of the unique fixed point and converting back reproduces the position within 2e-6 |p| "
              "(PV.Props.C04Conv, over the reals). Tie: T-C (the traced loop passes, exit tests, altitude formula and "
              "observer_position are the model's functions for all real inputs) + lon/lat/alt and iteration counts model vs "
              "code at 1e-10, observer position at 1e-11. Float rounding is measured (2e-6 round trip).")
LEVEL_NOTE = ("Trusted: Lean kernel + Mathlib reals; hand-written models + correspondence harness; constants F, A, XKMPER, MFACTOR "
              "regenerated from the source; binary64 rounding not proved.")
TECHNIQUE = "Lean 4 proof (range lemmas via Complex.arg, WGS-84 identities by field_simp/ring) + differential correspondence + independent-geodesy oracle"


def orbitals(ctx, n):
    return orbits.make_orbitals(ctx, max(n, 8))


def rand_observer(ctx):
    r = ctx.rng
    lon = r.choice([r.uniform(-180, 180), 180.0, -180.0, 0.0, r.uniform(179.999, 180), r.uniform(-180, -179.999)])
    lat = r.choice([r.uniform(-90, 90), 90.0, -90.0, 0.0, r.uniform(89.99, 90), r.uniform(-90, -89.99)])
    alt = r.choice([0.0, r.uniform(0, 5), r.uniform(0, 40000)])
    return lon, lat, alt


def correspond(ctx):
    from pyorbital import astronomy, geoloc
    drv = ctx.driver()
    n = ctx.size(40, 400)
    per = ctx.size(40, 300)
    lines, exp = [], []
    for (a, b, o) in orbitals(ctx, n):
        for t in orbits.rand_times(ctx, o, per):
            d = float(astronomy.jdays2000(t))
            pn, _ = o.get_position(t, normalize=True)
            pk, _ = o.get_position(t, normalize=False)
            lla = [float(x) for x in o.get_lonlatalt(t)]
            lla2 = [float(x) for x in geoloc.get_lonlatalt(pk, t)]
            lines.append("lla " + " ".join(lib.f2h(x) for x in [d] + list(pn)))
            exp.append(("lla", a, b, t, lla))
            lines.append("llakm " + " ".join(lib.f2h(x) for x in [d] + list(pk)))
            exp.append(("llakm", a, b, t, lla2))
    for _ in range(ctx.size(1500, 60000)):
        lon, lat, alt = rand_observer(ctx)
        t = dt.datetime(2000, 1, 1) + dt.timedelta(seconds=ctx.rng.uniform(-20 * 365 * 86400, 40 * 365 * 86400))
        d = float(astronomy.jdays2000(t))
        (p, v) = astronomy.observer_position(t, lon, lat, alt)
        lines.append("obs " + " ".join(lib.f2h(x) for x in [d, lon, lat, alt]))
        exp.append(("obs", lon, lat, alt, [float(x) for x in list(p) + list(v)]))
    outs = drv.run_parallel(lines)
    for e, o in zip(exp, outs):
        if e[0] in ("lla", "llakm"):
            ctx.count("eval_corr_lla")
            ctx.distinct((e[1], str(e[3])))
            toks = o.split()
            if toks[0] == "diverged":
                ctx.disagree(e[0], {"line1": e[1], "line2": e[2], "utc": str(e[3])}, e[4], "diverged")
                continue
            m = [lib.h2f(x) for x in toks[:3]]
            ctx.bump("lat_iterations", toks[3])
            ok = (abs(m[0] - e[4][0]) <= 1e-9 or abs(abs(m[0] - e[4][0]) - 360) <= 1e-9) and abs(m[1] - e[4][1]) <= 1e-9 \
                and abs(m[2] - e[4][2]) <= 1e-7
            if not ok:
                ctx.disagree(e[0], {"line1": e[1], "line2": e[2], "utc": str(e[3])}, e[4], m)
        else:
            ctx.count("eval_corr_obs")
            ctx.distinct(("obs", e[1], e[2], e[3]))
            m = [lib.h2f(x) for x in o.split()]
            if not all(lib.close(a_, b_, 7000.0, 1e-12) for a_, b_ in zip(e[4], m)):
                ctx.disagree("obs", {"lon": e[1], "lat": e[2], "alt": e[3]}, e[4], m)
    ctx.sample({"op": exp[0][0], "line1": exp[0][1], "utc": str(exp[0][3]), "lonlatalt": exp[0][4]})


def oracle(ctx):
    from pyorbital import astronomy, geoloc
    n = ctx.size(30, 300)
    per = ctx.size(40, 400)
    worst = 0.0
    for (a, b, o) in orbitals(ctx, n):
        ts = orbits.rand_times(ctx, o, per)
        for t in ts:
            ctx.count("eval_oracle")
            case = {"line1": a, "line2": b, "utc": t.isoformat()}
            lon, lat, alt = [float(x) for x in o.get_lonlatalt(t)]
            pos, _ = o.get_position(t, normalize=False)
            if not (-180.0 < lon <= 180.0):
                ctx.violation("lon_range", case, lon, "(-180, 180]", site="Orbital.get_lonlatalt")
            if not (-90.0 <= lat <= 90.0):
                ctx.violation("lat_range", case, lat, "[-90, 90]", site="Orbital.get_lonlatalt")
            back = geo.geodetic_to_eci(lon, lat, alt, geo.gmst_ref(t))
            err = float(np.linalg.norm(back - pos) / np.linalg.norm(pos))
            worst = max(worst, err)
            if not err <= 2e-6:
                ctx.violation("roundtrip", case, {"lonlatalt": [lon, lat, alt], "rel_err": err}, "<= 2e-6 |r|", site="Orbital.get_lonlatalt")
            # module-level == object-level, exactly
            m = geoloc.get_lonlatalt(pos, t)
            if not (float(m[0]) == lon and float(m[1]) == lat and float(m[2]) == alt):
                ctx.violation("module_vs_method", case, [float(x) for x in m], [lon, lat, alt], site="geoloc.get_lonlatalt")
            # local time
            loc = o.utc2local(t)
            want = t + dt.timedelta(hours=lon / 15.0)
            if abs((loc - want).total_seconds()) > 2e-6:
                ctx.violation("utc2local", case, str(loc), str(want), site="Orbital.utc2local")
        # array call = scalar calls
        arr = np.array([np.datetime64(t) for t in ts[:20]])
        la = o.get_lonlatalt(arr)
        for i, t in enumerate(ts[:20]):
            s = o.get_lonlatalt(t)
            ctx.count("eval_oracle_array")
            if not (abs(float(la[0][i]) - float(s[0])) < 1e-6 and abs(float(la[1][i]) - float(s[1])) < 1e-6 and abs(float(la[2][i]) - float(s[2])) < 1e-6):
                ctx.violation("array_vs_scalar", {"line1": a, "line2": b, "utc": t.isoformat()}, [float(la[k][i]) for k in range(3)],
                              [float(x) for x in s], site="Orbital.get_lonlatalt")
    # observer position is the inverse for any lon/lat/alt; velocity = omega x position
    for _ in range(ctx.size(1500, 60000)):
        lon, lat, alt = rand_observer(ctx)
        t = dt.datetime(2000, 1, 1) + dt.timedelta(seconds=ctx.rng.uniform(-20 * 365 * 86400, 40 * 365 * 86400))
        ctx.count("eval_oracle_obs")
        (p, v) = astronomy.observer_position(t, lon, lat, alt)
        p = np.array([float(x) for x in p])
        v = np.array([float(x) for x in v])
        ref = geo.geodetic_to_eci(lon, lat, alt, geo.gmst_ref(t))
        case = {"utc": t.isoformat(), "lon": lon, "lat": lat, "alt": alt}
        if not np.linalg.norm(p - ref) <= 2e-7 * np.linalg.norm(ref) + 1e-9:
            ctx.violation("observer_position", case, list(p), list(ref), site="astronomy.observer_position")
        w = np.array([0.0, 0.0, geo.OMEGA_E])
        if not np.linalg.norm(v - np.cross(w, p)) <= 1e-12 * (1 + np.linalg.norm(v)):
            ctx.violation("observer_velocity", case, list(v), list(np.cross(w, p)), site="astronomy.observer_position")
    ctx.note("worst WGS-84 round-trip relative error = %.3g" % worst)
    _oracle_observer_arrays(ctx)
    _oracle_batches(ctx)
    _oracle_dateline(ctx)
    _oracle_polar(ctx)


def _obs_array_case(kind, lons, lats, alts, tiso, shape=None, utcs=None):
    case = {"kind": kind, "lons": [float(x) for x in lons], "lats": [float(x) for x in lats], "alts": [float(x) for x in alts], "utc": tiso}
    if shape is not None:
        case["shape"] = list(shape)
    if utcs is not None:
        case["utcs"] = list(utcs)
    return case


def _check_observer_array(ctx, kind, lons, lats, alts, t, shape=None, utcs=None):
    """observer_position on array-valued observers (any dtype) = the inverse WGS-84 conversion per element, velocity = w x r.
    shape: the observers arranged in an array of that shape (any number of observers, 1-D or 2-D) instead of the layout the
    kind implies; utcs: one instant per observer (a time array of the same shape) instead of the single instant t."""
    from pyorbital import astronomy
    if shape is not None:
        dtp = {"f64": np.float64, "f32": np.float32, "i64": np.int64}[kind]
        mk = lambda x: np.array(x, dtype=dtp).reshape(tuple(shape))    # noqa: E731
    else:
        mk = {"f64": lambda x: np.array(x, dtype=np.float64), "f32": lambda x: np.array(x, dtype=np.float32),
              "i64": lambda x: np.array(x, dtype=np.int64), "f64_2d": lambda x: np.array(x, dtype=np.float64).reshape(2, -1),
              "0d": lambda x: np.array(x[0], dtype=np.float64)}[kind]
    a_lon, a_lat, a_alt = mk(lons), mk(lats), mk(alts)
    shp = np.broadcast(a_lon, a_lat, a_alt).shape
    if utcs is not None:
        tl = [dt.datetime.fromisoformat(u) for u in utcs]
        targ = np.array([np.datetime64(x) for x in tl]).reshape(shp)
    else:
        tl = None
        targ = t
    (p, v) = astronomy.observer_position(targ, a_lon, a_lat, a_alt)
    shapes = [np.shape(x) for x in list(p) + list(v)]
    # x, y, z, vx, vy are arrays of the observers' shape (vz is identically zero and may be returned 0-d)
    if not (all(s_ == shp for s_ in shapes[:5]) and shapes[5] in (shp, ())):
        case = _obs_array_case(kind, lons, lats, alts, t.isoformat(), shape, utcs)
        case["index"] = 0
        ctx.violation("observer_position_array", case, {"result_shapes": [list(s_) for s_ in shapes]},
                      "position and velocity components of the observers' shape %r" % (list(shp),), site="astronomy.observer_position")
        return 1
    P = np.array([np.broadcast_to(np.asarray(x, dtype=np.float64), shp).ravel() for x in p])
    V = np.array([np.broadcast_to(np.asarray(x, dtype=np.float64), shp).ravel() for x in v])   # vz is a 0-d zero
    rl, rt, ra = (np.asarray(a_lon, dtype=np.float64).ravel(), np.asarray(a_lat, dtype=np.float64).ravel(),
                  np.asarray(a_alt, dtype=np.float64).ravel())
    w = np.array([0.0, 0.0, geo.OMEGA_E])
    tol = 2e-7 if kind != "f32" else 2e-6     # float32 results carry float32 rounding (C08); still far below the 2e-6 claim
    bad = 0
    for i in range(P.shape[1]):
        ctx.count("eval_oracle_obs_array")
        ref = geo.geodetic_to_eci(float(rl[i]), float(rt[i]), float(ra[i]), geo.gmst_ref(t if tl is None else tl[i]))
        case = _obs_array_case(kind, lons, lats, alts, t.isoformat(), shape, utcs)
        case["index"] = i
        if not np.linalg.norm(P[:, i] - ref) <= tol * np.linalg.norm(ref) + 1e-9:
            ctx.violation("observer_position_array", case, list(P[:, i]), list(ref), site="astronomy.observer_position")
            bad += 1
        vref = np.cross(w, ref)
        # float32 inputs are converted to radians in float32 (1e-7 rad): tolerances are relative to |r| and |w||r|
        if not np.linalg.norm(V[:, i] - vref) <= (tol if kind == "f32" else 1e-9) * geo.OMEGA_E * np.linalg.norm(ref):
            ctx.violation("observer_velocity_array", case, list(V[:, i]), list(vref), site="astronomy.observer_position")
            bad += 1
    return bad


def _oracle_observer_arrays(ctx):
    r = ctx.rng
    for _ in range(ctx.size(40, 800)):
        kind = r.choice(["f64", "f64", "f32", "i64", "f64_2d", "0d"])
        n = 4
        obs = [rand_observer(ctx) for _ in range(n)]
        if kind == "i64":
            obs = [(round(a), round(b), round(c)) for a, b, c in obs]
        if kind == "f32":
            obs = [(float(np.float32(a)), float(np.float32(b)), float(np.float32(min(c, 5.0)))) for a, b, c in obs]
        t = dt.datetime(2000, 1, 1) + dt.timedelta(seconds=r.uniform(-20 * 365 * 86400, 40 * 365 * 86400))
        ctx.bump("observer_array_kind", kind)
        ctx.distinct(("obsarr", kind, obs[0]))
        _check_observer_array(ctx, kind, [o[0] for o in obs], [o[1] for o in obs], [o[2] for o in obs], t)
    # any number of observers (1, 2, 3, 4, 5, 7 ...), 1-D and 2-D incl. an axis of length 3, with one instant for all and with
    # one instant per observer
    for rep in range(ctx.size(2, 12)):
        for shape in BATCH_SHAPES:
            k = int(np.prod(shape))
            kind = r.choice(["f64", "f64", "f32", "i64"])
            obs = [rand_observer(ctx) for _ in range(k)]
            if kind == "i64":
                obs = [(round(a), round(b), round(c)) for a, b, c in obs]
            if kind == "f32":
                obs = [(float(np.float32(a)), float(np.float32(b)), float(np.float32(min(c, 5.0)))) for a, b, c in obs]
            t = dt.datetime(2000, 1, 1) + dt.timedelta(seconds=r.uniform(-20 * 365 * 86400, 40 * 365 * 86400))
            utcs = None
            if (rep + len(shape) + k) % 2:
                utcs = [(t + dt.timedelta(seconds=r.uniform(-86400, 86400))).isoformat() for _ in range(k)]
            ctx.bump("observer_array_shape", "x".join(str(d) for d in shape) + ("/time array" if utcs else "/one instant"))
            ctx.distinct(("obsshape", kind, shape, obs[0]))
            _check_observer_array(ctx, kind, [o[0] for o in obs], [o[1] for o in obs], [o[2] for o in obs], t, shape, utcs)


# batch layouts: positions (3, N) and (3, M, N) for times of shape (N,) and (M, N); every small N, and an axis of length 3
BATCH_SHAPES = [(1,), (2,), (3,), (4,), (5,), (7,), (1, 1), (1, 3), (3, 1), (2, 2), (2, 3), (3, 2), (3, 3), (3, 4), (4, 3), (3, 5),
                (5, 3), (3, 7), (2, 5)]
BATCH_ENTRIES = ["module", "module_one_time", "method"]


def _check_shape_batch(ctx, a, b, tisos, shape, entry, o=None):
    """A batch of positions / times in the documented layout -- components along the FIRST axis, (3, N) or (3, M, N), times of
    shape (N,) or (M, N) -- through geoloc.get_lonlatalt (entry `module`; `module_one_time`: one instant for the whole batch)
    or Orbital.get_lonlatalt (entry `method`).  Each element must be the conversion of that position alone: equal to the
    scalar conversion (1e-9 deg, 1e-6 km: the same function evaluated in a batch), in range, and converting back with WGS-84 +
    GMST reproduces that position to 2e-6 of its length.  The results have the shape of the batch."""
    from pyorbital import geoloc, orbital
    o = o or orbital.Orbital("x", line1=a, line2=b)
    shape = tuple(shape)
    ts = [dt.datetime.fromisoformat(x) for x in tisos]
    arr = np.array([np.datetime64(t) for t in ts]).reshape(shape)
    cols = [np.array(o.get_position(t, normalize=False)[0], dtype=np.float64) for t in ts]   # each position from its own scalar call
    pos = np.stack(cols, axis=1).reshape((3,) + shape)
    with np.errstate(all="ignore"):
        if entry == "module":
            m = geoloc.get_lonlatalt(pos.copy(), arr)
        elif entry == "module_one_time":
            m = geoloc.get_lonlatalt(pos.copy(), ts[0])
        else:
            m = o.get_lonlatalt(arr)
    site = "Orbital.get_lonlatalt" if entry == "method" else "geoloc.get_lonlatalt"
    base = {"shape_batch": entry, "line1": a, "line2": b, "utcs": list(tisos), "shape": list(shape)}
    shapes = [np.shape(x) for x in m]
    if not all(s_ == shape for s_ in shapes):
        ctx.violation("batch_shape", dict(base, index=0), {"result_shapes": [list(s_) for s_ in shapes]},
                      "lon, lat, alt of shape %r (positions %r)" % (list(shape), [3] + list(shape)), site=site)
        return 1
    M = [np.asarray(x, dtype=np.float64).ravel() for x in m]
    bad = 0
    for i, t in enumerate(ts):
        ctx.count("eval_oracle_shape_batch")
        tconv = ts[0] if entry == "module_one_time" else t
        if entry == "method":
            s = [float(x) for x in o.get_lonlatalt(t)]
        else:
            s = [float(x) for x in geoloc.get_lonlatalt(cols[i].copy(), tconv)]
        got = [float(M[k][i]) for k in range(3)]
        case = dict(base, index=i)
        dlon = abs(got[0] - s[0])
        dlon = min(dlon, abs(dlon - 360.0))
        back = geo.geodetic_to_eci(got[0], got[1], got[2], geo.gmst_ref(tconv))
        err = float(np.linalg.norm(back - cols[i]) / np.linalg.norm(cols[i]))
        if not (-180.0 < got[0] <= 180.0 and -90.0 <= got[1] <= 90.0):
            ctx.violation("batch_range", case, got, "lon in (-180, 180], lat in [-90, 90]", site=site)
            bad += 1
        elif not err <= 2e-6:
            ctx.violation("batch_roundtrip", case, {"lonlatalt": got, "position_km": [float(x) for x in cols[i]], "rel_err": err},
                          "<= 2e-6 |r| (element %d of the batch is the sub-point of position %d)" % (i, i), site=site)
            bad += 1
        elif not (dlon <= 1e-9 and abs(got[1] - s[1]) <= 1e-9 and abs(got[2] - s[2]) <= 1e-6):
            ctx.violation("batch_vs_scalar", case, got, s, site=site)
            bad += 1
        if bad >= 3:
            break
    return bad


def _check_batch(ctx, a, b, tisos, nan_cols, o=None):
    """geoloc.get_lonlatalt on a batch of positions, some of them NaN (pixels that missed the earth): every valid column must
    equal the object-level conversion of that position alone (the module and object conversions agree exactly)."""
    from pyorbital import geoloc, orbital
    o = o or orbital.Orbital("x", line1=a, line2=b)
    ts = [dt.datetime.fromisoformat(x) for x in tisos]
    arr = np.array([np.datetime64(t) for t in ts])
    pos, _ = o.get_position(arr, normalize=False)
    pos = np.array(pos, dtype=np.float64)
    for c in nan_cols:
        pos[:, c] = np.nan
    with np.errstate(all="ignore"):
        m = geoloc.get_lonlatalt(pos, arr)
    bad = 0
    for i, t in enumerate(ts):
        if i in nan_cols:
            continue
        ctx.count("eval_oracle_batch")
        s = [float(x) for x in o.get_lonlatalt(t)]
        got = [float(m[k][i]) for k in range(3)]
        # same function, evaluated in a batch: agreement far below the 2e-6 round-trip claim (1e-9 deg, 1e-6 km)
        if not (abs(got[0] - s[0]) <= 1e-9 and abs(got[1] - s[1]) <= 1e-9 and abs(got[2] - s[2]) <= 1e-6):
            ctx.violation("module_vs_method_batch", {"line1": a, "line2": b, "utcs": tisos, "nan_cols": list(nan_cols), "index": i},
                          got, s, site="geoloc.get_lonlatalt")
            bad += 1
    return bad


def _check_dateline(ctx, tiso, r_km, z_km, delta):
    """A position whose longitude is (within delta rad of) exactly 180 deg: reported longitude in (-180, 180], round trip."""
    from pyorbital import astronomy, geoloc
    t = dt.datetime.fromisoformat(tiso)
    g = float(astronomy.gmst(t))
    ang = g + math.pi + delta
    pos = np.array([r_km * math.cos(ang), r_km * math.sin(ang), z_km])
    lon, lat, alt = [float(x) for x in geoloc.get_lonlatalt(pos, t)]
    case = {"dateline": True, "utc": tiso, "r_km": r_km, "z_km": z_km, "delta": delta}
    bad = 0
    if not (-180.0 < lon <= 180.0):
        ctx.violation("lon_range", case, lon, "(-180, 180]", site="geoloc.get_lonlatalt")
        bad += 1
    if abs(abs(lon) - 180.0) > 1e-6 + abs(math.degrees(delta)) * 1.001:
        ctx.violation("dateline_longitude", case, lon, "within %g deg of +-180" % (1e-6 + abs(math.degrees(delta))), site="geoloc.get_lonlatalt")
        bad += 1
    back = geo.geodetic_to_eci(lon, lat, alt, geo.gmst_ref(t))
    err = float(np.linalg.norm(back - pos) / np.linalg.norm(pos))
    if not err <= 2e-6:
        ctx.violation("roundtrip", case, {"lonlatalt": [lon, lat, alt], "rel_err": err}, "<= 2e-6 |r|", site="geoloc.get_lonlatalt")
        bad += 1
    return bad


def _oracle_dateline(ctx):
    r = ctx.rng
    for _ in range(ctx.size(120, 3000)):
        t = dt.datetime(2000, 1, 1) + dt.timedelta(seconds=r.uniform(-20 * 365 * 86400, 40 * 365 * 86400))
        delta = r.choice([0.0, 0.0, 1e-16, -1e-16, 4e-16, -4e-16, 1e-12, -1e-12, 1e-9, -1e-9])
        ctx.count("eval_oracle_dateline")
        ctx.distinct(("dateline", t.isoformat(), delta))
        _check_dateline(ctx, t.isoformat(), r.uniform(3000, 42000), r.uniform(-7000, 7000), delta)


def _oracle_batches(ctx):
    r = ctx.rng
    for (a, b, o) in orbitals(ctx, ctx.size(8, 60)):
        ts = orbits.rand_times(ctx, o, 6)
        for nan_cols in ([], [0], [2, 5], [r.randrange(6)]):
            ctx.distinct(("batch", a, tuple(nan_cols)))
            ctx.bump("batch_nan_columns", len(nan_cols))
            _check_batch(ctx, a, b, [t.isoformat() for t in ts], nan_cols, o)
        # ... and batches of 3, 4, 5 positions with and without a NaN column
        for nb in (3, 4, 5):
            for nan_cols in ([], [r.randrange(nb)]):
                ctx.bump("batch_nan_columns", "%d of %d" % (len(nan_cols), nb))
                _check_batch(ctx, a, b, [t.isoformat() for t in ts[:nb]], nan_cols, o)
    # every batch size and layout through every array-taking conversion, each element judged on its own
    for (a, b, o) in orbitals(ctx, ctx.size(4, 40)):
        for shape in BATCH_SHAPES:
            for entry in BATCH_ENTRIES:
                ts = orbits.rand_times(ctx, o, int(np.prod(shape)))
                if len(ts) < int(np.prod(shape)):
                    continue
                ctx.distinct(("shape_batch", a, shape, entry))
                ctx.bump("batch_shape", "x".join(str(d) for d in shape) + "/" + entry)
                _check_shape_batch(ctx, a, b, [t.isoformat() for t in ts], shape, entry, o)


POLAR_Z = [6356.7524, 6400.0, 7000.0, 7200.0, 26560.0, 42164.0]
POLAR_OFF = [0.0, 1e-12, 1e-9, 1e-7, 1e-6, 1e-5, 1e-4, 1e-3, 1e-2, 1.0]


def _check_polar_subpoint(ctx, pos, tiso):
    """Sub-satellite point of an explicit ECI position (km) through geoloc.get_lonlatalt: ranges and the 2e-6 WGS-84 round trip."""
    from pyorbital import geoloc
    t = dt.datetime.fromisoformat(tiso)
    pos = np.array(pos, dtype=np.float64)
    with np.errstate(all="ignore"):
        lon, lat, alt = [float(x) for x in geoloc.get_lonlatalt(pos, t)]
    case = {"pos": [float(x) for x in pos], "utc": tiso}
    bad = 0
    if not (-180.0 < lon <= 180.0) or not (-90.0 <= lat <= 90.0):
        ctx.violation("polar_range", case, [lon, lat, alt], "lon in (-180, 180], lat in [-90, 90]", site="geoloc.get_lonlatalt")
        bad += 1
    back = geo.geodetic_to_eci(lon, lat, alt, geo.gmst_ref(t))
    err = float(np.linalg.norm(back - pos) / np.linalg.norm(pos))
    if not err <= 2e-6:
        ctx.violation("roundtrip_polar", case, {"lonlatalt": [lon, lat, alt], "rel_err": err}, "<= 2e-6 |r|", site="geoloc.get_lonlatalt")
        bad += 1
    return bad, err, alt


def _oracle_polar(ctx):
    """explicit positions exactly on the polar axis and a few mm..km off it (every listed height and offset, both poles)"""
    r = ctx.rng
    worst = 0.0
    for z in POLAR_Z:
        for off in POLAR_OFF:
            for sgn in (1.0, -1.0):
                az = r.uniform(0, 2 * math.pi)
                t = dt.datetime(2000, 1, 1) + dt.timedelta(seconds=r.uniform(-20 * 365 * 86400, 40 * 365 * 86400))
                pos = [off * math.cos(az), off * math.sin(az), sgn * z]
                ctx.count("eval_oracle_polar")
                ctx.distinct(("polar", z, off, sgn))
                ctx.bump("polar_offset_km", "%g" % off)
                _, err, _ = _check_polar_subpoint(ctx, pos, t.isoformat())
                worst = max(worst, err)
    ctx.note("worst round-trip relative error on/near the polar axis = %.3g" % worst)


def match_known(entry, v):
    return False


def replay(ctx, case):
    from pyorbital import orbital
    inp = case.get("input", case)
    if inp.get("dateline"):
        bad = _check_dateline(ctx, inp["utc"], inp["r_km"], inp["z_km"], inp["delta"])
        print("date-line case", inp, "violations", bad)
        return 1 if bad else 0
    if "shape_batch" in inp:
        bad = _check_shape_batch(ctx, inp["line1"], inp["line2"], inp["utcs"], inp["shape"], inp["shape_batch"])
        print("batch of shape", inp["shape"], "through", inp["shape_batch"], "violations:", bad)
        return 1 if bad else 0
    if "lons" in inp:
        n0 = len(ctx.violations)
        _check_observer_array(ctx, inp["kind"], inp["lons"], inp["lats"], inp["alts"], dt.datetime.fromisoformat(inp["utc"]),
                              inp.get("shape"), inp.get("utcs"))
        print("observer array case", inp, "violations:", len(ctx.violations) - n0)
        return 1 if len(ctx.violations) > n0 else 0
    if "nan_cols" in inp:
        bad = _check_batch(ctx, inp["line1"], inp["line2"], inp["utcs"], inp["nan_cols"])
        print("batch case", inp, "violations:", bad)
        return 1 if bad else 0
    if "pos" in inp:
        bad, err, alt = _check_polar_subpoint(ctx, inp["pos"], inp["utc"])
        print("explicit position", inp, "alt", alt, "round-trip rel err", err)
        return 1 if bad else 0
    if "line1" not in inp:
        from pyorbital import astronomy
        t = dt.datetime.fromisoformat(inp["utc"])
        (p, v) = astronomy.observer_position(t, inp["lon"], inp["lat"], inp["alt"])
        p = np.array([float(x) for x in p]); v = np.array([float(x) for x in v])
        ref = geo.geodetic_to_eci(inp["lon"], inp["lat"], inp["alt"], geo.gmst_ref(t))
        w = np.array([0.0, 0.0, geo.OMEGA_E])
        bad = (not np.linalg.norm(p - ref) <= 2e-7 * np.linalg.norm(ref) + 1e-9) or \
            (not np.linalg.norm(v - np.cross(w, p)) <= 1e-12 * (1 + np.linalg.norm(v)))
        print("observer case", inp, "bad" if bad else "ok")
        return 1 if bad else 0
    o = orbital.Orbital("x", line1=inp["line1"], line2=inp["line2"])
    t = dt.datetime.fromisoformat(inp["utc"])
    lon, lat, alt = [float(x) for x in o.get_lonlatalt(t)]
    pos, _ = o.get_position(t, normalize=False)
    back = geo.geodetic_to_eci(lon, lat, alt, geo.gmst_ref(t))
    err = float(np.linalg.norm(back - pos) / np.linalg.norm(pos))
    print("lonlatalt", lon, lat, alt, "round-trip rel err", err)
    return 1 if (err > 2e-6 or not (-180 < lon <= 180) or not (-90 <= lat <= 90)) else 0
