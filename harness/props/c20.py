"""C20 — state vectors are physically self-consistent with the TLE's orbit."""
import datetime as dt
import math

import numpy as np

import lib
import orbits
import sgp4io
import tlegen

ID = "C20"
LEAN_TARGETS = ["PV.Props.C20"]
# T-C tie (DESIGN 2.3): kernels traced from the current source are proved equal to the model over the reals
EQUIV = {'PV.Equiv.Look': ['kep2xyz_eq']}
import symtrace_sgp4  # noqa: E402  (static lists of the SGP4 stage-equivalence theorems)
EQUIV.update(symtrace_sgp4.EQUIV_SGP4)
RULE = ("accepted near-earth TLEs (e up to 0.4, any inclination, |B*| <= 0.003; the repo's TLEs and the generator) x times within "
        "+-7 days; correspondence: radius, rdotk, rfdotk, the three angles and the cartesian state model vs kep2xyz at 1e-11; "
        "oracle (no SGP4 re-implementation): velocity vs central difference of positions (0.15 %), distance within perigee/apogee "
        "radii +-40 km, r x v inclination within 0.05 deg, energy within 1 % of -mu/2a, and for drag-free sets the summary "
        "period / perigee / semi-major axis vs the sampled trajectory; distinct = (tle, time)")
ASSUMPTIONS = ["velocity = d/dt position, energy and the 40/30 km bands are physics of the analytic theory: measured, not proved",
               "mu = XKE^2 * XKMPER^3 / 3600 (WGS-72), a = semi-major axis of the orbit summary"]
TRUSTED = ["model PV.Model.Sgp4.kep2xyz / shortPeriod / elements"]
LEVEL_TEXT = ("Theorems over the reals: the orientation vectors U, V of kep2xyz are orthonormal, so |r| = r_k, r.v = r_k rdot_k, "
              "|v|^2 = rdot_k^2 + rfdot_k^2; r x v = r_k rfdot_k W with W_z = cos(xinc): the orbital-plane inclination is xinc, and "
              "|xinc - i0| <= 0.75 CK2 / p_l^2 (0.024 deg for p_l >= 1); r_k lies within explicit bounds of a(1 -+ e_L); the orbit "
              "summary is period = 2pi/n0'', perigee = (a(1-e) - 1) XKMPER. Tie: all kep2xyz inputs and outputs model vs code at "
              "1e-11. The derivative, energy and band clauses are measured on the implementation.")
LEVEL_NOTE = ("Trusted: Lean kernel + Mathlib reals; hand-written model + correspondence harness; finite-difference oracle step "
              "(1 s) and its truncation error (< 1e-5 relative).")
TECHNIQUE = "Lean 4 proof (orthonormal-frame identities by linear_combination, inclination bound) + differential correspondence + physics oracle"

XKE = 0.0743669161
XKMPER = 6378.135
MU = XKE ** 2 * XKMPER ** 3 / 3600.0      # km^3/s^2 (WGS-72: 398600.8)


def gen_tles(ctx, n, drag_free=False):
    out = []
    if not drag_free:
        for (_, a, b) in tlegen.REAL_TLES:
            bs = a[53:61]
            try:
                bval = float((bs[0] + "." + bs[1:6] + "e" + bs[6:]).replace(" ", ""))
            except ValueError:
                continue
            if abs(bval) <= 0.003 and int(b[26:33]) * 1e-7 <= 0.4:
                out.append((a, b))
    tries = 0
    while len(out) < n and tries < 100 * n:
        tries += 1
        ov = {}
        if drag_free:
            ov = {"bstar": " 00000-0", "ndot": " .00000000", "nddot": " 00000-0"}
        elif ctx.rng.random() < 0.08:
            # a B* printed with a non-normalised mantissa (leading zero) at the top of the property's drag range, low orbit:
            # read ten times too large, the orbit would leave its perigee/apogee band within days
            ov = {"bstar": ctx.rng.choice([" ", "-"]) + "0" + "%04d" % ctx.rng.randrange(1000, 3001) + "-1",
                  "mmotion": "%11.8f" % ctx.rng.uniform(15.2, 15.7), "ecc": "%07d" % ctx.rng.randrange(1000, 30000)}
        f, a, b = tlegen.random_tle(ctx.rng, ctx.rng.choice(["near", "leo"]), overrides=ov)
        e = int(f["ecc"]) * 1e-7
        if e > 0.4:
            continue
        bs = f["bstar"]
        bval = float((bs[0] + "." + bs[1:6] + "e" + bs[6:]).replace(" ", ""))
        if abs(bval) > 0.003:
            continue
        if drag_free and not (3.0 <= float(f["incl"]) <= 177.0):
            continue
        out.append((a, b))
    return out


def correspond(ctx):
    drv = ctx.driver()
    n = ctx.size(250, 6000)
    cases = gen_tles(ctx, n)
    impls, lines, tss = [], [], []
    for (l1, l2) in cases:
        ts = [ctx.rng.randrange(-7 * 86400 * 10 ** 6, 7 * 86400 * 10 ** 6) / 60e6 for _ in range(3)]
        im = sgp4io.impl_trace(l1, l2, ts)
        impls.append(im)
        tss.append(ts)
        lines.append(sgp4io.model_line(im["tle_nums"], ts))
    outs = drv.run_parallel(lines)
    for (l1, l2), ts, im, o in zip(cases, tss, impls, outs):
        m = sgp4io.parse_model(o)
        ctx.count("eval_corr", len(ts))
        for t in ts:
            ctx.distinct((l1, t))
        bad = sgp4io.compare(im, m)
        if bad:
            ctx.disagree("kep2xyz", {"line1": l1, "line2": l2, "ts": ts}, [b[2] for b in bad[:5]], [b[3] for b in bad[:5]],
                         note="; ".join("%s.%s" % (b[0], b[1]) for b in bad[:5]))
    ctx.sample({"line1": cases[0][0], "line2": cases[0][1], "ts": tss[0]})


def oracle(ctx):
    from pyorbital import orbital
    drv = ctx.driver() if ctx.driver_ok else None
    n = ctx.size(120, 4000)
    worst = {"dv": 0.0, "incl": 0.0, "energy": 0.0}
    for (l1, l2) in tlegen.with_twins(ctx.rng, gen_tles(ctx, n), every=5):
        try:
            o = orbital.Orbital("x", line1=l1, line2=l2)
            o.get_position(o.tle.epoch)
        except Exception:  # noqa
            continue
        oe = o.orbit_elements
        a_km = float(oe.semi_major_axis) * XKMPER
        ecc = float(o.tle.excentricity)
        rp, ra = a_km * (1 - ecc), a_km * (1 + ecc)
        uss = [ctx.rng.randrange(-7 * 86400 * 10 ** 6, 7 * 86400 * 10 ** 6) for _ in range(ctx.size(6, 12))]
        # "the model's perigee and apogee radii": under drag the model's own semi-major axis and eccentricity move with
        # time; the band is the union of the epoch radii and the radii of the model's elements at that time (the reading
        # that demands least, DESIGN section 7).  a(t)/a0 and e(t) come from the published model (driver), not from pyorbital.
        secular = {}
        if drv is not None:
            try:
                outm = drv.run(["str3 " + " ".join(lib.f2h(x) for x in sgp4io.tle_nums(o.tle)) + "".join(" " + lib.f2h(u / 60e6) for u in uss)])[0]
                for u, st in zip(uss, outm.split(" | ")[1:]):
                    tk = st.split()
                    secular[u] = (lib.h2f(tk[6]), lib.h2f(tk[9]))      # a(t)/a0, e(t)
            except Exception:  # noqa
                secular = {}
        for us in uss:
            t = o.tle.epoch + np.timedelta64(us, "us")
            rp_t, ra_t = rp, ra
            if us in secular and all(math.isfinite(x) for x in secular[us]):
                ratio, e_t = secular[us]
                rp_t = min(rp, a_km * ratio * (1 - max(e_t, 0.0)))
                ra_t = max(ra, a_km * ratio * (1 + max(e_t, 0.0)))
            case = {"line1": l1, "line2": l2, "minutes": us / 60e6}
            try:
                p, v = o.get_position(t, normalize=False)
                h = np.timedelta64(1, "s")
                p1, _ = o.get_position(t + h, normalize=False)
                p0, _ = o.get_position(t - h, normalize=False)
            except Exception:  # noqa  decay: C13
                ctx.count("oracle_decay_skipped")
                continue
            ctx.count("eval_oracle")
            speed = float(np.linalg.norm(v))
            dv = float(np.linalg.norm((p1 - p0) / 2.0 - v)) / speed
            worst["dv"] = max(worst["dv"], dv)
            if dv > 0.0015:
                ctx.violation("velocity_vs_derivative", case, {"v": list(v), "dpdt": list((p1 - p0) / 2.0), "rel": dv}, "<= 0.15 % of the speed", site="Orbital.get_position")
            r = float(np.linalg.norm(p))
            if not (rp_t - 40.0 <= r <= ra_t + 40.0):
                ctx.violation("distance_band", case, r, "[%.3f, %.3f] km (perigee/apogee radii +-40 km)" % (rp_t - 40, ra_t + 40), site="Orbital.get_position")
            # the same band from the perigee / apogee heights the propagator itself exposes
            mp, ma = getattr(o._sgdp4, "perigee", None), getattr(o._sgdp4, "apogee", None)
            if mp is not None and ma is not None:
                lo = min(float(mp) + XKMPER, rp_t) - 40.0
                hi = max(float(ma) + XKMPER, ra_t if ra_t > ra else float(ma) + XKMPER) + 40.0
                if not (lo <= r <= hi):
                    ctx.violation("distance_band_model", case, r, "[%.3f, %.3f] km (the model's perigee/apogee heights + %.3f, +-40 km)" % (
                        lo, hi, XKMPER), site="_SGDP4Base.perigee/apogee")
            # the same derivative through ARRAY-valued times on a sub-second grid (one call for t - h, t, t + h)
            try:
                hq = ctx.rng.choice([250000, 125000, 500000])          # microseconds
                arr3 = np.array([t - np.timedelta64(hq, "us"), t, t + np.timedelta64(hq, "us")])
                pa, va = o.get_position(arr3, normalize=False)
                dva = float(np.linalg.norm((np.asarray(pa)[:, 2] - np.asarray(pa)[:, 0]) / (2 * hq / 1e6) - np.asarray(va)[:, 1])) / speed
                if dva > 0.0015:
                    ctx.violation("velocity_vs_derivative", dict(case, array_times=True, h_us=hq), {"rel": dva}, "<= 0.15 % of the speed (array-valued times)",
                                  site="Orbital.get_position")
            except Exception:  # noqa
                pass
            # the default (normalised) output is the same state in units of 6378.135 km and 106.30225 km/s
            try:
                pn, vn = o.get_position(t)
                dn = float(np.linalg.norm(v - np.asarray(vn) * 106.30225)) / speed
                dpn = float(np.linalg.norm(np.asarray(pn) * 6378.135 - p)) / r
                if dn > 1e-9 or dpn > 1e-9:
                    ctx.violation("normalised_state", case, {"pos_n": list(pn), "vel_n": list(vn), "rel_v": dn, "rel_p": dpn},
                                  "the same state (velocity*106.30225 km/s, position*6378.135 km), so that its velocity is the derivative of its position too", site="Orbital.get_position(normalize=True)")
            except Exception:  # noqa
                pass
            hvec = np.cross(p, v)
            inc = math.degrees(math.acos(max(-1.0, min(1.0, float(hvec[2] / np.linalg.norm(hvec))))))
            tle_incl = float(l2[8:16])        # the inclination PRINTED in the element set (columns 9-16 of line 2)
            di = abs(inc - tle_incl)
            worst["incl"] = max(worst["incl"], di)
            if di > 0.05:
                ctx.violation("plane_inclination", case, inc, "TLE inclination %.4f within 0.05 deg" % tle_incl, site="Orbital.get_position")
            energy = speed ** 2 / 2 - MU / r
            ref = -MU / (2 * a_km)
            de = abs(energy - ref) / abs(ref)
            worst["energy"] = max(worst["energy"], de)
            if de > 0.01:
                ctx.violation("energy", case, energy, "%.6f within 1 %%" % ref, site="Orbital.get_position")
    ctx.note("worst: |v - dp/dt|/|v| = %.3g, |incl - i0| = %.3g deg, energy rel = %.3g" % (worst["dv"], worst["incl"], worst["energy"]))
    # orbit summary vs the sampled trajectory (drag-free, inclination 3-177 deg)
    for (l1, l2) in gen_tles(ctx, ctx.size(25, 400), drag_free=True):
        try:
            o = orbital.Orbital("x", line1=l1, line2=l2)
            o.get_position(o.tle.epoch)
        except Exception:  # noqa
            continue
        ctx.count("eval_oracle_summary")
        # the summary describes the trajectory whatever the object has been asked before
        try:
            o.get_orbit_number(o.tle.epoch + np.timedelta64(3600, "s"))
            o.get_lonlatalt(o.tle.epoch)
            o.get_last_an_time(o.tle.epoch)
        except Exception:  # noqa
            pass
        oe = o.orbit_elements
        try:
            period_min = float(oe.period)
            float(oe.perigee), float(oe.semi_major_axis)
        except Exception as ex:  # noqa  the summary must still be the numbers it was (minutes, km, earth radii)
            ctx.violation("summary_not_numeric", {"line1": l1, "line2": l2, "after": "get_orbit_number, get_lonlatalt, get_last_an_time"},
                          "%s: %s (period=%r)" % (type(ex).__name__, ex, oe.period), "period in minutes, perigee in km, semi-major axis as numbers",
                          site="OrbitElements")
            continue
        step = 10.0
        nstep = int(2.2 * period_min * 60 / step)
        ts = o.tle.epoch + (np.arange(nstep) * step * 1e6).astype("int64").astype("timedelta64[us]")
        try:
            pos, _ = o.get_position(ts, normalize=False)
        except Exception:  # noqa
            continue
        r = np.linalg.norm(pos, axis=0)
        z = pos[2]
        nodes = []
        for i in range(nstep - 1):
            if z[i] < 0 <= z[i + 1]:
                lo, hi = ts[i], ts[i + 1]
                for _ in range(30):
                    mid = lo + (hi - lo) // 2
                    zm = o.get_position(mid, normalize=False)[0][2]
                    if zm < 0:
                        lo = mid
                    else:
                        hi = mid
                nodes.append(hi)
        case = {"line1": l1, "line2": l2}
        if len(nodes) >= 2:
            nodal = float((nodes[1] - nodes[0]) / np.timedelta64(1, "us")) / 60e6
            if abs(nodal - period_min) > 0.01 * nodal:
                ctx.violation("summary_period", case, period_min, "nodal period %.4f min within 1 %%" % nodal, site="OrbitElements.period")
        one = int(period_min * 60 / step) + 2
        rmin, rmax = float(r[:one].min()), float(r[:one].max())
        if abs(float(oe.perigee) - (rmin - 6378.0)) > 30.0:
            ctx.violation("summary_perigee", case, float(oe.perigee), "min distance - 6378 = %.3f km within 30 km" % (rmin - 6378.0), site="OrbitElements.perigee")
        if abs(float(oe.semi_major_axis) * XKMPER - (rmin + rmax) / 2) > 30.0:
            ctx.violation("summary_sma", case, float(oe.semi_major_axis) * XKMPER, "(rmin+rmax)/2 = %.3f km within 30 km" % ((rmin + rmax) / 2), site="OrbitElements.semi_major_axis")


def match_known(entry, v):
    m = entry.get("match", {})
    if m.get("kind") != v["kind"]:
        return False
    if "min_inclination_deg" in m:
        try:
            return float(v["case"]["line2"][8:16]) >= m["min_inclination_deg"]
        except (KeyError, ValueError):
            return False
    return False


def replay(ctx, case):
    from pyorbital import orbital
    inp = case.get("input", case)
    o = orbital.Orbital("x", line1=inp["line1"], line2=inp["line2"])
    if "minutes" in inp:
        t = o.tle.epoch + np.timedelta64(int(round(inp["minutes"] * 60e6)), "us")
        p, v = o.get_position(t, normalize=False)
        h = np.timedelta64(1, "s")
        p1, _ = o.get_position(t + h, normalize=False)
        p0, _ = o.get_position(t - h, normalize=False)
        print("v", v, "dp/dt", (p1 - p0) / 2)
        speed = float(np.linalg.norm(v))
        r = float(np.linalg.norm(p))
        bad = float(np.linalg.norm((p1 - p0) / 2.0 - v)) / speed > 0.0015
        if inp.get("array_times"):
            hq = inp["h_us"]
            arr3 = np.array([t - np.timedelta64(hq, "us"), t, t + np.timedelta64(hq, "us")])
            pa, va = o.get_position(arr3, normalize=False)
            bad = bad or float(np.linalg.norm((np.asarray(pa)[:, 2] - np.asarray(pa)[:, 0]) / (2 * hq / 1e6) - np.asarray(va)[:, 1])) / speed > 0.0015
        pn, vn = o.get_position(t)
        bad = bad or float(np.linalg.norm(v - np.asarray(vn) * 106.30225)) / speed > 1e-9
        mp, ma = getattr(o._sgdp4, "perigee", None), getattr(o._sgdp4, "apogee", None)
        if mp is not None and ma is not None:
            bad = bad or not (float(mp) + XKMPER - 40.0 <= r <= float(ma) + XKMPER + 40.0)
        a_km = float(o.orbit_elements.semi_major_axis) * XKMPER
        hvec = np.cross(p, v)
        inc = math.degrees(math.acos(max(-1.0, min(1.0, float(hvec[2] / np.linalg.norm(hvec))))))
        bad = bad or abs(inc - float(inp["line2"][8:16])) > 0.05
        bad = bad or abs((speed ** 2 / 2 - MU / r) - (-MU / (2 * a_km))) / abs(MU / (2 * a_km)) > 0.01
        print("violated" if bad else "holds")
        return 1 if bad else 0
    if inp.get("after"):
        o.get_orbit_number(o.tle.epoch + np.timedelta64(3600, "s"))
        try:
            float(o.orbit_elements.period)
        except Exception as ex:  # noqa
            print("summary period is not a number any more:", ex)
            return 1
    print("period", o.orbit_elements.period, "perigee", o.orbit_elements.perigee, "sma km", o.orbit_elements.semi_major_axis * XKMPER)
    return 0
