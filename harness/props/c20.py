"""C20 — state vectors are physically self-consistent with the TLE's orbit."""
import datetime as dt
import math
import sys

import numpy as np

import lib
import orbits
import sgp4io
import tlegen

ID = "C20"
LEAN_TARGETS = ["PV.Props.C20"]
# T-C tie (DESIGN 2.3): kernels traced from the current source are proved equal to the model over the reals
EQUIV = {'PV.Equiv.Look': ['kep2xyz_eq']}
import symtrace_sgp4  # noqa: E402  (static lists of the SGP4 stage-equivalence theorems)
EQUIV.update(symtrace_sgp4.EQUIV_SGP4)
RULE = ("accepted near-earth TLEs (e up to 0.4, any inclination, |B*| <= 0.003; the repo's TLEs and the generator) x times within "
        "+-7 days; correspondence: radius, rdotk, rfdotk, the three angles and the cartesian state model vs kep2xyz at 1e-11; "
        "oracle (no SGP4 re-implementation): velocity vs central difference of positions (0.15 %), distance within perigee/apogee "
        "radii +-40 km, r x v inclination within 0.05 deg, energy within 1 % of -mu/2a, and for drag-free sets the summary "
        "period / perigee / semi-major axis vs the sampled trajectory; the strong-drag corner (perigee 220-300 km, e <= 0.01, "
        "|B*| 0.0015-0.003 of both signs, 5-7 days from the epoch) and its control at 300-900 km; long time ARRAYS (lengths one short "
        "of / at / one / two beyond multiples of 2^12 ... 2^18, odd lengths, 1-D and 2-D, both end points over up to +-7 days): "
        "every element judged by band / energy / inclination / own-grid derivative, head / block boundaries / tail elements "
        "against scalar calls; distinct = (tle, time)")
ASSUMPTIONS = ["velocity = d/dt position, energy and the 40/30 km bands are physics of the analytic theory: measured, not proved",
               "mu = XKE^2 * XKMPER^3 / 3600 (WGS-72), a = semi-major axis of the orbit summary",
               "strong-drag corner (perigee 220-300 km, |B*| 0.0015-0.003, 5-7 days): energy is taken against the summary a OR the "
               "published model's a(t) (with the summary a alone the unchanged code is up to 4 % off: drag has moved a by that much), "
               "and the velocity clause is judged within the modelled orbit's life time only (the model's a stays 100 km above the "
               "surface from the epoch to the instant); outside it the unchanged code, like the published series, is 0.15-0.21 % off "
               "just before the decay and hundreds of per cent off where answers re-appear beyond a refused interval: counted in the "
               "evidence (drag_corner_outside_lifetime*, drag_corner_energy_epoch_a_beyond_1pct), not a verdict"]
TRUSTED = ["model PV.Model.Sgp4.kep2xyz / shortPeriod / elements"]
LEVEL_TEXT = ("Theorems over the reals: the orientation vectors U, V of kep2xyz are orthonormal, so |r| = r_k, r.v = r_k rdot_k, "
              "|v|^2 = rdot_k^2 + rfdot_k^2; r x v = r_k rfdot_k W with W_z = cos(xinc): the orbital-plane inclination is xinc, and "
              "|xinc - i0| <= 0.75 CK2 / p_l^2 (0.024 deg for p_l >= 1); r_k lies within explicit bounds of a(1 -+ e_L); the orbit "
              "summary is period = 2pi/n0'', perigee = (a(1-e) - 1) XKMPER. Tie: all kep2xyz inputs and outputs model vs code at "
              "1e-11. The derivative, energy and band clauses are measured on the implementation.")
LEVEL_NOTE = ("Trusted: Lean kernel + Mathlib reals; hand-written model + correspondence harness; finite-difference oracle step "
              "(1 s) and its truncation error (< 1e-5 relative).")
TECHNIQUE = "Lean 4 proof (orthonormal-frame identities by linear_combination, inclination bound) + differential correspondence + physics oracle"

XKE = 0.0743669161
XKMPER = 6378.135
MU = XKE ** 2 * XKMPER ** 3 / 3600.0      # km^3/s^2 (WGS-72: 398600.8)


def gen_tles(ctx, n, drag_free=False):
    out = []
    if not drag_free:
        for (_, a, b) in tlegen.REAL_TLES:
            bs = a[53:61]
            try:
                bval = float((bs[0] + "." + bs[1:6] + "e" + bs[6:]).replace(" ", ""))
            except ValueError:
                continue
            if abs(bval) <= 0.003 and int(b[26:33]) * 1e-7 <= 0.4:
                out.append((a, b))
    tries = 0
    while len(out) < n and tries < 100 * n:
        tries += 1
        ov = {}
        if drag_free:
            ov = {"bstar": " 00000-0", "ndot": " .00000000", "nddot": " 00000-0"}
        elif ctx.rng.random() < 0.08:
            # a B* printed with a non-normalised mantissa (leading zero) at the top of the property's drag range, low orbit:
            # read ten times too large, the orbit would leave its perigee/apogee band within days
            ov = {"bstar": ctx.rng.choice([" ", "-"]) + "0" + "%04d" % ctx.rng.randrange(1000, 3001) + "-1",
                  "mmotion": "%11.8f" % ctx.rng.uniform(15.2, 15.7), "ecc": "%07d" % ctx.rng.randrange(1000, 30000)}
        f, a, b = tlegen.random_tle(ctx.rng, ctx.rng.choice(["near", "leo"]), overrides=ov)
        e = int(f["ecc"]) * 1e-7
        if e > 0.4:
            continue
        bs = f["bstar"]
        bval = float((bs[0] + "." + bs[1:6] + "e" + bs[6:]).replace(" ", ""))
        if abs(bval) > 0.003:
            continue
        if drag_free and not (3.0 <= float(f["incl"]) <= 177.0):
            continue
        out.append((a, b))
    if not drag_free:
        # the edges of "any inclination": exactly 0 and 180 deg (refused today: then nothing is judged) and one printing
        # step inside them
        for inc in ("  0.0000", "180.0000", "  0.0001", "179.9999", "  0.0100", "179.9900"):
            ov = {"incl": inc, "ecc": "%07d" % ctx.rng.randrange(1000, 30000), "bstar": " 10000-4"}
            _, a, b = tlegen.random_tle(ctx.rng, "leo", overrides=ov)
            out.append((a, b))
    return out


def correspond(ctx):
    drv = ctx.driver()
    n = ctx.size(250, 6000)
    cases = gen_tles(ctx, n)
    impls, lines, tss = [], [], []
    for (l1, l2) in cases:
        ts = [ctx.rng.randrange(-7 * 86400 * 10 ** 6, 7 * 86400 * 10 ** 6) / 60e6 for _ in range(3)]
        im = sgp4io.impl_trace(l1, l2, ts)
        impls.append(im)
        tss.append(ts)
        lines.append(sgp4io.model_line(im["tle_nums"], ts))
    outs = drv.run_parallel(lines)
    for (l1, l2), ts, im, o in zip(cases, tss, impls, outs):
        m = sgp4io.parse_model(o)
        ctx.count("eval_corr", len(ts))
        for t in ts:
            ctx.distinct((l1, t))
        bad = sgp4io.compare(im, m)
        if bad:
            ctx.disagree("kep2xyz", {"line1": l1, "line2": l2, "ts": ts}, [b[2] for b in bad[:5]], [b[3] for b in bad[:5]],
                         note="; ".join("%s.%s" % (b[0], b[1]) for b in bad[:5]))
    ctx.sample({"line1": cases[0][0], "line2": cases[0][1], "ts": tss[0]})


def oracle(ctx):
    from pyorbital import orbital
    global _DRV
    drv = ctx.driver() if ctx.driver_ok else None
    _DRV = drv
    n = ctx.size(120, 4000)
    worst = {"dv": 0.0, "incl": 0.0, "energy": 0.0}
    for (l1, l2) in tlegen.with_twins(ctx.rng, gen_tles(ctx, n), every=5):
        try:
            o = orbital.Orbital("x", line1=l1, line2=l2)
            o.get_position(o.tle.epoch)
        except Exception:  # noqa
            continue
        oe = o.orbit_elements
        a_km = float(oe.semi_major_axis) * XKMPER
        ecc = float(o.tle.excentricity)
        rp, ra = a_km * (1 - ecc), a_km * (1 + ecc)
        uss = [ctx.rng.randrange(-7 * 86400 * 10 ** 6, 7 * 86400 * 10 ** 6) for _ in range(ctx.size(6, 12))]
        # "the model's perigee and apogee radii": under drag the model's own semi-major axis and eccentricity move with
        # time; the band is the union of the epoch radii and the radii of the model's elements at that time (the reading
        # that demands least, DESIGN section 7).  a(t)/a0 and e(t) come from the published model (driver), not from pyorbital.
        secular = {}
        if drv is not None:
            try:
                outm = drv.run(["str3 " + " ".join(lib.f2h(x) for x in sgp4io.tle_nums(o.tle)) + "".join(" " + lib.f2h(u / 60e6) for u in uss)])[0]
                for u, st in zip(uss, outm.split(" | ")[1:]):
                    tk = st.split()
                    secular[u] = (lib.h2f(tk[6]), lib.h2f(tk[9]))      # a(t)/a0, e(t)
            except Exception:  # noqa
                secular = {}
        for us in uss:
            t = o.tle.epoch + np.timedelta64(us, "us")
            rp_t, ra_t = rp, ra
            ratio = None
            if us in secular and all(math.isfinite(x) for x in secular[us]):
                ratio, e_t = secular[us]
                rp_t = min(rp, a_km * ratio * (1 - max(e_t, 0.0)))
                ra_t = max(ra, a_km * ratio * (1 + max(e_t, 0.0)))
            case = {"line1": l1, "line2": l2, "minutes": us / 60e6}
            try:
                p, v = o.get_position(t, normalize=False)
                h = np.timedelta64(1, "s")
                p1, _ = o.get_position(t + h, normalize=False)
                p0, _ = o.get_position(t - h, normalize=False)
            except Exception:  # noqa  decay: C13
                ctx.count("oracle_decay_skipped")
                continue
            ctx.count("eval_oracle")
            speed = float(np.linalg.norm(v))
            dv = float(np.linalg.norm((p1 - p0) / 2.0 - v)) / speed
            worst["dv"] = max(worst["dv"], dv)
            if dv > 0.0015:
                # the same classification as in the strong-drag corner: has the modelled orbit come within 100 km of the
                # surface between the epoch and this time (known finding K-C20-NEAR-DECAY)?
                kind, vcase = "velocity_vs_derivative", case
                try:
                    low_km = _model_secular(drv, o.tle, [us])[us][2] if drv is not None else None
                    if low_km is not None:
                        vcase = dict(case, model_low_km=low_km)
                        if low_km < KARMAN_KM:
                            kind = "velocity_vs_derivative_near_decay"
                except Exception:  # noqa
                    pass
                ctx.violation(kind, vcase, {"v": list(v), "dpdt": list((p1 - p0) / 2.0), "rel": dv}, "<= 0.15 % of the speed", site="Orbital.get_position")
            r = float(np.linalg.norm(p))
            if not (rp_t - 40.0 <= r <= ra_t + 40.0):
                ctx.violation("distance_band", case, r, "[%.3f, %.3f] km (perigee/apogee radii +-40 km)" % (rp_t - 40, ra_t + 40), site="Orbital.get_position")
            # the same band from the perigee / apogee heights the propagator itself exposes
            mp, ma = getattr(o._sgdp4, "perigee", None), getattr(o._sgdp4, "apogee", None)
            if mp is not None and ma is not None:
                lo = min(float(mp) + XKMPER, rp_t) - 40.0
                hi = max(float(ma) + XKMPER, ra_t if ra_t > ra else float(ma) + XKMPER) + 40.0
                if not (lo <= r <= hi):
                    ctx.violation("distance_band_model", case, r, "[%.3f, %.3f] km (the model's perigee/apogee heights + %.3f, +-40 km)" % (
                        lo, hi, XKMPER), site="_SGDP4Base.perigee/apogee")
            # the same derivative through ARRAY-valued times on a sub-second grid (one call for t - h, t, t + h)
            try:
                hq = ctx.rng.choice([250000, 125000, 500000])          # microseconds
                arr3 = np.array([t - np.timedelta64(hq, "us"), t, t + np.timedelta64(hq, "us")])
                pa, va = o.get_position(arr3, normalize=False)
                dva = float(np.linalg.norm((np.asarray(pa)[:, 2] - np.asarray(pa)[:, 0]) / (2 * hq / 1e6) - np.asarray(va)[:, 1])) / speed
                if dva > 0.0015:
                    ctx.violation("velocity_vs_derivative", dict(case, array_times=True, h_us=hq), {"rel": dva}, "<= 0.15 % of the speed (array-valued times)",
                                  site="Orbital.get_position")
            except Exception:  # noqa
                pass
            # the default (normalised) output is the same state in units of 6378.135 km and 106.30225 km/s
            try:
                pn, vn = o.get_position(t)
                dn = float(np.linalg.norm(v - np.asarray(vn) * 106.30225)) / speed
                dpn = float(np.linalg.norm(np.asarray(pn) * 6378.135 - p)) / r
                if dn > 1e-9 or dpn > 1e-9:
                    ctx.violation("normalised_state", case, {"pos_n": list(pn), "vel_n": list(vn), "rel_v": dn, "rel_p": dpn},
                                  "the same state (velocity*106.30225 km/s, position*6378.135 km), so that its velocity is the derivative of its position too", site="Orbital.get_position(normalize=True)")
                # ... and the state in km asked AGAIN at the same instant, after the normalised call, is the state it was
                p_again, v_again = o.get_position(t, normalize=False)
                if not (np.array_equal(np.asarray(p_again), p) and np.array_equal(np.asarray(v_again), v)):
                    ctx.violation("state_changed_by_normalised_call", dict(case, sequence=["km", "normalised", "km"]),
                                  {"pos_again": list(np.asarray(p_again)), "pos_first": list(p)},
                                  "the same state as the first call at this instant (bit-identical)", site="Orbital.get_position")
            except Exception:  # noqa
                pass
            hvec = np.cross(p, v)
            inc = math.degrees(math.acos(max(-1.0, min(1.0, float(hvec[2] / np.linalg.norm(hvec))))))
            tle_incl = float(l2[8:16])        # the inclination PRINTED in the element set (columns 9-16 of line 2)
            di = abs(inc - tle_incl)
            worst["incl"] = max(worst["incl"], di)
            if di > 0.05:
                ctx.violation("plane_inclination", case, inc, "TLE inclination %.4f within 0.05 deg" % tle_incl, site="Orbital.get_position")
            energy = speed ** 2 / 2 - MU / r
            ref = -MU / (2 * a_km)
            de = abs(energy - ref) / abs(ref)
            worst["energy"] = max(worst["energy"], de)
            # "-mu/2a": the summary's a or the published model's own a(t) (DESIGN section 7, as for the distance band)
            de_t = abs(energy + MU / (2 * a_km * ratio)) / abs(MU / (2 * a_km * ratio)) if ratio is not None and ratio > 0 else float("inf")
            if de > 0.01 and de_t > 0.01:
                ctx.violation("energy", case, energy, "%.6f within 1 %%" % ref, site="Orbital.get_position")
    ctx.note("worst: |v - dp/dt|/|v| = %.3g, |incl - i0| = %.3g deg, energy rel = %.3g" % (worst["dv"], worst["incl"], worst["energy"]))
    # orbit summary vs the sampled trajectory (drag-free, inclination 3-177 deg)
    for (l1, l2) in gen_tles(ctx, ctx.size(25, 400), drag_free=True):
        try:
            o = orbital.Orbital("x", line1=l1, line2=l2)
            o.get_position(o.tle.epoch)
        except Exception:  # noqa
            continue
        ctx.count("eval_oracle_summary")
        # the summary describes the trajectory whatever the object has been asked before
        try:
            o.get_orbit_number(o.tle.epoch + np.timedelta64(3600, "s"))
            o.get_lonlatalt(o.tle.epoch)
            o.get_last_an_time(o.tle.epoch)
        except Exception:  # noqa
            pass
        oe = o.orbit_elements
        try:
            period_min = float(oe.period)
            float(oe.perigee), float(oe.semi_major_axis)
        except Exception as ex:  # noqa  the summary must still be the numbers it was (minutes, km, earth radii)
            ctx.violation("summary_not_numeric", {"line1": l1, "line2": l2, "after": "get_orbit_number, get_lonlatalt, get_last_an_time"},
                          "%s: %s (period=%r)" % (type(ex).__name__, ex, oe.period), "period in minutes, perigee in km, semi-major axis as numbers",
                          site="OrbitElements")
            continue
        step = 10.0
        nstep = int(2.2 * period_min * 60 / step)
        ts = o.tle.epoch + (np.arange(nstep) * step * 1e6).astype("int64").astype("timedelta64[us]")
        try:
            pos, _ = o.get_position(ts, normalize=False)
        except Exception:  # noqa
            continue
        r = np.linalg.norm(pos, axis=0)
        z = pos[2]
        nodes = []
        for i in range(nstep - 1):
            if z[i] < 0 <= z[i + 1]:
                lo, hi = ts[i], ts[i + 1]
                for _ in range(30):
                    mid = lo + (hi - lo) // 2
                    zm = o.get_position(mid, normalize=False)[0][2]
                    if zm < 0:
                        lo = mid
                    else:
                        hi = mid
                nodes.append(hi)
        case = {"line1": l1, "line2": l2}
        if len(nodes) >= 2:
            nodal = float((nodes[1] - nodes[0]) / np.timedelta64(1, "us")) / 60e6
            if abs(nodal - period_min) > 0.01 * nodal:
                ctx.violation("summary_period", case, period_min, "nodal period %.4f min within 1 %%" % nodal, site="OrbitElements.period")
        one = int(period_min * 60 / step) + 2
        rmin, rmax = float(r[:one].min()), float(r[:one].max())
        if abs(float(oe.perigee) - (rmin - 6378.0)) > 30.0:
            ctx.violation("summary_perigee", case, float(oe.perigee), "min distance - 6378 = %.3f km within 30 km" % (rmin - 6378.0), site="OrbitElements.perigee")
        if abs(float(oe.semi_major_axis) * XKMPER - (rmin + rmax) / 2) > 30.0:
            ctx.violation("summary_sma", case, float(oe.semi_major_axis) * XKMPER, "(rmin+rmax)/2 = %.3f km within 30 km" % ((rmin + rmax) / 2), site="OrbitElements.semi_major_axis")
    # the strong-drag corner of the domain and its control, then long time arrays (after everything above: the random stream of
    # the sweeps above is what it was)
    drag_corner(ctx, drv, ctx.size(110, 2500), (220.0, 300.0), "drag_corner")
    drag_corner(ctx, drv, ctx.size(40, 800), (300.0, 900.0), "drag_control")
    long_arrays(ctx)


# ------------------------------------------------------------------------------------------------------------------
# The strong-drag corner of the quantified domain: near-circular, perigee 220-300 km (accepted: >= 220 km), |B*| at the top of
# the allowed range (0.0015 ... 0.003, both signs), 5 ... 7 days from the epoch (both directions).  There the drag series
# (c1 t ... t^5) dominate: the semi-major axis moves by per cents, and the series that advances the mean longitude must stay
# the time integral of the mean motion that belongs to that semi-major axis, or the velocity stops being the derivative of the
# position.  `drag_control` is the same family at perigee 300-900 km.
#
# Readings (DESIGN section 7: the reading that demands least), the same as for the distance band above:
#  * "-mu/2a": a is the semi-major axis of the orbit summary OR the published model's own a(t) at that time (a(t)/a0 from the
#    driver's transcription of the report, not from pyorbital).  With the epoch value alone the unchanged code leaves the 1 %
#    as soon as drag has moved a by 1 % (counted as `<family>_energy_epoch_a_beyond_1pct`, reported, not a verdict).
#  * the life time of the modelled orbit: an instant counts as within it when the published model's semi-major axis stays
#    100 km above the earth's surface (a - 1 >= 100 km) at that instant AND at every point of a 3-hour grid between the epoch
#    and it.  Below that the orbit has re-entered in every physical sense, although SGP4 goes on answering until a < 1 earth
#    radius (C13), and BEYOND an interval in which the model declares the orbit decayed its power series in t have diverged
#    (tempa = 1 - c1 t - d2 t^2 - d3 t^3 - d4 t^4 has gone through zero, a = a0 tempa^2 comes back: answers re-appear, e.g. at
#    7 days BEFORE the epoch of a perigee-221-km set with B* = +0.0029, after refusals from 3 to 6.5 days before it).
#    Outside the life time the published series themselves lose the 0.15 % (unchanged code: 0.15-0.21 % just before the
#    decay, hundreds of per cent beyond it; within the life time 0.11 %).  The clause is judged there as everywhere; a
#    violation there has the kind `velocity_vs_derivative_near_decay`, which is the recorded known finding K-C20-NEAR-DECAY
#    (pyorbital follows the published model exactly; not repairable within SGP4).  All other clauses are judged everywhere.
KARMAN_KM = 100.0
TRACK_STEP_US = 3 * 3600 * 10 ** 6


def _mm_for_perigee(perigee_km, ecc, incl):
    """Printed mean motion (rev/day) whose Brouwer perigee height (own transcription, tlegen.brouwer) is perigee_km."""
    lo, hi = 8.0, 17.5
    for _ in range(60):
        mid = 0.5 * (lo + hi)
        if tlegen.brouwer(mid, ecc, incl)[0] > perigee_km:
            lo = mid
        else:
            hi = mid
    return 0.5 * (lo + hi)


def gen_drag_corner(ctx, n, perigee_range):
    rng = ctx.rng
    day = 86400 * 10 ** 6
    out = []
    for _ in range(n):
        per = rng.uniform(*perigee_range)
        e7 = rng.choice([rng.randrange(0, 100001), rng.randrange(0, 100001), rng.randrange(0, 20001), 1])
        incl = rng.choice([rng.uniform(0.5, 179.5), rng.uniform(0.5, 179.5), 51.6, 98.0, 28.5, 65.0, 90.0])
        mm = _mm_for_perigee(per, e7 / 1e7, incl)
        sign = rng.choice([" ", "-", "+", "-"])
        if rng.random() < 0.8:
            bs = sign + "%05d" % rng.randrange(15000, 30001) + "-2"
        else:
            bs = sign + "0%04d" % rng.randrange(1500, 3001) + "-1"      # the same range with a leading zero in the mantissa
        try:
            _, l1, l2 = tlegen.random_tle(rng, "leo", overrides={"bstar": bs, "incl": "%8.4f" % incl, "ecc": "%07d" % e7,
                                                                  "mmotion": "%11.8f" % mm})
        except Exception:  # noqa
            continue
        uss = []
        for k in range(ctx.size(6, 8)):
            if k == 0:
                us = rng.randrange(-7 * day, 7 * day + 1)
            else:
                us = rng.choice([-1, 1]) * rng.choice([rng.randrange(5 * day, 7 * day + 1), rng.randrange(5 * day, 7 * day + 1),
                                                        rng.randrange(5 * day, 7 * day + 1), 7 * day])
            uss.append(us)
        out.append((l1, l2, uss))
    return out


def _model_secular(drv, tle, uss):
    """{us: (a(t)/a0, e(t), lowest a - 1 in km on the 3-hour grid from the epoch to us, us included)} of the published model
    (Spec.Str3 through the driver); {} when it cannot be had."""
    try:
        grid = []
        for u in uss:
            k = max(1, -(-abs(u) // TRACK_STEP_US))
            grid.append([u * j // k for j in range(1, k)] + [u])
        flat = [g for gs in grid for g in gs]
        outm = drv.run(["str3 " + " ".join(lib.f2h(x) for x in sgp4io.tle_nums(tle)) + "".join(" " + lib.f2h(g / 60e6) for g in flat)])[0]
        steps = outm.split(" | ")[1:]
        if len(steps) != len(flat):
            return {}
        sec, at = {}, 0
        for u, gs in zip(uss, grid):
            toks = [st.split() for st in steps[at:at + len(gs)]]
            at += len(gs)
            alts = [(lib.h2f(tk[8]) - 1.0) * XKMPER for tk in toks]
            low = min(alts) if all(math.isfinite(x) for x in alts) else float("-inf")
            sec[u] = (lib.h2f(toks[-1][6]), lib.h2f(toks[-1][9]), low)
        return sec
    except Exception:  # noqa
        return {}


def _drag_instant(o, l2, us, ratio, e_t, low_km):
    """Every state clause for one instant with the readings above.  Returns (findings, measures), findings = [(kind, observed,
    required, site)]; None when the implementation refuses the instant (decay: C13)."""
    a_km = float(o.orbit_elements.semi_major_axis) * XKMPER
    ecc = float(o.tle.excentricity)
    t = o.tle.epoch + np.timedelta64(us, "us")
    try:
        p, v = o.get_position(t, normalize=False)
        h = np.timedelta64(1, "s")
        p1, _ = o.get_position(t + h, normalize=False)
        p0, _ = o.get_position(t - h, normalize=False)
    except Exception:  # noqa
        return None
    p, v, p1, p0 = (np.asarray(x, dtype=float) for x in (p, v, p1, p0))
    out = []
    speed = float(np.linalg.norm(v))
    r = float(np.linalg.norm(p))
    with np.errstate(all="ignore"):
        dv = float(np.linalg.norm((p1 - p0) / 2.0 - v)) / speed if speed > 0 else float("nan")
    judged = low_km >= KARMAN_KM
    if not (dv <= 0.0015):
        # judged everywhere; where the modelled orbit has come within 100 km of the surface on the way (or has gone through
        # its decay) the violation carries its own kind, which the known finding K-C20-NEAR-DECAY lists
        out.append(("velocity_vs_derivative" if judged else "velocity_vs_derivative_near_decay",
                    {"v": list(v), "dpdt": list((p1 - p0) / 2.0), "rel": dv, "model_a_ratio": ratio, "model_low_km": low_km},
                    "<= 0.15 %% of the speed (the model's a comes down to %.1f km above the surface between the epoch and this time)" % low_km,
                    "Orbital.get_position"))
    rp, ra = a_km * (1 - ecc), a_km * (1 + ecc)
    rp_t = min(rp, a_km * ratio * (1 - max(e_t, 0.0)))
    ra_t = max(ra, a_km * ratio * (1 + max(e_t, 0.0)))
    if not (rp_t - 40.0 <= r <= ra_t + 40.0):
        out.append(("distance_band", r, "[%.3f, %.3f] km (perigee/apogee radii of the epoch and of the model's a(t), e(t), +-40 km)" % (
            rp_t - 40, ra_t + 40), "Orbital.get_position"))
    with np.errstate(all="ignore"):
        hvec = np.cross(p, v)
        cz = float(hvec[2] / np.linalg.norm(hvec))
    inc = math.degrees(math.acos(max(-1.0, min(1.0, cz)))) if math.isfinite(cz) else float("nan")
    tle_incl = float(l2[8:16])
    if not (abs(inc - tle_incl) <= 0.05):
        out.append(("plane_inclination", inc, "TLE inclination %.4f within 0.05 deg" % tle_incl, "Orbital.get_position"))
    energy = speed ** 2 / 2 - MU / r if r > 0 else float("nan")
    ref0, ref_t = -MU / (2 * a_km), -MU / (2 * a_km * ratio)
    de0, de_t = abs(energy - ref0) / abs(ref0), abs(energy - ref_t) / abs(ref_t)
    if not (de0 <= 0.01 or de_t <= 0.01):
        out.append(("energy", energy, "%.6f (summary a) or %.6f (the model's a(t)) within 1 %%" % (ref0, ref_t), "Orbital.get_position"))
    return out, {"dv": dv, "de0": de0, "de_t": de_t, "judged": judged, "model_low_km": low_km}


def drag_corner(ctx, drv, n, perigee_range, family):
    from pyorbital import orbital
    if drv is None:
        ctx.count(family + "_skipped_no_model")
        return
    worst = {"dv": 0.0, "dv_unjudged": 0.0, "de0": 0.0, "de_t": 0.0}
    for (l1, l2, uss) in gen_drag_corner(ctx, n, perigee_range):
        try:
            o = orbital.Orbital("x", line1=l1, line2=l2)
            o.get_position(o.tle.epoch)
        except Exception:  # noqa  (not accepted: perigee a hair below 220 km in pyorbital's own recovery)
            ctx.count(family + "_not_accepted")
            continue
        sec = _model_secular(drv, o.tle, uss)
        for us in uss:
            if us not in sec or not all(math.isfinite(x) for x in sec[us][:2]) or not sec[us][0] > 0:
                ctx.count(family + "_no_model_state")
                continue
            ratio, e_t, low_km = sec[us]
            res = _drag_instant(o, l2, us, ratio, e_t, low_km)
            if res is None:
                ctx.count("oracle_decay_skipped")
                continue
            found, ms = res
            ctx.count("eval_oracle_" + family)
            ctx.distinct((l1, us / 60e6))
            if ms["judged"]:
                worst["dv"] = max(worst["dv"], ms["dv"])
            else:
                ctx.count(family + "_outside_lifetime")
                worst["dv_unjudged"] = max(worst["dv_unjudged"], ms["dv"])
                if not ms["dv"] <= 0.0015:
                    ctx.count(family + "_outside_lifetime_dv_beyond")
            worst["de0"] = max(worst["de0"], ms["de0"])
            worst["de_t"] = max(worst["de_t"], ms["de_t"])
            if ms["de0"] > 0.01:
                ctx.count(family + "_energy_epoch_a_beyond_1pct")
            case = {"line1": l1, "line2": l2, "minutes": us / 60e6, "us": us, "family": family, "model_a_ratio": ratio, "model_e": e_t, "model_low_km": low_km}
            for (kind, obs, req, site) in found:
                ctx.violation(kind, case, obs, req, site=site)
    ctx.note("%s: worst |v - dp/dt|/|v| = %.3g where judged (%.3g outside the modelled orbit's life time, a - 1 >= %g km from the epoch on: "
             "%d instants, %d of them beyond 0.15 %%); energy vs summary a %.3g (%d instants beyond 1 %%), vs the model's a(t) %.3g" % (
                 family, worst["dv"], worst["dv_unjudged"], KARMAN_KM, ctx.counts.get(family + "_outside_lifetime", 0),
                 ctx.counts.get(family + "_outside_lifetime_dv_beyond", 0), worst["de0"],
                 ctx.counts.get(family + "_energy_epoch_a_beyond_1pct", 0), worst["de_t"]))


# ------------------------------------------------------------------------------------------------------------------
# Long time arrays.  "For every ... time": a time is a time whether it travels alone or as one element of a long series (one
# time per scan line / pixel).  Every element of the returned series is judged by the same clauses, vectorised; the
# velocity clause on the series' own grid (central difference of the neighbouring elements, with the truncation term of the
# stencil granted on top of the 0.15 %), and at the head, the tail and around multiples of the power of two the length was
# built on, against positions from SCALAR calls a quarter of a second before and after the element's time.
# The element sets have negligible drag (|B*| < 1e-5), so that the model's radii are those of the epoch.
def gen_array_tles(ctx, n):
    rng = ctx.rng
    out = []
    tries = 0
    while len(out) < n and tries < 50 * n:
        tries += 1
        bs = rng.choice([" ", "-", "+"]) + "%05d" % rng.randrange(0, 100000) + rng.choice(["-5", "-6", "-7"])
        f, a, b = tlegen.random_tle(rng, rng.choice(["near", "leo"]), overrides={"bstar": bs})
        if int(f["ecc"]) * 1e-7 > 0.4:
            continue
        out.append((a, b))
    return out


def gen_array_specs(ctx):
    """Lengths m * 2^k + d for every k = 12 ... 18 (d = +1 once per k, and once a d out of -1, 0, +2), plus odd lengths."""
    rng = ctx.rng
    cap = ctx.size(330000, 1100000)
    day = 86400 * 10 ** 6
    specs = []

    def span():
        r = rng.random()
        if r < 0.5:
            a, b = -7 * day, 7 * day                 # both end points of the +-7 days
        elif r < 0.7:
            a, b = rng.choice([(-7 * day, rng.randrange(-6 * day, 7 * day)), (rng.randrange(-7 * day, 6 * day), 7 * day)])
        else:
            a = rng.randrange(-7 * day, 7 * day - 3600 * 10 ** 6)
            b = rng.randrange(a + 3600 * 10 ** 6, 7 * day + 1)
        if rng.random() < 0.25:
            a, b = b, a                               # a descending series
        return a, b

    def shape_of(n, flat):
        if flat:
            return [n]
        divs = [d for d in (2, 3, 4, 5, 7, 16, 257) if n % d == 0]
        if divs and rng.random() < 0.7:
            d = rng.choice(divs)
            return rng.choice([[d, n // d], [n // d, d]])
        return rng.choice([[1, n], [n, 1]])

    for _ in range(ctx.size(1, 3)):
        for k in range(12, 19):
            for d in (1, rng.choice([-1, 0, 2])):
                mmax = max(1, min(6, (cap - 2) // 2 ** k))
                n = rng.randrange(1, mmax + 1) * 2 ** k + d
                a, b = span()
                specs.append({"n": n, "shape": shape_of(n, d == 1 or rng.random() < 0.35), "start_us": a, "stop_us": b, "block": 2 ** k})
        for _ in range(2):                           # 2-D: every row (or column) one beyond a multiple of the power of two
            k = rng.randrange(12, 18)
            cols = rng.randrange(1, 3) * 2 ** k + 1
            rows = rng.choice([2, 3, 5])
            a, b = span()
            specs.append({"n": rows * cols, "shape": rng.choice([[rows, cols], [cols, rows]]), "start_us": a, "stop_us": b, "block": cols})
        for n in (100003, 300001, rng.randrange(66000, cap), rng.randrange(66000, cap)):
            a, b = span()
            specs.append({"n": n, "shape": shape_of(n, rng.random() < 0.4), "start_us": a, "stop_us": b,
                          "block": rng.choice([2 ** 16, 10 ** 5, 2 ** 15])})
    return specs


def _array_times(o, spec):
    us = np.linspace(spec["start_us"], spec["stop_us"], spec["n"]).round().astype("int64")
    return us, (o.tle.epoch + us.astype("timedelta64[us]")).reshape(spec["shape"])


def _array_probes(spec, extra=()):
    n, blk = spec["n"], spec["block"]
    idx = {0, 1, n - 2, n - 1}
    mults = list(range(blk, n + 2, blk))
    for m in mults[:2] + mults[-2:]:
        idx.update((m - 1, m, m + 1))
    idx.update(extra)
    return sorted(i for i in idx if 0 <= i < n)


H_PROBE_US = 250000


def _array_findings(o, l2, spec, probes):
    """All clauses on every element of one long series: ([(kind, index, observed, required)], elements judged), the first
    offending element per clause; raises what get_position raises."""
    us, times = _array_times(o, spec)
    n = spec["n"]
    pos, vel = o.get_position(times, normalize=False)
    try:
        P = np.asarray(pos, dtype=float).reshape(3, n)
        V = np.asarray(vel, dtype=float).reshape(3, n)
    except Exception:  # noqa
        return [("distance_band", None, "position of shape %r, velocity of shape %r for %d times" % (np.shape(pos), np.shape(vel), n),
                 "one position and one velocity for every time")], 0
    a_km = float(o.orbit_elements.semi_major_axis) * XKMPER
    ecc = float(o.tle.excentricity)
    rp, ra = a_km * (1 - ecc), a_km * (1 + ecc)
    out = []
    with np.errstate(all="ignore"):
        r = np.sqrt((P * P).sum(axis=0))
        sp = np.sqrt((V * V).sum(axis=0))
        bad = ~((r >= rp - 40.0) & (r <= ra + 40.0))
        if bad.any():
            i = int(np.argmax(bad))
            out.append(("distance_band", i, {"r_km": float(r[i]), "pos": P[:, i].tolist(), "vel": V[:, i].tolist(), "elements_outside": int(bad.sum())},
                        "[%.3f, %.3f] km (perigee/apogee radii +-40 km) for every element" % (rp - 40, ra + 40)))
        mp, ma = getattr(o._sgdp4, "perigee", None), getattr(o._sgdp4, "apogee", None)
        if mp is not None and ma is not None and not out:
            lo, hi = min(float(mp) + XKMPER, rp) - 40.0, max(float(ma) + XKMPER, ra) + 40.0
            bad = ~((r >= lo) & (r <= hi))
            if bad.any():
                i = int(np.argmax(bad))
                out.append(("distance_band_model", i, {"r_km": float(r[i]), "elements_outside": int(bad.sum())},
                            "[%.3f, %.3f] km (the model's perigee/apogee heights + %.3f, +-40 km)" % (lo, hi, XKMPER)))
        hx = P[1] * V[2] - P[2] * V[1]
        hy = P[2] * V[0] - P[0] * V[2]
        hz = P[0] * V[1] - P[1] * V[0]
        inc = np.degrees(np.arccos(np.clip(hz / np.sqrt(hx * hx + hy * hy + hz * hz), -1.0, 1.0)))
        tle_incl = float(l2[8:16])
        bad = ~(np.abs(inc - tle_incl) <= 0.05)
        if bad.any():
            i = int(np.argmax(bad))
            out.append(("plane_inclination", i, {"inclination": float(inc[i]), "elements_outside": int(bad.sum())},
                        "TLE inclination %.4f within 0.05 deg for every element" % tle_incl))
        energy = sp * sp / 2 - MU / r
        ref = -MU / (2 * a_km)
        bad = ~(np.abs(energy - ref) / abs(ref) <= 0.01)
        if bad.any():
            i = int(np.argmax(bad))
            out.append(("energy", i, {"energy": float(energy[i]), "elements_outside": int(bad.sum())}, "%.6f within 1 %% for every element" % ref))
        # the series' own grid: (p[i+1] - p[i-1]) / (t[i+1] - t[i-1]) against v[i]; the stencil's truncation term (dt^2 / 6 times
        # the third derivative of the two-body motion through (p, v); uneven steps: half their difference times the acceleration),
        # + 10 %, is granted on top of the 0.15 %; elements whose grant exceeds 0.05 % are left to the other clauses
        if n >= 3:
            dt = (us[2:] - us[:-2]).astype(float) / 1e6
            ok_dt = dt != 0
            d = (P[:, 2:] - P[:, :-2]) / np.where(ok_dt, dt, 1.0)
            Pm, Vm, rm, sm = P[:, 1:-1], V[:, 1:-1], r[1:-1], sp[1:-1]
            h1 = np.abs((us[2:] - us[1:-1]).astype(float)) / 1e6
            h0 = np.abs((us[1:-1] - us[:-2]).astype(float)) / 1e6
            pv = (Pm * Vm).sum(axis=0)
            j3 = -MU * Vm / rm ** 3 + 3 * MU * pv * Pm / rm ** 5
            grant = 1.1 * (np.maximum(h1, h0) ** 2 / 6.0 * np.sqrt((j3 * j3).sum(axis=0)) + 0.5 * np.abs(h1 - h0) * MU / rm ** 2) / sm
            judged = ok_dt & (grant <= 5e-4)
            rel = np.sqrt(((d - Vm) ** 2).sum(axis=0)) / sm
            bad = judged & ~(rel <= 0.0015 + grant)
            if bad.any():
                i = int(np.argmax(bad))
                out.append(("velocity_vs_derivative", i + 1, {"rel": float(rel[i]), "granted_truncation": float(grant[i]),
                                                               "elements_outside": int(bad.sum()), "probe": "own grid"},
                            "<= 0.15 % of the speed (central difference of the neighbouring elements)"))
    # single elements against scalar calls a quarter of a second before and after
    hs = H_PROBE_US / 1e6
    tf = times.reshape(n)
    for i in probes:
        try:
            pp = np.asarray(o.get_position(tf[i] + np.timedelta64(H_PROBE_US, "us"), normalize=False)[0], dtype=float)
            pm = np.asarray(o.get_position(tf[i] - np.timedelta64(H_PROBE_US, "us"), normalize=False)[0], dtype=float)
        except Exception:  # noqa
            continue
        cen = (pp - pm) / (2 * hs)
        spd = float(np.linalg.norm(cen))
        grant = 1.1 * 0.5 * hs * MU / float(np.linalg.norm(pp)) ** 2       # one-sided stencil: (h / 2) |acceleration|
        with np.errstate(all="ignore"):
            e_c = float(np.linalg.norm(cen - V[:, i]))
            e_f = float(np.linalg.norm((pp - P[:, i]) / hs - V[:, i]))
            e_b = float(np.linalg.norm((P[:, i] - pm) / hs - V[:, i]))
        if not (e_c <= 0.0015 * spd and e_f <= 0.0015 * spd + grant and e_b <= 0.0015 * spd + grant):
            out.append(("velocity_vs_derivative", i, {"element_pos": P[:, i].tolist(), "element_vel": V[:, i].tolist(), "scalar_pos_after": pp.tolist(),
                                                      "scalar_pos_before": pm.tolist(), "rel_central": e_c / spd, "rel_forward": e_f / spd,
                                                      "rel_backward": e_b / spd, "probe": "scalar calls +-0.25 s"},
                        "<= 0.15 % of the speed: the element's velocity against (p(t+h) - p(t-h)) / 2h, (p(t+h) - element) / h and "
                        "(element - p(t-h)) / h with p(t+-h) from scalar calls, h = 0.25 s"))
            break
    return out, n


def long_arrays(ctx):
    from pyorbital import orbital
    specs = gen_array_specs(ctx)
    tles = gen_array_tles(ctx, len(specs))
    for spec, (l1, l2) in zip(specs, tles):
        try:
            o = orbital.Orbital("x", line1=l1, line2=l2)
            for us in (0, spec["start_us"], spec["stop_us"]):
                o.get_position(o.tle.epoch + np.timedelta64(us, "us"))
        except Exception:  # noqa
            ctx.count("array_tle_skipped")
            continue
        probes = _array_probes(spec, [ctx.rng.randrange(spec["n"]) for _ in range(6)])
        case = {"line1": l1, "line2": l2, "array": spec}
        try:
            found, n = _array_findings(o, l2, spec, probes)
        except Exception as ex:  # noqa  (a refusal is C13's subject)
            ctx.count("array_call_raised")
            ctx.note("array call raised %s: %s for %r" % (type(ex).__name__, ex, case))
            continue
        ctx.count("eval_oracle_array_elements", n)
        ctx.count("oracle_arrays")
        ctx.bump("array_shapes", "%d-D" % len(spec["shape"]))
        ctx.distinct((l1, "array", spec["n"], tuple(spec["shape"]), spec["start_us"], spec["stop_us"]))
        for (kind, i, obs, req) in found:
            ctx.violation(kind, dict(case, index=i), obs, req, site="Orbital.get_position(array of %d times, shape %r)" % (spec["n"], spec["shape"]))


_DRV = None      # the model driver of the current run (set by oracle / replay), for the matcher below


def _case_us(case):
    if "us" in case:
        return int(case["us"])
    if "minutes" in case:
        return int(round(case["minutes"] * 60e6))
    if "array" in case and isinstance(case.get("index"), int):
        sp = case["array"]
        return int(np.linspace(sp["start_us"], sp["stop_us"], sp["n"]).round().astype("int64")[case["index"]])
    return None


def _model_dv(case):
    """|v - dp/dt| / |v| of the PUBLISHED MODEL's own state (driver's transcription of the report, central difference over
    +-1 s) for the element set and instant of a case; None when it cannot be evaluated."""
    from pyorbital import tlefile
    us = _case_us(case)
    if _DRV is None or us is None:
        return None
    try:
        tle = tlefile.Tle("x", line1=case["line1"], line2=case["line2"])
        outm = _DRV.run(["str3 " + " ".join(lib.f2h(x) for x in sgp4io.tle_nums(tle)) + "".join(" " + lib.f2h(u / 60e6) for u in (us - 10 ** 6, us, us + 10 ** 6))])[0]
        st = [[lib.h2f(x) for x in s.split()[:6]] for s in outm.split(" | ")[1:4]]
        p0, p1, v = np.array(st[0][:3]), np.array(st[2][:3]), np.array(st[1][3:6])
        return float(np.linalg.norm((p1 - p0) / 2.0 - v) / np.linalg.norm(v))
    except Exception:  # noqa
        return None


def match_known(entry, v):
    m = entry.get("match", {})
    if m.get("kind") != v["kind"]:
        return False
    if "min_inclination_deg" in m:
        try:
            if not float(v["case"]["line2"][8:16]) >= m["min_inclination_deg"]:
                return False
        except (KeyError, ValueError):
            return False
        # the finding is the MODEL's defect: it lists a violation only where the published model's own state leaves the
        # 0.15 % too (evaluated through the driver); where the model keeps it, the implementation has left the model
        mdv = _model_dv(v["case"])
        return True if mdv is None else mdv > 0.0015
    if "max_model_low_km" in m:
        try:
            return float(v["case"]["model_low_km"]) < m["max_model_low_km"]
        except (KeyError, ValueError, TypeError):
            return False
    return False


def replay(ctx, case):
    from pyorbital import orbital
    global _DRV
    try:
        _DRV = ctx.driver()
    except Exception:  # noqa
        _DRV = None
    inp = case.get("input", case)
    o = orbital.Orbital("x", line1=inp["line1"], line2=inp["line2"])
    if "array" in inp:
        spec = inp["array"]
        extra = [inp["index"]] if isinstance(inp.get("index"), int) else []
        found, _ = _array_findings(o, inp["line2"], spec, _array_probes(spec, extra))
        for (kind, i, obs, req) in found:
            print(kind, "element", i, "observed", obs, "required", req)
        print("violated" if found else "holds")
        return 1 if found else 0
    if inp.get("family"):
        us = int(inp["us"]) if "us" in inp else int(round(inp["minutes"] * 60e6))
        # the published model's a(t)/a0, e(t) and lowest a - 1 as recorded ...
        ratio, e_t, low_km = inp["model_a_ratio"], inp["model_e"], inp["model_low_km"]
        try:
            sec = _model_secular(ctx.driver(), o.tle, [us])     # ... or, when the driver is at hand, as it gives them now
            if us in sec and all(math.isfinite(x) for x in sec[us][:2]) and sec[us][0] > 0:
                ratio, e_t, low_km = sec[us]
        except Exception:  # noqa
            pass
        res = _drag_instant(o, inp["line2"], us, float(ratio), float(e_t), float(low_km))
        if res is None:
            print("the instant is refused (decay)")
            return 0
        unlisted = []
        for (kind, obs, req, site) in res[0]:
            k = lib.known_match(sys.modules[__name__], {"kind": kind, "case": dict(inp, model_low_km=float(low_km))})
            print(("KNOWN-FINDING %s: " % k["id"]) if k else "", kind, "observed", obs, "required", req)
            if k is None:
                unlisted.append(kind)
        print(res[1])
        print("violated" if unlisted else "holds")
        return 1 if unlisted else 0
    if "minutes" in inp:
        t = o.tle.epoch + np.timedelta64(int(round(inp["minutes"] * 60e6)), "us")
        p, v = o.get_position(t, normalize=False)
        h = np.timedelta64(1, "s")
        p1, _ = o.get_position(t + h, normalize=False)
        p0, _ = o.get_position(t - h, normalize=False)
        print("v", v, "dp/dt", (p1 - p0) / 2)
        speed = float(np.linalg.norm(v))
        r = float(np.linalg.norm(p))
        # the same readings and the same known findings as the oracle (a replay fails only for what the check would report)
        us_ = int(round(inp["minutes"] * 60e6))
        ratio_, low_km_ = None, inp.get("model_low_km")
        try:
            sec_ = _model_secular(ctx.driver(), o.tle, [us_])
            if us_ in sec_ and all(math.isfinite(x) for x in sec_[us_][:2]) and sec_[us_][0] > 0:
                ratio_, low_km_ = sec_[us_][0], sec_[us_][2]
        except Exception:  # noqa
            pass
        vkind = "velocity_vs_derivative_near_decay" if (low_km_ is not None and low_km_ < KARMAN_KM) else "velocity_vs_derivative"
        listed = lib.known_match(sys.modules[__name__], {"kind": vkind, "case": dict(inp, model_low_km=low_km_)}) is not None
        bad = float(np.linalg.norm((p1 - p0) / 2.0 - v)) / speed > 0.0015 and not listed
        if listed:
            print("velocity clause: this input is a listed known finding")
        if inp.get("array_times") and not listed:
            hq = inp["h_us"]
            arr3 = np.array([t - np.timedelta64(hq, "us"), t, t + np.timedelta64(hq, "us")])
            pa, va = o.get_position(arr3, normalize=False)
            bad = bad or float(np.linalg.norm((np.asarray(pa)[:, 2] - np.asarray(pa)[:, 0]) / (2 * hq / 1e6) - np.asarray(va)[:, 1])) / speed > 0.0015
        pn, vn = o.get_position(t)
        bad = bad or float(np.linalg.norm(v - np.asarray(vn) * 106.30225)) / speed > 1e-9
        mp, ma = getattr(o._sgdp4, "perigee", None), getattr(o._sgdp4, "apogee", None)
        if mp is not None and ma is not None:
            bad = bad or not (float(mp) + XKMPER - 40.0 <= r <= float(ma) + XKMPER + 40.0)
        a_km = float(o.orbit_elements.semi_major_axis) * XKMPER
        hvec = np.cross(p, v)
        inc = math.degrees(math.acos(max(-1.0, min(1.0, float(hvec[2] / np.linalg.norm(hvec))))))
        bad = bad or abs(inc - float(inp["line2"][8:16])) > 0.05
        e_now = speed ** 2 / 2 - MU / r
        de0 = abs(e_now + MU / (2 * a_km)) / abs(MU / (2 * a_km))
        de_t = abs(e_now + MU / (2 * a_km * ratio_)) / abs(MU / (2 * a_km * ratio_)) if ratio_ else float("inf")
        bad = bad or (de0 > 0.01 and de_t > 0.01)
        print("violated" if bad else "holds")
        return 1 if bad else 0
    if inp.get("after"):
        o.get_orbit_number(o.tle.epoch + np.timedelta64(3600, "s"))
        try:
            float(o.orbit_elements.period)
        except Exception as ex:  # noqa
            print("summary period is not a number any more:", ex)
            return 1
    print("period", o.orbit_elements.period, "perigee", o.orbit_elements.perigee, "sma km", o.orbit_elements.semi_major_axis * XKMPER)
    return 0
