"""C13 — unsupported or degenerate orbits are refused explicitly, never answered wrongly."""
import json
import math
import os
import subprocess
import sys
import warnings

import numpy as np

import lib
import sgp4io
import tlegen

ID = "C13"
LEAN_TARGETS = ["PV.Props.C13"]
# T-C tie: SGP4 stages traced from the current source are proved equal to the model over the reals
import symtrace_sgp4  # noqa: E402
EQUIV = dict(symtrace_sgp4.EQUIV_SGP4_GUARDS)
EQUIV.update({"PV.Equiv.TranslatedPropagate": ["propagate_eq", "propagate_modes"]})      # T-D
RULE = ("checksum-valid TLEs over the printable range of every field (mean motion 0-18.5 rev/day, e in [0, 0.9999999], i in "
        "[0, 180] deg, |B*| <= 0.1, all signs/exponents) plus boundary families (period near 225 min, perigee near 220/156/98 km, "
        "e in {0, 1e-7, 0.9999990..0.9999999}, i in {0, 180}), times within +-60 days; correspondence: the model's outcome class "
        "(and every intermediate when it answers) vs the implementation; oracle: the statement's decision table with "
        "independently computed period/perigee (Spec.Str3 on Float) and decay indicators, and finiteness of every answer; "
        "time ARRAYS mixing decayed and answered instants of one element set (decaying families; instants classified by the "
        "published model's state on a dense grid - r_k < 1, a < 1, e < -1e-3 - or one by one when no model driver is available): "
        "the decayed instant in every position of an array of 1-4 answered instants must make the call fail, an array of "
        "answered instants must be answered, finite and equal to the one-by-one answers; SEVERAL LIVE objects: satellite A (near-earth "
        "with perigee >= 220 km and any drag, or refused / decaying) is asked before and after 1-2 satellites of another regime (high or "
        "low drag, perigee below 220 km, deep space, out of range) are constructed and kept alive, at the same and at other times, "
        "interleaved with queries of the others: every outcome class and answered state must be the one recorded for those "
        "elements before the others existed (and, for a sample, the one of a freshly imported pyorbital in a child "
        "interpreter); distinct = (tle, minutes)")
ASSUMPTIONS = ["cases within 1e-9 relative of a threshold (225 min, 220 km, element limits) are excluded from the oracle's "
               "class assertion (float rounding of the threshold comparison), not from the correspondence",
               "'an exception' for decay means any exception type, as the statement says"]
TRUSTED = ["model PV.Model.Sgp4 (guards in source order; thresholds regenerated from the source)", "spec PV.Spec.Str3 (recover, decay)"]
LEVEL_TEXT = ("Theorems: the outcome of construction (OrbitalError for e, mean motion, inclination out of range in that order; "
              "NotImplementedError for period >= 225 min) and of propagation (NotImplementedError unless perigee >= 220 km; "
              "then crash / eccentricity / e_L^2 / radius guards in source order) is exactly the statement's decision table as a "
              "function of the elements and the run-time quantities; every answer implies in-range near-earth elements with "
              "perigee >= 220 km, a >= 1, r_k >= 1, e_L^2 < 1; on the answering leaf the guarded denominators are non-zero and the "
              "square-root arguments non-negative (partial: the denominators the guards do not control are listed). Tie: "
              "outcome classes and intermediates model vs code over the printable range; thresholds regenerated from the source.")
LEVEL_NOTE = ("Trusted: Lean kernel + Mathlib reals; hand-written model + correspondence harness; finiteness in binary64 is measured "
              "(np.isfinite on every answer), the definedness theorem is over the reals and partial.")
TECHNIQUE = "Lean 4 proof (case analysis of the guard chain; positivity of guarded denominators) + differential correspondence of outcome classes + decision-table oracle"


def boundary_tle(rng):
    """TLEs near the thresholds of the decision table."""
    k = rng.randrange(12)
    ov = {}
    if k == 10:     # near-circular, low inclination, drag: the drag-modified eccentricity runs below -1e-3 before a < 1
        ov = {"mmotion": "%11.8f" % rng.uniform(15.6, 16.15), "ecc": "%07d" % rng.randrange(100, 9000),
              "incl": "%8.4f" % rng.choice([rng.uniform(0.5, 40), rng.uniform(140, 179.5)]),
              "bstar": " " + "%05d" % rng.randrange(10000, 99999) + "-" + rng.choice("233")}
    elif k == 11:   # eccentric with strong drag: the radius falls below one earth radius near perigee before a < 1
        ov = {"mmotion": "%11.8f" % rng.uniform(14.0, 15.4), "ecc": "%07d" % rng.randrange(200000, 900000),
              "incl": "%8.4f" % rng.uniform(5, 175),
              "bstar": " " + "%05d" % rng.randrange(10000, 99999) + "-" + rng.choice("12")}
    elif k >= 8:      # hugging a threshold (220/156/98 km perigee, 225 min period) to within millimetres ... hundreds of metres
        ov, _ = tlegen.threshold_fields(rng)
        if rng.random() < 0.5:
            ov["bstar"] = " 00000-0"
    elif k == 0:      # period near 225 min  -> mean motion near 6.4 rev/day
        ov["mmotion"] = "%11.8f" % rng.uniform(6.30, 6.50)
        ov["ecc"] = "%07d" % rng.randrange(0, 3000000)
    elif k == 1:    # perigee near 220 km
        mm = rng.uniform(14.0, 16.3)
        a = (398600.8 / (mm * 2 * math.pi / 86400.0) ** 2) ** (1.0 / 3)
        e = max(0.0, 1 - (6378.135 + rng.uniform(200, 240)) / a)
        ov["mmotion"] = "%11.8f" % mm
        ov["ecc"] = "%07d" % min(int(e * 1e7), 9999999)
    elif k == 2:    # perigee near 156 / 98 km (refused, but the coefficients are still computed)
        mm = rng.uniform(15.5, 16.6)
        a = (398600.8 / (mm * 2 * math.pi / 86400.0) ** 2) ** (1.0 / 3)
        e = max(0.0, 1 - (6378.135 + rng.choice([rng.uniform(150, 162), rng.uniform(92, 104)])) / a)
        ov["mmotion"] = "%11.8f" % mm
        ov["ecc"] = "%07d" % min(int(e * 1e7), 9999999)
    elif k == 3:
        ov["ecc"] = rng.choice(["0000000", "0000001", "9999999", "9999990", "9999989", "9999991"])
    elif k == 4:
        ov["incl"] = rng.choice(["  0.0000", "180.0000", "  0.0001", "179.9999"])
    elif k == 5:
        ov["mmotion"] = "%11.8f" % rng.choice([0.0, 0.001, 0.0034, 0.0036, 17.9, 18.1, 18.5, rng.uniform(17.5, 18.5)])
        ov["ecc"] = "%07d" % rng.randrange(0, 100000)
    elif k == 6:    # strong drag: decay within the window
        ov["bstar"] = rng.choice([" ", "-"]) + "%05d" % rng.randrange(10000, 99999) + "-" + rng.choice("012")
        ov["mmotion"] = "%11.8f" % rng.uniform(15.0, 16.3)
        ov["ecc"] = "%07d" % rng.randrange(0, 100000)
    else:
        ov["ecc"] = "%07d" % rng.randrange(0, 1000)     # e <= 1e-4 branch
    regime = "near" if k in (4, 6, 7, 10, 11) else "any"
    f, l1, l2 = tlegen.random_tle(rng, regime, overrides=ov)
    return l1, l2


def gen_cases(ctx, n):
    out = [(a, b) for (_, a, b) in tlegen.REAL_TLES]
    while len(out) < n:
        if ctx.rng.random() < 0.45:
            out.append(boundary_tle(ctx.rng))
        else:
            _, a, b = tlegen.random_tle(ctx.rng, ctx.rng.choice(["any", "any", "near"]))
            out.append((a, b))
    return out


def gen_ts(ctx):
    r = ctx.rng
    return [0.0, r.randrange(-86400 * 10 ** 6, 86400 * 10 ** 6) / 60e6, r.randrange(-60 * 86400 * 10 ** 6, 60 * 86400 * 10 ** 6) / 60e6,
            r.randrange(0, 25 * 86400 * 10 ** 6) / 60e6, r.randrange(0, 60 * 86400 * 10 ** 6) / 60e6]


def correspond(ctx):
    drv = ctx.driver()
    n = ctx.size(1200, 60000)
    cases = gen_cases(ctx, n)
    impls, lines, tss = [], [], []
    for (l1, l2) in cases:
        ts = gen_ts(ctx)
        im = sgp4io.impl_trace(l1, l2, ts)
        impls.append(im)
        tss.append(ts)
        lines.append(sgp4io.model_line(im["tle_nums"], ts))
    outs = drv.run_parallel(lines)
    for (l1, l2), ts, im, o in zip(cases, tss, impls, outs):
        m = sgp4io.parse_model(o)
        ctx.count("eval_corr", 1 + (len(ts) if im["init"] == "ok" else 0))
        cls = im["init"] if im["init"] != "ok" else "ok:" + ",".join(s["prop"] for s in im["steps"])
        ctx.bump("outcome_class", cls)
        ctx.distinct((l1, l2))
        bad = sgp4io.compare(im, m)
        if bad:
            ctx.disagree("sgp4-outcome", {"line1": l1, "line2": l2, "ts": ts}, [b[2] for b in bad[:5]], [b[3] for b in bad[:5]],
                         note="; ".join("%s.%s" % (b[0], b[1]) for b in bad[:5]))
    ctx.sample({"line1": cases[-1][0], "line2": cases[-1][1], "ts": tss[-1]})


def near(x, thr, rel=1e-9):
    return abs(x - thr) <= rel * max(1.0, abs(thr))


def _summary_mean_motion(mm_revday, e, inc_deg):
    """rev/day recovered the way the orbit summary (OrbitElements) does it: exponent 2/3 on (1 - e^2)."""
    try:
        n = mm_revday * 2 * math.pi / 1440.0
        a1 = (0.743669161e-1 / n) ** (2.0 / 3)
        k = (3 * math.cos(math.radians(inc_deg)) ** 2 - 1) / (1 - e * e) ** (2.0 / 3)
        d1 = 1.5 * 5.413080e-4 / a1 ** 2 * k
        a0 = a1 * (1 - d1 / 3 - d1 ** 2 - 134.0 / 81 * d1 ** 3)
        d0 = 1.5 * 5.413080e-4 / a0 ** 2 * k
        return n / (1 + d0) * 1440 / (2 * math.pi)
    except (ZeroDivisionError, ValueError, OverflowError):
        return float("nan")


def oracle(ctx):
    from pyorbital import orbital, tlefile
    drv = ctx.driver() if ctx.driver_ok else None
    n = ctx.size(1200, 60000)
    cases = gen_cases(ctx, n)
    lines, recs = [], []
    for (l1, l2) in cases:
        tle = tlefile.Tle("x", line1=l1, line2=l2)
        ts = gen_ts(ctx)
        lines.append("str3 " + " ".join(lib.f2h(x) for x in sgp4io.tle_nums(tle)) + "".join(" " + lib.f2h(t) for t in ts))
        recs.append((l1, l2, tle, ts))
    with warnings.catch_warnings():
        warnings.simplefilter("ignore")
        with np.errstate(all="ignore"):
            outs = drv.run_parallel(lines) if drv else [None] * len(lines)
    for (l1, l2, tle, ts), out in zip(recs, outs):
        ctx.count("eval_oracle")
        case = {"line1": l1, "line2": l2}
        e, inc, mm = tle.excentricity, tle.inclination, tle.mean_motion
        head = out.split(" | ")[0].split() if out else None
        perigee = lib.h2f(head[0]) if head else None
        period = lib.h2f(head[1]) if head else None
        xnodp = lib.h2f(head[3]) if head else None
        with warnings.catch_warnings():
            warnings.simplefilter("ignore")
            with np.errstate(all="ignore"):
                try:
                    o = orbital.Orbital("x", line1=l1, line2=l2)
                    built, exc = True, None
                except Exception as ex:  # noqa
                    built, exc = False, ex
        # --- construction
        e_bad = not (0 < e < 1 - 1e-6)
        i_bad = not (0 < inc < 180)
        edge = near(e, 1 - 1e-6, 1e-12) or (period is not None and math.isfinite(period) and near(period, 225.0)) or \
            (perigee is not None and math.isfinite(perigee) and near(perigee, 220.0)) or \
            (xnodp is not None and math.isfinite(xnodp) and (near(xnodp * 1440 / (2 * math.pi), 18.0, 2e-3) or near(xnodp * 1440 / (2 * math.pi), 0.0035, 2e-2)))
        if e_bad:
            if built or not isinstance(exc, orbital.OrbitalError):
                ctx.violation("ecc_not_refused", case, "built" if built else repr(exc), "OrbitalError (eccentricity out of (0, 1-1e-6))", site="Orbital.__init__")
            continue
        if not built and isinstance(exc, orbital.OrbitalError) and "Mean motion" in str(exc):
            # "mean motion outside the model's range": the statement does not say which mean motion (the printed Kozai
            # value, the model's Brouwer value, or the value the orbit summary recovers, which differ wildly for e -> 1):
            # a refusal is wrong only if EVERY reading is inside (0.0036, 17.9) rev/day and no other element is out of range
            if i_bad:
                continue      # an OrbitalError is the required class anyway
            readings = [mm, xnodp * 1440 / (2 * math.pi) if xnodp and math.isfinite(xnodp) else float("nan"), _summary_mean_motion(mm, e, inc)]
            if all(math.isfinite(x) and 0.0036 < x < 17.9 for x in readings) and not edge:
                ctx.violation("mm_refused_in_range", case, repr(exc), "accepted: mean motion readings %r rev/day are all in range" % readings, site="Orbital.__init__")
            continue
        if i_bad:
            if built or not isinstance(exc, orbital.OrbitalError):
                ctx.violation("incl_not_refused", case, "built" if built else repr(exc), "OrbitalError (inclination out of (0, 180))", site="Orbital.__init__")
            continue
        if period is None or not math.isfinite(period):
            continue
        if edge:
            ctx.count("oracle_edge_skipped")
            continue
        if period >= 225.0:
            if built or not isinstance(exc, NotImplementedError):
                ctx.violation("deep_not_refused", case, "built" if built else repr(exc), "NotImplementedError (period %.3f min)" % period, site="Orbital.__init__")
            continue
        if not built:
            ctx.violation("near_earth_refused", case, repr(exc), "construction succeeds (e=%g, i=%g, period=%.3f min)" % (e, inc, period), site="Orbital.__init__")
            continue
        # --- propagation
        steps = out.split(" | ")[1:]
        for k, t in enumerate(ts):
            ctx.count("eval_oracle_prop")
            tt = o.tle.epoch + np.timedelta64(int(round(t * 60e6)), "us")
            c2 = dict(case, minutes=t)
            with warnings.catch_warnings():
                warnings.simplefilter("ignore")
                with np.errstate(all="ignore"):
                    try:
                        pos, vel = o.get_position(tt, normalize=False)
                        ans, ex = True, None
                    except Exception as ex_:  # noqa
                        ans, ex = False, ex_
            if perigee < 220.0:
                if ans or not isinstance(ex, NotImplementedError):
                    ctx.violation("low_perigee_answered", c2, "answered" if ans else repr(ex), "NotImplementedError (perigee %.3f km)" % perigee, site="_SGDP4.propagate")
                continue
            toks = steps[k].split()
            a_, e0_, elsq_, rk_ = [lib.h2f(x) for x in toks[8:12]]
            decayed = (not all(math.isfinite(x) for x in (a_, e0_, elsq_, rk_))) or a_ < 1 + 1e-9 or rk_ < 1 + 1e-9 or elsq_ >= 1 - 1e-9 or e0_ < -1e-3 + 1e-12
            clearly_fine = all(math.isfinite(x) for x in (a_, e0_, elsq_, rk_)) and a_ > 1 + 1e-6 and rk_ > 1 + 1e-6 and elsq_ < 1 - 1e-6 and e0_ > -1e-3 + 1e-9
            # clearly decayed by the published model's own state (margins far above rounding): must be refused
            clearly_decayed = all(math.isfinite(x) for x in (a_, e0_, elsq_, rk_)) and (
                a_ < 1 - 1e-6 or e0_ < -1e-3 - 1e-7 or elsq_ >= 1 + 1e-6 or (rk_ < 1 - 1e-6 and a_ >= 1 and e0_ >= -1e-3 and elsq_ < 1))
            if all(math.isfinite(x) for x in (a_, e0_, elsq_, rk_)):
                ctx.bump("spec_state", "a<1" if a_ < 1 else "e<-1e-3" if e0_ < -1e-3 else "eL2>=1" if elsq_ >= 1 else "rk<1" if rk_ < 1 else "alive")
            if ans:
                if not (np.all(np.isfinite(pos)) and np.all(np.isfinite(vel))):
                    ctx.violation("nonfinite_answer", c2, [list(map(float, pos)), list(map(float, vel))], "finite position and velocity", site="Orbital.get_position")
                elif clearly_decayed:
                    ctx.violation("decayed_answered", c2, [list(map(float, pos)), list(map(float, vel))],
                                  "an exception: the modelled orbit has decayed (a=%.6f e=%.6f e_L^2=%.6f r_k=%.6f earth radii)" % (a_, e0_, elsq_, rk_),
                                  site="_Keplerians.calculate")
                    ctx.bump("oracle_class", "answered-though-decayed")
                ctx.bump("oracle_class", "answered")
            else:
                if isinstance(ex, NotImplementedError):
                    ctx.violation("near_norm_refused", c2, repr(ex), "an answer (perigee %.3f km >= 220, period %.3f < 225)" % (perigee, period), site="_SGDP4.propagate")
                elif clearly_fine:
                    ctx.violation("exception_without_decay", c2, repr(ex), "finite answer: a=%.6f e0=%.6f elsq=%.6f rk=%.6f (not decayed)" % (a_, e0_, elsq_, rk_), site="_Keplerians.calculate")
                ctx.bump("oracle_class", "decay-exception" if decayed else "exception")
    oracle_sequences(ctx)
    if drv:
        oracle_radius_decay(ctx, drv)
    oracle_mixed_arrays(ctx, drv)
    oracle_live_objects(ctx)      # last: the random streams of the clauses above stay as they were


def _outcome(o, t_min):
    tt = o.tle.epoch + np.timedelta64(int(round(t_min * 60e6)), "us")
    with warnings.catch_warnings():
        warnings.simplefilter("ignore")
        with np.errstate(all="ignore"):
            try:
                pos, vel = o.get_position(tt, normalize=False)
                return ("answered", [float(x) for x in pos] + [float(x) for x in vel])
            except Exception as ex:  # noqa
                return (type(ex).__name__, None)


def seq_outcomes(ctx, l1, l2, mins_seq):
    """The outcome class is a function of the elements and the time: one object asked a SEQUENCE of times (answered,
    refused, the refused one again, ...) must give, call by call, the outcome of a fresh object asked that time only."""
    from pyorbital import orbital
    try:
        used = orbital.Orbital("x", line1=l1, line2=l2)
    except Exception:  # noqa
        return "not-built"
    bad = 0
    kinds = []
    for k, t in enumerate(mins_seq):
        ctx.count("eval_oracle_sequence")
        got = _outcome(used, t)
        want = _outcome(orbital.Orbital("x", line1=l1, line2=l2), t)
        kinds.append(want[0][0])
        same = got[0] == want[0] and (got[1] is None or np.allclose(got[1], want[1], rtol=0, atol=1e-9))
        if not same:
            ctx.violation("outcome_depends_on_history", {"line1": l1, "line2": l2, "minutes_seq": list(mins_seq), "call": k},
                          got, "what a fresh object answers for that time: %r" % (want,), site="Orbital.get_position")
            bad += 1
            break
    return "violated" if bad else "".join(kinds)


def oracle_radius_decay(ctx, drv):
    """Eccentric orbits under strong drag: shortly before the semi-major axis falls below one earth radius the modelled
    RADIUS does so near perigee (a narrow set of times).  The published model's state is evaluated on a dense time grid to
    find such instants; the implementation must refuse them (and the instants where e < -1e-3 likewise)."""
    from pyorbital import orbital, tlefile
    r = ctx.rng
    found = {"rk<1": 0, "e<-1e-3": 0}
    for _ in range(ctx.size(12, 200)):
        fam = r.choice(["rk", "rk", "e"])
        if fam == "rk":
            ov = {"mmotion": "%11.8f" % r.uniform(14.0, 15.4), "ecc": "%07d" % r.randrange(200000, 900000),
                  "incl": "%8.4f" % r.uniform(5, 175), "bstar": " " + "%05d" % r.randrange(10000, 99999) + "-" + r.choice("12")}
        else:
            ov = {"mmotion": "%11.8f" % r.uniform(15.6, 16.15), "ecc": "%07d" % r.randrange(100, 9000),
                  "incl": "%8.4f" % r.choice([r.uniform(0.5, 40), r.uniform(140, 179.5)]),
                  "bstar": " " + "%05d" % r.randrange(10000, 99999) + "-" + r.choice("233")}
        _, l1, l2 = tlegen.random_tle(r, "near", overrides=ov)
        try:
            tle = tlefile.Tle("x", line1=l1, line2=l2)
            o = orbital.Orbital("x", line1=l1, line2=l2)
        except Exception:  # noqa
            continue
        grid = [k * 7.0 + r.uniform(0, 7) for k in range(0, 8000)]          # every ~7 min over ~39 days
        out = drv.run(["str3 " + " ".join(lib.f2h(x) for x in sgp4io.tle_nums(tle)) + "".join(" " + lib.f2h(t) for t in grid)])[0]
        steps = out.split(" | ")[1:]
        picks = []
        for t, st in zip(grid, steps):
            toks = st.split()
            a_, e0_, elsq_, rk_ = [lib.h2f(x) for x in toks[8:12]]
            if not all(math.isfinite(x) for x in (a_, e0_, elsq_, rk_)):
                continue
            if a_ >= 1 + 1e-6 and e0_ >= -1e-3 + 1e-7 and elsq_ < 1 - 1e-6 and rk_ < 1 - 1e-6:
                picks.append((t, "rk<1", (a_, e0_, elsq_, rk_)))
            elif a_ >= 1 + 1e-6 and e0_ < -1e-3 - 1e-7:
                picks.append((t, "e<-1e-3", (a_, e0_, elsq_, rk_)))
        r.shuffle(picks)
        for t, why, st in picks[:6]:
            ctx.count("eval_oracle_decay_search")
            found[why] += 1
            got = _outcome(o, t)
            if got[0] == "answered":
                ctx.violation("decayed_answered", {"line1": l1, "line2": l2, "minutes": t}, got[1],
                              "an exception: the modelled orbit has decayed (%s: a=%.6f e=%.6f e_L^2=%.6f r_k=%.6f earth radii)" % ((why,) + st),
                              site="_Keplerians.calculate")
    for k_, v_ in found.items():
        ctx.bump("decay_search_found", k_, v_)


def _minutes_to_times(o, mins):
    return o.tle.epoch + np.array([int(round(t * 60e6)) for t in mins], dtype="int64").astype("timedelta64[us]")


def _outcome_array(l1, l2, mins):
    """a fresh object asked the whole time array in one call: ("answered", pos (3, n), vel (3, n)) or (exception name, None, None)"""
    from pyorbital import orbital
    with warnings.catch_warnings():
        warnings.simplefilter("ignore")
        with np.errstate(all="ignore"):
            try:
                o = orbital.Orbital("x", line1=l1, line2=l2)
                pos, vel = o.get_position(_minutes_to_times(o, mins), normalize=False)
                return ("answered", np.asarray(pos, dtype=float), np.asarray(vel, dtype=float))
            except Exception as ex:  # noqa
                return (type(ex).__name__, None, None)


def _fresh_outcome(l1, l2, t_min):
    from pyorbital import orbital
    return _outcome(orbital.Orbital("x", line1=l1, line2=l2), t_min)


ARRAY_TOL = 1e-6    # km, km/s: an answered array against the one-by-one answers


def check_decayed_array(ctx, l1, l2, mins, decayed_index, why, report=True):
    """A time array of which the instants `decayed_index` are decayed (the statement: propagation fails with an exception when
    the modelled orbit has decayed): the call must fail.  Returns 1 if it is answered."""
    ctx.count("eval_oracle_mixed_array")
    got = _outcome_array(l1, l2, mins)
    if got[0] != "answered":
        return 0
    if report:
        k = decayed_index[0]
        obs = {"position_km": np.asarray(got[1]).reshape(3, -1)[:, k].tolist() if np.size(got[1]) >= 3 * len(mins) else np.asarray(got[1]).tolist(),
               "radii_km": np.sqrt((np.asarray(got[1]).reshape(3, -1) ** 2).sum(0)).tolist()}
        ctx.violation("decayed_answered_in_array", {"line1": l1, "line2": l2, "minutes_array": [float(t) for t in mins],
                                                     "decayed_index": [int(i) for i in decayed_index], "why": why},
                      obs, "an exception: the modelled orbit has decayed at entry %s of the time array (%s)" % (list(decayed_index), why),
                      site="_Keplerians.calculate")
    return 1


def check_alive_array(ctx, l1, l2, mins, report=True):
    """A time array of instants each of which is answered on its own: answered, finite, and entry by entry the one-by-one
    answer.  Returns 1 on a violation."""
    ctx.count("eval_oracle_alive_array")
    singles = [_fresh_outcome(l1, l2, t) for t in mins]
    if any(s_[0] != "answered" for s_ in singles):
        return 0            # not an all-answered array (the scalar clauses judge the single instants)
    got = _outcome_array(l1, l2, mins)
    case = {"line1": l1, "line2": l2, "minutes_array": [float(t) for t in mins], "decayed_index": None}
    if got[0] != "answered":
        if report:
            ctx.violation("answered_instants_refused_as_array", case, got[0], "a finite answer: every instant of the array is answered on its own",
                          site="Orbital.get_position")
        return 1
    pos, vel = got[1], got[2]
    if pos.shape != (3, len(mins)) or vel.shape != (3, len(mins)):
        if report:
            ctx.violation("array_answer_shape", case, [list(pos.shape), list(vel.shape)], "one position and velocity per instant: (3, %d)" % len(mins),
                          site="Orbital.get_position")
        return 1
    if not (np.all(np.isfinite(pos)) and np.all(np.isfinite(vel))):
        if report:
            ctx.violation("nonfinite_answer", case, [pos.tolist(), vel.tolist()], "finite position and velocity", site="Orbital.get_position")
        return 1
    for k, s_ in enumerate(singles):
        one = np.array(s_[1], dtype=float)
        arr = np.concatenate([pos[:, k], vel[:, k]])
        # (relative part: a diverged drag polynomial answers with 1e10 km, where one unit in the last place is 2e-6 km)
        if not np.allclose(arr, one, rtol=1e-12, atol=ARRAY_TOL):
            if report:
                ctx.violation("array_differs_from_single", dict(case, index=k), arr.tolist(), "the answer for that instant alone: %r" % one.tolist(),
                              site="Orbital.get_position")
            return 1
    return 0


def _classify_instants(ctx, drv, l1, l2, mins):
    """per instant "decayed" / "alive" / None (unclear, or the set is refused for another reason) and a description; by the
    published model's state (margins as in the scalar clauses) when a model driver is available, else one by one on the
    implementation with scalar times."""
    from pyorbital import orbital, tlefile
    try:
        tle = tlefile.Tle("x", line1=l1, line2=l2)
        with warnings.catch_warnings():
            warnings.simplefilter("ignore")
            with np.errstate(all="ignore"):
                o = orbital.Orbital("x", line1=l1, line2=l2)
    except Exception:  # noqa
        return None
    if drv:
        out = drv.run(["str3 " + " ".join(lib.f2h(x) for x in sgp4io.tle_nums(tle)) + "".join(" " + lib.f2h(t) for t in mins)])[0]
        parts = out.split(" | ")
        head = parts[0].split()
        try:
            perigee, period = lib.h2f(head[0]), lib.h2f(head[1])
        except Exception:  # noqa
            return None
        if not (math.isfinite(perigee) and math.isfinite(period)) or perigee < 220.0 + 1e-6 or period >= 225.0 - 1e-6 or len(parts) != len(mins) + 1:
            return None
        res = []
        for st in parts[1:]:
            try:
                a_, e0_, elsq_, rk_ = [lib.h2f(x) for x in st.split()[8:12]]
            except Exception:  # noqa
                res.append((None, ""))
                continue
            if not all(math.isfinite(x) for x in (a_, e0_, elsq_, rk_)):
                res.append((None, ""))
                continue
            descr = "a=%.6f e=%.6f e_L^2=%.6f r_k=%.6f earth radii" % (a_, e0_, elsq_, rk_)
            if a_ < 1 - 1e-6:
                res.append(("decayed", "a<1: " + descr))
            elif e0_ < -1e-3 - 1e-7:
                res.append(("decayed", "e<-1e-3: " + descr))
            elif elsq_ >= 1 + 1e-6:
                res.append(("decayed", "eL2>=1: " + descr))
            elif rk_ < 1 - 1e-6 and a_ >= 1 + 1e-6 and e0_ >= -1e-3 + 1e-7 and elsq_ < 1 - 1e-6:
                res.append(("decayed", "rk<1: " + descr))
            elif a_ > 1 + 1e-6 and rk_ > 1 + 1e-6 and elsq_ < 1 - 1e-6 and e0_ > -1e-3 + 1e-9:
                res.append(("alive", descr))
            else:
                res.append((None, ""))
        return res
    res = []
    for t in mins:
        g = _outcome(o, t)
        if g[0] == "NotImplementedError":
            return None
        res.append(("alive", "answered alone") if g[0] == "answered" else ("decayed", "refused alone: " + g[0]))
    return res


def oracle_mixed_arrays(ctx, drv):
    """Time arrays of which only SOME instants are decayed.  Element sets of the decaying families; instants on a grid dense
    enough to meet the narrow perigee windows in which only the radius is below one earth radius."""
    r = ctx.rng
    n_sets = ctx.size(36, 700)
    for i in range(n_sets):
        fam = ("rk", "e", "drag")[i % 3]
        if fam == "rk":
            ov = {"mmotion": "%11.8f" % r.uniform(14.0, 15.4), "ecc": "%07d" % r.randrange(200000, 900000),
                  "incl": "%8.4f" % r.uniform(5, 175), "bstar": " " + "%05d" % r.randrange(10000, 99999) + "-" + r.choice("12")}
        elif fam == "e":
            ov = {"mmotion": "%11.8f" % r.uniform(15.6, 16.15), "ecc": "%07d" % r.randrange(100, 9000),
                  "incl": "%8.4f" % r.choice([r.uniform(0.5, 40), r.uniform(140, 179.5)]),
                  "bstar": " " + "%05d" % r.randrange(10000, 99999) + "-" + r.choice("233")}
        else:
            ov = {"bstar": " " + "%05d" % r.randrange(20000, 99999) + "-" + r.choice("01"),
                  "mmotion": "%11.8f" % r.uniform(15.0, 16.2), "ecc": "%07d" % r.randrange(1000, 100000)}
        _, l1, l2 = tlegen.random_tle(r, "near", overrides=ov)
        if drv:
            grid = [k * 7.0 + r.uniform(0, 7) for k in range(0, 6000 if fam != "drag" else 1500)]
        else:
            grid = [k * 37.0 + r.uniform(0, 37) for k in range(0, 1200)]
        cls = _classify_instants(ctx, drv, l1, l2, grid)
        if cls is None:
            ctx.bump("mixed_array_sets", fam + ":refused-otherwise")
            continue
        dec = [j for j, c in enumerate(cls) if c[0] == "decayed"]
        alive = [j for j, c in enumerate(cls) if c[0] == "alive"]
        if not dec or not alive:
            ctx.bump("mixed_array_sets", fam + (":no-decayed-instant" if not dec else ":no-answered-instant"))
            continue
        ctx.bump("mixed_array_sets", fam + ":mixed")
        ctx.distinct(("mixed", l1, l2))
        # one decayed instant of every kind met (rk<1, a<1, e<-1e-3, eL2>=1), preferring the earliest ones (neighbours still alive)
        by_kind = {}
        for j in dec:
            by_kind.setdefault(cls[j][1].split(":")[0], []).append(j)
        for kind, js in sorted(by_kind.items()):
            for jd in [js[0], r.choice(js)][:1 + (len(js) > 1)]:
                ctx.bump("mixed_array_decay_kind", kind)
                k = r.randrange(1, 5)
                if r.random() < 0.6:        # answered instants around the decayed one (a span of a few revolutions)
                    near_ = sorted(alive, key=lambda j: abs(j - jd))[:12]
                    chosen = r.sample(near_, min(k, len(near_)))
                else:
                    chosen = r.sample(alive, min(k, len(alive)))
                if r.random() < 0.5:
                    chosen.sort()
                a_mins = [grid[j] for j in chosen]
                bad = 0
                for p in range(len(a_mins) + 1):
                    bad = check_decayed_array(ctx, l1, l2, a_mins[:p] + [grid[jd]] + a_mins[p:], [p], cls[jd][1])
                    if bad:
                        break
                if not bad and len(js) > 1:     # two decayed instants among answered ones; only decayed instants
                    j2 = r.choice([j for j in js if j != jd])
                    check_decayed_array(ctx, l1, l2, [grid[jd]] + a_mins + [grid[j2]], [0, len(a_mins) + 1], cls[jd][1])
                    check_decayed_array(ctx, l1, l2, [grid[jd], grid[j2]], [0, 1], cls[jd][1])
                if len(a_mins) >= 2:
                    check_alive_array(ctx, l1, l2, a_mins)



# --------------------------------------------------------------------------- several live objects
STATE_TOL = 1e-9     # km, km/s: as seq_outcomes (the same elements and time asked again)

_CHILD_SRC = r"""
import json, os, sys, warnings
sys.path.insert(0, os.environ["PV_REPO"])
import numpy as np
out = []
for l1, l2, mins in json.loads(sys.stdin.read()):
    for k in [k for k in sys.modules if k == "pyorbital" or k.startswith("pyorbital.")]:
        del sys.modules[k]                      # a freshly imported pyorbital for every element set
    from pyorbital import orbital
    res = []
    with warnings.catch_warnings():
        warnings.simplefilter("ignore")
        with np.errstate(all="ignore"):
            try:
                o = orbital.Orbital("x", line1=l1, line2=l2)
            except Exception as ex:
                out.append(["not-built", type(ex).__name__])
                continue
            for t in mins:
                tt = o.tle.epoch + np.timedelta64(int(round(t * 60e6)), "us")
                try:
                    pos, vel = o.get_position(tt, normalize=False)
                    res.append(["answered", [float(x) for x in pos] + [float(x) for x in vel]])
                except Exception as ex:
                    res.append([type(ex).__name__, None])
    out.append(["built", res])
json.dump(out, sys.stdout)
"""


def alone_in_child(items):
    """[(line1, line2, [minutes])] -> per item ["not-built", exception name] or ["built", [outcome per minute]], each element
    set on its own in a child interpreter with a freshly imported pyorbital (no other satellite has ever been constructed)."""
    env = dict(os.environ)
    env["PV_REPO"] = lib.REPO
    cmd = [sys.executable] + (["-O"] if sys.flags.optimize else []) + ["-c", _CHILD_SRC]
    p = subprocess.run(cmd, input=json.dumps(items).encode(), stdout=subprocess.PIPE, stderr=subprocess.PIPE, env=env, timeout=600)
    if p.returncode != 0:
        raise RuntimeError("child interpreter failed: " + p.stderr.decode()[-600:])
    return json.loads(p.stdout.decode())


def _build(l1, l2):
    from pyorbital import orbital
    with warnings.catch_warnings():
        warnings.simplefilter("ignore")
        with np.errstate(all="ignore"):
            try:
                return orbital.Orbital("x", line1=l1, line2=l2), None
            except Exception as ex:  # noqa
                return None, type(ex).__name__


def _same_outcome(got, want):
    if got[0] != want[0]:
        return False
    if got[1] is None or want[1] is None:
        return got[1] is None and want[1] is None
    return bool(np.allclose(got[1], want[1], rtol=0, atol=STATE_TOL))


def live_objects_case(ctx, a, others, t_same, t_other, t_b, child_ref=None, report=True):
    """The outcome class (and the answered state) is a function of the elements and the time, whatever other satellites
    exist.  References: every element set alone (one object, constructed, asked and dropped BEFORE the next one is
    constructed - the others first, A last; or `child_ref`, the answers of a freshly imported pyorbital in a child
    interpreter).  Then A is constructed and asked t_same; the others are constructed one after the other and KEPT; A is asked
    t_same again and t_other (never asked of this object before); the others are asked t_b; A is asked everything again.
    Returns "violated" or a pattern string."""
    a = list(a)
    others = [list(b) for b in others]
    t_all = list(t_same) + list(t_other)
    case = {"live": True, "line1": a[0], "line2": a[1], "others": others, "t_same": list(t_same), "t_other": list(t_other), "t_b": list(t_b)}

    def alone(l1, l2, mins):
        o, exn = _build(l1, l2)
        if o is None:
            return ["not-built", exn]
        return ["built", [list(_outcome(o, t)) for t in mins]]

    if child_ref is None:
        refs_b = [alone(b[0], b[1], t_b) for b in others]
        ref_a = alone(a[0], a[1], t_all)
        how = "the same elements alone, before the other satellites were constructed"
    else:
        ref_a, refs_b = child_ref[0], child_ref[1:]
        how = "the same elements alone in a fresh interpreter"

    def bad(k_obj, phase, t, got, want):
        if report:
            ctx.violation("outcome_depends_on_other_objects", dict(case, object=k_obj, phase=phase, minutes=t, reference="child" if child_ref is not None else "before"),
                          got, "%s: %r" % (how, want), site="_SGDP4Base" if k_obj == 0 else "Orbital")
        return "violated"

    A, exn = _build(a[0], a[1])
    if (A is None) != (ref_a[0] == "not-built") or (A is None and exn != ref_a[1]):
        return bad(0, "construct", None, ["not-built", exn] if A is None else ["built"], ref_a)
    want_a = dict(zip(t_all, ref_a[1])) if A is not None else {}

    def ask_a(phase, mins):
        for t in mins:
            ctx.count("eval_oracle_live_objects")
            got = _outcome(A, t)
            if not _same_outcome(got, tuple(want_a[t])):
                return bad(0, phase, t, got, want_a[t])
        return None

    if A is not None:
        r_ = ask_a("alone", t_same)
        if r_:
            return r_
    live = []
    for k, b in enumerate(others):
        B, exn = _build(b[0], b[1])
        rb = refs_b[k]
        if (B is None) != (rb[0] == "not-built") or (B is None and exn != rb[1]):
            return bad(k + 1, "construct", None, ["not-built", exn] if B is None else ["built"], rb)
        live.append(B)
        if A is not None:
            r_ = ask_a("after-construction-of-other-%d" % (k + 1), t_same[:1])
            if r_:
                return r_
    if A is not None:
        r_ = ask_a("others-alive-same-times", t_same) or ask_a("others-alive-other-times", t_other)
        if r_:
            return r_
    for k, B in enumerate(live):
        if B is None:
            continue
        for t, want in zip(t_b, refs_b[k][1]):
            ctx.count("eval_oracle_live_objects")
            got = _outcome(B, t)
            if not _same_outcome(got, tuple(want)):
                return bad(k + 1, "other-queried", t, got, want)
    if A is not None:
        r_ = ask_a("after-others-queried", list(reversed(t_all)))
        if r_:
            return r_
    kinds = "A:" + ("-" if A is None else "".join(w[0][0] for w in ref_a[1]))
    for rb in refs_b:
        kinds += " B:" + ("-" if rb[0] == "not-built" else "".join(w[0][0] for w in rb[1]))
    return kinds


def _live_tle(r, regime):
    """(line1, line2) of a named regime."""
    ov = {}
    if regime == "norm":          # near-earth, perigee >= 220 km, B* of any printable size and sign up to 1e-2
        ov = {"bstar": r.choice([" ", " ", "-"]) + "%05d" % r.randrange(10000, 99999) + "-" + r.choice("2334456")}
        reg = "near"
    elif regime == "norm-drag":   # near-earth, perigee >= 220 km, strong drag
        ov = {"bstar": " " + "%05d" % r.randrange(10000, 99999) + "-" + r.choice("0112"),
              "mmotion": "%11.8f" % r.uniform(14.0, 15.9), "ecc": "%07d" % r.randrange(1000, 60000)}
        reg = "near"
    elif regime == "low":         # perigee below 220 km (the simplified drag equations)
        mm = r.uniform(15.9, 16.5)
        a_ = (398600.8 / (mm * 2 * math.pi / 86400.0) ** 2) ** (1.0 / 3)
        e_ = max(1e-6, 1 - (6378.135 + r.uniform(110, 205)) / a_)
        ov = {"mmotion": "%11.8f" % mm, "ecc": "%07d" % min(int(e_ * 1e7), 9999999),
              "bstar": " " + "%05d" % r.randrange(10000, 99999) + "-" + r.choice("234")}
        reg = "near"
    elif regime == "deep":
        ov = {"mmotion": "%11.8f" % r.uniform(0.9, 6.2), "ecc": "%07d" % r.randrange(1, 7000000)}
        reg = "near"
    else:                         # anything printable
        reg = "any"
    _, l1, l2 = tlegen.random_tle(r, reg, overrides=ov)
    return l1, l2


def oracle_live_objects(ctx):
    """Several satellites alive in one process."""
    r = ctx.rng
    n = ctx.size(70, 1500)
    n_child = ctx.size(8, 60)
    trials = []
    for i in range(n):
        a = _live_tle(r, r.choice(["norm", "norm", "norm", "norm-drag", "low", "any"]))
        others = [_live_tle(r, r.choice(["norm-drag", "norm-drag", "norm", "low", "deep", "any"])) for _ in range(r.choice([1, 1, 2]))]
        t_same = [r.choice([0.0, r.uniform(-1440, 1440)]), r.uniform(-5 * 1440, 5 * 1440), r.uniform(-60 * 1440, 60 * 1440)]
        t_other = [r.uniform(-2 * 1440, 2 * 1440), r.uniform(-60 * 1440, 60 * 1440)]
        t_b = [r.uniform(-1440, 1440), r.uniform(-60 * 1440, 60 * 1440)]
        trials.append((a, others, t_same, t_other, t_b))
    for (a, others, t_same, t_other, t_b) in trials:
        ctx.bump("live_objects_pattern", live_objects_case(ctx, a, others, t_same, t_other, t_b).split(" ")[0])
        ctx.distinct(("live", a, tuple(others)))
    # a sample against a freshly imported pyorbital in a child interpreter
    sample = trials[:n_child]
    items = []
    for (a, others, t_same, t_other, t_b) in sample:
        items.append([a[0], a[1], list(t_same) + list(t_other)])
        items += [[b[0], b[1], list(t_b)] for b in others]
    answers = alone_in_child(items)
    k = 0
    for (a, others, t_same, t_other, t_b) in sample:
        ref = answers[k:k + 1 + len(others)]
        k += 1 + len(others)
        ctx.count("eval_oracle_live_objects_child")
        live_objects_case(ctx, a, others, t_same, t_other, t_b, child_ref=ref)


def oracle_sequences(ctx):
    r = ctx.rng
    for _ in range(ctx.size(60, 1500)):
        # strong drag: the orbit decays inside the window, so early times are answered and late ones refused
        ov = {"bstar": " " + "%05d" % r.randrange(20000, 99999) + "-" + r.choice("01"),
              "mmotion": "%11.8f" % r.uniform(15.0, 16.2), "ecc": "%07d" % r.randrange(1000, 100000)}
        _, l1, l2 = tlegen.random_tle(r, "near", overrides=ov)
        early = [r.uniform(0, 2000) for _ in range(2)]
        late = [r.uniform(8 * 1440, 40 * 1440) for _ in range(2)]
        seq = [early[0], late[0], late[0], early[1], late[1], late[0], early[0]]
        ctx.bump("sequence_pattern", seq_outcomes(ctx, l1, l2, seq))


def match_known(entry, v):
    return False


def replay(ctx, case):
    from pyorbital import orbital
    inp = case.get("input", case)
    if inp.get("live"):
        args = ((inp["line1"], inp["line2"]), inp["others"], inp["t_same"], inp["t_other"], inp["t_b"])
        items = [[inp["line1"], inp["line2"], list(inp["t_same"]) + list(inp["t_other"])]] + [[b[0], b[1], list(inp["t_b"])] for b in inp["others"]]
        r1 = live_objects_case(ctx, *args, report=False)
        r2 = live_objects_case(ctx, *args, child_ref=alone_in_child(items), report=False)
        print("several live objects: against the answers recorded before the others existed:", r1, "; against a fresh interpreter:", r2)
        return 1 if "violated" in (r1, r2) else 0
    if "minutes_seq" in inp:
        r = seq_outcomes(ctx, inp["line1"], inp["line2"], inp["minutes_seq"])
        print("sequence:", r)
        return 1 if r == "violated" else 0
    if "minutes_array" in inp:
        mins = [float(t) for t in inp["minutes_array"]]
        print("one by one:", [_fresh_outcome(inp["line1"], inp["line2"], t)[0] for t in mins])
        got = _outcome_array(inp["line1"], inp["line2"], mins)
        print("as one array:", got[0], "" if got[1] is None else "radii km %r" % np.sqrt((np.asarray(got[1]).reshape(3, -1) ** 2).sum(0)).tolist())
        if inp.get("decayed_index"):
            # recorded: these entries are decayed instants of the modelled orbit -> the call must fail
            bad = check_decayed_array(ctx, inp["line1"], inp["line2"], mins, inp["decayed_index"], inp.get("why", ""))
        else:
            bad = check_alive_array(ctx, inp["line1"], inp["line2"], mins)
        print("array case:", "violated" if bad else "holds")
        return 1 if bad else 0
    try:
        o = orbital.Orbital("x", line1=inp["line1"], line2=inp["line2"])
        print("built: period", o._sgdp4.period, "perigee", o._sgdp4.perigee)
        if "minutes" in inp:
            tt = o.tle.epoch + np.timedelta64(int(round(inp["minutes"] * 60e6)), "us")
            print(o.get_position(tt, normalize=False))
    except Exception as e:  # noqa
        print("raised", repr(e))
    return 0
