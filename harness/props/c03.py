"""C03 — pass prediction is sound and complete: rise, fall and culmination are real."""
import calendar
import contextlib
import datetime as dt
import math
import os
import sys
import time

import numpy as np

import lib
import orbits

ID = "C03"
LEAN_TARGETS = ["PV.Props.C03"]
# T-D: functions translated from the source by harness/pytrans.py, proved equal to the model (DESIGN section 0)
EQUIV = {"PV.Equiv.TranslatedPasses": ["loop_eq", "zeroCrossings_lt", "get_next_passes_eq_of", "get_next_passes_eq"],
         "PV.Equiv.TranslatedPassesParab": ["get_next_passes_parab"]}
EQUIV.update({"PV.Equiv.TranslatedParab": ["loop_eq", "get_max_parab_eq"], "PV.Equiv.TranslatedParabReal": ["get_max_parab_real", "get_max_parab_quadratic"]})      # T-D
RULE = ("cases (TLE, observer, start, length, horizon): TLEs = the near-earth element sets of pyorbital's tests / SGP4-VER "
        "plus as many random 'leo' and 'near' (eccentric, period < 225 min) element sets from tlegen; start = epoch +- 3 d; "
        "length 1-14 h (quick) / 1-72 h (thorough); horizon in {0,5,10,30,60} deg or, for grazing cases, the peak elevation of "
        "a found pass minus 0.002-0.3 deg when that lies in 0-60 deg (passes of some 30-200 s); 40 % of the observers are put on the ground track at a "
        "random instant of the window (offset 0-0.3 deg: passes culminating above 85 deg), the others are uniform on the "
        "sphere, altitude 0-3 km; derived cases start the window inside a pass, end it inside / up to 90 s after one, start "
        "it 0.5-59.5 s before a rise (rise between sample 0 and 1) or end it 60-120 s after a fall; a "
        "case is kept only if, at every whole minute of the window, the propagated altitude stays within 80-30000 km and the "
        "geocentric distance within 150 km of the element set's own perigee-apogee range; an "
        "exception of get_next_passes on a kept case is a violation, not a refusal. Correspondence: the real "
        "get_next_passes with _get_root, _get_max_parab, _get_min_bounded and the per-minute elevation samples observed by "
        "wrapping module / instance attributes (middle, int_start, int_end read from the caller's frame); the Lean model gets "
        "the same samples and root / maximiser answers and must return the same crossing indices (= the sequence of root "
        "brackets), the same pass list (rise, fall, culmination as datetimes), the same middle, int_start, int_end and the "
        "same maximiser bracket bit for bit; a stream with the horizon set to the elevation of one whole-minute sample (a "
        "sample exactly 0.0) is compared too; every observable update of the parabolic interpolation is compared with the "
        "model's parabStep. Oracle (statement only): elevation sampled every second over the window, crossings refined by "
        "bisection to 1e-9 s, maxima refined on 1 ms and 1 us grids; a >60 s interval counts as reported when a pass has rise "
        "and fall within 1 s of its ends; 'in between' is judged at the whole seconds at least 1 ms inside (rise, fall). "
        "Day-boundary stream (correspondence and oracle): searches of 25-72 h whose start is chosen, after locating a pass "
        "with a 12 h probe search, so that its rise, fall or culmination falls inside minute k*1440-1 .. k*1440 (k = 1, 2, 3) "
        "of the search (start = event - (k*1440 - 0.5 +- 0.4) min; starts therefore carry fractional seconds). Sequence "
        "stream (oracle): 6-7 calls on ONE Orbital object - same start and station with increasing (1 h, 6-12 h, 25-72 h) and "
        "decreasing (24 h, 2 h) lengths and changing horizon, the same station with starts shifted by 7-90 min, a second "
        "station with the same and shifted starts, two stations interleaved; every call's result is judged by the full oracle "
        "and must equal the result of a fresh object. "
        "Clock-change stream (oracle): the switch instants of the process time zone in a year 1990-2049 are located by "
        "scanning time.localtime(t).tm_gmtoff (zones without switches: one of five POSIX rule zones of both hemispheres, set "
        "with time.tzset for the case and recorded in it); the element set (random leo / near or a real one) gets an epoch "
        "within -2 .. +1 d of the switch; 6-24 h windows contain the skipped / repeated hour read as naive wall-clock values "
        "(2/3) or the switch read as a UTC instant (1/3), the hour lying 0.5 h after the start .. 1.5 h before the end, or "
        "the window starts inside it; the observer is on the ground track at an instant of that hour, of the hour after it or "
        "of the last hour of the window (a pass there), or anywhere; judged by the same oracle. "
        "distinct = (tle, observer, start, length, horizon) resp. (tle, first start) per sequence; non-trivial = at least one "
        "pass reported or one above-horizon interval in the truth")
ASSUMPTIONS = ["cases whose propagated altitude leaves 80-30 000 km, or whose geocentric distance leaves the element set's own "
               "perigee-apogee range by more than 150 km, at a whole minute of the window are skipped (element sets with extreme "
               "drag terms propagated days from their epoch give orbits of another size, or million-km positions, that "
               "pyorbital does not refuse; refusals are C13)",
               "the elevation is what Orbital.get_observer_look returns (its correctness is C05's subject)",
               "brentq / the maximiser meeting their contracts to 1e-4 deg / 0.01 deg in binary64 is measured by the oracle on "
               "the sampled cases, not proved",
               "one hump per pass (hypothesis of bracket_contains_peak / culmination_near_max) is measured, not proved",
               "no minute sample exactly on the horizon (NoZeroSample) for the ordering theorems; the loop's behaviour with "
               "such a sample is modelled, compared, and proved to break the ordering (exact_zero_sample_degenerate_pass)",
               "NaN-free elevation samples"]
TRUSTED = ["model PV.Model.Passes (hand-written from orbital.py:341-388 and 542-570), tied by the correspondence above",
           "scipy.optimize.brentq and minimize_scalar(bounded) (parameters of the model with contracts)",
           "the oracle's own dense sampling (1 s) and refinement"]
LEVEL_TEXT = ("Theorems (Lean 4, all sample lists of any length, every root finder / maximiser meeting the contracts): each pass "
              "pairs a below-horizon crossing with a later not-below crossing, rise and fall are roots in their minute brackets; "
              "start <= rise <= fall and falls sorted without any assumption; with no sample exactly on the horizon: start < rise "
              "< fall, passes in time order and disjoint, a pass is exactly a maximal run of positive minute samples; discrete "
              "and continuous completeness (every above-horizon interval longer than a minute that begins after the start and "
              "ends a minute before the end of the window is reported with rise = a, fall = b); every real interval longer than "
              "1 contains an integer; the argmax slice is never empty, the culmination bracket is [max(rise, m-1), min(fall, "
              "m+1)], lies in [rise, fall], strictly contains the best minute sample, contains the true peak of a one-hump "
              "pass, and a tol-accurate maximiser is then within tol of the pass maximum; one parabolic step returns the vertex "
              "of a quadratic. A sample exactly on the horizon yields a pass with rise = fall (proved counterexample). "
              "Tie: crossing indices, pass list, middle, bracket compared exactly on every generated case.")
LEVEL_NOTE = ("Trusted: Lean kernel + Mathlib reals (propext, Classical.choice, Quot.sound); the hand-written model and the "
              "correspondence harness; scipy's brentq / bounded Brent; tolerances 1e-4 deg and 0.01 deg are measured.")
TECHNIQUE = ("Lean 4 proof (list induction over the crossing loop, order reasoning over R, floor/ceil, ring identity) with the "
             "numerical root finder and maximiser as contract-carrying parameters + exact differential correspondence of the "
             "discrete logic + dense-sampling oracle")

HORIZONS = [0, 5, 10, 30, 60]
TOL_ROOT_DEG = 1e-4
TOL_CULM_DEG = 0.01
MIN_INTERVAL_S = 60.0
MATCH_S = 1.0          # a truth interval counts as reported when a pass has rise and fall within 1 s of its ends
EDGE_S = 1e-3          # "in between": grid points closer than 1 ms to the reported rise / fall are not judged


# ------------------------------------------------------------------------------------------------ helpers
def _orb(case):
    from pyorbital import orbital
    return orbital.Orbital("x", line1=case["line1"], line2=case["line2"])


def _start(case):
    return dt.datetime.fromisoformat(case["start"])


def _obs(case):
    return float(case["lon"]), float(case["lat"]), float(case["alt"])


def el_secs(o, t0, secs, obs, horizon):
    """elevation - horizon at t0 + secs (float seconds, array), nanosecond resolution"""
    t64 = np.datetime64(t0, "ns")
    ns = np.round(np.atleast_1d(np.asarray(secs, dtype=float)) * 1e9).astype("int64")
    times = t64 + ns.astype("timedelta64[ns]")
    return np.asarray(o.get_observer_look(times, obs[0], obs[1], obs[2])[1], dtype=float) - horizon


def el_at_datetime(o, t, obs, horizon):
    times = np.array([np.datetime64(t, "us")])
    return float(np.asarray(o.get_observer_look(times, obs[0], obs[1], obs[2])[1], dtype=float)[0] - horizon)


def secs_of(t0, t):
    d = t - t0
    return d.days * 86400.0 + d.seconds + d.microseconds * 1e-6


ALT_RANGE_KM = (80.0, 30000.0)
RADIUS_MARGIN_KM = 150.0


def in_domain(case):
    """The element set still describes its own orbit throughout the window: at every whole minute the propagated altitude
    is within 80-30 000 km and the geocentric distance within 150 km of the element set's perigee-apogee range
    (a(1-e) .. a(1+e), a from the mean motion). Element sets with extreme drag terms propagated days away from their
    epoch (before or after) return orbits of a different size - or million-km positions - without being refused."""
    o = _orb(case)
    t0 = _start(case)
    n = int(case["length"]) * 60 + 1
    times = np.datetime64(t0, "us") + (np.arange(n) * 60 * 10 ** 6).astype("timedelta64[us]")
    try:
        alt = np.asarray(o.get_lonlatalt(times)[2], dtype=float)
        pos, _ = o.get_position(times, normalize=False)
        r = np.sqrt(np.sum(np.asarray(pos, dtype=float) ** 2, axis=0))
    except Exception:  # noqa
        return False
    nrad = float(o.tle.mean_motion) * 2 * math.pi / 86400.0
    if not nrad > 0:
        return False
    a = (398600.8 / nrad ** 2) ** (1.0 / 3)
    e = float(o.tle.excentricity)
    ok_r = r.min() >= a * (1 - e) - RADIUS_MARGIN_KM and r.max() <= a * (1 + e) + RADIUS_MARGIN_KM
    return bool(np.all(np.isfinite(alt)) and np.all(np.isfinite(r)) and alt.min() >= ALT_RANGE_KM[0]
                and alt.max() <= ALT_RANGE_KM[1] and ok_r)


# ------------------------------------------------------------------------------------------------ recording
class Record:
    def __init__(self):
        self.samples = None        # per-minute elevation (not yet minus horizon)
        self.roots = []            # (start, end, value)
        self.maxcalls = []         # dict(lo, hi, value, middle, int_start, int_end, funcalls, fallback_at)
        self.error = None


@contextlib.contextmanager
def recording(o, nsamples):
    """Wrap `_get_root`, `_get_max_parab`, `_get_min_bounded` (module attributes) and `get_observer_look` (instance)."""
    from pyorbital import orbital
    rec = Record()
    orig_root, orig_max = orbital._get_root, orbital._get_max_parab
    orig_bounded = getattr(orbital, "_get_min_bounded", None)
    orig_look = o.get_observer_look
    current = []

    def root_w(fun, start, end, *a, **k):
        v = orig_root(fun, start, end, *a, **k)
        rec.roots.append((start, end, v))
        return v

    def max_w(fun, start, end, *a, **k):
        loc = sys._getframe(1).f_locals
        entry = {"lo": start, "hi": end, "middle": loc.get("middle"), "int_start": loc.get("int_start"),
                 "int_end": loc.get("int_end"), "funcalls": [], "fallback_at": None, "tol": k.get("tol", a[0] if a else 0.01)}
        current.append(entry)

        def fun_w(x):
            y = fun(x)
            entry["funcalls"].append((x, y))
            return y
        try:
            v = orig_max(fun_w, start, end, *a, **k)
        finally:
            current.pop()
        entry["value"] = v
        rec.maxcalls.append(entry)
        return v

    def bounded_w(fun, start, end, *a, **k):
        if current and current[-1]["fallback_at"] is None:
            current[-1]["fallback_at"] = len(current[-1]["funcalls"])
        return orig_bounded(fun, start, end, *a, **k)

    def look_w(utc_time, lon, lat, alt):
        res = orig_look(utc_time, lon, lat, alt)
        if rec.samples is None and isinstance(utc_time, np.ndarray) and utc_time.ndim == 1 and utc_time.size == nsamples \
                and nsamples > 1:
            rec.samples = np.array(res[1], dtype=float)
        return res

    orbital._get_root, orbital._get_max_parab = root_w, max_w
    if orig_bounded is not None:
        orbital._get_min_bounded = bounded_w
    o.get_observer_look = look_w
    try:
        yield rec
    finally:
        orbital._get_root, orbital._get_max_parab = orig_root, orig_max
        if orig_bounded is not None:
            orbital._get_min_bounded = orig_bounded
        try:
            del o.get_observer_look
        except AttributeError:
            pass


def run_impl(case, record=False):
    """The real get_next_passes on one case. Returns (passes | None, Record | None, error string | None)."""
    o = _orb(case)
    t0 = _start(case)
    lon, lat, alt = _obs(case)
    n = int(case["length"]) * 60
    try:
        if record:
            with recording(o, n) as rec:
                ps = o.get_next_passes(t0, int(case["length"]), lon, lat, alt, horizon=case["horizon"])
            return ps, rec, None
        ps = o.get_next_passes(t0, int(case["length"]), lon, lat, alt, horizon=case["horizon"])
        return ps, None, None
    except Exception as e:  # noqa
        return None, None, "%s: %s" % (type(e).__name__, str(e)[:160])


# ------------------------------------------------------------------------------------------------ generators
_REAL = None


def _real_sets():
    """the constructible (near-earth) element sets of pyorbital's tests / SGP4-VER"""
    global _REAL
    import tlegen
    from pyorbital import orbital
    if _REAL is None:
        _REAL = []
        for (_, a, b) in tlegen.REAL_TLES:
            try:
                o = orbital.Orbital("x", line1=a, line2=b)
                o.get_position(o.tle.epoch)
                _REAL.append((a, b))
            except Exception:  # noqa  deep-space / refused element sets are C13's subject
                continue
    return _REAL


def _tle_pool(ctx, n):
    """(line1, line2, Orbital): the constructible (near-earth) real element sets and as many random leo / near ones, shuffled"""
    from pyorbital import orbital
    _real_sets()
    r = ctx.rng
    reals = [(a, b, orbital.Orbital("x", line1=a, line2=b)) for (a, b) in r.sample(_REAL, min(len(_REAL), (n + 1) // 2))]
    rand = orbits.make_orbitals(ctx, n - len(reals), regimes=("leo", "near", "leo"), real=False)
    pool = reals + rand
    r.shuffle(pool)
    return pool


def _rand_observer(ctx):
    r = ctx.rng
    lat = math.degrees(math.asin(r.uniform(-1, 1)))
    return r.uniform(-180, 180), lat, r.choice([0.0, 0.0, r.uniform(0, 3)])


def _under_track(ctx, o, t0, length_h):
    """observer on the ground track at a random instant of the window (offset up to ~0.3 deg)"""
    r = ctx.rng
    t = t0 + dt.timedelta(seconds=r.uniform(120, max(180.0, length_h * 3600.0 - 120)))
    lon, lat, _ = [float(x) for x in o.get_lonlatalt(t)]
    k = r.random()
    off = 0.0 if k < 0.15 else (r.uniform(-0.02, 0.02) if k < 0.5 else r.uniform(-0.3, 0.3))
    lat = max(-89.9, min(89.9, lat + off))
    lon = ((lon + off + 180.0) % 360.0) - 180.0
    return lon, lat, r.choice([0.0, 0.0, r.uniform(0, 2)])


def gen_cases(ctx, n, max_len):
    """The generated stream. Each case is a JSON-able dict."""
    r = ctx.rng
    pool = _tle_pool(ctx, max(6, min(n, 14 if ctx.tier == "quick" and not ctx.intensified else 60)))
    out = []
    tries = 0
    while len(out) < n and tries < 20 * n:
        tries += 1
        a, b, o = pool[tries % len(pool)]
        epoch = o.tle.epoch.astype(dt.datetime)
        t0 = epoch + dt.timedelta(seconds=r.uniform(-3 * 86400, 3 * 86400))
        t0 = t0.replace(microsecond=r.choice([0, 0, r.randrange(10 ** 6)]))
        k = r.random()
        length = r.randint(1, max_len) if k < 0.8 else r.choice([1, 2, 3, max_len])
        if not orbits.answers(o, t0) or not orbits.answers(o, t0 + dt.timedelta(hours=length)):
            continue
        kind = "random"
        try:
            if r.random() < 0.4:
                lon, lat, alt = _under_track(ctx, o, t0, length)
                kind = "overhead"
            else:
                lon, lat, alt = _rand_observer(ctx)
        except Exception:  # noqa
            continue
        horizon = r.choice(HORIZONS)
        if kind == "overhead" and r.random() < 0.5:
            horizon = r.choice([0, 5, 10])
        case = {"line1": a, "line2": b, "start": t0.isoformat(), "length": length, "lon": lon, "lat": lat, "alt": alt,
                "horizon": horizon, "kind": kind}
        if not in_domain(case):
            ctx.count("skipped_outside_altitude_range")
            continue
        out.append(case)
        # derived cases: grazing horizon, windows cut inside a pass
        if r.random() < 0.5:
            out.extend(_derived(ctx, o, case))
    return out[:max(n, len(out))]


def _derived(ctx, o, case):
    r = ctx.rng
    ps, _, err = run_impl(case)
    if err or not ps:
        return []
    t0 = _start(case)
    obs = _obs(case)
    p = r.choice(ps)
    out = []
    k = r.random()
    if k < 0.2:
        # the pass rises inside the FIRST minute of the search (between sample 0 and sample 1)
        c = dict(case)
        c["start"] = (p[0] - dt.timedelta(seconds=r.uniform(0.5, 59.5))).isoformat()
        c["kind"] = "rise_first_minute"
        out.append(c)
    elif k < 0.35:
        # the pass falls inside the last sampled minute that still obliges (fall 60-120 s before the end of the window)
        end = p[1] + dt.timedelta(seconds=r.uniform(60.5, 119.5))
        c = dict(case)
        c["start"] = (end - dt.timedelta(hours=int(case["length"]))).isoformat()
        c["kind"] = "fall_last_minute"
        if orbits.answers(o, _start(c)):
            out.append(c)
    elif k < 0.7:
        # grazing: horizon just under the peak of this pass -> a short pass around its culmination
        peak = el_at_datetime(o, p[2], obs, 0.0)
        delta = r.choice([0.002, 0.005, 0.01, 0.02, 0.05, 0.1, 0.3])
        h = peak - delta
        if 0.0 <= h <= 60.0:          # the statement's range of horizons
            c = dict(case)
            c["horizon"] = h
            c["kind"] = "grazing"
            out.append(c)
    elif k < 0.85:
        # window starts inside the pass (the interval does not begin after the start)
        inside = p[0] + (p[1] - p[0]) * r.uniform(0.05, 0.95)
        c = dict(case)
        c["start"] = inside.isoformat()
        c["kind"] = "cut_start"
        out.append(c)
    else:
        # window ends inside (or within a minute after) the pass: start shifted so that start + length falls there
        end = p[0] + (p[1] - p[0]) * r.uniform(0.0, 1.0) + dt.timedelta(seconds=r.choice([0, 0, 30, 59, 61, 90]))
        c = dict(case)
        c["start"] = (end - dt.timedelta(hours=int(case["length"]))).isoformat()
        c["kind"] = "cut_end"
        if orbits.answers(o, _start(c)):
            out.append(c)
    return [c for c in out if in_domain(c)]


def gen_zero_cases(ctx, n):
    """horizon := elevation of one whole-minute sample, so that elev[k] - horizon == 0.0 exactly"""
    r = ctx.rng
    out = []
    base = gen_cases(ctx, 3 * n, 6)
    for case in base:
        if len(out) >= n:
            break
        o = _orb(case)
        ps, _, err = run_impl(dict(case, horizon=0))
        if err or not ps:
            continue
        t0 = _start(case)
        obs = _obs(case)
        p = r.choice(ps)
        m0 = int(secs_of(t0, p[0]) // 60) + 1
        m1 = int(secs_of(t0, p[1]) // 60)
        if m1 <= m0:
            continue
        k = r.randint(m0, m1)
        times = t0 + np.array([dt.timedelta(minutes=m) for m in range(int(case["length"]) * 60)])
        el = o.get_observer_look(times, obs[0], obs[1], obs[2])[1]
        h = float(el[k])
        if not (0.0 < h < 60.0):
            continue
        c = dict(case)
        c["horizon"] = h
        c["kind"] = "exact_zero"
        c["zero_minute"] = k
        out.append(c)
    return out


def case_key(case):
    return (case["line1"][2:7], case["line2"][8:16], round(case["lon"], 6), round(case["lat"], 6), case["start"],
            case["length"], float(case["horizon"]))



# ------------------------------------------------------------------------------------------------ call sequences, day boundaries
def _call_case(seq, c):
    case = {"line1": seq["line1"], "line2": seq["line2"], "kind": "sequence"}
    case.update(c)
    return case


def gen_sequences(ctx, n, long_len):
    """Sequences of calls on ONE Orbital object: same start and station with increasing and decreasing lengths and changing
    horizon, the same station with shifted starts, another station with the same and with shifted starts."""
    r = ctx.rng
    pool = _tle_pool(ctx, max(6, 2 * n))
    out = []
    tries = 0
    while len(out) < n and tries < 12 * n:
        a, b, o = pool[tries % len(pool)]
        tries += 1
        epoch = o.tle.epoch.astype(dt.datetime)
        t0 = epoch + dt.timedelta(seconds=r.uniform(-2 * 86400, 86400))
        t0 = t0.replace(microsecond=r.choice([0, r.randrange(10 ** 6)]))
        try:
            sta = _under_track(ctx, o, t0, 3) if r.random() < 0.4 else _rand_observer(ctx)
            stb = _rand_observer(ctx)
        except Exception:  # noqa
            continue
        h0, h1 = r.choice([0, 5, 10]), r.choice([5, 10, 30])
        sh = dt.timedelta(minutes=r.choice([7, 30, 61, 90]), seconds=r.choice([0, 0, 13.25]))
        l_mid = r.choice([6, 12, 12])
        l_long = r.randint(25, long_len) if long_len > 25 else long_len

        def call(t, length, st, h):
            return {"start": t.isoformat(), "length": length, "lon": st[0], "lat": st[1], "alt": st[2], "horizon": h}
        variant = r.randrange(3)
        if variant == 0:      # short, longer, longest, short again with the other horizon; then shifted starts, other station
            calls = [call(t0, 1, sta, h0), call(t0, l_mid, sta, h0), call(t0, l_long, sta, h1), call(t0, 1, sta, h1),
                     call(t0 + sh, 3, sta, h0), call(t0 + sh, 2, stb, h0), call(t0, l_mid, stb, h0)]
        elif variant == 1:    # long then short (decreasing), then longer again on the same key; then the other station
            calls = [call(t0, 24, sta, h0), call(t0, 2, sta, h0), call(t0, l_long, sta, h0), call(t0, 2, stb, h0),
                     call(t0 - sh, 4, sta, h1), call(t0, 3, sta, h1), call(t0, l_mid, sta, h1)]
        else:                 # two stations interleaved with growing lengths (same key again after another key, and consecutively)
            calls = [call(t0, 2, sta, h0), call(t0, 2, stb, h0), call(t0, l_mid, sta, h0), call(t0, l_mid, stb, h1),
                     call(t0, l_long, stb, h0), call(t0 + sh, l_mid, sta, h0), call(t0, 1, sta, h1)]
        seq = {"line1": a, "line2": b, "kind": "sequence", "calls": calls}
        if all(in_domain(_call_case(seq, c)) for c in calls):
            out.append(seq)
    return out


def judge_sequence(seq):
    """All calls on one object; each result is judged by the full oracle and compared with a fresh object's result.
    Returns (violations [(kind, observed, required, call index)], stats)."""
    o = _orb(seq)
    viol = []
    tot = {"calls": 0, "passes": 0, "required_intervals": 0}
    for i, c in enumerate(seq["calls"]):
        case = _call_case(seq, c)
        tag = "call %d of the sequence (start %s, %d h, station %.4f/%.4f, horizon %s)" % (
            i, c["start"], c["length"], c["lon"], c["lat"], c["horizon"])
        try:
            ps = o.get_next_passes(_start(case), int(c["length"]), c["lon"], c["lat"], c["alt"], horizon=c["horizon"])
        except Exception as e:  # noqa
            viol.append(("raised", "%s: %s: %s" % (tag, type(e).__name__, str(e)[:120]), "a list of passes", i))
            continue
        v, st = judge(case, ps)
        tot["calls"] += 1
        tot["passes"] += st["passes"]
        tot["required_intervals"] += st["required_intervals"]
        for (kind, observed, required) in v:
            viol.append((kind, tag + ": " + observed, required, i))
        fresh, _, err = run_impl(case)
        if err or list(fresh) != list(ps):
            viol.append(("history_dependence", "%s: the used object reports %d pass(es) %s, a fresh object %s" % (
                tag, len(ps), [str(x[0]) for x in ps][:6], err or ("%d pass(es) %s" % (len(fresh), [str(x[0]) for x in fresh][:6]))),
                "the result of a call does not depend on earlier calls on the same object", i))
    return viol, tot


def gen_boundary_cases(ctx, n, max_len=72):
    """Searches longer than 24 h whose start is chosen so that the rise, the fall or the culmination of a pass falls inside
    minute k*1440-1 .. k*1440 (k = 1, 2, 3) of the search: start = event - (k*1440 - 0.5 +- 0.4) min."""
    r = ctx.rng
    pool = _tle_pool(ctx, max(6, n))
    out = []
    tries = 0
    while len(out) < n and tries < 15 * n:
        a, b, o = pool[tries % len(pool)]
        tries += 1
        epoch = o.tle.epoch.astype(dt.datetime)
        k = r.choice([1, 1, 2, 3]) if max_len >= 72 else 1
        horizon = r.choice(HORIZONS[:4])
        try:
            lon, lat, alt = _rand_observer(ctx) if r.random() < 0.7 else _under_track(ctx, o, epoch, 3)
        except Exception:  # noqa
            continue
        probe_start = epoch + dt.timedelta(seconds=r.uniform(-86400, 86400))
        probe = {"line1": a, "line2": b, "start": probe_start.isoformat(), "length": 12, "lon": lon, "lat": lat, "alt": alt,
                 "horizon": horizon, "kind": "probe"}
        if not in_domain(probe):
            continue
        ps, _, err = run_impl(probe)
        if err or not ps:
            continue
        p = r.choice(ps)
        which = r.choice(["rise", "rise", "fall", "fall", "culmination"])
        event = p[{"rise": 0, "fall": 1, "culmination": 2}[which]]
        start = event - dt.timedelta(minutes=k * 1440 - 0.5 + r.uniform(-0.4, 0.4))
        length = r.randint(24 * k + 1, max(24 * k + 1, max_len))
        case = {"line1": a, "line2": b, "start": start.isoformat(), "length": length, "lon": lon, "lat": lat, "alt": alt,
                "horizon": horizon, "kind": "day_boundary", "boundary_event": which, "boundary_minute": k * 1440}
        if in_domain(case):
            out.append(case)
    return out


# ------------------------------------------------------------------------------------------------ clock changes of the process zone
# POSIX rule zones with daylight-saving switches (both hemispheres, whole-hour / fractional offsets, a half-hour switch),
# used when the zone the run was started in has none
DST_ZONES = ["XST-5:45XDT-6:45,M3.5.0/2,M10.5.0/3", "CET-1CEST,M3.5.0,M10.5.0/3", "AEST-10AEDT,M10.1.0,M4.1.0/3",
             "PST8PDT,M3.2.0,M11.1.0", "NST3:30NDT,M3.2.0/0:01,M11.1.0/0:01", "LHST-10:30LHDT-11,M10.1.0,M4.1.0"]


@contextlib.contextmanager
def process_zone(tz):
    """Run a block with the process' local time zone set to the POSIX rule string tz (None: leave it as it is)."""
    if tz is None or os.environ.get("TZ") == tz:
        yield
        return
    old = os.environ.get("TZ")
    os.environ["TZ"] = tz
    time.tzset()
    try:
        yield
    finally:
        if old is None:
            os.environ.pop("TZ", None)
        else:
            os.environ["TZ"] = old
        time.tzset()


def zone_switches(year):
    """The instants of `year` at which the UTC offset of the zone in effect changes: [(POSIX seconds of the first second
    with the new offset, offset before, offset after)], found by scanning time.localtime(t).tm_gmtoff day by day and
    bisecting to the second."""
    t = calendar.timegm((year, 1, 1, 0, 0, 0))
    end = calendar.timegm((year + 1, 1, 1, 0, 0, 0))
    out = []
    try:
        prev = time.localtime(t).tm_gmtoff
        while t < end:
            nxt = min(t + 86400, end)
            off = time.localtime(nxt).tm_gmtoff
            if off != prev:
                lo, hi = t, nxt
                while hi - lo > 1:
                    mid = (lo + hi) // 2
                    if time.localtime(mid).tm_gmtoff == prev:
                        lo = mid
                    else:
                        hi = mid
                out.append((hi, prev, off))
                prev = off
            t = nxt
    except (OverflowError, OSError, ValueError):
        return []
    return out


def _stamp_epoch(line1, epoch):
    """line 1 with its epoch field replaced (another element set: same elements, issued at `epoch`)"""
    import tlegen
    doy = 1 + (epoch - dt.datetime(epoch.year, 1, 1)).total_seconds() / 86400.0
    return tlegen.fix_checksum(line1[:18] + "%02d" % (epoch.year % 100) + ("%012.8f" % doy)[:12] + line1[32:68] + "0")


def _tle_at(ctx, epoch):
    """(line1, line2, Orbital) of a near-earth element set whose epoch is `epoch`: a random leo / near set, or a real one
    re-issued with that epoch"""
    import tlegen
    from pyorbital import orbital
    r = ctx.rng
    real = _real_sets()
    for _ in range(40):
        if r.random() < 0.4 and real:
            a, b = r.choice(real)
            a = _stamp_epoch(a, epoch)
        else:
            _, a, b = tlegen.random_tle(r, r.choice(["leo", "near", "leo"]))
            a = _stamp_epoch(a, epoch)
        try:
            o = orbital.Orbital("x", line1=a, line2=b)
            o.get_position(o.tle.epoch)
        except Exception:  # noqa  refusals are C13's subject
            continue
        if abs((o.tle.epoch.astype("datetime64[us]").astype(dt.datetime) - epoch).total_seconds()) > 1.0:
            continue
        return a, b, o
    return None


def gen_dst_cases(ctx, n, max_len=24):
    """Searches of 6 .. max_len hours that CONTAIN a clock change of the process time zone.  The switch instants of the
    zone in effect are found by scanning the local UTC offset over a year the element set's epoch can lie in; the window
    is placed around the switch read (a) as naive wall-clock values: the skipped hour [S + off_before, S + off_after) when
    clocks go forward, the repeated hour [S + off_after, S + off_before) when they go back, (b) as the UTC instant S.
    pyorbital's times are UTC: nothing may happen at either."""
    r = ctx.rng
    cur = os.environ.get("TZ")
    with process_zone(cur):
        cur_has = bool(zone_switches(2021))
    out = []
    tries = 0
    while len(out) < n and tries < 12 * n:
        tries += 1
        zone = cur if (cur_has and r.random() < 0.75) else r.choice(DST_ZONES)
        year = r.randint(1990, 2049)
        with process_zone(zone):
            sw = zone_switches(year)
        if not sw:
            continue
        s, off0, off1 = r.choice(sw)
        if abs(off1 - off0) < 60:
            continue
        s_utc = dt.datetime(1970, 1, 1) + dt.timedelta(seconds=s)
        reading = r.choice(["wall", "wall", "utc"])
        width = dt.timedelta(seconds=abs(off1 - off0))
        crit0 = s_utc + dt.timedelta(seconds=min(off0, off1)) if reading == "wall" else s_utc
        got = _tle_at(ctx, crit0 + dt.timedelta(seconds=r.uniform(-2 * 86400, 86400)))
        if got is None:
            continue
        a, b, o = got
        length = r.randint(6, max(6, max_len))
        placement = r.choice(["in_hour", "in_hour", "in_hour", "in_hour", "hour_after", "last_hour", "start_in_hour", "anywhere"])
        if placement == "start_in_hour":
            t0 = crit0 + width * r.uniform(0.02, 0.98)
        else:
            t0 = crit0 - dt.timedelta(seconds=r.uniform(1800.0, length * 3600.0 - 1.5 * 3600.0 - width.total_seconds()))
        t0 = t0.replace(microsecond=r.choice([0, 0, r.randrange(10 ** 6)]))
        if r.random() < 0.3:
            t0 = t0.replace(second=0, microsecond=0)
        end = t0 + dt.timedelta(hours=length)
        if not orbits.answers(o, t0) or not orbits.answers(o, end):
            continue
        try:
            if placement in ("in_hour", "start_in_hour"):
                u0 = crit0 if placement == "in_hour" else crit0 + width
                lon, lat, alt = _under_track(ctx, o, u0, width.total_seconds() / 3600.0)
            elif placement == "hour_after":
                lon, lat, alt = _under_track(ctx, o, crit0 + width, 1)
            elif placement == "last_hour":
                lon, lat, alt = _under_track(ctx, o, end - dt.timedelta(minutes=55), 0.75)
            else:
                lon, lat, alt = _rand_observer(ctx)
        except Exception:  # noqa
            continue
        case = {"line1": a, "line2": b, "start": t0.isoformat(), "length": length, "lon": lon, "lat": lat, "alt": alt,
                "horizon": r.choice([0, 0, 5, 10, 30]), "kind": "clock_change", "process_tz": zone,
                "switch_utc": s_utc.isoformat(), "utc_offsets_s": [off0, off1],
                "switch_direction": "forward" if off1 > off0 else "back", "switch_read_as": reading, "placement": placement}
        if in_domain(case):
            out.append(case)
    return out


def _run_sequences(ctx, seqs, label):
    for seq in seqs:
        viol, tot = judge_sequence(seq)
        ctx.count("eval_oracle_sequence_calls", tot["calls"])
        ctx.count("eval_oracle_passes", tot["passes"])
        ctx.count("eval_oracle_required_intervals", tot["required_intervals"])
        ctx.count("oracle_sequences")
        ctx.bump(label + "_kind", "sequence")
        ctx.distinct((seq["line1"][2:7], seq["calls"][0]["start"], "sequence"))
        for (kind, observed, required, i) in viol[:6]:
            c = dict(seq)
            c["failing_call"] = i
            ctx.violation(kind, c, observed, required, site="Orbital.get_next_passes")


# ------------------------------------------------------------------------------------------------ correspondence
def model_line(samples, rec):
    toks = ["c03", str(len(samples))] + [lib.f2h(x) for x in samples]
    toks.append(str(len(rec.roots)))
    for (s, e, v) in rec.roots:
        toks += [str(int(s)), lib.f2h(v)]
    toks.append(str(len(rec.maxcalls)))
    for m in rec.maxcalls:
        toks += [lib.f2h(float(m["lo"])), lib.f2h(float(m["hi"])), lib.f2h(float(m["value"]))]
    return " ".join(toks)


def parse_model(out):
    toks = out.split()
    if not (toks and toks[0] == "Z"):
        raise RuntimeError(out[:80])
    i = 1
    zcs = []
    while i < len(toks) and toks[i] != "P":
        zcs.append(int(toks[i]))
        i += 1
    passes = []
    while i < len(toks):
        if not (toks[i] == "P"):
            raise RuntimeError('toks[i] == "P"')
        rise, fall, mid, lo, hi, culm, s0, s1 = toks[i + 1:i + 9]
        passes.append({"rise": lib.h2f(rise), "fall": lib.h2f(fall), "middle": int(mid), "lo": lib.h2f(lo), "hi": lib.h2f(hi),
                       "culm": lib.h2f(culm), "lo_bits": lo, "hi_bits": hi, "int_start": int(s0), "int_end": int(s1)})
        i += 9
    return zcs, passes


def _tdelta(t0, minutes):
    try:
        return t0 + dt.timedelta(minutes=minutes)
    except (ValueError, OverflowError):
        return "invalid(%r)" % minutes


def compare_case(ctx, case, ps, rec, mout):
    """Model output vs the recorded run. Returns a list of (what, implementation, model)."""
    t0 = _start(case)
    diffs = []
    zcs, mp = parse_model(mout)
    impl_brackets = [(float(s), float(e)) for (s, e, _) in rec.roots]
    model_brackets = [(float(g), float(g) + 1.0) for g in zcs]
    if impl_brackets != model_brackets:
        diffs.append(("root brackets (zero crossings)", impl_brackets[:12], model_brackets[:12]))
    if len(mp) != len(ps):
        diffs.append(("number of passes", len(ps), len(mp)))
    if len(rec.maxcalls) != len(ps):
        diffs.append(("maximiser calls vs passes", len(rec.maxcalls), len(ps)))
    for i, (p, q) in enumerate(zip(ps, mp)):
        mt = (_tdelta(t0, q["rise"]), _tdelta(t0, q["fall"]), _tdelta(t0, q["culm"]))
        if tuple(p) != mt:
            diffs.append(("pass %d (rise, fall, culmination)" % i, [str(x) for x in p], [str(x) for x in mt]))
        if i < len(rec.maxcalls):
            m = rec.maxcalls[i]
            if lib.f2h(float(m["lo"])) != q["lo_bits"] or lib.f2h(float(m["hi"])) != q["hi_bits"]:
                diffs.append(("pass %d maximiser bracket" % i, [float(m["lo"]), float(m["hi"])], [q["lo"], q["hi"]]))
            if m["middle"] is not None and int(m["middle"]) != q["middle"]:
                diffs.append(("pass %d middle" % i, int(m["middle"]), q["middle"]))
            if m["int_start"] is not None and m["int_end"] is not None and \
                    (int(m["int_start"]), int(m["int_end"])) != (q["int_start"], q["int_end"]):
                diffs.append(("pass %d (int_start, int_end)" % i, [int(m["int_start"]), int(m["int_end"])],
                              [q["int_start"], q["int_end"]]))
            if m["middle"] is None:
                ctx.count("middle_not_observable")
    return diffs, zcs, mp


def _parab_py(a, b, c, fa, fb, fc):
    """navigation only (which observed abscissa is the next estimate); the comparison itself uses the Lean model"""
    try:
        with np.errstate(all="ignore"):
            return b - 0.5 * (((b - a) ** 2 * (fb - fc) - (b - c) ** 2 * (fb - fa)) / ((b - a) * (fb - fc) - (b - c) * (fb - fa)))
    except ZeroDivisionError:
        return float("nan")


def parab_checks(ctx, rec, case):
    """Every observable update of `_get_max_parab`: the model's parabStep on the code's own (a, b, c, f_a, f_b, f_c) vs the
    abscissa the code evaluated (or returned) next. The chain is followed through the recorded calls of `fun` made before
    any fallback to the bounded minimiser, so extra evaluations (e.g. a verification of the answer) do not disturb it."""
    lines, exp = [], []
    for m in rec.maxcalls:
        fb_at = m["fallback_at"]
        calls = [(float(x), float(y)) for (x, y) in (m["funcalls"] if fb_at is None else m["funcalls"][:fb_at])]
        if len(calls) < 3:
            continue
        a, b, c = float(m["lo"]), (float(m["lo"]) + float(m["hi"])) / 2.0, float(m["hi"])
        if [calls[0][0], calls[1][0], calls[2][0]] != [a, b, c]:
            ctx.disagree("c03parab-init", {"case": case, "bracket": [a, c]}, [x[0] for x in calls[:3]], [a, b, c])
            continue
        fa, fb, fc = calls[0][1], calls[1][1], calls[2][1]
        pos = 3
        width = c - a
        while True:
            xp = _parab_py(a, b, c, fa, fb, fc)
            if not math.isfinite(xp):
                break          # zero denominator: the code falls back without evaluating x
            tolx = 1e-9 * abs(width) + 1e-12
            hit = next((k for k in range(pos, len(calls)) if abs(calls[k][0] - xp) <= tolx), None)
            if hit is not None:
                x_obs = calls[hit][0]
            elif fb_at is None and abs(float(m["value"]) - xp) <= tolx:
                x_obs = float(m["value"])
            else:
                # the estimate the model predicts was neither evaluated nor returned
                x_obs = float(m["value"]) if pos >= len(calls) else calls[pos][0]
                lines.append("c03parab " + " ".join(lib.f2h(v) for v in (a, b, c, fa, fb, fc, b)))
                exp.append((x_obs, width, case, [a, b, c, fa, fb, fc]))
                break
            lines.append("c03parab " + " ".join(lib.f2h(v) for v in (a, b, c, fa, fb, fc, b)))
            exp.append((x_obs, width, case, [a, b, c, fa, fb, fc]))
            if hit is None:
                break          # converged: x returned
            a2, c2 = (a + x_obs) / 2.0, (x_obs + c) / 2.0
            ia = next((k for k in range(hit + 1, len(calls)) if calls[k][0] == a2), None)
            ic = next((k for k in range(hit + 1, len(calls)) if calls[k][0] == c2), None)
            if ia is None or ic is None:
                break          # diverged at x (fallback / best guess follows) or accepted x
            fa, fb, fc = calls[ia][1], calls[hit][1], calls[ic][1]
            a, b, c = a2, x_obs, c2
            pos = max(ia, ic) + 1
    return lines, exp


def correspond(ctx):
    drv = ctx.driver()
    n = ctx.size(90, 340)
    max_len = ctx.size(12, 72)
    cases = gen_cases(ctx, n, max_len)
    cases += gen_zero_cases(ctx, ctx.size(6, 40))
    cases += gen_boundary_cases(ctx, ctx.size(4, 40), ctx.size(50, 72))
    todo, lines = [], []
    plines, pexp = [], []
    for case in cases:
        ps, rec, err = run_impl(case, record=True)
        if err and case["kind"] == "exact_zero" and "different signs" in err:
            # part of the exact-zero defect: elev[k] == 0.0 on the array path, but the scalar re-evaluation handed to
            # brentq differs in the last bit and has the sign of the neighbouring sample: brentq's precondition fails
            ctx.count("corr_exact_zero_brentq_refused")
            continue
        if err:
            # the case is in the domain (the propagator answers at every minute of the window): an exception is not a refusal
            ctx.count("eval_corr_cases")
            ctx.disagree("c03-raised", case, err, "a pass list (the model has no exception path for in-domain input)")
            continue
        if rec.samples is None:
            ctx.disagree("c03", case, "per-minute elevation samples not observable (get_observer_look not called with "
                         "the %d-element minute grid)" % (int(case["length"]) * 60), "one call with the minute grid")
            continue
        samples = rec.samples - case["horizon"]
        if np.isnan(samples).any():
            ctx.count("corr_nan_samples")
            continue
        lines.append(model_line(samples, rec))
        todo.append((case, ps, rec, samples))
        pl, pe = parab_checks(ctx, rec, case)
        plines += pl
        pexp += pe
    outs = drv.run_parallel(lines)
    for (case, ps, rec, samples), mout in zip(todo, outs):
        ctx.count("eval_corr_cases")
        try:
            diffs, zcs, mp = compare_case(ctx, case, ps, rec, mout)
        except Exception as e:  # noqa
            ctx.disagree("c03", case, "unparsable", mout[:200], note=str(e))
            continue
        ctx.count("eval_corr_crossings", len(zcs))
        ctx.count("eval_corr_passes", len(mp))
        ctx.bump("corr_kind", case["kind"])
        ctx.bump("corr_horizon", case["horizon"] if case["kind"] not in ("grazing", "exact_zero") else case["kind"])
        if (samples == 0.0).any():
            ctx.count("corr_cases_with_zero_sample")
        if mp or zcs:
            ctx.distinct(case_key(case))
        if diffs:
            w, a, b = diffs[0]
            ctx.disagree("c03", case, {"what": w, "value": a, "all": [d[0] for d in diffs]}, {"what": w, "value": b})
        elif mp:
            ctx.sample({"case": case, "passes": len(mp), "first": {k: mp[0][k] for k in ("rise", "fall", "middle", "lo", "hi", "culm")}})
    # parabolic updates
    pouts = drv.run_parallel(plines)
    exact = 0
    for (x_obs, width, case, st), o_ in zip(pexp, pouts):
        ctx.count("eval_corr_parab_steps")
        xm = lib.h2f(o_)
        if xm == x_obs:
            exact += 1
        if not (abs(xm - x_obs) <= 1e-9 * abs(width) + 1e-12):
            ctx.disagree("c03parab", {"case": case, "state": st}, x_obs, xm)
    if pexp:
        ctx.note("parabolic updates compared: %d, bit-identical %d" % (len(pexp), exact))


# ------------------------------------------------------------------------------------------------ oracle
def truth_intervals(o, t0, total_s, obs, horizon):
    """Above-horizon intervals on [0, total_s] from 1 s samples; ends refined by bisection.
    Returns (grid elevations, list of (a | None, b | None, i_first, i_last))."""
    grid = np.arange(0, int(total_s) + 1, dtype=float)
    el = el_secs(o, t0, grid, obs, horizon)
    above = el > 0
    idx = np.flatnonzero(np.diff(above.astype(np.int8)))
    out = []
    cur = 0 if above[0] else None
    cur_a = None
    for i in idx:
        if not above[i] and above[i + 1]:
            cur = i + 1
            cur_a = refine_root(o, t0, obs, horizon, float(i), float(i + 1))
        else:
            b = refine_root(o, t0, obs, horizon, float(i), float(i + 1))
            out.append((cur_a, b, cur, i))
            cur, cur_a = None, None
    if cur is not None:
        out.append((cur_a, None, cur, len(grid) - 1))
    return el, out


def refine_root(o, t0, obs, horizon, lo, hi):
    flo = float(el_secs(o, t0, [lo], obs, horizon)[0])
    for _ in range(34):
        mid = 0.5 * (lo + hi)
        fm = float(el_secs(o, t0, [mid], obs, horizon)[0])
        if (fm > 0) == (flo > 0):
            lo, flo = mid, fm
        else:
            hi = mid
    return 0.5 * (lo + hi)


def true_max(o, t0, obs, horizon, el_grid, rise_s, fall_s):
    """maximum of elevation - horizon over [rise_s, fall_s]: 1 s grid, then 1 ms and 1 us grids around the best points"""
    i0 = int(math.ceil(rise_s))
    i1 = int(math.floor(fall_s))
    cand = [rise_s, fall_s]
    best_v = -1e9
    if i1 >= i0:
        seg = el_grid[i0:i1 + 1]
        order = np.argsort(seg)[::-1][:2]
        for j in order:
            cand.append(float(i0 + j))
    for c in cand:
        lo, hi = max(rise_s, c - 1.0), min(fall_s, c + 1.0)
        for step in (1e-3, 1e-6):
            xs = np.arange(lo, hi + step / 2, step)
            xs = xs[(xs >= rise_s) & (xs <= fall_s)]
            if xs.size == 0:
                break
            v = el_secs(o, t0, xs, obs, horizon)
            k = int(np.argmax(v))
            best_v = max(best_v, float(v[k]))
            lo, hi = max(rise_s, xs[k] - step), min(fall_s, xs[k] + step)
    return best_v


def judge(case, ps=None):
    """Every clause of the statement on one case. Returns (violations, stats). A violation is (kind, observed, required)."""
    o = _orb(case)
    t0 = _start(case)
    obs = _obs(case)
    horizon = float(case["horizon"])
    total_s = int(case["length"]) * 3600
    if ps is None:
        ps, _, err = run_impl(case)
        if err:
            return [("raised", err, "a list of passes")], {"raised": err}
    viol = []
    meta = []
    el, truth = truth_intervals(o, t0, total_s, obs, horizon)
    stats = {"passes": len(ps), "truth_intervals": len(truth), "max_el": None, "worst_root": 0.0, "worst_culm": 0.0}
    prev_fall = None
    rep = []
    for i, p in enumerate(ps):
        rise, fall, culm = p
        tag = "pass %d (%s, %s, %s)" % (i, rise, fall, culm)
        if not (t0 <= rise < culm < fall):
            viol.append(("ordering", tag, "start <= rise < culmination < fall (start %s)" % t0))
        if prev_fall is not None and not (prev_fall <= rise):
            viol.append(("not_disjoint", "%s begins before the previous pass has fallen (%s)" % (tag, prev_fall),
                         "passes in time order and disjoint"))
        prev_fall = fall if prev_fall is None else max(prev_fall, fall)
        rs, fs, cs = secs_of(t0, rise), secs_of(t0, fall), secs_of(t0, culm)
        rep.append((rs, fs))
        er = el_at_datetime(o, rise, obs, horizon)
        ef = el_at_datetime(o, fall, obs, horizon)
        stats["worst_root"] = max(stats["worst_root"], abs(er), abs(ef))
        if not abs(er) <= TOL_ROOT_DEG:
            viol.append(("rise_not_on_horizon", "%s: elevation - horizon at rise = %.3e deg" % (tag, er), "|.| <= 1e-4 deg"))
        if not abs(ef) <= TOL_ROOT_DEG:
            viol.append(("fall_not_on_horizon", "%s: elevation - horizon at fall = %.3e deg" % (tag, ef), "|.| <= 1e-4 deg"))
        if fs > rs:
            i0 = int(math.ceil(rs + EDGE_S))
            i1 = min(int(math.floor(fs - EDGE_S)), len(el) - 1)
            if i1 >= i0:
                seg = el[i0:i1 + 1]
                k = int(np.argmin(seg))
                if not seg[k] > 0:
                    viol.append(("below_horizon_inside", "%s: elevation - horizon = %.4f deg at start + %d s" % (tag, seg[k], i0 + k),
                                 "elevation exceeds the horizon between rise and fall"))
            if rs <= cs <= fs:
                tm = true_max(o, t0, obs, horizon, el, rs, fs)
                ec = el_at_datetime(o, culm, obs, horizon)
                stats["max_el"] = max(stats["max_el"] or -1e9, tm + horizon)
                stats["worst_culm"] = max(stats["worst_culm"], tm - ec)
                if not (tm - ec <= TOL_CULM_DEG):
                    meta.append({"true_max_deg": tm + horizon, "pass_duration_s": fs - rs})
                    viol.append(("culmination_off", "%s: elevation at the reported culmination %.4f deg, true maximum of the pass "
                                 "%.4f deg (peak elevation %.3f deg)" % (tag, ec + horizon, tm + horizon, tm + horizon),
                                 "within 0.01 deg of the pass's true maximum"))
    # completeness
    need = 0
    for (a, b, i_first, i_last) in truth:
        if a is None or b is None:
            continue
        if not (a > 0.0 and b - a > MIN_INTERVAL_S + 1e-6 and b <= total_s - 60.0):
            continue
        need += 1
        if not any(abs(rs - a) <= MATCH_S and abs(fs - b) <= MATCH_S for (rs, fs) in rep):
            viol.append(("missed_interval", "above the horizon from start + %.3f s to start + %.3f s (%.1f s), reported passes: %s"
                         % (a, b, b - a, [(round(x, 3), round(y, 3)) for (x, y) in rep][:8]),
                         "every above-horizon interval longer than 60 s that begins after the start and ends at least one "
                         "minute before the end of the window is reported"))
    stats["required_intervals"] = need
    stats["culmination_off"] = meta
    stats["short_intervals"] = sum(1 for (a, b, _, _) in truth if a is not None and b is not None and b - a <= MIN_INTERVAL_S)
    return viol, stats


def _run_oracle(ctx, cases, label):
    worst_root = worst_culm = 0.0
    for case in cases:
        with process_zone(case.get("process_tz")):
            ps, _, err = run_impl(case)
            viol, st = (None, None) if err else judge(case, ps)
        if err:
            ctx.count("eval_oracle_cases")
            ctx.violation("raised", case, err, "a list of passes (the propagator answers at every whole minute of the window)",
                          site="Orbital.get_next_passes")
            continue
        ctx.count("eval_oracle_cases")
        ctx.count("eval_oracle_passes", st["passes"])
        ctx.count("eval_oracle_required_intervals", st["required_intervals"])
        ctx.count("oracle_short_intervals_seen", st["short_intervals"])
        ctx.bump(label + "_kind", case["kind"])
        ctx.bump(label + "_horizon", case["horizon"] if case["kind"] not in ("grazing", "exact_zero") else case["kind"])
        ctx.bump(label + "_length_h", "<=6" if case["length"] <= 6 else "<=24" if case["length"] <= 24 else "<=72")
        if case["kind"] == "clock_change":
            ctx.bump(label + "_clock_change", "%s/%s/%s" % (case["switch_direction"], case["switch_read_as"], case["placement"]))
        if st["max_el"] is not None:
            ctx.bump(label + "_peak", ">85" if st["max_el"] > 85 else ">60" if st["max_el"] > 60 else "<=60")
        if st["passes"] or st["truth_intervals"]:
            ctx.distinct(case_key(case))
        worst_root = max(worst_root, st["worst_root"])
        worst_culm = max(worst_culm, st["worst_culm"])
        for (kind, observed, required) in viol:
            site = {"culmination_off": "_get_max_parab", "rise_not_on_horizon": "_get_root", "fall_not_on_horizon": "_get_root"}.get(
                kind, "Orbital.get_next_passes")
            c = dict(case)
            if kind == "culmination_off" and st["culmination_off"]:
                c.update(st["culmination_off"][0])
            ctx.violation(kind, c, observed, required, site=site)
    return worst_root, worst_culm


def oracle(ctx):
    n = ctx.size(150, 500)
    max_len = ctx.size(14, 72)
    cases = gen_cases(ctx, n, max_len)
    wr, wc = _run_oracle(ctx, cases, "oracle")
    ctx.note("oracle: worst |elevation - horizon| at a reported rise/fall = %.2e deg; worst (true maximum - elevation at the "
             "reported culmination) = %.2e deg" % (wr, wc))
    # searches longer than a day with an event of a pass inside the minute that straddles a day boundary of the search
    _run_oracle(ctx, gen_boundary_cases(ctx, ctx.size(8, 70), 72), "oracle")
    # sequences of calls on one object
    _run_sequences(ctx, gen_sequences(ctx, ctx.size(3, 24), ctx.size(30, 72)), "oracle")
    # a sample exactly on the horizon (genuine defect, see exact_zero_sample_degenerate_pass): judged only when the
    # coordinator has recorded it (known) or repaired it (fixed) in known_findings.json; otherwise observed and noted
    zc = gen_zero_cases(ctx, ctx.size(4, 30))
    if zero_regime_enabled():
        _run_oracle(ctx, zc, "oracle")
    else:
        bad = 0
        for case in zc:
            viol, st = judge(case)
            if viol:
                bad += 1
        ctx.count("observed_exact_zero_cases", len(zc))
        ctx.note("exact-zero-sample stream (horizon = elevation of a whole-minute sample): %d of %d cases break the statement "
                 "(degenerate or duplicated passes); observed, not judged: no entry with match.kind/zero_sample "
                 "'exact_zero_sample' for C03 in known_findings.json" % (bad, len(zc)))
    # windows that contain a clock change of the process time zone (the times are UTC: nothing may happen there)
    _run_oracle(ctx, gen_dst_cases(ctx, ctx.size(12, 80), 24), "oracle")


def search(ctx):
    """Intensified search after a broken tie: a larger sweep of the same stream, windows up to 24 h."""
    cases = gen_cases(ctx, 260 if ctx.tier == "quick" else 600, 24 if ctx.tier == "quick" else 72)
    _run_oracle(ctx, cases, "search")
    _run_oracle(ctx, gen_boundary_cases(ctx, 30 if ctx.tier == "quick" else 90, 72), "search")
    _run_sequences(ctx, gen_sequences(ctx, 8 if ctx.tier == "quick" else 30, 72), "search")
    if zero_regime_enabled():
        _run_oracle(ctx, gen_zero_cases(ctx, 20), "search")
    _run_oracle(ctx, gen_dst_cases(ctx, 20 if ctx.tier == "quick" else 60, 24), "search")


def zero_regime_enabled():
    known = lib.load_known()
    for k in known.get("known", []) + known.get("fixed", []):
        if k.get("property") == ID and ((k.get("match") or {}).get("kind") == "exact_zero_sample" or k.get("zero_sample")):
            return True
    return False


def match_known(entry, v):
    m = entry.get("match") or {}
    if m.get("kind") == "exact_zero_sample":
        return v["case"].get("kind") == "exact_zero" and v["kind"] in ("ordering", "not_disjoint", "raised")
    if m.get("kind") == "culmination_off":
        # culmination of a short, sharply peaked pass: the maximiser's bracket is [rise, fall]
        return (v["kind"] == "culmination_off" and v.get("site") == "_get_max_parab"
                and v["case"].get("true_max_deg", 0) >= m.get("min_true_max_deg", 0)
                and v["case"].get("pass_duration_s", 1e9) <= m.get("max_pass_duration_s", 1e9))
    return False


# ------------------------------------------------------------------------------------------------ replay
def replay(ctx, payload):
    if payload.get("no_failing_input_found"):
        # a broken tie: re-run the recorded correspondence disagreements
        dis = payload.get("first_disagreements") or []
        if not dis:
            print("tie broken outside the correspondence:", [b.get("stage") for b in payload.get("broken", [])])
            return 1
        drv = ctx.driver()
        still = 0
        for d in dis:
            case = d["case"].get("case", d["case"])
            if "line1" not in case:
                continue
            ps, rec, err = run_impl(case, record=True)
            if err or rec.samples is None:
                print("not reproducible:", err)
                still += 1
                continue
            samples = rec.samples - case["horizon"]
            mout = drv.run([model_line(samples, rec)])[0]
            diffs, _, _ = compare_case(ctx, case, ps, rec, mout)
            pl, pe = parab_checks(ctx, rec, case)
            for (x_obs, width, _, _), o_ in zip(pe, drv.run(pl)):
                if not (abs(lib.h2f(o_) - x_obs) <= 1e-9 * abs(width) + 1e-12):
                    diffs.append(("parabolic update", x_obs, lib.h2f(o_)))
            for w, a, b in diffs:
                print("DISAGREE %s: implementation %s model %s" % (w, a, b))
            still += 1 if (diffs or ctx.disagreements) else 0
        return 1 if still else 0
    case = payload.get("input", payload)
    if "calls" in case:
        viol, tot = judge_sequence(case)
        for (kind, observed, required, i) in viol:
            print("VIOLATES %s: %s; required: %s" % (kind, observed, required))
        print("stats:", tot)
        return 1 if viol else 0
    with process_zone(case.get("process_tz")):
        viol, st = judge(case)
    import sys
    unlisted = 0
    for (kind, observed, required) in viol:
        k = lib.known_match(sys.modules[__name__], {"kind": kind, "case": case, "observed": observed})
        if k is not None:
            print("KNOWN-FINDING %s: %s: %s" % (k["id"], kind, observed))
        else:
            unlisted += 1
            print("VIOLATES %s: %s; required: %s" % (kind, observed, required))
    print("stats:", st)
    return 1 if unlisted else 0
