"""T-C: regenerate lean/PV/Generated/Kernels.lean by *tracing the real pyorbital code* on symbolic scalars.

The unmodified numpy code of /repo is executed with `Sym` objects in place of floats.  `Sym` intercepts Python
arithmetic, numpy ufuncs (`__array_ufunc__`, and the method protocol numpy uses for object arrays) and the few
array functions the kernels use (`__array_function__`: where, clip, any, all, asarray ...).  Every operation becomes
a node of a hash-consed expression DAG over the signature of `PV.Num`; comparisons that reach `bool()` become decisions,
and every path is enumerated by re-running the function under a decision schedule.  The result is emitted as a Lean
definition generic over `[Num α]` (a decision tree whose leaves are output lists), one per kernel.

`PV/Equiv/*.lean` then proves, over ℝ and for all inputs, `Gen.K.<kernel> args = [Model outputs]`, so the hand-written
model the property theorems are about is shown to be *the function the source computes now* — not just to agree with
it on sampled inputs.  A source change that alters a kernel alters the generated definition and the proof fails.

Literal policy (DESIGN 2.4): a float that reaches the tracer is emitted as the real number its shortest repr denotes,
unless it is the value of a constant sub-expression that CPython folded (e.g. `26.0 / 60.0`); those are recovered from
the AST of the module and emitted as the source expression.  `np.pi` and the module constants are replaced by named
symbols while tracing (`Num.pi`, `Gen.<module>_<NAME>`).
"""
import ast
import decimal
import math
import os
import sys
import types

HERE = os.path.dirname(os.path.abspath(__file__))
ROOT = os.path.dirname(HERE)
REPO = os.environ.get("PV_REPO", "/repo")
LEAN_GEN = os.path.join(os.environ.get("PV_LEAN_DIR") or os.path.join(ROOT, "lean"), "PV", "Generated")


class TraceError(Exception):
    pass


# ------------------------------------------------------------------ expression DAG
class Expr:
    __slots__ = ("op", "args", "id")
    _table = {}
    _list = []

    def __new__(cls, op, *args):
        key = (op,) + tuple(a.id if isinstance(a, Expr) else ("#", repr(a)) for a in args)
        e = cls._table.get(key)
        if e is None:
            e = object.__new__(cls)
            e.op = op
            e.args = args
            e.id = len(cls._list)
            cls._table[key] = e
            cls._list.append(e)
        return e

    @classmethod
    def reset(cls):
        cls._table = {}
        cls._list = []


FOLDED = {}        # float value -> lean text of the folded constant expression (filled from the AST)


def lit_lean(x):
    """A Python number as an exact Lean literal term over α (the real number its shortest repr denotes)."""
    if isinstance(x, bool):
        raise TraceError("bool literal")
    if isinstance(x, int):
        return "(%d : α)" % x if x >= 0 else "(-(%d : α))" % (-x)
    x = float(x)
    if x != x or x in (float("inf"), float("-inf")):
        raise TraceError("non-finite literal")
    if x < 0 or (x == 0 and math.copysign(1, x) < 0):
        return "(-%s)" % lit_lean(-x)
    if x in FOLDED:
        return FOLDED[x]
    if x == int(x) and abs(x) < 2 ** 53:
        return "(%d : α)" % int(x)
    d = decimal.Decimal(repr(x))
    sign, digits, exp = d.as_tuple()
    m = int("".join(map(str, digits)))
    while m and m % 10 == 0:
        m //= 10
        exp += 1
    if exp >= 0:
        return "(%d : α)" % (m * 10 ** exp)
    return "(%de-%d : α)" % (m, -exp)


def E(x):
    """Coerce to Expr."""
    if isinstance(x, Sym):
        return x.e
    if isinstance(x, Expr):
        return x
    import numpy as np
    if isinstance(x, (np.floating, np.integer)):
        x = x.item()
    if isinstance(x, np.ndarray) and x.shape == ():
        return E(x.item())
    if isinstance(x, (int, float)) and not isinstance(x, bool):
        return Expr("lit", x)
    raise TraceError("cannot coerce %r (%s) to an expression" % (x, type(x).__name__))


# ------------------------------------------------------------------ decisions / path enumeration
class LoopBound(Exception):
    pass


class Path:
    def __init__(self, schedule, max_decisions=12):
        self.schedule = list(schedule)
        self.taken = []      # (cond Expr, bool)
        self.max_decisions = max_decisions

    def decide(self, cond):
        for c, v in self.taken:
            if c is cond:
                return v
        i = len(self.taken)
        if i >= self.max_decisions:
            raise LoopBound()
        v = self.schedule[i] if i < len(self.schedule) else True
        self.taken.append((cond, v))
        return v


CUR = [None]


class SymBool:
    """A symbolic truth value (numpy bool semantics)."""
    __array_priority__ = 1000

    def __init__(self, e):
        self.e = e

    def __bool__(self):
        if CUR[0] is None:
            raise TraceError("decision outside a trace")
        return CUR[0].decide(self.e)

    def __invert__(self):
        return SymBool(Expr("not", self.e))

    def __and__(self, o):
        return SymBool(Expr("and", self.e, _b(o)))

    __rand__ = __and__

    def __or__(self, o):
        return SymBool(Expr("or", self.e, _b(o)))

    __ror__ = __or__

    def any(self, *a, **k):
        return self

    def all(self, *a, **k):
        return self

    def __array_function__(self, func, types_, args, kwargs):
        return _array_function(func, args, kwargs)


def _b(o):
    if isinstance(o, SymBool):
        return o.e
    if isinstance(o, (bool,)):
        return Expr("true") if o else Expr("false")
    import numpy as np
    if isinstance(o, np.bool_):
        return Expr("true") if bool(o) else Expr("false")
    raise TraceError("cannot coerce %r to a condition" % (o,))


UFUNC1 = {"sin": "sin", "cos": "cos", "tan": "tan", "arcsin": "asin", "arccos": "acos", "arctan": "atan",
          "sqrt": "sqrt", "absolute": "abs", "fabs": "abs", "floor": "floor", "sign": "sign", "deg2rad": "deg2rad",
          "radians": "deg2rad", "rad2deg": "rad2deg", "degrees": "rad2deg", "negative": "neg", "square": "sq",
          "positive": "id"}
UFUNC2 = {"add": "add", "subtract": "sub", "multiply": "mul", "true_divide": "div", "divide": "div",
          "arctan2": "atan2", "fmod": "fmod", "remainder": "pymod", "mod": "pymod", "maximum": "max", "minimum": "min",
          "power": "pow"}
CMP = {"less": "lt", "less_equal": "le", "greater": "gt", "greater_equal": "ge"}


def mk_pow(a, b):
    import numpy as np
    if isinstance(b, (np.integer, np.floating)):
        b = b.item()
    if isinstance(b, Sym):
        return Expr("rpow", a, b.e)
    if isinstance(b, float) and b == int(b) and abs(b) <= 8:
        b = int(b)
    if isinstance(b, int):
        if b == 0:
            return Expr("lit", 1)
        if b == 1:
            return a
        if b == 2:
            return Expr("sq", a)
        if b == 3:
            return Expr("cube", a)
        if b == 4:
            return Expr("pow4", a)
        raise TraceError("integer power %d not in the Num signature" % b)
    return Expr("rpow", a, E(b))


class Sym:
    """A symbolic float64 scalar."""
    __array_priority__ = 1000
    dtype = None   # set below (np.dtype('float64')) so that `x.astype(y.dtype)` type-checks
    shape = ()
    ndim = 0

    def __init__(self, e):
        self.e = e

    # ---- constructors
    @staticmethod
    def var(name):
        return Sym(Expr("var", name))

    @staticmethod
    def const(leanname):
        return Sym(Expr("const", leanname))

    # ---- numpy conversions the code performs on results
    def astype(self, dtype, copy=True, **kw):
        return self

    def item(self):
        return self

    def ravel(self):
        import numpy as np
        a = np.empty((1,), dtype=object)
        a[0] = self
        return a

    def reshape(self, *shape):
        return self.ravel().reshape(*shape)

    def __float__(self):
        raise TraceError("float() of a symbolic value (the code leaves numpy here)")

    def __index__(self):
        raise TraceError("int() of a symbolic value")

    # ---- arithmetic
    def __add__(self, o):
        return _lift2("add", self, o)

    def __radd__(self, o):
        return _lift2("add", o, self)

    def __sub__(self, o):
        return _lift2("sub", self, o)

    def __rsub__(self, o):
        return _lift2("sub", o, self)

    def __mul__(self, o):
        return _lift2("mul", self, o)

    def __rmul__(self, o):
        return _lift2("mul", o, self)

    def __truediv__(self, o):
        return _lift2("div", self, o)

    def __rtruediv__(self, o):
        return _lift2("div", o, self)

    def __mod__(self, o):
        return _lift2("pymod", self, o)

    def __rmod__(self, o):
        return _lift2("pymod", o, self)

    def __neg__(self):
        return Sym(Expr("neg", self.e))

    def __pos__(self):
        return self

    def __abs__(self):
        return Sym(Expr("abs", self.e))

    def __pow__(self, o):
        if _is_arr(o):
            return NotImplemented
        return Sym(mk_pow(self.e, o))

    def __rpow__(self, o):
        return Sym(Expr("rpow", E(o), self.e))

    # ---- comparisons
    def __lt__(self, o):
        return _cmp("lt", self, o)

    def __le__(self, o):
        return _cmp("le", self, o)

    def __gt__(self, o):
        return _cmp("gt", self, o)

    def __ge__(self, o):
        return _cmp("ge", self, o)

    def __eq__(self, o):
        raise TraceError("== on symbolic floats is not modelled")

    __hash__ = None

    # ---- numpy protocols
    def __array_ufunc__(self, ufunc, method, *inputs, **kwargs):
        if method != "__call__" or kwargs.get("out") is not None:
            raise TraceError("ufunc %s.%s not modelled" % (ufunc.__name__, method))
        if any(_is_arr(x) for x in inputs):
            return _elementwise(ufunc, inputs)
        return _ufunc(ufunc.__name__, inputs)

    def __array_function__(self, func, types_, args, kwargs):
        return _array_function(func, args, kwargs)

    def clip(self, a_min=None, a_max=None, out=None, *, min=None, max=None, **kw):
        if kw or out is not None:
            raise TraceError("clip(%s) not modelled" % ", ".join(kw))
        return _clip(self, a_min if a_min is not None else min, a_max if a_max is not None else max)

    def __repr__(self):
        return "Sym#%d" % self.e.id


def _is_arr(x):
    import numpy as np
    return isinstance(x, np.ndarray) and x.shape != ()


def _lift2(op, a, b):
    if _is_arr(a) or _is_arr(b):
        return NotImplemented
    return Sym(Expr(op, E(a), E(b)))


def _cmp(op, a, b):
    if _is_arr(a) or _is_arr(b):
        return NotImplemented
    a, b = E(a), E(b)
    if op == "gt":
        op, a, b = "lt", b, a
    elif op == "ge":
        op, a, b = "le", b, a
    return SymBool(Expr(op, a, b))


def _ufunc(name, inputs):
    if name in UFUNC1 and len(inputs) == 1:
        op = UFUNC1[name]
        if op == "id":
            return inputs[0]
        return Sym(Expr(op, E(inputs[0])))
    if name in UFUNC2 and len(inputs) == 2:
        op = UFUNC2[name]
        if op == "pow":
            return Sym(mk_pow(E(inputs[0]), inputs[1]))
        return Sym(Expr(op, E(inputs[0]), E(inputs[1])))
    if name in CMP and len(inputs) == 2:
        return _cmp(CMP[name], inputs[0], inputs[1])
    if name == "isnan" and len(inputs) == 1:
        return SymBool(Expr("false"))     # the real-number reading has no NaN (NaN handling: PV.Model.Joint)
    if name == "logical_not":
        return ~inputs[0]
    if name == "logical_and":
        return inputs[0] & inputs[1]
    if name == "logical_or":
        return inputs[0] | inputs[1]
    raise TraceError("ufunc %s/%d is not in the Num signature" % (name, len(inputs)))


def _elementwise(ufunc, inputs):
    import numpy as np
    arrs = [np.asarray(x, dtype=object) if _is_arr(x) else x for x in inputs]
    b = np.broadcast(*[a if _is_arr(a) else np.empty(()) for a in arrs])
    out = np.empty(b.shape, dtype=object)
    for idx in np.ndindex(b.shape):
        elems = [np.broadcast_to(a, b.shape)[idx] if _is_arr(a) else a for a in arrs]
        out[idx] = _ufunc(ufunc.__name__, elems)
    return out


def _clip(x, lo, hi):
    r = x
    if lo is not None:
        r = Sym(Expr("max", E(r), E(lo)))      # np.clip = minimum(maximum(x, lo), hi)
    if hi is not None:
        r = Sym(Expr("min", E(r), E(hi)))
    return r


def _array_function(func, args, kwargs):
    import numpy as np
    name = func.__name__
    if name == "where" and len(args) == 3:
        c, a, b = args
        return Sym(Expr("sel", _b(c), E(a), E(b)))
    if name == "clip":
        return _clip(args[0], args[1] if len(args) > 1 else kwargs.get("a_min", kwargs.get("min")),
                     args[2] if len(args) > 2 else kwargs.get("a_max", kwargs.get("max")))
    if name in ("any", "all"):
        return args[0]
    if name in ("asarray", "asanyarray", "array", "squeeze", "atleast_1d", "real", "copy", "nan_to_num") and args:
        a = args[0]
        if isinstance(a, (int, float)) and not isinstance(a, bool):
            return Sym(Expr("lit", a))
        return a
    if name == "isnan":
        return SymBool(Expr("false"))     # the real-number reading has no NaN; NaN handling is PV.Model.Joint's business
    if name == "round":
        raise TraceError("np.round is not in the Num signature")
    if name == "expand_dims":
        return np.expand_dims(_obj(args[0]), *args[1:], **kwargs)
    if name in ("stack", "vstack", "hstack", "concatenate"):
        seq = [(_obj(x) if isinstance(x, Sym) else np.asarray(x, dtype=object)) for x in args[0]]
        return func(seq, *args[1:], **kwargs)
    if name == "ndim":
        return 0
    if name == "zeros_like":
        return Sym(Expr("lit", 0))
    if name == "allclose" and len(args) == 2 and not kwargs:
        return SymBool(Expr("allclose", E(args[0]), E(args[1])))
    if name == "mod":
        return _lift2("pymod", args[0], args[1])
    if name == "abs" or name == "absolute":
        return Sym(Expr("abs", E(args[0])))
    raise TraceError("array function np.%s is not modelled" % name)


def _obj(x):
    import numpy as np
    a = np.empty((), dtype=object)
    a[()] = x
    return a


# object-array ufunc loops call methods named after the ufunc on the elements
def _method1(op):
    return lambda self: Sym(Expr(op, self.e))


for _n, _op in UFUNC1.items():
    if _op not in ("id",):
        setattr(Sym, _n, _method1(_op))
Sym.arctan2 = lambda self, o: Sym(Expr("atan2", self.e, E(o)))
Sym.conjugate = lambda self: self


# ------------------------------------------------------------------ emitter
BIN = {"add": "+", "sub": "-", "mul": "*", "div": "/"}
FUN1 = {"sqrt", "sin", "cos", "tan", "asin", "acos", "atan", "abs", "floor", "sign", "deg2rad", "rad2deg", "sq", "cube", "pow4"}
FUN2 = {"atan2", "rpow", "fmod", "pymod", "max", "min"}


class Emitter:
    def __init__(self):
        self.names = {}
        self.lines = []
        self.count = {}

    def uses(self, roots):
        """Reference counts over the sub-DAG reachable from roots."""
        cnt = {}
        stack = list(roots)
        seen = set()
        while stack:
            e = stack.pop()
            cnt[e.id] = cnt.get(e.id, 0) + 1
            if e.id in seen:
                continue
            seen.add(e.id)
            for a in e.args:
                if isinstance(a, Expr):
                    stack.append(a)
        return cnt

    def term(self, e, cnt, lets, indent):
        """Lean term for e; shared non-trivial nodes are let-bound (appended to lets) once."""
        if e.id in self.names:
            return self.names[e.id]
        op = e.op
        if op == "var":
            return e.args[0]
        if op == "const":
            return "(@%s α _)" % e.args[0]
        if op == "pi":
            return "(Num.pi : α)"
        if op == "lit":
            return lit_lean(e.args[0])
        if op in ("true", "false"):
            return op
        sub = [self.term(a, cnt, lets, indent) if isinstance(a, Expr) else repr(a) for a in e.args]
        # (for op == "call" the first two args are the kernel name and the output index)
        if op in BIN:
            t = "(%s %s %s)" % (sub[0], BIN[op], sub[1])
        elif op == "neg":
            t = "(-%s)" % sub[0]
        elif op in FUN1:
            t = "(Num.%s %s)" % (op, sub[0])
        elif op in FUN2:
            t = "(Num.%s %s %s)" % (op, sub[0], sub[1])
        elif op == "sel":
            t = "(Num.sel %s %s %s)" % (sub[0], sub[1], sub[2])
        elif op == "lt":
            t = "(Num.lt %s %s)" % (sub[0], sub[1])
        elif op == "le":
            t = "(Num.le %s %s)" % (sub[0], sub[1])
        elif op == "call":       # i-th output of another traced kernel (a cut point)
            t = "(nth (%s %s) %d)" % (e.args[0], " ".join(sub[2:]), e.args[1])
        elif op == "allclose":   # np.allclose(a, b): |a - b| <= 1e-8 + 1e-5 |b|
            t = "(Num.le (Num.abs (%s - %s)) ((1e-8 : α) + (1e-5 : α) * Num.abs %s))" % (sub[0], sub[1], sub[1])
        elif op == "not":
            t = "(!%s)" % sub[0]
        elif op == "and":
            t = "(%s && %s)" % (sub[0], sub[1])
        elif op == "or":
            t = "(%s || %s)" % (sub[0], sub[1])
        else:
            raise TraceError("emit: unknown op " + op)
        if cnt.get(e.id, 0) > 1 and op not in ("neg",) and e.op not in ("lt", "le", "not", "and", "or", "allclose"):
            name = "t%d" % len(self.names)
            self.names[e.id] = name
            lets.append("%slet %s : α := %s" % (indent, name, t))
            return name
        return t


def emit_tree(tree, indent="  "):
    """tree: ('leaf', [Expr...]) | ('err', text) | ('if', condExpr, treeT, treeF).  Returns Lean text of type List α."""
    em = Emitter()

    def roots(t):
        if t[0] == "leaf":
            return list(t[1])
        if t[0] == "err":
            return []
        return [t[1]] + roots(t[2]) + roots(t[3])

    cnt = em.uses(roots(tree))

    def go(t, ind):
        if t[0] == "leaf":
            lets = []
            terms = [em.term(e, cnt, lets, ind) for e in t[1]]
            return "\n".join(lets + ["%s[%s]" % (ind, ", ".join(terms))])
        if t[0] == "err":
            return "%s[]   -- %s" % (ind, t[1])
        lets = []
        c = em.term(t[1], cnt, lets, ind)
        saved = dict(em.names)
        a = go(t[2], ind + "  ")
        em.names = dict(saved)     # let-bindings made inside one branch are not visible in the other
        b = go(t[3], ind + "  ")
        em.names = saved
        return "\n".join(lets + ["%sif %s then" % (ind, c), a, "%selse" % ind, b])

    return go(tree, indent)


# ------------------------------------------------------------------ tracing with path enumeration
def trace(fn, max_paths=64, max_decisions=12):
    """Run fn() under every decision schedule; returns the decision tree of output lists.
    A path needing more than max_decisions decisions (an unrolled data-dependent loop) ends in an error leaf."""
    results = []

    def run(schedule):
        p = Path(schedule, max_decisions)
        CUR[0] = p
        try:
            out = fn()
            leaf = ("leaf", [E(x) for x in flatten(out)])
        except TraceError:
            raise
        except LoopBound:
            leaf = ("err", "loop bound: more than %d decisions" % max_decisions)
        except Exception as ex:  # the code raised for this path: an error leaf
            leaf = ("err", "%s: %s" % (type(ex).__name__, str(ex)[:60]))
        finally:
            CUR[0] = None
        return p.taken, leaf

    def explore(prefix):
        if len(results) > max_paths:
            raise TraceError("too many paths")
        taken, leaf = run(prefix)
        results.append(1)
        if len(taken) <= len(prefix):
            return leaf
        # first undecided decision beyond the prefix was taken as True; explore both sides
        cond = taken[len(prefix)][0]
        t = explore(prefix + [True])
        f = explore(prefix + [False])
        return ("if", cond, t, f)

    return explore([])


def trace_path(fn, schedule):
    """Run fn() under exactly this decision schedule; returns (conditions met in order, their values, outputs)."""
    p = Path(schedule, len(schedule))
    CUR[0] = p
    try:
        out = fn()
        outs = [E(x) for x in flatten(out)]
    finally:
        CUR[0] = None
    if len(p.taken) != len(schedule):
        raise TraceError("path %r: the code took %d decisions" % (schedule, len(p.taken)))
    return [c for c, _ in p.taken], [v for _, v in p.taken], outs


def emit_bool(cond, indent="  "):
    em = Emitter()
    cnt = em.uses([cond])
    lets = []
    t = em.term(cond, cnt, lets, indent)
    return "\n".join(lets + [indent + t])


def flatten(x):
    import numpy as np
    if isinstance(x, (tuple, list)):
        out = []
        for y in x:
            out.extend(flatten(y))
        return out
    if isinstance(x, np.ndarray):
        return flatten(list(x.ravel().tolist())) if x.dtype == object else [float(v) for v in x.ravel()]
    return [x]


# ------------------------------------------------------------------ folded constants from the AST
def collect_folded(path, names):
    """Map the double value of every constant sub-expression to its Lean translation.

    Constant = built from numeric literals, module constants (`names`) and, inside a function, local names assigned
    exactly once to such an expression (`a__ = 6378.137; radius = 1 / a__`).  CPython (constant folding) or the
    interpreter (float arithmetic before a symbolic value is met) reduce these to one double; the tracer maps the double
    back to the source expression so that the ℝ reading is the real number the source text denotes."""
    import extract
    src = open(path).read()
    tree = ast.parse(src)
    modvals = {}
    for n in tree.body:
        if isinstance(n, ast.Assign) and len(n.targets) == 1 and isinstance(n.targets[0], ast.Name):
            try:
                modvals[n.targets[0].id] = eval(compile(ast.Expression(n.value), "<c>", "eval"), {"np": __import__("numpy")}, dict(modvals))
            except Exception:
                pass

    def scan(scope, local_names, local_vals):
        allnames = dict(names)
        allnames.update(local_names)
        class Tr2(extract.Tr):
            def tr(self, n):
                if isinstance(n, ast.Name) and str(self.names.get(n.id, "")).startswith("__LIT__"):
                    return self.names[n.id][7:]
                return extract.Tr.tr(self, n)

        tr = Tr2(src, allnames, "")
        env = {k: v for k, v in modvals.items() if k in names}
        env.update(local_vals)

        def is_const(n):
            if isinstance(n, ast.Constant):
                return isinstance(n.value, (int, float)) and not isinstance(n.value, bool)
            if isinstance(n, ast.Name):
                return n.id in local_names       # module constants are symbols while tracing, locals are not
            if isinstance(n, ast.UnaryOp) and isinstance(n.op, (ast.USub, ast.UAdd)):
                return is_const(n.operand)
            if isinstance(n, ast.BinOp) and isinstance(n.op, (ast.Add, ast.Sub, ast.Mult, ast.Div, ast.Pow)):
                return is_const(n.left) and is_const(n.right)
            return False

        def visit(n):
            if isinstance(n, (ast.FunctionDef, ast.ClassDef)) and n is not scope:
                return
            if isinstance(n, ast.BinOp) and is_const(n):
                try:
                    val = eval(compile(ast.Expression(n), "<c>", "eval"), {}, dict(env))
                    text = tr.tr(n)
                except Exception:
                    return
                if isinstance(val, float) and val == val and abs(val) != float("inf"):
                    old = FOLDED.get(abs(val))
                    lean = text if val >= 0 else "(-%s)" % text
                    if old is None:
                        FOLDED[abs(val)] = lean
                return
            for c in ast.iter_child_nodes(n):
                visit(c)

        for c in ast.iter_child_nodes(scope):
            visit(c)

    scan(tree, {}, {})
    for fn in ast.walk(tree):
        if not isinstance(fn, ast.FunctionDef):
            continue
        assigned = {}
        for n in ast.walk(fn):
            if isinstance(n, ast.Assign):
                for t in n.targets:
                    for nm in ast.walk(t):
                        if isinstance(nm, ast.Name):
                            assigned.setdefault(nm.id, []).append(n)
            elif isinstance(n, (ast.AugAssign, ast.AnnAssign)) and isinstance(n.target, ast.Name):
                assigned.setdefault(n.target.id, []).append(None)
        local_names, local_vals = {}, {}
        for nm, lst in assigned.items():
            if len(lst) == 1 and lst[0] is not None and len(lst[0].targets) == 1 and isinstance(lst[0].targets[0], ast.Name):
                v = lst[0].value
                if isinstance(v, ast.Constant) and isinstance(v.value, (int, float)) and not isinstance(v.value, bool):
                    local_names[nm] = None
                    local_vals[nm] = v.value
                    # the Lean text of a local constant is its literal
                    local_names[nm] = "__LIT__" + extract.lit_to_lean(ast.get_source_segment(src, v))
        scan(fn, local_names, local_vals)


# ------------------------------------------------------------------ kernels
def _setup():
    """Import pyorbital from REPO with np.pi and module constants replaced by symbols."""
    if REPO not in sys.path:
        sys.path.insert(0, REPO)
    import numpy as np
    Sym.dtype = np.dtype("float64")
    from pyorbital import astronomy, orbital, geoloc
    return np, astronomy, orbital, geoloc


class Patches:
    def __init__(self):
        self.saved = []

    def set(self, obj, name, val):
        self.saved.append((obj, name, getattr(obj, name)))
        setattr(obj, name, val)

    def restore(self):
        for obj, name, val in reversed(self.saved):
            setattr(obj, name, val)
        self.saved = []


CONST_NAMES = {
    "astronomy": ["F", "A", "MFACTOR"],
    "orbital": ["CK2", "CK4", "E6A", "QOMS2T", "S", "S0", "XJ3", "XKE", "XKMPER", "XMNPDA", "AE", "SECDAY", "F", "A", "KS",
                "A3OVK2", "ECC_EPS", "ECC_LIMIT_LOW", "ECC_LIMIT_HIGH", "ECC_ALL", "EPS_COS", "NR_EPS"],
    "geoloc": ["A", "B", "F", "XKMPER"],
}
# names a module imports from another module keep the defining module's constant
CONST_HOME = {("geoloc", "F"): "orbital", ("geoloc", "XKMPER"): "orbital"}


def const_lean(mname, n):
    return "PV.Gen.%s_%s" % (CONST_HOME.get((mname, n), mname), n)


def kernels():
    """name -> (arg names, thunk, max_decisions).  The thunk is traced; jdays2000 is patched to return the symbol d."""
    import datetime
    np, astronomy, orbital, geoloc = _setup()
    V = Sym.var
    K = {}
    T = np.datetime64(datetime.datetime(2020, 1, 1))   # placeholder: every use of the time goes through jdays2000

    def vec(*names):
        a = np.empty((3,), dtype=object)
        for i, n in enumerate(names):
            a[i] = V(n)
        return a

    def col(*names):
        return vec(*names).reshape((3, 1))

    def arr1(name):
        a = np.empty((1,), dtype=object)
        a[0] = V(name)
        return a

    K["astronomy_gmst"] = (["d"], lambda: astronomy.gmst(T), 4)
    K["astronomy_sun_ecliptic_longitude"] = (["d"], lambda: astronomy.sun_ecliptic_longitude(T), 4)
    K["astronomy_sun_ra_dec"] = (["d"], lambda: astronomy.sun_ra_dec(T), 4)
    K["astronomy_cos_zen"] = (["d", "lon", "lat"], lambda: astronomy.cos_zen(T, V("lon"), V("lat")), 4)
    K["astronomy_sun_zenith_angle"] = (["d", "lon", "lat"], lambda: astronomy.sun_zenith_angle(T, V("lon"), V("lat")), 4)
    K["astronomy_get_alt_az"] = (["d", "lon", "lat"], lambda: astronomy.get_alt_az(T, V("lon"), V("lat")), 4)
    K["astronomy_sun_earth_distance_correction"] = (["d"], lambda: astronomy.sun_earth_distance_correction(T), 4)
    K["astronomy_observer_position"] = (["d", "lon", "lat", "alt"],
                                        lambda: astronomy.observer_position(T, V("lon"), V("lat"), V("alt")), 4)
    K["orbital_get_observer_look"] = (
        ["d", "sat_lon", "sat_lat", "sat_alt", "lon", "lat", "alt"],
        lambda: orbital.get_observer_look(V("sat_lon"), V("sat_lat"), V("sat_alt"), T, V("lon"), V("lat"), V("alt")), 4)

    def fake_orbital(normalized):
        ns = types.SimpleNamespace()

        def get_position(utc_time, normalize=True):
            if normalize != normalized:
                raise TraceError("get_position(normalize=%r) unexpected" % normalize)
            return (V("px"), V("py"), V("pz")), (V("vx"), V("vy"), V("vz"))
        ns.get_position = get_position
        return ns

    K["orbital_Orbital_get_observer_look"] = (
        ["d", "px", "py", "pz", "lon", "lat", "alt"],
        lambda: orbital.Orbital.get_observer_look(fake_orbital(False), T, V("lon"), V("lat"), V("alt")), 4)
    # sub-satellite point: the data-dependent loop is unrolled up to two passes (exit decisions c1, c2)
    K["orbital_Orbital_get_lonlatalt"] = (
        ["d", "px", "py", "pz"], lambda: orbital.Orbital.get_lonlatalt(fake_orbital(True), T), [[True], [False, True]])
    K["geoloc_get_lonlatalt"] = (["d", "px", "py", "pz"], lambda: geoloc.get_lonlatalt(vec("px", "py", "pz"), T),
                                 [[True], [False, True]])
    K["orbital_kep2xyz"] = (
        ["theta", "eqinc", "ascn", "radius", "rdotk", "rfdotk"],
        lambda: orbital.kep2xyz({k: V(k) for k in ("theta", "eqinc", "ascn", "radius", "rdotk", "rfdotk")}), 4)
    K["geoloc_qrotate"] = (["vx", "vy", "vz", "ax", "ay", "az", "angle"],
                           lambda: geoloc.qrotate(col("vx", "vy", "vz"), col("ax", "ay", "az"), arr1("angle")), 4)
    K["geoloc_qrotate_shared_axis"] = (["vx", "vy", "vz", "ax", "ay", "az", "angle"],
                                       lambda: geoloc.qrotate(col("vx", "vy", "vz"), vec("ax", "ay", "az"), arr1("angle")), 4)
    K["geoloc_geodetic_lat"] = (["x", "y", "z"], lambda: geoloc.geodetic_lat(vec("x", "y", "z")), [[True], [False, True]])
    # subpoint / vectors with the latitude iteration replaced by the symbol `lat` (its loop is the kernel above)
    K["geoloc_subpoint"] = (["x", "y", "z", "lat"], "subpoint", 4)
    K["geoloc_vectors"] = (["px", "py", "pz", "vx", "vy", "vz", "fx", "fy", "roll", "pitch", "yaw", "lat"], "vectors", 4)
    K["geoloc_compute_pixels"] = (["px", "py", "pz", "ux", "uy", "uz"], "compute_pixels", 4)
    return K, dict(vec=vec, col=col, arr1=arr1, V=V, T=T)


def generate():
    """Returns the text of PV/Generated/Kernels.lean."""
    import extract
    np, astronomy, orbital, geoloc = _setup()
    Expr.reset()
    FOLDED.clear()
    mods = {"astronomy": astronomy, "orbital": orbital, "geoloc": geoloc}
    for mname in mods:
        names = {n: const_lean(mname, n) for n in CONST_NAMES.get(mname, [])}
        collect_folded(os.path.join(REPO, "pyorbital", mname + ".py"), names)
    P = Patches()
    out = ["/- GENERATED by harness/symtrace.py by tracing the current source of /repo/pyorbital on symbolic scalars — do not edit. -/",
           "import PV.Num", "import PV.Generated.Consts", "set_option linter.unusedVariables false", "namespace PV.Gen.K", "variable {α : Type} [Num α]", "open PV", "",
           "/-- i-th output of a kernel (used where one traced kernel calls another at a cut point) -/",
           "def nth (l : List α) (i : Nat) : α := l.getD i (Num.ofNat 0)", ""]
    try:
        P.set(np, "pi", Sym(Expr("pi")))
        for mname, mod in mods.items():
            for n in CONST_NAMES.get(mname, []):
                if hasattr(mod, n) and isinstance(getattr(mod, n), (int, float)):
                    P.set(mod, n, Sym.const(const_lean(mname, n)))
        P.set(astronomy, "jdays2000", lambda t: Sym.var("d"))
        # default arguments captured at definition time (`a=A, b=B`) are floats: make them the symbols too
        gA, gB = Sym.const("PV.Gen.geoloc_A"), Sym.const("PV.Gen.geoloc_B")
        P.set(geoloc.geodetic_lat, "__defaults__", (gA, gB))
        P.set(geoloc.subpoint, "__defaults__", (gA, gB))
        KS, h = kernels()
        V, vec, col, arr1, T = h["V"], h["vec"], h["col"], h["arr1"], h["T"]
        # cut points: while a kernel is traced, every *other* function that is itself a kernel is replaced by an opaque
        # call node `nth (<kernel> args) i`; PV/Equiv rewrites those with the callee's own equivalence theorem, so each
        # proof is about one function body only (fast, and a harmless rewrite inside a callee stays local).
        def call(kernel, n_out, args):
            ex = [E(a) for a in args]
            return [Sym(Expr("call", kernel, i, *ex)) for i in range(n_out)]

        D = lambda: Sym.var("d")
        real_rad = astronomy.sun_ra_dec
        OPAQUE = {
            "astronomy_gmst": (astronomy, "gmst", lambda t: call("astronomy_gmst", 1, [D()])[0]),
            "astronomy_sun_ecliptic_longitude": (astronomy, "sun_ecliptic_longitude",
                                                 lambda t: call("astronomy_sun_ecliptic_longitude", 1, [D()])[0]),
            "astronomy_sun_ra_dec": (astronomy, "sun_ra_dec", lambda t: tuple(call("astronomy_sun_ra_dec", 2, [D()]))),
            "astronomy_cos_zen": (astronomy, "cos_zen", lambda t, lon, lat: call("astronomy_cos_zen", 1, [D(), lon, lat])[0]),
            "astronomy_observer_position": (
                astronomy, "observer_position",
                lambda t, lon, lat, alt: (lambda r: (tuple(r[:3]), tuple(r[3:])))(
                    call("astronomy_observer_position", 6, [D(), lon, lat, alt]))),
        }
        for name, (args, thunk, maxd) in KS.items():
            Q = Patches()
            try:
                for kname, (mod_, attr, fn_) in OPAQUE.items():
                    if kname != name:
                        Q.set(mod_, attr, fn_)
                if thunk == "subpoint":
                    Q.set(geoloc, "geodetic_lat", lambda p, a=None, b=None: V("lat"))
                    thunk = lambda: geoloc.subpoint(vec("x", "y", "z"))
                elif thunk == "vectors":
                    Q.set(geoloc, "geodetic_lat", lambda p, a=None, b=None: arr1("lat"))

                    def opaque_qrotate(vector, axis, angle):
                        # cut point: the rotation itself is the kernel geoloc_qrotate (proved equal to the model's qrotate)
                        a = [E(x) for x in flatten(vector)] + [E(x) for x in flatten(axis)] + [E(x) for x in flatten(angle)]
                        if len(a) != 7:
                            raise TraceError("qrotate cut point: unexpected shapes")
                        r = np.empty((3, 1), dtype=object)
                        for i in range(3):
                            r[i, 0] = Sym(Expr("call", "geoloc_qrotate", i, *a))
                        return r
                    Q.set(geoloc, "qrotate", opaque_qrotate)
                    sg = geoloc.ScanGeometry.__new__(geoloc.ScanGeometry)
                    f = np.empty((2, 1), dtype=object)
                    f[0, 0], f[1, 0] = V("fx"), V("fy")
                    sg.fovs = f
                    thunk = lambda: sg.vectors(col("px", "py", "pz"), col("vx", "vy", "vz"), V("roll"), V("pitch"), V("yaw"))
                elif thunk == "compute_pixels":
                    orb = types.SimpleNamespace(get_position=lambda t, normalize=True: (col("px", "py", "pz"), col("vx", "vy", "vz")))
                    sg = types.SimpleNamespace(vectors=lambda pos, vel, *rpy: col("ux", "uy", "uz"))
                    thunk = lambda: geoloc.compute_pixels(orb, sg, T)
                if isinstance(maxd, list):
                    # a data-dependent loop: one straight-line kernel per listed path (pass i exits) + its exit tests
                    for i, sched in enumerate(maxd, 1):
                        conds, vals, outs = trace_path(thunk, sched)
                        out.append("/-- traced from pyorbital: `%s`, path %r (loop exits in pass %d) -/" % (name, sched, i))
                        out.append("def %s_p%d (%s : α) : List α :=" % (name, i, " ".join(args)))
                        out.append(emit_tree(("leaf", outs)))
                        out.append("")
                        for j, c in enumerate(conds, 1):
                            out.append("/-- decision %d on that path (taken %s) -/" % (j, vals[j - 1]))
                            out.append("def %s_p%d_c%d (%s : α) : Bool :=" % (name, i, j, " ".join(args)))
                            out.append(emit_bool(c))
                            out.append("")
                    continue
                tree = trace(thunk, max_decisions=maxd)
            finally:
                Q.restore()
            body = emit_tree(tree)
            out.append("/-- traced from pyorbital: `%s` -/" % name)
            out.append("def %s (%s : α) : List α :=" % (name, " ".join(args)))
            out.append(body)
            out.append("")
    finally:
        P.restore()
    out.append("end PV.Gen.K")
    return "\n".join(out) + "\n"


if __name__ == "__main__":
    sys.path.insert(0, HERE)
    text = generate()
    if len(sys.argv) > 1 and sys.argv[1] == "--write":
        import extract
        print(extract.write_if_changed(os.path.join(LEAN_GEN, "Kernels.lean"), text))
    else:
        print(text)
