"""TLE text generator (the standard fixed-column layout), independent of pyorbital.

`encode(fields)` formats a dict of *printed* field values into two 69-character
lines with a correct modulo-10 checksum.  `random_fields(rng, regime)` draws
field values over the full printable range, or restricted to a regime
(near-earth, deep, any ...).
"""
import math


def checksum(line68):
    s = 0
    for ch in line68:
        if ch in "0123456789":
            s += ord(ch) - 48
        elif ch == "-":
            s += 1
    return s % 10


def fmt_expo(mant_digits, sign, exp, expsign=None):
    """8-char field: sign char, 5 digits, exponent sign, exponent digit."""
    if not (len(mant_digits) == 5):
        raise RuntimeError('len(mant_digits) == 5')
    if expsign is None:
        expsign = "-" if exp < 0 else "+"
    return "%s%s%s%d" % (sign, mant_digits, expsign, abs(exp))


def encode(f):
    """f: dict with printed values (strings where layout matters)."""
    l1 = "1 %5s%s %2s%3s%-3s %2s%12s %10s %8s %8s %1s %4s" % (
        f["satnum"], f["classification"], f["launch_year"], f["launch_number"], f["launch_piece"],
        f["epoch_year"], f["epoch_day"], f["ndot"], f["nddot"], f["bstar"], f["ephemeris"], f["elnum"])
    if not (len(l1) == 68):
        raise RuntimeError((len(l1), l1))
    l2 = "2 %5s %8s %8s %7s %8s %8s %11s%5s" % (
        f["satnum"], f["incl"], f["raan"], f["ecc"], f["argp"], f["manom"], f["mmotion"], f["rev"])
    if not (len(l2) == 68):
        raise RuntimeError((len(l2), l2))
    return l1 + str(checksum(l1)), l2 + str(checksum(l2))


def _digits(rng, n):
    return "".join(rng.choice("0123456789") for _ in range(n))


def random_fields(rng, regime="any", overrides=None):
    """Printed TLE fields over the full range of every column.

    regime: 'any'   - every field over its printable range
            'near'  - near-earth: period < 225 min, perigee >= 220 km, moderate drag
            'leo'   - typical operational LEO (e < 0.02)
    """
    f = {}
    f["satnum"] = rng.choice(["%05d" % rng.randrange(0, 100000), "%5d" % rng.randrange(1, 100000)])
    f["classification"] = rng.choice("UUUCS")
    f["launch_year"] = "%02d" % rng.randrange(0, 100)
    f["launch_number"] = "%03d" % rng.randrange(0, 1000)
    f["launch_piece"] = rng.choice(["A", "B", "AB", "ABC", "ZZ", "A"])
    yy = rng.choice(list(range(0, 57)) + list(range(69, 100)))
    f["epoch_year"] = "%02d" % yy
    year = 2000 + yy if yy <= 56 else 1900 + yy
    leap = year % 4 == 0 and (year % 100 != 0 or year % 400 == 0)
    r = rng.random()
    if r < 0.1:
        doy = (366 if leap else 365) + rng.random() * 0.99999999
    elif r < 0.2:
        doy = 1 + rng.random() * 0.99999999
    elif r < 0.25:
        doy = float(rng.randrange(1, 366))
    else:
        doy = 1 + rng.random() * ((366 if leap else 365) - 0.00000001)
    ed = "%012.8f" % doy
    if len(ed) > 12:
        ed = "365.99999999"
    if rng.random() < 0.3:
        ed = ("%12.8f" % doy)[:12]
    f["epoch_day"] = ed
    # first derivative: sign . 8 digits
    nd = rng.choice([0.0, rng.uniform(-0.001, 0.001), rng.uniform(-1e-5, 1e-5), rng.uniform(-0.9, 0.9) if regime == "any" else 1e-6])
    sign = "-" if nd < 0 else rng.choice([" ", " ", "+"])
    f["ndot"] = sign + ("%.8f" % abs(nd))[1:]
    # second derivative
    if rng.random() < 0.6:
        f["nddot"] = rng.choice([" ", "+", "-"]) + "00000" + rng.choice(["-0", "+0"])
    else:
        f["nddot"] = rng.choice([" ", "+", "-"]) + _digits(rng, 5) + rng.choice(["-", "-", "+"]) + rng.choice("0123456789" if regime == "any" else "56789")
        if f["nddot"][6] == "+" and regime != "any":
            f["nddot"] = f["nddot"][:6] + "-" + f["nddot"][7]
    # bstar
    if regime == "any":
        bs_exp = rng.choice([-9, -8, -7, -6, -5, -4, -3, -2, -1, 0, 0, 1])
        bsign = rng.choice([" ", "-", "+"])
    else:
        bs_exp = rng.choice([-8, -6, -5, -4, -4, -4, -3, -3])
        bsign = rng.choice([" ", " ", " ", "-", "+"])
    mant = _digits(rng, 5) if rng.random() < 0.9 else "00000"
    f["bstar"] = fmt_expo(mant, bsign, bs_exp, expsign=("-" if bs_exp < 0 else rng.choice(["+", "-"]) if bs_exp == 0 else "+"))
    f["ephemeris"] = rng.choice(["0", "0", "0", " ", "2", "4"])
    f["elnum"] = rng.choice(["%4d" % rng.randrange(0, 10000), "%04d" % rng.randrange(0, 10000), " 999", "1000"])

    # line 2
    if regime == "any":
        incl = rng.choice([rng.uniform(0, 180), 0.0, 180.0, rng.uniform(0, 0.01), rng.uniform(179.99, 180), 63.4349, rng.uniform(90, 180)])
        ecc = rng.choice([rng.random() * 0.9999999, 0.0, rng.random() * 1e-4, 10 ** rng.uniform(-7, 0) * 0.9999999])
        mm = rng.choice([rng.uniform(0.0, 18.5), rng.uniform(6.3, 6.5), rng.uniform(11, 17), rng.uniform(0.9, 2.1)])
    else:
        incl = rng.choice([rng.uniform(0.01, 179.99), rng.uniform(0.0001, 0.01), rng.uniform(179.99, 179.9999), 63.4349, 98.7, 51.6, rng.uniform(90, 179)])
        if regime == "leo":
            ecc = rng.choice([rng.random() * 0.02, rng.random() * 1e-4, 1e-7])
            mm = rng.uniform(11.3, 15.8)
        else:
            ecc = rng.choice([10 ** rng.uniform(-7, -0.07), rng.random() * 0.3, rng.random() * 1e-4, rng.random() * 0.02])
            mm = rng.uniform(6.45, 16.3)
            # perigee >= ~230 km: a(1-e) >= 6608 km
            for _ in range(200):
                a = (398600.8 / (mm * 2 * math.pi / 86400.0) ** 2) ** (1.0 / 3)
                if a * (1 - ecc) > 6378.135 + 235:
                    break
                if rng.random() < 0.5:
                    ecc *= 0.7
                else:
                    mm = rng.uniform(6.45, mm)
    f["incl"] = "%8.4f" % min(incl, 180.0)
    f["raan"] = "%8.4f" % rng.choice([rng.uniform(0, 359.9999), 0.0, rng.uniform(100, 359.9999)])
    e7 = min(int(ecc * 1e7), 9999999)
    f["ecc"] = "%07d" % e7
    f["argp"] = "%8.4f" % rng.uniform(0, 359.9999)
    f["manom"] = "%8.4f" % rng.uniform(0, 359.9999)
    f["mmotion"] = "%11.8f" % mm
    f["rev"] = rng.choice(["%5d" % rng.randrange(0, 100000), "%05d" % rng.randrange(0, 100000), "99999", "    0"])
    if overrides:
        f.update(overrides)
    return f


# ---------------------------------------------------------------- full-range printed fields (added for C02)
def _padnum(rng, value, width):
    """Right-justified unsigned integer column: zero- or blank-padded."""
    return ("%0*d" if rng.random() < 0.5 else "%*d") % (width, value)


def _biased_int(rng, hi, specials):
    r = rng.random()
    if r < 0.35:
        return rng.choice(specials)
    if r < 0.5:
        return rng.randrange(0, min(hi, 10) + 1)
    return rng.randrange(0, hi + 1)


def _frac(rng, n):
    r = rng.random()
    if r < 0.1:
        return "0" * n
    if r < 0.2:
        return "9" * n
    if r < 0.25:
        return "0" * (n - 1) + "1"
    if r < 0.3:
        return "5" + "0" * (n - 1)
    return _digits(rng, n)


def full_range_fields(rng, statement_years=False):
    """Printed TLE fields over the FULL printable range of every column (not restricted to physically
    sensible orbits): 3-digit angles, 5-digit revolution numbers, every sign/exponent combination,
    leading blanks or zeros, day 366, blank ephemeris type.  Same keys as random_fields().

    statement_years: epoch years 00-56 and 69-99 only (the range the C02 statement fixes the century for).
    """
    f = {}
    f["satnum"] = _padnum(rng, _biased_int(rng, 99999, [0, 1, 5, 25544, 99999, 10000]), 5)
    f["classification"] = rng.choice("UUCS")
    if rng.random() < 0.1:
        f["launch_year"], f["launch_number"], f["launch_piece"] = "  ", "   ", "   "
    else:
        f["launch_year"] = "%02d" % rng.randrange(0, 100)
        f["launch_number"] = "%03d" % rng.randrange(0, 1000)
        f["launch_piece"] = rng.choice(["A  ", "B  ", "AB ", "ABC", "ZZ ", "AAA", "Q  "])
    years = list(range(0, 57)) + list(range(69, 100))
    if not statement_years:
        years = years + list(range(57, 69))
    yy = rng.choice(years + [0, 56, 69, 99, 20, 24, 0, 56, 69, 99])
    f["epoch_year"] = "%02d" % yy
    day = _biased_int(rng, 366, [1, 365, 366, 1, 59, 60, 61, 100, 99, 10, 9, 366])
    day = max(day, 1)
    f["epoch_day"] = _padnum(rng, day, 3) + "." + _frac(rng, 8)
    f["ndot"] = rng.choice([" ", " ", "+", "-"]) + "." + rng.choice([_frac(rng, 8), "0000" + _digits(rng, 4), "00000000"])
    for key in ("nddot", "bstar"):
        mant = rng.choice([_digits(rng, 5), "00000", "10000", "99999", "0000" + rng.choice("0123456789")])
        f[key] = rng.choice([" ", " ", "+", "-"]) + mant + rng.choice(["-", "-", "+"]) + rng.choice("0123456789")
    f["ephemeris"] = rng.choice(["0", "0", " ", " ", "1", "2", "3", "4", "9"])
    f["elnum"] = _padnum(rng, _biased_int(rng, 9999, [0, 1, 9, 10, 999, 1000, 9999]), 4)
    for key in ("incl", "raan", "argp", "manom"):
        hi = 180 if key == "incl" else 359
        ip = _biased_int(rng, hi, [0, 1, 9, 10, 99, 100, 179, 180, 359]) if rng.random() < 0.85 else rng.randrange(0, 1000)
        f[key] = _padnum(rng, ip, 3) + "." + _frac(rng, 4)
    f["ecc"] = rng.choice([_digits(rng, 7), "0000000", "9999999", "000" + _digits(rng, 4), "0000001", "1000000"])
    f["mmotion"] = _padnum(rng, _biased_int(rng, 99, [0, 1, 2, 9, 10, 14, 15, 16, 17, 99]), 2) + "." + _frac(rng, 8)
    f["rev"] = _padnum(rng, _biased_int(rng, 99999, [0, 1, 9, 10, 9999, 10000, 99999]), 5)
    return f


# ---------------------------------------------------------------- element sets hugging a threshold of the model
def brouwer(mm_revday, ecc, incl_deg):
    """Spacetrack-Report-#3 recovery of the Brouwer mean motion / semi-major axis from the printed (Kozai) mean motion:
    returns (perigee height km, period min).  Own transcription (WGS-72 constants), independent of pyorbital."""
    ck2, xke, xkmper = 5.413080e-4, 0.743669161e-1, 6378.135
    xno = mm_revday * 2 * math.pi / 1440.0
    a1 = (xke / xno) ** (2.0 / 3.0)
    cosio = math.cos(math.radians(incl_deg))
    x3thm1 = 3 * cosio * cosio - 1
    betao2 = 1 - ecc * ecc
    betao = math.sqrt(betao2)
    del1 = 1.5 * ck2 * x3thm1 / (a1 * a1 * betao * betao2)
    ao = a1 * (1 - del1 * (1.0 / 3.0 + del1 * (1 + 134.0 / 81.0 * del1)))
    delo = 1.5 * ck2 * x3thm1 / (ao * ao * betao * betao2)
    xnodp = xno / (1 + delo)
    aodp = ao / (1 - delo)
    return (aodp * (1 - ecc) - 1) * xkmper, 2 * math.pi / xnodp


def threshold_fields(rng, kind=None):
    """Overrides (incl, ecc, mmotion) for a near-earth set whose model perigee (220 / 156 / 98 km) or period (225 min) lies
    within a log-uniformly distributed distance of the threshold, on either side: the printed mean motion is located by
    bisection on `brouwer` and then moved by 1e-8 ... 0.1 rev/day (millimetres to tens of kilometres; 1e-7 ... 3 min)."""
    kind = kind or rng.choice(["perigee220", "perigee220", "period225", "period225", "perigee156", "perigee98"])
    incl = rng.choice([rng.uniform(1, 179), 98.0, 90.0, 10.0, 63.4349, 170.0, 51.6])
    if kind == "period225":
        ecc = rng.choice([rng.uniform(0.0, 0.6), 0.1, 0.0001, 0.3])
        lo, hi, target, idx = 6.0, 6.8, 225.0, 1
    else:
        ecc = rng.choice([rng.uniform(0.0, 0.25), 0.15, 0.01, 0.001, 0.05])
        lo, hi, target, idx = 8.0, 17.5, {"perigee220": 220.0, "perigee156": 156.0, "perigee98": 98.0}[kind], 0
    e7 = min(int(ecc * 1e7), 9999999)
    ecc = e7 / 1e7
    f = lambda mm: brouwer(mm, ecc, incl)[idx] - target      # decreasing in mm for both quantities
    if not (f(lo) > 0 > f(hi)):
        return threshold_fields(rng, kind)
    for _ in range(80):
        mid = 0.5 * (lo + hi)
        if f(mid) > 0:
            lo = mid
        else:
            hi = mid
    # millimetres ... tens of kilometres (1e-8 ... 0.1 rev/day) / 1e-7 ... 3 min: bands of any plausible width around a limit
    mm = 0.5 * (lo + hi) + rng.choice([-1, 1]) * 10 ** rng.uniform(-8, -1)
    return {"incl": "%8.4f" % incl, "ecc": "%07d" % e7, "mmotion": "%11.8f" % mm}, kind


def twin_of(rng, l1, l2, regime="near"):
    """A DIFFERENT element set for the same catalogue number and epoch as (l1, l2) (a re-issued / corrected set): anything
    keyed on (satellite number, epoch) must not confuse the two."""
    f = random_fields(rng, regime)
    f["satnum"] = l1[2:7]
    f["epoch_year"] = l1[18:20]
    f["epoch_day"] = l1[20:32]
    return encode(f)


def with_twins(rng, cases, every=6, regime="near"):
    """Insert after every `every`-th (l1, l2) a twin of it."""
    out = []
    for i, (a, b) in enumerate(cases):
        out.append((a, b))
        if i % every == every - 1:
            try:
                out.append(twin_of(rng, a, b, regime))
            except Exception:  # noqa
                pass
    return out


def random_tle(rng, regime="any", overrides=None):
    f = random_fields(rng, regime, overrides)
    l1, l2 = encode(f)
    return f, l1, l2


# Checksum-valid element sets found in pyorbital's own tests and SGP4-VER.TLE (static data, embedded here)
REAL_TLES = [
    ('28654', '1 28654U 05018A   23045.48509621  .00000446  00000+0  26330-3 0  9998', '2 28654  98.9223 120.4228 0014233  11.3574 348.7916 14.12862494914152'),
    ('43013', '1 43013U 17073A   23045.54907786  .00000253  00000+0  14081-3 0  9995', '2 43013  98.7419 345.5839 0001610  80.3742 279.7616 14.19558274271576'),
    ('54234', '1 54234U 22150A   23045.56664999  .00000332  00000+0  17829-3 0  9993', '2 54234  98.7059 345.5113 0001226  81.6523 278.4792 14.19543871 13653'),
    ('25544', '1 25544U 98067A   08264.51782528 -.00002182  00000-0 -11606-4 0  2927', '2 25544  51.6416 247.4627 0006703 130.5360 325.0288 15.72125391563537'),
    ('33591', '1 33591U 09005A   21355.91138073  .00000074  00000+0  65091-4 0  9998', '2 33591  99.1688  21.1338 0013414 329.8936  30.1462 14.12516400663123'),
    ('00005', '1 00005U 58002B   00179.78495062  .00000023  00000-0  28098-4 0  4753', '2 00005  34.2682 348.7242 1859667 331.7664  19.3264 10.82419157413667'),
    ('04632', '1 04632U 70093B   04031.91070959 -.00000084  00000-0  10000-3 0  9955', '2 04632  11.4628 273.1101 1450506 207.6000 143.9350  1.20231981 44145'),
    ('06251', '1 06251U 62025E   06176.82412014  .00008885  00000-0  12808-3 0  3985', '2 06251  58.0579  54.0425 0030035 139.1568 221.1854 15.56387291  6774'),
    ('08195', '1 08195U 75081A   06176.33215444  .00000099  00000-0  11873-3 0   813', '2 08195  64.1586 279.0717 6877146 264.7651  20.2257  2.00491383225656'),
    ('09880', '1 09880U 77021A   06176.56157475  .00000421  00000-0  10000-3 0  9814', '2 09880  64.5968 349.3786 7069051 270.0229  16.3320  2.00813614112380'),
    ('09998', '1 09998U 74033F   05148.79417928 -.00000112  00000-0  00000+0 0  4480', '2 09998   9.4958 313.1750 0270971 327.5225  30.8097  1.16186785 45878'),
    ('11801', '1 11801U          80230.29629788  .01431103  00000-0  14311-1      13', '2 11801  46.7916 230.4354 7318036  47.4722  10.4117  2.28537848    13'),
    ('14128', '1 14128U 83058A   06176.02844893 -.00000158  00000-0  10000-3 0  9627', '2 14128  11.4384  35.2134 0011562  26.4582 333.5652  0.98870114 46093'),
    ('16925', '1 16925U 86065D   06151.67415771  .02550794 -30915-6  18784-3 0  4486', '2 16925  62.0906 295.0239 5596327 245.1593  47.9690  4.88511875148616'),
    ('20413', '1 20413U 83020D   05363.79166667  .00000000  00000-0  00000+0 0  7041', '2 20413  12.3514 187.4253 7864447 196.3027 356.5478  0.24690082  7978'),
    ('21897', '1 21897U 92011A   06176.02341244 -.00001273  00000-0 -13525-3 0  3044', '2 21897  62.1749 198.0096 7421690 253.0462  20.1561  2.01269994104880'),
    ('22312', '1 22312U 93002D   06094.46235912  .99999999  81888-5  49949-3 0  3953', '2 22312  62.1486  77.4698 0308723 267.9229  88.7392 15.95744531 98783'),
    ('22674', '1 22674U 93035D   06176.55909107  .00002121  00000-0  29868-3 0  6569', '2 22674  63.5035 354.4452 7541712 253.3264  18.7754  1.96679808 93877'),
    ('23177', '1 23177U 94040C   06175.45752052  .00000386  00000-0  76590-3 0    95', '2 23177   7.0496 179.8238 7258491 296.0482   8.3061  2.25906668 97438'),
    ('23333', '1 23333U 94071A   94305.49999999 -.00172956  26967-3  10000-3 0    15', '2 23333  28.7490   2.3720 9728298  30.4360   1.3500  0.07309491    70'),
    ('23599', '1 23599U 95029B   06171.76535463  .00085586  12891-6  12956-2 0  2905', '2 23599   6.9327   0.2849 5782022 274.4436  25.2425  4.47796565123555'),
    ('24208', '1 24208U 96044A   06177.04061740 -.00000094  00000-0  10000-3 0  1600', '2 24208   3.8536  80.0121 0026640 311.0977  48.3000  1.00778054 36119'),
    ('25954', '1 25954U 99060A   04039.68057285 -.00000108  00000-0  00000-0 0  6847', '2 25954   0.0004 243.8136 0001765  15.5294  22.7134  1.00271289 15615'),
    ('26900', '1 26900U 01039A   06106.74503247  .00000045  00000-0  10000-3 0  8290', '2 26900   0.0164 266.5378 0003319  86.1794 182.2590  1.00273847 16981'),
    ('26975', '1 26975U 78066F   06174.85818871  .00000620  00000-0  10000-3 0  6809', '2 26975  68.4714 236.1303 5602877 123.7484 302.5767  2.05657553 67521'),
    ('28057', '1 28057U 03049A   06177.78615833  .00000060  00000-0  35940-4 0  1836', '2 28057  98.4283 247.6961 0000884  88.1964 271.9322 14.35478080140550'),
    ('28129', '1 28129U 03058A   06175.57071136 -.00000104  00000-0  10000-3 0   459', '2 28129  54.7298 324.8098 0048506 266.2640  93.1663  2.00562768 18443'),
    ('28350', '1 28350U 04020A   06167.21788666  .16154492  76267-5  18678-3 0  8894', '2 28350  64.9977 345.6130 0024870 260.7578  99.9590 16.47856722116490'),
    ('28623', '1 28623U 05006B   06177.81079184  .00637644  69054-6  96390-3 0  6000', '2 28623  28.5200 114.9834 6249053 170.2550 212.8965  3.79477162 12753'),
    ('28626', '1 28626U 05008A   06176.46683397 -.00000205  00000-0  10000-3 0  2190', '2 28626   0.0019 286.9433 0000335  13.7918  55.6504  1.00270176  4891'),
    ('28872', '1 28872U 05037B   05333.02012661  .25992681  00000-0  24476-3 0  1534', '2 28872  96.4736 157.9986 0303955 244.0492 110.6523 16.46015938 10708'),
    ('29141', '1 29141U 85108AA  06170.26783845  .99999999  00000-0  13519-0 0   718', '2 29141  82.4288 273.4882 0015848 277.2124  83.9133 15.93343074  6828'),
    ('29238', '1 29238U 06022G   06177.28732010  .00766286  10823-4  13334-2 0   101', '2 29238  51.5595 213.7903 0202579  95.2503 267.9010 15.73823839  1061'),
    ('88888', '1 88888U          80275.98708465  .00073094  13844-3  66816-4 0    87', '2 88888  72.8435 115.9689 0086731  52.6988 110.5714 16.05824518  1058'),
    ('28654', '1 28654U 05018A   11284.35271227  .00000478  00000-0  28778-3 0  9246', '2 28654  99.0096 235.8581 0014859 135.4286 224.8087 14.11526826329313'),
]


def fix_checksum(line):
    return line[:68] + str(checksum(line[:68]))
