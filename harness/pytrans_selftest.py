"""Self-test of the T-D Python prelude (lean/PV/Py/Prelude.lean): evaluates the prelude's functions in Lean on generated
inputs (ASCII, Unicode whitespace / digits / case-mapped characters, edge cases of slices and indices) and compares every
result with CPython's.  Not part of ./check; run by hand:   python harness/pytrans_selftest.py [seed]
Exit status 0 = all agree."""
import os
import random
import subprocess
import sys
import tempfile

HERE = os.path.dirname(os.path.abspath(__file__))
LEAN = os.environ.get("PV_LEAN_DIR") or os.path.join(os.path.dirname(HERE), "lean")


def lean_str(s):
    return "([" + ", ".join("Char.ofNat %d" % ord(c) for c in s) + "] : List Char)"


def lean_int(i):
    return "(%d : Int)" % i


def lean_opt_int(i):
    return "none" if i is None else "(some (%d : Int))" % i


def gen_strings(rng, n):
    ws = [9, 10, 11, 12, 13, 28, 29, 30, 31, 32, 0x85, 0xa0, 0x1680, 0x2000, 0x2028, 0x3000]
    digs = [0x30, 0x39, 0x663, 0x6f5, 0xb2, 0xb9, 0x2460, 0xff15, 0x1d7d8]
    cased = [0x61, 0x7a, 0xdf, 0xe9, 0x131, 0x149, 0x1c6, 0x3b1, 0x3c2, 0x10d0, 0xfb01, 0x1f80]
    other = [0x2d, 0x2b, 0x5f, 0x2e, 0x41, 0x23, 0x31, 0x20, 0x4e00, 0x1f600, 0]
    pools = [ws, digs, cased, other, list(range(32, 127))]
    out = ["", " ", "\n", "a", "1 25544U", "  x  y  ", "\t1_0 ", "+5", "-", "1__0", "_1", "1_", "٣٤", "²"]
    for _ in range(n):
        k = rng.choice([0, 1, 2, 3, 5, 8, 13])
        out.append("".join(chr(rng.choice(rng.choice(pools))) for _ in range(k)))
    return out


def py_exc(f):
    try:
        return ("ok", f())
    except Exception as e:  # noqa
        return ("error", type(e).__name__)


def main():
    seed = int(sys.argv[1]) if len(sys.argv) > 1 else 0
    rng = random.Random(seed)
    strs = gen_strings(rng, 250)
    cases = []   # (lean expression producing a String, expected string)

    def show_str(s):
        return ",".join(str(ord(c)) for c in s)

    def show_list(l):
        return "|".join(show_str(x) for x in l) + "#%d" % len(l)

    S = "fun (s : List Char) => \",\".intercalate (s.map fun c => toString c.toNat)"
    L = "fun (l : List (List Char)) => \"|\".intercalate (l.map (%s)) ++ \"#\" ++ toString l.length" % S
    for s in strs:
        ls = lean_str(s)
        cases.append(("(%s) (PV.Py.strip %s)" % (S, ls), show_str(s.strip())))
        cases.append(("(%s) (PV.Py.upper %s)" % (S, ls), show_str(s.upper())))
        cases.append(("(%s) (PV.Py.splitWs %s)" % (L, ls), show_list(s.split())))
        cases.append(("(%s) (PV.Py.splitChar '\\n' %s)" % (L, ls), show_list(s.split("\n"))))
        cases.append(("toString (PV.Py.isdigit %s)" % ls, "true" if s.isdigit() else "false"))
        r = py_exc(lambda: int(s))
        cases.append(("(match PV.Py.int %s with | .ok v => \"ok \" ++ toString v | .error e => \"error \" ++ reprStr e)" % ls,
                      "ok %d" % r[1] if r[0] == "ok" else "error PV.Py.Exc." + r[1]))
        a, b = rng.choice(strs[:40]), rng.choice(strs)
        cases.append(("toString (PV.Py.startswith %s %s)" % (lean_str(b), lean_str(a)), "true" if b.startswith(a) else "false"))
        cases.append(("toString (PV.Py.contains %s %s)" % (lean_str(a), lean_str(b)), "true" if a in b else "false"))
        lo = rng.choice([None, 0, 1, 2, 5, -1, -2, -7, 100, -100])
        hi = rng.choice([None, 0, 1, 3, 8, -1, -2, -7, 100, -100])
        cases.append(("(%s) (PV.Py.slice %s %s %s)" % (S, ls, lean_opt_int(lo), lean_opt_int(hi)), show_str(s[lo:hi])))
        i = rng.choice([0, 1, 2, 7, -1, -2, -9, 62])
        r = py_exc(lambda: s[i])
        cases.append(("(match PV.Py.index %s %s with | .ok c => \"ok \" ++ toString c.toNat | .error e => \"error \" ++ reprStr e)" % (ls, lean_int(i)),
                      "ok %d" % ord(r[1]) if r[0] == "ok" else "error PV.Py.Exc." + r[1]))
    for _ in range(60):
        parts = [rng.choice(strs) for _ in range(rng.choice([0, 1, 2, 3]))]
        sep = rng.choice([" ", ", ", "", "\n"])
        cases.append(("(%s) (PV.Py.join %s ([%s] : List (List Char)))" % (S, lean_str(sep), ", ".join(lean_str(p) for p in parts)), show_str(sep.join(parts))))
        a, b = rng.randint(-50, 50), rng.choice([-7, -3, -1, 0, 1, 2, 10])
        for op, fn in (("mod", lambda: a % b), ("floordiv", lambda: a // b)):
            r = py_exc(fn)
            cases.append(("(match PV.Py.%s %s %s with | .ok v => \"ok \" ++ toString v | .error e => \"error \" ++ reprStr e)" % (
                op, lean_int(a), lean_int(b)), "ok %d" % r[1] if r[0] == "ok" else "error PV.Py.Exc." + r[1]))
    # many digits
    for n in (4299, 4300, 4301):
        s = "7" * n
        r = py_exc(lambda: int(s))
        cases.append(("(match PV.Py.int (List.replicate %d '7') with | .ok v => \"ok\" | .error e => \"error \" ++ reprStr e)" % n,
                      "ok" if r[0] == "ok" else "error PV.Py.Exc." + r[1]))
    # the hand model's conversions (PV.Model.Text.pyInt / pyFloat / strip) on the whitespace classes: `str.strip()` and
    # `int()` / `float()` strip DIFFERENT sets (0x1c-0x1f only the former).  `outOfModel` (non-ASCII, '_', inf/nan) is the
    # model declining to answer; every other answer must be CPython's.
    MI = ("(match PV.Text.pyInt %s with | .ok v => \"ok \" ++ toString v | .valueError => \"error ValueError\" "
          "| .outOfModel => \"outOfModel\")")
    MF = ("(match PV.Text.pyFloat %s with | .ok d => \"ok \" ++ toString d.mant ++ \"e\" ++ toString d.exp "
          "| .valueError => \"error ValueError\" | .outOfModel => \"outOfModel\")")
    model_cases = []
    wsc = [0x09, 0x0a, 0x0b, 0x0c, 0x0d, 0x1c, 0x1d, 0x1e, 0x1f, 0x20, 0x85, 0xa0, 0x1680, 0x2000, 0x2028, 0x2029, 0x3000, 0x00, 0x08, 0x7f]
    for c in wsc:
        for body in ("5", "-12", "+007", "2.5", "-.5e-3", "1e2", ""):
            for t in (chr(c) + body, body + chr(c), chr(c) + body + chr(c), " " + chr(c) + body, body[:1] + chr(c) + body[1:]):
                r = py_exc(lambda: int(t))
                want_i = "ok %d" % r[1] if r[0] == "ok" else "error ValueError"
                model_cases.append((MI % lean_str(t), want_i, t))
                r = py_exc(lambda: float(t))
                want_f = "ok" if r[0] == "ok" else "error ValueError"      # an `ok` value is compared below
                model_cases.append((MF % lean_str(t), want_f, t))
                model_cases.append(("(%s) (PV.Text.strip %s)" % (S, lean_str(t)), show_str(t.strip()) if ord(max(t or " ")) < 128 else None, t))
    n_own = len(cases)
    for e, w, _ in model_cases:
        cases.append((e, w))
    src = ["import PV.Py.Prelude", "import PV.Model.Text", "set_option maxRecDepth 4000", "set_option linter.unusedVariables false"]
    nchunk = 0
    for k in range(0, len(cases), 10):
        src.append("def chunk%d : IO Unit := do" % nchunk)
        for e, _ in cases[k:k + 10]:
            src.append("  IO.println (%s)" % e)
        nchunk += 1
    src.append("def main : IO Unit := do")
    for k in range(nchunk):
        src.append("  chunk%d" % k)
    with tempfile.NamedTemporaryFile("w", suffix=".lean", dir=LEAN, delete=False) as f:
        f.write("\n".join(src) + "\n")
        path = f.name
    try:
        p = subprocess.run(["lake", "env", "lean", "--run", path], cwd=LEAN, stdout=subprocess.PIPE, stderr=subprocess.PIPE, timeout=1200)
    finally:
        os.unlink(path)
    if p.returncode != 0:
        errs = [l for l in (p.stderr.decode() + p.stdout.decode()).split("\n") if "error" in l]
        print("lean failed:", "\n".join(errs[:10]))
        return 2
    got = p.stdout.decode().split("\n")
    bad = 0
    skipped = 0
    for k, ((e, want), g) in enumerate(zip(cases, got)):
        if k >= n_own:
            if want is None or g == "outOfModel":
                skipped += 1
                continue
            if want == "ok" and g.startswith("ok "):
                # exact decimal mant * 10^exp against CPython's float of the same text
                m, x = g[3:].split("e", 1)
                import fractions
                val = fractions.Fraction(int(m)) * fractions.Fraction(10) ** int(x)
                if float(val) == float(model_cases[k - n_own][2]):
                    continue
        if g != want:
            bad += 1
            if bad <= 15:
                print("DISAGREE\n  lean: %s\n  -> %r\n  python: %r" % (e[:300], g, want))
    print("%d cases (%d of them on the model's pyInt/pyFloat/strip, %d declined as outOfModel / non-ASCII), %d disagreements" % (
        len(cases), len(cases) - n_own, skipped, bad))
    return 1 if bad else 0


if __name__ == "__main__":
    sys.exit(main())
