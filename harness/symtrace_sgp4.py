"""T-C for the SGP4 core: regenerate lean/PV/Generated/KernelsSgp4.lean by tracing the real pyorbital code.

Extends harness/symtrace.py (same symbolic scalars, expression DAG, literal policy, path enumeration) to the object
code of `OrbitElements.__init__`, `_SGDP4Base.__init__`, `_SGDP4.propagate` / `_Keplerians.calculate`,
`_Keplerians._iterate_newton_raphson` and `Orbital.get_position`.  These bodies are too large to be compared with the
model as one flat expression, so they are traced with CUT POINTS:

  * every store of a number into an attribute of the traced object (`self.eta = ...`) records a *stage*
    `(attribute, k-th store on this path) := expression` and the stored value is replaced by a fresh symbol named after
    the attribute (`eta`; `xmp_1`, `xmp_2` when the attribute is stored more than once);
  * every helper method of the traced class is wrapped: numeric arguments are cut into symbols named after the callee's
    parameter (`coef`, `eeta`, `tsi`, `theta2`), return values into `<method>_r`, `<method>_r0`, ... (dict values:
    `<method>_<key>`);
  * `self.mode` is a symbolic small integer (`Nat` in Lean), `mode == SGDP4_NEAR_NORM` is a decision.

All paths are enumerated (decision schedule, as in symtrace.py).  For every stage the tree of its values over the
decisions of the path is collapsed (a decision both of whose sides give the identical expression disappears; paths
that do not reach the store are wildcards), which leaves one small definition per stage: a function of the *named*
symbols it reads.  PV/Equiv/Sgp4*.lean applies these definitions with named arguments, so the wiring (which stage
feeds which) is part of what is proved: reading `self.c2` where the source read `self.c1`, or `orbit_elements.perigee`
instead of `self.perigee`, changes a parameter name and the theorem no longer elaborates.  The outcome of a call
(normal return or the exception raised) is emitted as a String-valued decision tree over the same conditions.

The Kepler iteration is traced pass by pass: pass `i` (a concrete `i`, by replacing `range` inside orbital.py) from a
symbolic iterate `epw` and the fixed `capu`, followed by the next pass so that the updated iterate is observable in
`sin(epw')`, `cos(epw')`.  The generator checks that the passes 1..8 give the identical kernels (`nr_later_*`) and the
last pass (9) the identical stores and exit test, and emits the first pass separately (`nr_first_*`).
"""
import inspect
import os
import re
import sys
import types

HERE = os.path.dirname(os.path.abspath(__file__))
if HERE not in sys.path:
    sys.path.insert(0, HERE)
import symtrace as st  # noqa: E402
from symtrace import Expr, Sym, SymBool, E, TraceError, Path, CUR, LoopBound  # noqa: E402

REPO = st.REPO
LEAN_GEN = st.LEAN_GEN
OUT_NAME = "KernelsSgp4.lean"


# ------------------------------------------------------------------ additive extensions of the symbolic scalar
FLOATED = [0]


def _sym_float(self):
    # `"%e" % x` while an exception message is built: allowed only on a path that then raises (checked per path)
    FLOATED[0] += 1
    return float("nan")


def _install_sym_extensions():
    Sym.__float__ = _sym_float
    Sym.__getitem__ = lambda self, k: self          # `e[e < LIMIT]` inside an error message
    Sym.__str__ = lambda self: "<sym>"
    base_ufunc = Sym.__array_ufunc__

    def array_ufunc(self, ufunc, method, *inputs, **kwargs):
        # in-place `pos /= XKMPER` on an object array: out=(pos,)
        import numpy as np
        out = kwargs.get("out")
        if method == "__call__" and out is not None and len(out) == 1 and isinstance(out[0], np.ndarray) \
                and out[0].dtype == object and set(kwargs) <= {"out"}:
            r = st._elementwise(ufunc, inputs)
            out[0][...] = r
            return out[0]
        return base_ufunc(self, ufunc, method, *inputs, **kwargs)
    if not getattr(Sym, "_sgp4_ext", False):
        Sym.__array_ufunc__ = array_ufunc
        Sym._sgp4_ext = True


class ModeConst:
    """SGDP4_ZERO_ECC .. SGDP4_NEAR_NORM while tracing."""

    def __init__(self, value, name):
        self.value = int(value)
        self.name = name

    def __eq__(self, o):
        if isinstance(o, ModeConst):
            return self.value == o.value
        if isinstance(o, SymMode):
            return o.__eq__(self)
        return NotImplemented

    def __ne__(self, o):
        r = self.__eq__(o)
        return r if r is NotImplemented else (~r if isinstance(r, SymBool) else not r)

    def __hash__(self):
        return hash(self.value)


class SymMode:
    """The symbolic value of `self.mode`."""

    def __init__(self, e):
        self.e = e

    def __eq__(self, o):
        if isinstance(o, ModeConst):
            return SymBool(Expr("modeeq", self.e, o.value))
        if o is None:
            return False
        raise TraceError("mode compared with %r" % (o,))

    def __ne__(self, o):
        r = self.__eq__(o)
        return ~r if isinstance(r, SymBool) else not r

    __hash__ = None


def _is_num(v):
    import numpy as np
    if isinstance(v, bool) or isinstance(v, np.bool_):
        return False
    if isinstance(v, (Sym, int, float, np.floating, np.integer)):
        return True
    return isinstance(v, np.ndarray) and v.shape == () and v.dtype != object


# ------------------------------------------------------------------ recording one path
class Rec:
    def __init__(self):
        self.events = []      # (key, Expr)   in program order
        self.count = {}
        self.memo = {}        # Expr id -> Sym   (argument / return cuts of the same expression share one symbol)
        self.snap = {}        # snapshots taken by stubs

    def fresh(self, kind, label, expr, mode=False):
        k = self.count.get((kind, label), 0) + 1
        self.count[(kind, label)] = k
        key = "%s:%s#%d" % (kind, label, k)
        self.events.append((key, expr))
        return SymMode(Expr("mvar", key)) if mode else Sym(Expr("var", key))

    def store(self, name, value):
        """`self.<name> = value` on a traced object."""
        if isinstance(value, ModeConst):
            return self.fresh("a", name, Expr("mlit", value.value), mode=True)
        if isinstance(value, SymMode):
            return self.fresh("a", name, value.e, mode=True)
        if _is_num(value):
            return self.fresh("a", name, E(value))
        return value

    def cut(self, kind, label, value):
        """cut an argument / return value"""
        if not _is_num(value):
            return value
        e = E(value)
        if kind == "o":
            return self.fresh(kind, label, e)
        if e.op == "var" and (kind == "g" or e.args[0].startswith("r:")):
            return value if isinstance(value, Sym) else Sym(e)
        if e.op not in ("lit", "var") and e.id in self.memo:
            return self.memo[e.id]
        s = self.fresh(kind, label, e)
        if e.op not in ("lit", "var"):
            self.memo[e.id] = s
        return s

    def cut_return(self, name, r, kind="r"):
        if isinstance(r, tuple):
            return tuple(self.cut(kind, "%s.%d" % (name, i), x) for i, x in enumerate(r))
        if isinstance(r, dict):
            return {k: self.cut(kind, "%s.%s" % (name, k), x) for k, x in r.items()}
        return self.cut(kind, name, r)


REC = [None]


def traced_class(cls, entry=None, replace=None):
    """A subclass of cls whose attribute stores and helper-method calls are cut points."""
    replace = replace or {}

    def __setattr__(self, name, value):
        object.__setattr__(self, name, REC[0].store(name, value) if REC[0] is not None else value)

    ns = {"__setattr__": __setattr__}

    def wrap(name, fn):
        sig = inspect.signature(fn)

        def w(self, *args, **kw):
            rec = REC[0]
            b = sig.bind(self, *args, **kw)
            b.apply_defaults()
            new = []
            for i, (p, v) in enumerate(b.arguments.items()):
                new.append(v if i == 0 else rec.cut("g", "%s.%s" % (name, p), v))
            return rec.cut_return(name, fn(*new))
        w.__name__ = name
        return w

    for name, fn in list(cls.__dict__.items()):
        if name in replace:
            ns[name] = replace[name]
        elif isinstance(fn, types.FunctionType) and name != entry and not (name.startswith("__") and name.endswith("__")):
            ns[name] = wrap(name, fn)
    return type(cls.__name__, (cls,), ns)


class SymSource:
    """An object all of whose attributes are input symbols `<prefix><attr>` (created on demand, so that a read of an
    attribute the model does not know shows up as a new parameter name)."""

    def __init__(self, prefix, fixed=None, mode_attrs=()):
        object.__setattr__(self, "_p", prefix)
        object.__setattr__(self, "_fixed", dict(fixed or {}))
        object.__setattr__(self, "_mode", set(mode_attrs))

    def __getattr__(self, name):
        if name.startswith("__"):
            raise AttributeError(name)
        if name in self._fixed:
            return self._fixed[name]
        if name in self._mode:
            return SymMode(Expr("mvar", "i:" + self._p + name))
        return Sym(Expr("var", "i:" + self._p + name.lstrip("_")))


# ------------------------------------------------------------------ path enumeration
class Leaf:
    def __init__(self, events, outcome, taken, snap):
        self.events = events
        self.ev = dict(events)
        self.outcome = outcome
        self.taken = taken
        self.snap = snap


def _label(ex):
    msg = str(ex.args[0]) if ex.args else ""
    msg = re.split(r"[%:]", msg)[0].strip()
    return ("%s:%s" % (type(ex).__name__, msg.replace('"', "'")))[:100]


def run_path(fn, schedule, max_decisions):
    p = Path(schedule, max_decisions)
    CUR[0] = p
    REC[0] = rec = Rec()
    FLOATED[0] = 0
    try:
        try:
            r = fn()
            if r is not None:
                rec.cut_return("", r, kind="o")
            outcome = "ok"
        except (TraceError, LoopBound):
            raise
        except Exception as ex:  # noqa  the code raised on this path
            outcome = _label(ex)
    finally:
        CUR[0] = None
        REC[0] = None
    if outcome == "ok" and FLOATED[0]:
        raise TraceError("float() of a symbolic value on a path that returns normally")
    return Leaf(rec.events, outcome, list(p.taken), rec.snap)


def enumerate_paths(fn, max_paths=600, max_decisions=24):
    """('leaf', Leaf) | ('if', cond, T, F) over every decision schedule of fn."""
    n = [0]

    def explore(prefix):
        n[0] += 1
        if n[0] > max_paths:
            raise TraceError("too many paths")
        leaf = run_path(fn, prefix, max_decisions)
        if len(leaf.taken) <= len(prefix):
            return ("leaf", leaf)
        cond = leaf.taken[len(prefix)][0]
        return ("if", cond, explore(prefix + [True]), explore(prefix + [False]))

    tree = explore([])
    return tree, n[0]


def leaves(tree):
    if tree[0] == "leaf":
        return [tree[1]]
    return leaves(tree[2]) + leaves(tree[3])


WILD = ("wild",)


def project(tree, f):
    """map every leaf through f (None = the path does not define the value), then collapse"""
    if tree[0] == "leaf":
        v = f(tree[1])
        return WILD if v is None else ("val", v)
    a = project(tree[2], f)
    b = project(tree[3], f)
    if a is WILD:
        return b
    if b is WILD:
        return a
    if same(a, b):
        return a
    return ("if", tree[1], a, b)


def same(a, b):
    if a[0] != b[0]:
        return False
    if a[0] == "val":
        return a[1] is b[1] if isinstance(a[1], Expr) else a[1] == b[1]
    if a[0] == "if":
        return a[1] is b[1] and same(a[2], b[2]) and same(a[3], b[3])
    return a is b


def tree_exprs(t):
    if t[0] == "val":
        return [t[1]] if isinstance(t[1], Expr) else []
    if t[0] == "if":
        return [t[1]] + tree_exprs(t[2]) + tree_exprs(t[3])
    return []


def free_vars(roots):
    seen, out, stack = set(), {}, list(roots)
    while stack:
        e = stack.pop()
        if e.id in seen:
            continue
        seen.add(e.id)
        if e.op in ("var", "mvar"):
            out[e.args[0]] = e.op
        for a in e.args:
            if isinstance(a, Expr):
                stack.append(a)
    return out


# ------------------------------------------------------------------ naming
def final_names(keys):
    """internal keys 'a:attr#k', 'g:callee.param#k', 'r:callee[.i]#k', 'i:name' -> Lean identifiers"""
    vmax = {}
    for k in keys:
        if k[0] in "agro":
            base, ver = k.rsplit("#", 1)
            vmax[base] = max(vmax.get(base, 0), int(ver))
    names = {}
    taken = {}

    def claim(key, name):
        if name in taken and taken[name] != key:
            return False
        taken[name] = key
        names[key] = name
        return True

    def ident(s):
        return re.sub(r"[^A-Za-z0-9_]", "_", s)

    for k in sorted(keys):
        if k.startswith("i:"):
            if not claim(k, ident(k[2:])):
                raise TraceError("name clash on input " + k)
    for k in sorted(keys):
        if k.startswith("a:"):
            base, ver = k.rsplit("#", 1)
            n = ident(base[2:].lstrip("_"))
            if vmax[base] > 1:
                n += "_" + ver
            if not claim(k, n):
                raise TraceError("name clash on attribute " + k)
    for k in sorted(keys):
        if k.startswith("r:"):
            base, ver = k.rsplit("#", 1)
            callee, _, idx = base[2:].partition(".")
            callee = callee.lstrip("_")
            n = callee + ("_r" if idx == "" else ("_r" + idx if idx.isdigit() else "_" + idx))
            if vmax[base] > 1:
                n += "_" + ver
            if not claim(k, ident(n)):
                raise TraceError("name clash on return value " + k)
    for k in sorted(keys):
        if k.startswith("o:"):
            base, ver = k.rsplit("#", 1)
            n = "out" + ("_" + base[3:] if base[3:] else "") + ("_" + ver if vmax[base] > 1 else "")
            if not claim(k, ident(n)):
                raise TraceError("name clash on output " + k)
    for k in sorted(keys):
        if k.startswith("g:"):
            base, ver = k.rsplit("#", 1)
            callee, _, param = base[2:].partition(".")
            n = param + ("_" + ver if vmax[base] > 1 else "")
            if not claim(k, ident(n)):
                if not claim(k, ident(callee.lstrip("_") + "_" + n)):
                    raise TraceError("name clash on argument " + k)
    for n in taken:
        if re.fullmatch(r"t\d+", n) or n in LEAN_RESERVED:
            raise TraceError("symbol name %r collides with a generated / reserved name" % n)
    return names


LEAN_RESERVED = {"at", "do", "end", "from", "fun", "if", "in", "let", "then", "else", "with", "where", "have", "show",
                 "by", "def", "open", "set", "local", "nth", "α"}


# ------------------------------------------------------------------ emission
class Em(st.Emitter):
    def __init__(self, vn):
        st.Emitter.__init__(self)
        self.vn = vn

    def term(self, e, cnt, lets, indent):
        op = e.op
        if op in ("var", "mvar"):
            return self.vn[e.args[0]]
        if op == "mlit":
            return "(%d : Nat)" % e.args[0]
        if op == "modeeq":
            return "(%s == %d)" % (self.term(e.args[0], cnt, lets, indent), e.args[1])
        return st.Emitter.term(self, e, cnt, lets, indent)


def emit_def(name, tree, vn, kind, doc):
    """kind: 'num' (α), 'mode' (Nat), 'bool' (Bool), 'str' (String)"""
    fv = free_vars(tree_exprs(tree))
    nums = sorted(vn[k] for k, op in fv.items() if op == "var")
    modes = sorted(vn[k] for k, op in fv.items() if op == "mvar")
    binders = ""
    if nums:
        binders += " (%s : α)" % " ".join(nums)
    if modes:
        binders += " (%s : Nat)" % " ".join(modes)
    ty = {"num": "α", "mode": "Nat", "bool": "Bool", "str": "String", "flag": "Bool"}[kind]
    em = Em(vn)
    cnt = em.uses(tree_exprs(tree))

    def go(t, ind):
        if t[0] == "val":
            if kind == "str":
                return '%s"%s"' % (ind, t[1])
            if kind == "flag":
                return "%s%s" % (ind, "true" if t[1] else "false")
            lets = []
            s = em.term(t[1], cnt, lets, ind)
            return "\n".join(lets + [ind + s])
        lets = []
        c = em.term(t[1], cnt, lets, ind)
        saved = dict(em.names)
        a = go(t[2], ind + "  ")
        em.names = dict(saved)
        b = go(t[3], ind + "  ")
        em.names = saved
        return "\n".join(lets + ["%sif %s then" % (ind, c), a, "%selse" % ind, b])

    body = go(tree, "  ")
    if kind == "num" and not nums and not modes:
        head = "def %s : α :=" % name
    else:
        head = "def %s%s : %s :=" % (name, binders, ty)
    return ["/-- %s -/" % doc.replace("-/", "- /"), head, body, ""], nums, modes


def emit_entry(prefix, title, tree, out, index, extra_keys=()):
    """all stages + the outcome of one traced entry point"""
    ls = leaves(tree)
    keys = set(extra_keys)
    order = []
    for lf in ls:
        for k, e in lf.events:
            if k not in keys:
                keys.add(k)
            if k not in order:
                order.append(k)
            keys.update(free_vars([e]))
        for c, _ in lf.taken:
            keys.update(free_vars([c]))
    vn = final_names(keys)
    out.append("/-! ### %s  (%d paths) -/" % (title, len(ls)))
    out.append("")
    for k in order:
        t = project(tree, lambda lf, k=k: lf.ev.get(k))
        kind = "mode" if _is_mode_tree(t) else "num"
        lines, nums, modes = emit_def("%s_%s" % (prefix, vn[k]), t, vn, kind, "%s: stage `%s`" % (title, k))
        out.extend(lines)
        index.append(("%s_%s" % (prefix, vn[k]), nums, modes))
        # is the store reached on every path that returns normally?  if not: under which decisions
        t = project(tree, lambda lf, k=k: (1 if k in lf.ev else (0 if lf.outcome == "ok" else None)))
        if t is WILD:
            raise TraceError("stage %s is stored on no path" % k)
        if t != ("val", 1):
            lines, nums, modes = emit_def("%s_%s_stored" % (prefix, vn[k]), t, vn, "flag",
                                          "%s: is `%s` stored (on the paths that return normally)" % (title, k))
            out.extend(lines)
            index.append(("%s_%s_stored" % (prefix, vn[k]), nums, modes))
    t = project(tree, lambda lf: lf.outcome)
    lines, nums, modes = emit_def("%s_outcome" % prefix, t, vn, "str", "%s: normal return or the exception raised" % title)
    out.extend(lines)
    index.append(("%s_outcome" % prefix, nums, modes))
    return vn


def _is_mode_tree(t):
    if t[0] == "val":
        return t[1].op in ("mlit", "mvar")
    if t[0] == "if":
        return _is_mode_tree(t[2]) and _is_mode_tree(t[3])
    return False


# ------------------------------------------------------------------ the traced entry points
class NpProxy:
    """`np` as seen by orbital.py during the Newton traces: fmod / array are cut points"""

    def __init__(self, np, over):
        self.__dict__["_np"] = np
        self.__dict__["_over"] = over

    def __getattr__(self, name):
        if name in self._over:
            return self._over[name]
        return getattr(self._np, name)


class Patch:
    MISSING = object()

    def __init__(self):
        self.saved = []

    def set(self, obj, name, val):
        self.saved.append((obj, name, obj.__dict__.get(name, Patch.MISSING) if isinstance(obj, types.ModuleType)
                           else getattr(obj, name, Patch.MISSING)))
        setattr(obj, name, val)

    def restore(self):
        for obj, name, val in reversed(self.saved):
            if val is Patch.MISSING:
                delattr(obj, name)
            else:
                setattr(obj, name, val)
        self.saved = []


def generate():
    """Returns the text of PV/Generated/KernelsSgp4.lean."""
    import datetime
    np, astronomy, orbital, geoloc = st._setup()
    _install_sym_extensions()
    Expr.reset()
    st.FOLDED.clear()
    names = {n: st.const_lean("orbital", n) for n in st.CONST_NAMES["orbital"]}
    st.collect_folded(os.path.join(REPO, "pyorbital", "orbital.py"), names)
    out = ["/- GENERATED by harness/symtrace_sgp4.py by tracing the current source of /repo/pyorbital/orbital.py (SGP4 core) on",
           "   symbolic scalars, cut at attribute stores and helper-method boundaries — do not edit. -/",
           "import PV.Num", "import PV.Generated.Consts", "set_option linter.unusedVariables false", "namespace PV.Gen.KS",
           "variable {α : Type} [Num α]", "open PV", ""]
    index = []
    P = Patch()
    T = np.datetime64(datetime.datetime(2020, 1, 1))
    try:
        P.set(np, "pi", Sym(Expr("pi")))
        for n in st.CONST_NAMES["orbital"]:
            if hasattr(orbital, n) and isinstance(getattr(orbital, n), (int, float)):
                P.set(orbital, n, Sym.const(st.const_lean("orbital", n)))
        for n in ("SGDP4_ZERO_ECC", "SGDP4_DEEP_NORM", "SGDP4_NEAR_SIMP", "SGDP4_NEAR_NORM"):
            v = getattr(orbital, n)
            if not isinstance(v, int) or isinstance(v, bool):
                raise TraceError("%s is not an int" % n)
            P.set(orbital, n, ModeConst(v, n))
            out.append("def %s : Nat := %d" % (n, v))
        out.append("")

        # ---- OrbitElements.__init__
        P.set(astronomy, "gmst", lambda t: Sym(Expr("var", "i:gmst_epoch")))
        TOE = traced_class(orbital.OrbitElements, entry="__init__")
        tle = SymSource("tle_", fixed={"epoch": T})

        def run_oe():
            o = TOE.__new__(TOE)
            orbital.OrbitElements.__init__(o, tle)
        tree, n = enumerate_paths(run_oe)
        emit_entry("oe", "OrbitElements.__init__", tree, out, index)

        # ---- _SGDP4Base.__init__ (with _check_orbital_elements inline)
        TB = traced_class(orbital._SGDP4Base, entry="__init__")
        oe = SymSource("oe_", fixed={"epoch": T})

        def run_init():
            o = TB.__new__(TB)
            orbital._SGDP4Base.__init__(o, oe)
        tree, n = enumerate_paths(run_init)
        emit_entry("init", "_SGDP4Base.__init__", tree, out, index)

        # ---- _SGDP4.propagate -> _Keplerians.calculate (the Kepler iteration is a cut point, traced below)
        def stub_time(self):
            self._ts = Sym(Expr("var", "i:tsince"))

        def stub_newton(self):
            REC[0].snap["newton"] = {k: v for k, v in self.__dict__.items() if isinstance(v, Sym)}
            self._sinEPW = Sym(Expr("var", "i:newton_sinEPW"))
            self._cosEPW = Sym(Expr("var", "i:newton_cosEPW"))
            self._ecosE = Sym(Expr("var", "i:newton_ecosE"))
            self._esinE = Sym(Expr("var", "i:newton_esinE"))

        KEP = orbital._Keplerians
        TK = traced_class(KEP, entry=None,
                          replace={"_get_timedelta_in_minutes": stub_time, "_iterate_newton_raphson": stub_newton})
        P.set(orbital, "_Keplerians", TK)
        params = SymSource("p_", fixed={"t_0": T}, mode_attrs=("mode",))

        def run_prop():
            s = orbital._SGDP4.__new__(orbital._SGDP4)
            object.__setattr__(s, "_params", params)
            return s.propagate(T)
        tree, n = enumerate_paths(run_prop)
        vn = emit_entry("kep", "_SGDP4.propagate / _Keplerians.calculate", tree, out, index)
        snaps = [lf.snap["newton"] for lf in leaves(tree) if "newton" in lf.snap]
        if not snaps:
            raise TraceError("_iterate_newton_raphson was never reached")
        snap = {a: vn[v.e.args[0]] for a, v in snaps[0].items() if v.e.op == "var"}
        for s2 in snaps[1:]:
            if {a: vn[v.e.args[0]] for a, v in s2.items() if v.e.op == "var"} != snap:
                raise TraceError("the Kepler iteration is entered with different attribute versions on different paths")

        # ---- _Keplerians._iterate_newton_raphson, pass by pass
        TN = traced_class(KEP, entry="_iterate_newton_raphson")
        rng = []

        def newton_trace(passes, schedule):
            """run the loop for the given concrete pass indices from symbolic (epw, capu)"""
            Q = Patch()

            def fake_range(*a):
                rng.append(a)
                return list(passes)

            def fmod(a, b):
                REC[0].events.append(("x:epw_init", E(np.fmod(a, b))))
                return Sym(Expr("var", "i:epw"))

            def array(a, *r, **k):
                REC[0].events.append(("x:capu_init", E(a)))
                return Sym(Expr("var", "i:capu"))

            def run():
                o = TN.__new__(TN)
                for a, nm in snap.items():
                    object.__setattr__(o, a, Sym(Expr("var", "i:" + nm)))
                object.__setattr__(o, "_params", params)
                KEP._iterate_newton_raphson(o)
            try:
                Q.set(orbital, "range", fake_range)
                Q.set(orbital, "np", NpProxy(np, {"fmod": fmod, "array": array}))
                lf = run_path(run, schedule, len(schedule))
            finally:
                Q.restore()
            if len(lf.taken) != len(schedule) or lf.outcome != "ok":
                raise TraceError("Newton pass %r: %d decisions, outcome %s" % (passes, len(lf.taken), lf.outcome))
            return lf

        def pass_kernels(lf, two):
            """stage name -> Expr for the first traced pass (and the sin/cos of the next iterate)"""
            d = {}
            for k, e in lf.events:
                if k.startswith("x:"):
                    d[k[2:]] = e
                    continue
                base, ver = k.rsplit("#", 1)
                nm = base[2:].lstrip("_")
                if ver == "1":
                    d[nm] = e
                elif ver == "2" and two:
                    d["next_" + nm] = e
                else:
                    raise TraceError("unexpected store %s in a Newton pass" % k)
            d["exit"] = lf.taken[0][0]
            return d

        first = pass_kernels(newton_trace([0, 1], [False, True]), True)
        later = None
        later_ok = []
        rng_all = set(rng)
        if len(rng_all) != 1 or len(list(rng_all)[0]) != 1 or not isinstance(list(rng_all)[0][0], int):
            raise TraceError("the Kepler loop is not `for i in range(<int>)`: %r" % (rng_all,))
        N = list(rng_all)[0][0]
        if N < 3:
            raise TraceError("the Kepler loop has fewer than 3 passes")
        for i in range(1, N - 1):
            d = pass_kernels(newton_trace([i, i + 1], [False, True]), True)
            if later is None:
                later = d
            if set(d) != set(later) or any(d[k] is not later[k] for k in d):
                raise TraceError("Newton pass %d differs from pass 1" % i)
            later_ok.append(i)
        last = pass_kernels(newton_trace([N - 1], [True]), False)
        last2 = pass_kernels(newton_trace([N - 1], [False]), False)
        for d in (last, last2):
            for k in d:
                if k not in later or d[k] is not later[k]:
                    raise TraceError("the last Newton pass differs from pass 1 in `%s`" % k)
        out.append("/-! ### _Keplerians._iterate_newton_raphson, pass by pass -/")
        out.append("")
        out.append("/-- `for i in range(nr_range)` -/")
        out.append("def nr_range : Nat := %d" % N)
        out.append("/-- the passes whose trace (followed by the next pass) is `nr_later_*`; the last pass %d has the same stores"
                   " and exit test -/" % (N - 1))
        out.append("def nr_later_passes : List Nat := [%s]" % ", ".join(map(str, later_ok)))
        out.append("")
        keys = set()
        for d in (first, later):
            keys.update(free_vars(d.values()))
        vn2 = {}
        for k in keys:
            if k.startswith("i:"):
                vn2[k] = k[2:]
            else:
                base, ver = k.rsplit("#", 1)
                vn2[k] = base[2:].lstrip("_") + {"1": "", "2": "_next"}[ver]
        if len(set(vn2.values())) != len(vn2):
            raise TraceError("Newton: symbol name clash")
        for tag, d in (("first", first), ("later", later)):
            for nm in sorted(d):
                if tag == "later" and nm in ("epw_init", "capu_init"):
                    if d[nm] is not first[nm]:
                        raise TraceError("Newton: initial iterate differs between passes")
                    continue
                pre = "nr" if nm in ("epw_init", "capu_init") else "nr_" + tag
                kind = "bool" if nm == "exit" else "num"
                lines, nums, modes = emit_def("%s_%s" % (pre, nm), ("val", d[nm]), vn2, kind,
                                              "_iterate_newton_raphson, %s pass: `%s`" % (tag, nm))
                out.extend(lines)
                index.append(("%s_%s" % (pre, nm), nums, modes))

        # ---- Orbital.get_position: the normalisation
        def vec(*nm):
            a = np.empty((3,), dtype=object)
            for i, n_ in enumerate(nm):
                a[i] = Sym(Expr("var", "i:" + n_))
            return a
        P.set(orbital, "kep2xyz", lambda kep: (vec("px", "py", "pz"), vec("vx", "vy", "vz")))
        fake = types.SimpleNamespace(_sgdp4=types.SimpleNamespace(propagate=lambda t: {}))
        out.append("/-! ### Orbital.get_position after kep2xyz (position km, velocity km/s) -/")
        out.append("")
        for tag, flag in (("normalized", True), ("raw", False)):
            t = st.trace(lambda: orbital.Orbital.get_position(fake, T, normalize=flag), max_decisions=2)
            body = st.emit_tree(_rename(t))
            out.append("/-- traced from pyorbital: `Orbital.get_position(t, normalize=%s)` -/" % flag)
            out.append("def gp_%s (px py pz vx vy vz : α) : List α :=" % tag)
            out.append(body)
            out.append("")
            index.append(("gp_" + tag, ["px", "py", "pz", "vx", "vy", "vz"], []))
    finally:
        P.restore()
    out.append("/-- every generated definition with its parameter names, sorted by name (PV/Equiv/Sgp4.lean pins the names, so that a new"
               " stage cannot go unnoticed; the proofs apply the definitions with named arguments) -/")
    out.append("def index : List (String × List String) := [")
    out.append(",\n".join('  ("%s", [%s])' % (n, ", ".join('"%s"' % a for a in nums + modes)) for n, nums, modes in sorted(index)))
    out.append("]")
    out.append("")
    out.append("end PV.Gen.KS")
    return "\n".join(out) + "\n"


def _rename(t):
    """strip the `i:` prefix of input symbols in a symtrace tree (leaf lists)"""
    cache = {}

    def r(e):
        if not isinstance(e, Expr):
            return e
        if e.id in cache:
            return cache[e.id]
        if e.op == "var":
            v = Expr("var", e.args[0][2:] if e.args[0].startswith("i:") else e.args[0])
        else:
            v = Expr(e.op, *[r(a) for a in e.args])
        cache[e.id] = v
        return v
    if t[0] == "leaf":
        return ("leaf", [r(e) for e in t[1]])
    if t[0] == "err":
        return t
    return ("if", r(t[1]), _rename(t[2]), _rename(t[3]))


# ------------------------------------------------------------------ proof obligations (static list)
# T-C obligations for the property modules: `EQUIV.update(symtrace_sgp4.EQUIV_SGP4)` in props/c01.py, c13.py, c20.py
# (module -> theorem names; the namespace of the theorems is the module name).
EQUIV_SGP4 = {
    'PV.Equiv.Sgp4Init': [
        'elements_eq_stages', 'basic_eq_stages', 'coeffs_eq_stages', 'oe_excentricity_eq', 'oe_inclination_eq',
        'oe_right_ascension_eq', 'oe_arg_perigee_eq', 'oe_mean_anomaly_eq', 'oe_mean_motion_eq', 'oe_bstar_eq',
        'oe_recover_r0_eq', 'oe_recover_r1_eq', 'oe_original_mean_motion_eq', 'oe_semi_major_axis_eq',
        'oe_period_eq', 'oe_perigee_eq', 'oe_outcome_eq', 'modeCode_simp', 'modeCode_norm', 'deep_code',
        'init_eo_eq', 'init_xincl_eq', 'init_xno_eq', 'init_bstar_eq', 'init_omegao_eq', 'init_xmo_eq',
        'init_xnodeo_eq', 'init_xn_0_eq', 'init_cosIO_eq', 'init_sinIO_eq', 'init_theta2_eq', 'init_x3thm1_eq',
        'init_x1mth2_eq', 'init_x7thm1_eq', 'init_betao2_eq', 'init_betao_eq', 'init_xnodp_stage',
        'init_aodp_stage', 'init_xnodp_eq', 'init_aodp_eq', 'init_perigee_eq', 'init_apogee_eq',
        'init_period_eq', 'init_mode_eq', 'init_mode_literal', 'init_s4_eq', 'init_qoms24_eq',
        'init_s4_literal', 'init_qoms24_literal', 'init_tsi_eq', 'init_eta_eq', 'init_eeta_eq', 'init_coef_eq',
        'init_c2_eq', 'init_c1_eq', 'init_c4_eq', 'init_c5_1_eq', 'init_c3_1_eq', 'init_omgcof_1_eq',
        'init_c5_2_eq', 'init_c3_2_eq', 'init_omgcof_2_eq', 'init_c5_2_stored_eq', 'init_omgcof_2_stored_eq',
        'init_c3_2_stored_eq', 'init_near_norm_stored_eq', 'init_xmdot_eq', 'init_omgdot_eq', 'init_xhdot1_eq',
        'init_xnodot_eq', 'init_calculate_xmcof_r_eq', 'init_xmcof_eq', 'init_xnodcf_eq', 'init_t2cof_eq',
        'init_calculate_xlcof_r_eq', 'init_xlcof_eq', 'init_aycof_eq', 'init_cosXMO_eq', 'init_sinXMO_eq',
        'init_delmo_eq', 'init_d2_eq', 'init_d3_eq', 'init_d4_eq', 'init_t3cof_eq', 'init_t4cof_eq',
        'init_t5cof_eq', 'init_c5_final', 'init_c3_final', 'init_omgcof_final', 'init_outcome_eq'],
    'PV.Equiv.Sgp4Prop': [
        'modeCode_eq_simp', 'modeCode_eq_norm', 'modeCode_ne_zero', 'kep_ts_eq', 'kep_xmp_1_eq', 'kep_xnode_eq',
        'kep_temp0_1_eq', 'kep_xmp_2_eq', 'kep_omega_eq', 'kep_tempe_eq', 'kep_templ_eq', 'kep_a_eq',
        'secular_e0', 'kep_calculate_e_r_eq', 'longPeriod_e', 'longPeriod_elsq', 'kep_temp0_2_eq', 'kep_axn_eq',
        'kep_ayn_eq', 'kep_elsq_eq', 'kep_ecc_eq', 'kep_xlt_eq', 'nr_range_eq', 'nr_passes_eq',
        'nr_epw_init_eq', 'nr_capu_init_eq', 'nr_first_sinEPW_eq', 'nr_first_cosEPW_eq', 'nr_first_ecosE_eq',
        'nr_first_esinE_eq', 'nr_first_exit_eq', 'nr_first_next_sinEPW_eq', 'nr_first_next_cosEPW_eq',
        'nr_first_next_ecosE_eq', 'nr_first_next_esinE_eq', 'nr_later_sinEPW_eq', 'nr_later_cosEPW_eq',
        'nr_later_ecosE_eq', 'nr_later_esinE_eq', 'nr_later_exit_eq', 'nr_later_next_sinEPW_eq',
        'nr_later_next_cosEPW_eq', 'nr_later_next_ecosE_eq', 'nr_later_next_esinE_eq', 'newtonLoop_succ',
        'newtonLoop_zero', 'newton_eq_loop', 'kep_newton_alias', 'kep_temp0_3_eq', 'kep_betal_eq', 'kep_pl_eq',
        'kep_r_eq', 'kep_invR_eq', 'kep_u_eq', 'shortPeriod_u', 'kep_sin2u_eq', 'kep_cos2u_eq',
        'kep_temp0_4_eq', 'kep_temp1_eq', 'kep_temp2_eq', 'kep_rk_eq', 'kep_uk_eq', 'kep_xnodek_eq',
        'kep_xinc_eq', 'kep_temp0_5_eq', 'kep_rdotk_eq', 'kep_rfdotk_eq', 'kep_collect_radius_eq',
        'kep_collect_smjaxs_eq', 'kep_collect_ecc_eq', 'kep_collect_argp_eq', 'kep_collect_alias',
        'kep_out_alias', 'calculate_eq_stages', 'kep_outcome_eq', 'gp_normalized_eq', 'gp_raw_eq',
        'getPosition_eq'],
    'PV.Equiv.Sgp4': [
        'stage_names_pinned'],
}
# the guards only (C13): which exception is raised, under which conditions
EQUIV_SGP4_GUARDS = {
    'PV.Equiv.Sgp4Init': ['oe_outcome_eq', 'init_outcome_eq', 'init_mode_eq', 'init_mode_literal', 'init_perigee_eq',
                          'init_period_eq', 'init_xnodp_eq', 'init_aodp_eq'],
    'PV.Equiv.Sgp4Prop': ['kep_outcome_eq', 'calculate_eq_stages', 'kep_a_eq', 'kep_tempe_eq', 'secular_e0', 'kep_axn_eq',
                          'kep_ayn_eq', 'kep_elsq_eq', 'kep_rk_eq'],
    'PV.Equiv.Sgp4': ['stage_names_pinned'],
}


if __name__ == "__main__":
    text = generate()
    if len(sys.argv) > 1 and sys.argv[1] == "--write":
        import extract
        print(extract.write_if_changed(os.path.join(LEAN_GEN, OUT_NAME), text))
    else:
        print(text)
