"""Self-test of the tagged numpy / datetime values of the T-D prelude (namespace `PV.Py.Np` of lean/PV/Py/Prelude.lean)
and of the translations built on them: evaluates the GENERATED definitions `dt2np`, `_days`, `jdays2000`, `jdays`,
`_float_to_sibling_result`, `_get_tz_unaware_utctime` of lean/PV/Generated/Translated.lean in Lean on `Float` for sample
values of every kind (datetime naive / aware, datetime64 and timedelta64 scalars of every unit, 0-d .. 2-d arrays, dask
arrays, object arrays, Python / numpy numbers) and compares every result (kind, unit / dtype, shape, tick counts, the
bits of every double, the exception class) with what the running pyorbital / numpy gives for the same value.
`unmodelled` answers (the prelude declining) are counted, not compared.
Not part of ./check; run by hand:   PV_LEAN_DIR=... python harness/pytrans_selftest_np.py
Exit status 0 = all agree."""
import datetime as dt
import os
import struct
import subprocess
import sys
import tempfile
import warnings

import numpy as np

HERE = os.path.dirname(os.path.abspath(__file__))
LEAN = os.environ.get("PV_LEAN_DIR") or os.path.join(os.path.dirname(HERE), "lean")
sys.path.insert(0, os.environ.get("PV_REPO", "/repo"))
warnings.simplefilter("ignore")

try:
    import dask.array as da
except ImportError:      # pragma: no cover
    da = None


def lstr(s):
    return "([" + ", ".join("Char.ofNat %d" % ord(c) for c in s) + "] : List Char)"


def bits(x):
    return struct.unpack("<Q", struct.pack("<d", float(x)))[0]


def lfloat(x):
    return "(Float.ofBits %d)" % bits(x)


def lints(xs):
    return "[" + ", ".join("(%d : Int)" % int(x) for x in xs) + "]"


def lshape(sh):
    return "[" + ", ".join(str(int(k)) for k in sh) + "]"


EPOCH = dt.datetime(1970, 1, 1)


def us_of(d):
    delta = d.replace(tzinfo=None) - EPOCH
    return (delta.days * 86400 + delta.seconds) * 1000000 + delta.microseconds


def is_dask(v):
    return da is not None and isinstance(v, da.Array)


def to_lean(v):
    """the Lean term of type `Np.Val Float` for a Python value"""
    if isinstance(v, memoryview):
        return "Np.Val.memoryview"
    if isinstance(v, dt.datetime):
        if v.tzinfo is None:
            tz = "none"
        elif v.tzinfo == dt.timezone.utc:
            tz = "(some Np.Tz.utc)"
        else:
            off = v.utcoffset()
            tz = "(some (Np.Tz.other (%d : Int)))" % ((off.days * 86400 + off.seconds) * 1000000 + off.microseconds)
        return "(Np.Val.datetime (%d : Int) %s)" % (us_of(v), tz)
    if type(v) is int:
        return "(Np.Val.pyint (%d : Int))" % v
    if type(v) is float:
        return "(Np.Val.pyfloat %s)" % lfloat(v)
    lazy = is_dask(v)
    a = np.asarray(v.compute()) if lazy else v
    if isinstance(a, np.generic):
        cont = "Np.Cont.scalar"
        arr = np.asarray(a)
    else:
        cont = "(Np.Cont.arr %s %s)" % ("true" if lazy else "false", lshape(a.shape))
        arr = a
    kind = arr.dtype.kind
    if kind in "mM":
        unit = np.datetime_data(arr.dtype)[0]
        return "(Np.Val.time Np.TKind.%s %s %s %s)" % ("dt" if kind == "M" else "td", lstr(unit), cont,
                                                      lints(arr.astype("int64").ravel()))
    if kind == "O":
        return "(Np.Val.objArr %s %s)" % (lshape(arr.shape), lints(us_of(x) for x in arr.ravel()))
    d = {"float32": "f32", "float64": "f64", "int64": "i64"}[str(arr.dtype)]
    return "(Np.Val.num Np.NumDT.%s %s [%s])" % (d, cont, ", ".join(lfloat(x) for x in arr.ravel()))


def show(v):
    """canonical text of a Python value (the Lean side prints the same)"""
    if isinstance(v, memoryview):
        return "memoryview"
    if isinstance(v, dt.datetime):
        if v.tzinfo is None:
            tz = "none"
        elif v.tzinfo == dt.timezone.utc:
            tz = "utc"
        else:
            off = v.utcoffset()
            tz = "other %d" % ((off.days * 86400 + off.seconds) * 1000000 + off.microseconds)
        return "datetime %d %s" % (us_of(v), tz)
    if type(v) is int:
        return "pyint %d" % v
    if type(v) is float:
        return "pyfloat %d" % bits(v)
    lazy = is_dask(v)
    a = np.asarray(v.compute()) if lazy else v
    if isinstance(a, np.generic):
        cont = "scalar"
        arr = np.asarray(a)
    else:
        cont = "arr(%s,%s)" % ("true" if lazy else "false", list(a.shape))
        arr = a
    kind = arr.dtype.kind
    if kind in "mM":
        return "time %s %s %s %s" % ("dt" if kind == "M" else "td", np.datetime_data(arr.dtype)[0], cont,
                                     [int(x) for x in arr.astype("int64").ravel()])
    if kind == "O":
        return "objArr %s %s" % (list(arr.shape), [us_of(x) for x in arr.ravel()])
    d = {"float32": "f32", "float64": "f64", "int64": "i64"}[str(arr.dtype)]
    return "num %s %s %s" % (d, cont, [bits(x) for x in arr.ravel()])


LEAN_PRELUDE = r'''
import PV.Generated.Translated
open PV.Py PV.Gen.T
set_option maxRecDepth 8000
instance : FloatOps Float where
  ofInt := Float.ofInt
  intPow _ _ := 0
  mul a b := a * b
  sub a b := a - b
instance : FloatArith Float where
  add a b := a + b
  div a b := a / b
  powNat x n := x ^ n.toFloat
  abs := Float.abs
  gt a b := a > b
  lt a b := a < b
  le a b := a ≤ b
  ge a b := a ≥ b
  max a b := if b > a then b else a
  min a b := if b < a then b else a
  lit m e := if e < 0 then OfScientific.ofScientific m true (-e).toNat else OfScientific.ofScientific m false e.toNat
  toInt x := x.toInt64.toInt
def showCont : Np.Cont → String
  | .scalar => "scalar"
  | .arr l s => s!"arr({l},{s})"
def showVal : Np.Val Float → String
  | .pyint n => s!"pyint {n}"
  | .pyfloat x => s!"pyfloat {x.toBits}"
  | .datetime us none => s!"datetime {us} none"
  | .datetime us (some .utc) => s!"datetime {us} utc"
  | .datetime us (some (.other o)) => s!"datetime {us} other {o}"
  | .time k u c ts => s!"time {match k with | .dt => "dt" | .td => "td"} {String.ofList u} {showCont c} {ts}"
  | .num d c xs => s!"num {match d with | .f32 => "f32" | .f64 => "f64" | .i64 => "i64"} {showCont c} {xs.map Float.toBits}"
  | .objArr sh us => s!"objArr {sh} {us}"
  | .memoryview => "memoryview"
def showExc : Exc → String
  | .named q => q
  | e => ((reprStr e).splitOn ".").getLast!
def showR (r : M (Np.Val Float)) : String :=
  match r with
  | .ok v => showVal v
  | .error e => "error " ++ showExc e
'''


def sample_times():
    out = []
    tz2 = dt.timezone(dt.timedelta(hours=2))
    tzm = dt.timezone(dt.timedelta(hours=-5, minutes=-30))
    tz0 = dt.timezone(dt.timedelta(0))
    try:
        import zoneinfo
        zutc = zoneinfo.ZoneInfo("UTC")
    except Exception:
        zutc = None
    dts = [dt.datetime(2000, 1, 1, 12), dt.datetime(2024, 2, 29, 23, 59, 59, 999999), dt.datetime(1969, 12, 31, 23, 59, 59, 5),
           dt.datetime(1957, 10, 4, 19, 28, 34, 123456), dt.datetime(2038, 1, 19, 3, 14, 8)]
    for d in dts:
        out.append(d)
    for tz in (dt.timezone.utc, tz0, tz2, tzm, zutc):
        if tz is not None:
            out.append(dts[1].replace(tzinfo=tz))
    isos = ["2000-01-01T12:00:00.000000000", "2024-02-29T23:59:59.123456789", "1969-12-31T23:59:59.999999999",
            "2009-09-18T02:30:00.000000001", "1999-06-15T00:00:00.000001000"]
    for unit in ("ns", "us", "ms", "s", "m", "h", "D"):
        for iso in isos:
            out.append(np.datetime64(iso, unit))
    for unit in ("ns", "us", "ms", "s", "m", "D"):
        a = np.array(isos, dtype="datetime64[%s]" % unit)
        out.append(a)
        out.append(a[:4].reshape(2, 2))
        out.append(a[:0])
        out.append(np.array(isos[1], dtype="datetime64[%s]" % unit))
        if da is not None:
            out.append(da.from_array(a, chunks=2))
            out.append(da.from_array(a[:4].reshape(2, 2)))
            out.append(da.from_array(np.array(isos[1], dtype="datetime64[%s]" % unit)))
    out.append(np.array(dts, dtype=object))
    out.append(np.array(dts[:4], dtype=object).reshape(2, 2))
    oa = np.empty((), dtype=object)
    oa[()] = dts[0]
    out.append(oa)
    return out


def sample_deltas():
    out = []
    ticks = [0, 1, -1, 999, -1500, 86400, 123456789012, -31579199876543211, 9007199254740993, 631108800500000000]
    for unit in ("as", "fs", "ps", "ns", "us", "ms", "s", "m", "h", "D"):
        for t in ticks:
            out.append(np.timedelta64(t, unit))
        a = np.array(ticks, dtype="timedelta64[%s]" % unit)
        out.append(a)
        out.append(a[:4].reshape(2, 2))
        out.append(a[:0])
        out.append(np.array(ticks[4], dtype="timedelta64[%s]" % unit))
        if da is not None:
            out.append(da.from_array(a, chunks=3))
            out.append(da.from_array(np.array(ticks[4], dtype="timedelta64[%s]" % unit)))
    return out


def sample_numbers():
    out = [0, 7, 0.0, -2.5, np.float64(1.5), np.float32(1.5), np.int64(3)]
    for dtp in ("float32", "float64", "int64"):
        for a in (np.array([1, 2, 3], dtype=dtp), np.array([[1, 2], [3, 4]], dtype=dtp), np.array(5, dtype=dtp)):
            out.append(a)
            if da is not None:
                out.append(da.from_array(a))
    return out


def run_py(f, *args):
    try:
        return show(f(*args))
    except Exception as e:      # noqa
        return "error " + type(e).__name__


def main():
    import pyorbital
    from pyorbital import astronomy, orbital
    cases = []       # (lean expression, expected text, label)
    times, deltas, numbers = sample_times(), sample_deltas(), sample_numbers()
    for v in times + numbers[:7]:
        lv = to_lean(v)
        cases.append(("showR (dt2np %s)" % lv, run_py(pyorbital.dt2np, v), "dt2np %r" % (v,)))
        cases.append(("showR (_get_tz_unaware_utctime %s)" % lv, run_py(orbital._get_tz_unaware_utctime, v), "tz_unaware %r" % (v,)))
    for v in times:
        lv = to_lean(v)
        cases.append(("showR (jdays2000 %s)" % lv, run_py(astronomy.jdays2000, v), "jdays2000 %r" % (v,)))
        cases.append(("showR (jdays %s)" % lv, run_py(astronomy.jdays, v), "jdays %r" % (v,)))
    for v in deltas:
        cases.append(("showR (_days %s)" % to_lean(v), run_py(astronomy._days, v), "_days %r" % (v,)))
    for v in numbers + times[:3] + [np.array([1.0]).data]:
        for x in (0.0, 2.5):
            cases.append(("showR (_float_to_sibling_result %s %s)" % (to_lean(x), to_lean(v)),
                          run_py(astronomy._float_to_sibling_result, x, v), "sibling %r %r" % (x, v)))
    # the prelude's operations one by one on values the translated functions do not reach
    for s in ("2000-01-01T12:00", "2024-02-29", "1969-12-31T23:59:59", "2023-02-29", "1600-03-01T00:00", "0001-01-01"):
        cases.append(("showR (Np.datetime64Iso %s)" % lstr(s), run_py(np.datetime64, s), "iso %s" % s))
    src = [LEAN_PRELUDE]
    nchunk = 0
    for k in range(0, len(cases), 10):
        src.append("def chunk%d : IO Unit := do" % nchunk)
        for e, _, _ in cases[k:k + 10]:
            src.append("  IO.println (%s)" % e)
        nchunk += 1
    src.append("def main : IO Unit := do")
    for k in range(nchunk):
        src.append("  chunk%d" % k)
    with tempfile.NamedTemporaryFile("w", suffix=".lean", dir=LEAN, delete=False) as f:
        f.write("\n".join(src) + "\n")
        path = f.name
    try:
        p = subprocess.run(["lake", "env", "lean", "--run", path], cwd=LEAN, stdout=subprocess.PIPE, stderr=subprocess.PIPE, timeout=1800)
    finally:
        os.unlink(path)
    if p.returncode != 0:
        errs = [l for l in (p.stderr.decode() + p.stdout.decode()).split("\n") if "error" in l]
        print("lean failed:", "\n".join(errs[:10]))
        return 2
    got = p.stdout.decode().split("\n")
    bad = declined = 0
    for (e, want, label), g in zip(cases, got):
        if g == "error unmodelled":
            declined += 1
            if os.environ.get("PV_SHOW_DECLINED"):
                print("declined:", label[:150], "| python:", want[:100])
            continue
        if g != want:
            bad += 1
            if bad <= 25:
                print("DISAGREE %s\n  lean:   %s\n  python: %s" % (label[:200], g[:300], want[:300]))
    print("%d cases, %d declined as unmodelled, %d disagreements" % (len(cases), declined, bad))
    return 1 if bad else 0


if __name__ == "__main__":
    sys.exit(main())
