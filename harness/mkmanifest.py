"""Regenerate MANIFEST.json from the per-property modules (run by hand after adding a check)."""
import importlib
import json
import os
import sys

HERE = os.path.dirname(os.path.abspath(__file__))
ROOT = os.path.dirname(HERE)
sys.path.insert(0, HERE)

ALL = ["C%02d" % i for i in range(1, 21)]
# properties whose check has been run end to end on the unchanged tree by the coordinator
READY = ["C01", "C02", "C15", "C19", "C04", "C05", "C06", "C07", "C09", "C10", "C12", "C13", "C14", "C16", "C17", "C20", "C08", "C18", "C03", "C11"]


def tie_note(mod):
    """What ties the model to the source besides the correspondence harness (from the module's EQUIV table)."""
    eq = getattr(mod, "EQUIV", {}) or {}
    td = sorted(m for m in eq if m.startswith("PV.Equiv.Translated"))
    tc = sorted(m for m in eq if not m.startswith("PV.Equiv.Translated"))
    out = ""
    if tc:
        out += " Tie T-C: the numeric kernels traced symbolically from the running source on every run are proved equal to the model over the reals (%d theorems in %s)." % (
            sum(len(eq[m]) for m in tc), ", ".join(tc))
    if td:
        out += (" Tie T-D: the discrete/stateful source functions translated statement by statement on every run (harness/pytrans.py) are proved "
                "equal to the model (%d theorems in %s); their external parameters, listed in PV/Generated/Translated.lean, are trusted." % (
                    sum(len(eq[m]) for m in td), ", ".join(td)))
    return out


def main():
    checks = []
    na = []
    engines = []
    for pid in ALL:
        path = os.path.join(HERE, "props", pid.lower() + ".py")
        if not os.path.exists(path) or pid not in READY:
            na.append({"property_id": pid, "reason": "check not built yet in this revision (model and theorems planned in DESIGN.md section 5)"})
            continue
        mod = importlib.import_module("props." + pid.lower())
        if getattr(mod, "NOT_APPLICABLE", None):
            na.append({"property_id": pid, "reason": mod.NOT_APPLICABLE})
            continue
        checks.append({
            "property_id": pid,
            "quick_cmd": "./check %s --tier quick" % pid,
            "thorough_cmd": "./check %s --tier thorough" % pid,
            "evidence_file": "evidence/%s.json" % pid,
            "replay_cmd_template": "./check %s --replay {path}" % pid,
            "engine": "lean4-proof+correspondence",
            "level_claimed": {
                "category": "proof",
                "text": mod.LEVEL_TEXT,
                "design_ref": "DESIGN.md section 5, %s" % pid,
            },
            "level_note": mod.LEVEL_NOTE + tie_note(mod),
            "technique": mod.TECHNIQUE,
        })
    man = {
        "version": 1,
        "setup_cmd": "cd lean && lake build PV pvdriver",
        "hooks": {
            "guard": "PYORBITAL_VERIF",
            "enable": "no source hooks are needed: the harness interposes on module attributes (requests, sqlite3 connection, scipy root finder, thread scheduler) from outside; the guard name is reserved and set by the harness",
            "baseline_off_cmd": "cd /repo && /venv/bin/python -m pytest -ra -q -p no:cacheprovider --timeout=900 --continue-on-collection-errors",
            "source_commits": [],
            "add_only": True,
        },
        "engines": [
            {"name": "lean4-proof+correspondence", "path": "lean/ (lake project PV, Mathlib-free driver pvdriver) + harness/",
             "serves_properties": [c["property_id"] for c in checks],
             "kind_free_text": "Lean 4 theorems about executable models; models tied to /repo on every run by (T-B) regenerating constants/tables from the source AST, (T-C) regenerating the numeric kernels by symbolic tracing of the real numpy code (harness/symtrace*.py -> PV/Generated/Kernels*.lean) with Lean proofs that each traced kernel equals the model's function for all real inputs (PV/Equiv), (T-D) translating the discrete tlefile functions statement by statement from the source AST into Lean do-blocks (harness/pytrans.py -> PV/Generated/Translated.lean) with Lean proofs that each translated function equals the model (PV/Equiv/Translated*), and (T-A) a differential correspondence check of the Mathlib-free model driver against pyorbital in-process; a property oracle on the implementation supplies failing inputs and replays"}
        ],
        "checks": checks,
        "not_applicable": na,
        "notes": "See DESIGN.md. Exit 1 + VIOLATION line on a failing input not listed in known_findings.json, or when a proof obligation / the correspondence broke and no failing input was found (no-failing-input-found). Exit 2 = infrastructure failure (no verdict).",
    }
    with open(os.path.join(ROOT, "MANIFEST.json"), "w") as f:
        json.dump(man, f, indent=1)
    print("checks:", [c["property_id"] for c in checks])
    print("not_applicable:", [c["property_id"] for c in na])


if __name__ == "__main__":
    main()
