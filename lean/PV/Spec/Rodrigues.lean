/-
  PV.Spec.Rodrigues — Rodrigues' rotation formula as published
  (O. Rodrigues 1840; e.g. Goldstein, Classical Mechanics, eq. 4.62):
  the vector `v` rotated about the unit vector `k̂` by the angle `θ`,
  counter-clockwise when looking against `k̂` (right-hand rule), is

      v cos θ + (k̂ × v) sin θ + k̂ (k̂ · v) (1 − cos θ).

  Written independently of pyorbital's quaternion code.  Generic over `Num`
  (so it can be executed on `Float`); read over ℝ in the theorems `PV.C14.*`.
-/
import PV.Num
namespace PV.Rodrigues
variable {α : Type} [Num α]

/-- `k / |k|` -/
def unit (k : V3 α) : V3 α :=
  let n := V3.norm k
  ⟨k.x / n, k.y / n, k.z / n⟩

/-- right-handed (counter-clockwise) rotation of `v` about the direction of `k` by `θ` -/
def rotate (v k : V3 α) (θ : α) : V3 α :=
  let u := unit k
  let c := Num.cos θ
  let s := Num.sin θ
  let d := V3.dot u v
  let w := V3.cross u v
  ⟨v.x * c + w.x * s + u.x * d * ((1 : α) - c),
   v.y * c + w.y * s + u.y * d * ((1 : α) - c),
   v.z * c + w.z * s + u.z * d * ((1 : α) - c)⟩

/-- clockwise rotation by `θ` written out: `v cos θ − (k̂ × v) sin θ + k̂ (k̂ · v)(1 − cos θ)` -/
def rotateCw (v k : V3 α) (θ : α) : V3 α :=
  let u := unit k
  let c := Num.cos θ
  let s := Num.sin θ
  let d := V3.dot u v
  let w := V3.cross u v
  ⟨v.x * c - w.x * s + u.x * d * ((1 : α) - c),
   v.y * c - w.y * s + u.y * d * ((1 : α) - c),
   v.z * c - w.z * s + u.z * d * ((1 : α) - c)⟩

end PV.Rodrigues
