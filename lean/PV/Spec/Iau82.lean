/-
  PV.Spec.Iau82 — Greenwich mean sidereal time, IAU 1982 (Aoki et al. 1982; the form used in
  Vallado et al., AIAA 2006-6753, `gstime`), written from the publication:

    θ(T) = 67310.54841 + (876600·3600 + 8640184.812866)·T + 0.093104·T² − 6.2·10⁻⁶·T³   [s of time]
    T    = (JD_UT1 − 2451545.0) / 36525                                                  [Julian centuries]
    GMST = θ/240 degrees, reduced to [0, 2π) radians.

  Generic over `Num` (executable on `Float` as an oracle, read over ℝ in `PV.C12.*`).
-/
import PV.Num
namespace PV.Iau82
variable {α : Type} [Num α]
open PV.Num

/-- GMST in seconds of time as a function of Julian centuries of UT1 from J2000 -/
def thetaSeconds (T : α) : α :=
  (67310.54841 : α) + ((876600 : α) * (3600 : α) + (8640184.812866 : α)) * T
    + (0.093104 : α) * (T * T) - (6.2e-6 : α) * (T * T * T)

/-- Julian centuries from J2000 of a day count `d = JD − 2451545.0` -/
def centuries (d : α) : α := d / (36525 : α)

/-- unreduced GMST in radians (240 s of time per degree) -/
def gmstUnreduced (T : α) : α := deg2rad (thetaSeconds T / (240 : α))

/-- GMST in radians reduced to [0, 2π) -/
def gmst (T : α) : α := Num.pymod (gmstUnreduced T) ((2 : α) * Num.pi)

/-- the sidereal rate the linear coefficient gives, in revolutions per UT1 day -/
def revPerDay : α := ((876600 : α) * (3600 : α) + (8640184.812866 : α)) / (36525 : α) / (86400 : α)

end PV.Iau82
