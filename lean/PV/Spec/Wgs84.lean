/-
  PV.Spec.Wgs84 — the reference ellipsoid of revolution as published
  (NIMA TR8350.2, WGS 84; Torge, Geodesy, ch. 4): semi-major axis `a`
  (equatorial), semi-minor axis `b` (polar);

    * surface:            x²/a² + y²/a² + z²/b² = 1
    * first eccentricity: e² = (a² − b²)/a²
    * prime-vertical radius of curvature  N(φ) = a / √(1 − e² sin² φ)
    * point of geodetic latitude φ, longitude λ, ellipsoidal height h:
        ( (N+h) cos φ cos λ, (N+h) cos φ sin λ, (N(1−e²)+h) sin φ )
    * outward ellipsoid normal at geodetic latitude φ, longitude λ:
        ( cos φ cos λ, cos φ sin λ, sin φ )

  Written independently of pyorbital's code.  Generic over `Num`.
-/
import PV.Num
namespace PV.Wgs84
variable {α : Type} [Num α]

/-- left-hand side of the ellipsoid equation -/
def ellipsoidLhs (a b : α) (p : V3 α) : α :=
  p.x * p.x / (a * a) + p.y * p.y / (a * a) + p.z * p.z / (b * b)

/-- `p` lies on the ellipsoid with semi-axes `a, a, b` -/
def OnEllipsoid (a b : α) (p : V3 α) : Prop := ellipsoidLhs a b p = (1 : α)

/-- gradient direction of the ellipsoid equation at `p` (an outward normal when `p` is on the surface) -/
def gradNormal (a b : α) (p : V3 α) : V3 α := ⟨p.x / (a * a), p.y / (a * a), p.z / (b * b)⟩

def ecc2 (a b : α) : α := (a * a - b * b) / (a * a)

/-- prime-vertical radius of curvature -/
def primeVertical (a b lat : α) : α := a / Num.sqrt ((1 : α) - ecc2 a b * (Num.sin lat * Num.sin lat))

/-- unit outward normal of the ellipsoid at geodetic latitude `lat`, longitude `lon` -/
def geodeticNormal (lat lon : α) : V3 α :=
  ⟨Num.cos lat * Num.cos lon, Num.cos lat * Num.sin lon, Num.sin lat⟩

/-- cartesian point of geodetic coordinates (lat, lon, h) -/
def fromGeodetic (a b lat lon h : α) : V3 α :=
  let n := primeVertical a b lat
  ⟨(n + h) * Num.cos lat * Num.cos lon, (n + h) * Num.cos lat * Num.sin lon,
   (n * ((1 : α) - ecc2 a b) + h) * Num.sin lat⟩

/-- WGS 84 defining semi-major axis, km -/
def a84 : α := (6378.137 : α)
/-- WGS 84 derived semi-minor axis, km (a(1−f), 1/f = 298.257223563, to 1e-9 km) -/
def b84 : α := (6356.752314245 : α)

end PV.Wgs84
