/-
  PV.Spec.Topo — the published WGS-84 topocentric frame and geodetic→cartesian formulas
  (DESIGN.md Appendix D), written directly over ℝ with Mathlib's own operations and
  independently of the models (no `Num` arithmetic is used here; `V3 ℝ` is only the carrier).

    θ = GMST + east longitude (local sidereal angle), φ = geodetic latitude
    e = (−sin θ, cos θ, 0)                       east
    n = (−sin φ cos θ, −sin φ sin θ, cos φ)      north
    u = (cos φ cos θ, cos φ sin θ, sin φ)        up (outward normal of the ellipsoid)
    az = atan2(d·e, d·n) mod 2π   (clockwise from north),   el = asin(d·u / |d|)
    geodetic→cartesian:  N = a/√(1 − e² sin²φ),  e² = f(2 − f),
      ((N+h) cos φ cos θ, (N+h) cos φ sin θ, (N(1−e²)+h) sin φ)
-/
import PV.Num
import Mathlib.Analysis.SpecialFunctions.Trigonometric.Inverse
import Mathlib.Analysis.SpecialFunctions.Complex.Arg
import Mathlib.Analysis.SpecialFunctions.Sqrt

namespace PV.Spec.Topo
open Real

/-- euclidean inner product -/
noncomputable def dot (a b : V3 ℝ) : ℝ := a.x * b.x + a.y * b.y + a.z * b.z
/-- squared euclidean length -/
noncomputable def normSq (a : V3 ℝ) : ℝ := a.x ^ 2 + a.y ^ 2 + a.z ^ 2
/-- euclidean length -/
noncomputable def len (a : V3 ℝ) : ℝ := √(normSq a)
/-- vector product -/
noncomputable def cross (a b : V3 ℝ) : V3 ℝ :=
  ⟨a.y * b.z - a.z * b.y, a.z * b.x - a.x * b.z, a.x * b.y - a.y * b.x⟩
/-- scalar multiple -/
noncomputable def smul (k : ℝ) (a : V3 ℝ) : V3 ℝ := ⟨k * a.x, k * a.y, k * a.z⟩

/-- reduction of an angle to `[0, 2π)` -/
noncomputable def mod2pi (x : ℝ) : ℝ := x - 2 * π * (⌊x / (2 * π)⌋ : ℝ)

/-- east unit vector at sidereal angle θ -/
noncomputable def east (θ : ℝ) : V3 ℝ := ⟨-sin θ, cos θ, 0⟩
/-- north unit vector at geodetic latitude φ, sidereal angle θ -/
noncomputable def north (φ θ : ℝ) : V3 ℝ := ⟨-sin φ * cos θ, -sin φ * sin θ, cos φ⟩
/-- up unit vector (ellipsoid normal) at geodetic latitude φ, sidereal angle θ -/
noncomputable def up (φ θ : ℝ) : V3 ℝ := ⟨cos φ * cos θ, cos φ * sin θ, sin φ⟩

/-- azimuth (radians, clockwise from north, in `[0, 2π)`) of the direction `d` : `atan2(d·e, d·n) mod 2π` -/
noncomputable def az (φ θ : ℝ) (d : V3 ℝ) : ℝ :=
  mod2pi (Complex.arg ⟨dot d (north φ θ), dot d (east θ)⟩)
/-- elevation (radians) of the direction `d` : `asin(d·u/|d|)` -/
noncomputable def el (φ θ : ℝ) (d : V3 ℝ) : ℝ := arcsin (dot d (up φ θ) / len d)

/-- first eccentricity squared from the flattening -/
noncomputable def ecc2 (f : ℝ) : ℝ := f * (2 - f)
/-- prime-vertical radius of curvature -/
noncomputable def primeVertical (a f φ : ℝ) : ℝ := a / √(1 - ecc2 f * sin φ ^ 2)
/-- geodetic (latitude φ, angle θ from the x axis, height h) → cartesian, ellipsoid (a, f) -/
noncomputable def geodeticToCartesian (a f φ θ h : ℝ) : V3 ℝ :=
  ⟨(primeVertical a f φ + h) * cos φ * cos θ,
   (primeVertical a f φ + h) * cos φ * sin θ,
   (primeVertical a f φ * (1 - ecc2 f) + h) * sin φ⟩

/-- WGS-84 semi-major axis (km) and flattening -/
noncomputable def wgs84A : ℝ := 6378.137
noncomputable def wgs84F : ℝ := 1 / 298.257223563
/-- earth rotation rate (rad/s) used for the observer velocity -/
noncomputable def earthRate : ℝ := 7.292115e-5

end PV.Spec.Topo
