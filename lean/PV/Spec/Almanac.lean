/-
  PV.Spec.Almanac — the low-precision solar position of The Astronomical Almanac (section C,
  "Low precision formulas for the Sun", stated precision 0.01° between 1950 and 2050), written
  from the publication; n = JD − 2451545.0 (days from J2000.0).

    L = 280.460° + 0.9856474°·n          mean longitude (aberration-corrected)
    g = 357.528° + 0.9856003°·n          mean anomaly
    λ = L + 1.915° sin g + 0.020° sin 2g   ecliptic longitude        (β = 0)
    ε = 23.439° − 0.0000004°·n           obliquity of the ecliptic
    α = atan2(cos ε sin λ, cos λ),  δ = asin(sin ε sin λ)
    R = 1.00014 − 0.01671 cos g − 0.00014 cos 2g   [AU]
  and the standard spherical-astronomy hour-angle formulas
    h = GMST + lon − α,  altitude = asin(sin φ sin δ + cos φ cos δ cos h),
    azimuth (clockwise from north) = atan2(−sin h cos δ, cos φ sin δ − sin φ cos δ cos h).

  Generic over `Num` (executable on `Float` as an oracle, read over ℝ in `PV.C06.*`).
-/
import PV.Num
namespace PV.Almanac
variable {α : Type} [Num α]
open PV.Num

def meanLongitudeDeg (n : α) : α := (280.460 : α) + (0.9856474 : α) * n
def meanAnomalyDeg (n : α) : α := (357.528 : α) + (0.9856003 : α) * n

/-- ecliptic longitude in degrees (not reduced to [0, 360)) -/
def eclLonDeg (n : α) : α :=
  let g := deg2rad (meanAnomalyDeg n)
  meanLongitudeDeg n + (1.915 : α) * Num.sin g + (0.020 : α) * Num.sin ((2 : α) * g)

def obliquityDeg (n : α) : α := (23.439 : α) - (0.0000004 : α) * n

/-- (right ascension, declination) in radians -/
def raDec (n : α) : α × α :=
  let lam := deg2rad (eclLonDeg n)
  let eps := deg2rad (obliquityDeg n)
  (Num.atan2 (Num.cos eps * Num.sin lam) (Num.cos lam), Num.asin (Num.sin eps * Num.sin lam))

/-- sun–earth distance in AU -/
def distanceAU (n : α) : α :=
  let g := deg2rad (meanAnomalyDeg n)
  (1.00014 : α) - (0.01671 : α) * Num.cos g - (0.00014 : α) * Num.cos ((2 : α) * g)

/-- local hour angle from GMST, east longitude and right ascension (radians) -/
def hourAngle (gmst lon ra : α) : α := gmst + lon - ra

/-- altitude from latitude φ, declination δ, hour angle h (radians) -/
def altitude (phi dec h : α) : α :=
  Num.asin (Num.sin phi * Num.sin dec + Num.cos phi * Num.cos dec * Num.cos h)

/-- azimuth clockwise from north (radians, in (−π, π]) -/
def azimuth (phi dec h : α) : α :=
  Num.atan2 (-(Num.sin h) * Num.cos dec)
    (Num.cos phi * Num.sin dec - Num.sin phi * Num.cos dec * Num.cos h)

/-- cosine of the zenith distance -/
def cosZenith (phi dec h : α) : α :=
  Num.sin phi * Num.sin dec + Num.cos phi * Num.cos dec * Num.cos h

end PV.Almanac
