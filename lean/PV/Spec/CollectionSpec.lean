/-
  PV.Spec.CollectionSpec — what "reading a platform from a TLE collection" means,
  written from the property statement (C10) over a *parsed* list of entries, not over lines.
  Core Lean only.
-/
import PV.Model.Text
namespace PV.CollectionSpec
open PV.Text

/-- one entry of a collection: an optional name line, line 1, line 2 (raw text, any padding) -/
structure Entry where
  name : Option (List Char)
  l1 : List Char
  l2 : List Char
deriving Repr, DecidableEq

/-- the text lines of one entry, each followed by the line ending `eol` -/
def entryLines (e : Entry) (eol : List Char) : List (List Char) :=
  (match e.name with
   | some n => [n ++ eol]
   | none => []) ++ [e.l1 ++ eol, e.l2 ++ eol]

/-- the text lines of the collection -/
def render (es : List Entry) (eol : List Char) : List (List Char) :=
  es.flatMap fun e => entryLines e eol

/-- a line `str.strip()` empties -/
def isBlank (l : List Char) : Bool := (strip l).isEmpty

/-- the same collection with blank lines before entries and at the end (never inside an entry):
    each entry comes with the list of blank lines that precede it -/
def renderGaps (ges : List (List (List Char) × Entry)) (eol : List Char) (trail : List (List Char)) : List (List Char) :=
  (ges.flatMap fun ge => ge.1 ++ entryLines ge.2 eol) ++ trail

def wfGaps (ges : List (List (List Char) × Entry)) (trail : List (List Char)) : Bool :=
  ges.all (fun ge => ge.1.all isBlank) && trail.all isBlank

/-- catalogue number of an entry: columns 2..7 of line 1 -/
def catalogue (e : Entry) : List Char := slice (strip e.l1) 2 7

/-- a request: the upper-cased, stripped name, the id registered for it (if any), the source kind -/
structure Req where
  name : List Char
  regId : Option (List Char)
  stream : Bool

/-- the entry's name line (stripped) is the requested name -/
def nameMatches (q : Req) (e : Entry) : Bool :=
  match e.name with
  | some n => decide (strip n = q.name)
  | none => false

/-- the entry's catalogue number is the id registered for the requested name -/
def idMatches (q : Req) (e : Entry) : Bool :=
  match q.regId with
  | some id => decide (catalogue e = id)
  | none => false

/-- the entry answers the request (the empty name on a stream is answered by any entry, hence by the first) -/
def qualifies (q : Req) (e : Entry) : Bool :=
  nameMatches q e || idMatches q e || (q.stream && q.name.isEmpty)

/-- the first qualifying entry; `none` means the read must fail with KeyError -/
def select (q : Req) (es : List Entry) : Option Entry := es.find? (qualifies q)

/-- what a successful read returns -/
def result (e : Entry) : List Char × List Char := (strip e.l1, strip e.l2)

/-- well-formed entry: stripped line 1 is 69 characters starting with "1 ", stripped line 2 starts with "2 ",
    a name line is not blank and does not look like a line 1 -/
def wfEntry (e : Entry) : Bool :=
  (strip e.l1).length == 69 && startsWith (strip e.l1) ['1', ' '] && startsWith (strip e.l2) ['2', ' ']
  && (match e.name with
      | some n => !(strip n).isEmpty && !startsWith (strip n) ['1', ' ']
      | none => true)

def wfColl (es : List Entry) : Bool := es.all wfEntry

/-- well-formed request: a requested name is not itself an element line; a registered id is 5 characters wide
    (the width of the catalogue column; every id of pyorbital's platforms.txt is); the empty name is not registered -/
def wfReq (q : Req) : Bool :=
  !startsWith q.name ['1', ' '] && !startsWith q.name ['2', ' ']
  && (match q.regId with
      | some id => id.length == 5 && !q.name.isEmpty
      | none => true)

/-- line ending: any run of characters `str.strip()` removes ("\n", "\r\n", trailing blanks …) -/
def wfEol (eol : List Char) : Bool := eol.all isPyWs

end PV.CollectionSpec
