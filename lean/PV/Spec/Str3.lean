/-
  PV.Spec.Str3 — the SGP4 near-earth model as published (Hoots & Roehrich,
  Spacetrack Report #3, 1980, section 6), WGS-72 constants, with the three
  AIAA-2006-6753 amendments the property names (e ≤ 1e-4 guard on C3/XMCOF,
  the 1+cos i guard, eccentricity floor/ceiling).  Written in the report's
  names and form (explicit powers of TSINCE), independent of the model's code
  structure.  Generic over `Num`: executed on `Float` as the oracle of C01,
  read over ℝ in the theorems `PV.C01.*`.

  The constant s is its defining expression 1 + 78/XKMPER (DESIGN section 7).
  The solution of Kepler's equation is a parameter (`E` = E + ω); `solveKepler`
  is the executable stand-in (Newton to 1e-15).
-/
import PV.Num
namespace PV.Str3
variable {α : Type} [Num α]
open PV.Num

def CK2 : α := (5.413080e-4 : α)
def CK4 : α := (0.62098875e-6 : α)
def QOMS2T : α := (1.88027916e-9 : α)
def XJ3 : α := (-(0.253881e-5 : α))
def XKE : α := (0.743669161e-1 : α)
def XKMPER : α := (6378.135 : α)
def XMNPDA : α := (1440 : α)
def S : α := (1 : α) + (78 : α) / XKMPER
def A3OVK2 : α := -XJ3 / CK2
def TOTHRD : α := (2 : α) / (3 : α)

/-- mean elements at epoch (radians, radians/minute) -/
structure El (α : Type) where
  xno : α
  eo : α
  xincl : α
  omegao : α
  xmo : α
  xnodeo : α
  bstar : α

/-- recovered mean motion and semi-major axis -/
structure Rec (α : Type) where
  xnodp : α
  aodp : α

def recover (l : El α) : Rec α :=
  let a1 := Num.rpow (XKE / l.xno) TOTHRD
  let cosio := Num.cos l.xincl
  let x3thm1 := (3 : α) * (cosio * cosio) - (1 : α)
  let betao2 := (1 : α) - l.eo * l.eo
  let betao := Num.sqrt betao2
  let del1 := (1.5 : α) * CK2 * x3thm1 / (a1 * a1 * betao * betao2)
  let ao := a1 * ((1 : α) - del1 * ((0.5 : α) * TOTHRD + del1 * ((1 : α) + (134 : α) / (81 : α) * del1)))
  let delo := (1.5 : α) * CK2 * x3thm1 / (ao * ao * betao * betao2)
  ⟨l.xno / ((1 : α) + delo), ao / ((1 : α) - delo)⟩

def perigeeKm (l : El α) : α := ((recover l).aodp * ((1 : α) - l.eo) - (1 : α)) * XKMPER
def periodMin (l : El α) : α := (2 : α) * Num.pi / (recover l).xnodp

/-- simplified-drag flag: perigee below 220 km -/
def isimp (l : El α) : Bool := Num.lt ((recover l).aodp * ((1 : α) - l.eo)) ((220 : α) / XKMPER + (1 : α))

/-- (s4, qoms24) with the low-perigee adjustment -/
def s4q (l : El α) : α × α :=
  let perige := perigeeKm l
  if Num.lt perige (156 : α) then
    let s4 := if Num.le perige (98 : α) then (20 : α) else perige - (78 : α)
    (s4 / XKMPER + (1 : α), pow4 (((120 : α) - s4) / XKMPER))
  else (S, QOMS2T)

/-- initialisation constants of the report -/
structure Co (α : Type) where
  xnodp : α
  aodp : α
  isimp : Bool
  cosio : α
  sinio : α
  x3thm1 : α
  x1mth2 : α
  x7thm1 : α
  eta : α
  c1 : α
  c2 : α
  c3 : α
  c4 : α
  c5 : α
  xmdot : α
  omgdot : α
  xnodot : α
  omgcof : α
  xmcof : α
  xnodcf : α
  t2cof : α
  xlcof : α
  aycof : α
  delmo : α
  sinmo : α
  d2 : α
  d3 : α
  d4 : α
  t3cof : α
  t4cof : α
  t5cof : α

def consts (l : El α) : Co α :=
  let r := recover l
  let xnodp := r.xnodp
  let aodp := r.aodp
  let eo := l.eo
  let cosio := Num.cos l.xincl
  let sinio := Num.sin l.xincl
  let theta2 := cosio * cosio
  let x3thm1 := (3 : α) * theta2 - (1 : α)
  let x1mth2 := (1 : α) - theta2
  let x7thm1 := (7 : α) * theta2 - (1 : α)
  let betao2 := (1 : α) - eo * eo
  let betao := Num.sqrt betao2
  let (s4, qoms24) := s4q l
  let pinvsq := (1 : α) / (aodp * aodp * betao2 * betao2)
  let tsi := (1 : α) / (aodp - s4)
  let eta := aodp * eo * tsi
  let etasq := eta * eta
  let eeta := eo * eta
  let psisq := Num.abs ((1 : α) - etasq)
  let coef := qoms24 * pow4 tsi
  let coef1 := coef / Num.rpow psisq (3.5 : α)
  let c2 := coef1 * xnodp * (aodp * ((1 : α) + (1.5 : α) * etasq + eeta * ((4 : α) + etasq)) +
              (0.75 : α) * CK2 * tsi / psisq * x3thm1 * ((8 : α) + (3 : α) * etasq * ((8 : α) + etasq)))
  let c1 := l.bstar * c2
  let c3 := if Num.gt eo (1e-4 : α) then coef * tsi * A3OVK2 * xnodp * sinio / eo else (0 : α)
  let c4 := (2 : α) * xnodp * coef1 * aodp * betao2 *
              (eta * ((2 : α) + (0.5 : α) * etasq) + eo * ((0.5 : α) + (2 : α) * etasq) -
               (2 : α) * CK2 * tsi / (aodp * psisq) *
                 (-(3 : α) * x3thm1 * ((1 : α) - (2 : α) * eeta + etasq * ((1.5 : α) - (0.5 : α) * eeta)) +
                  (0.75 : α) * x1mth2 * ((2 : α) * etasq - eeta * ((1 : α) + etasq)) * Num.cos ((2 : α) * l.omegao)))
  let c5 := (2 : α) * coef1 * aodp * betao2 * ((1 : α) + (2.75 : α) * (etasq + eeta) + eeta * etasq)
  let theta4 := theta2 * theta2
  let temp1 := (3 : α) * CK2 * pinvsq * xnodp
  let temp2 := temp1 * CK2 * pinvsq
  let temp3 := (1.25 : α) * CK4 * pinvsq * pinvsq * xnodp
  let xmdot := xnodp + (0.5 : α) * temp1 * betao * x3thm1 +
               (0.0625 : α) * temp2 * betao * ((13 : α) - (78 : α) * theta2 + (137 : α) * theta4)
  let x1m5th := (1 : α) - (5 : α) * theta2
  let omgdot := -(0.5 : α) * temp1 * x1m5th + (0.0625 : α) * temp2 * ((7 : α) - (114 : α) * theta2 + (395 : α) * theta4) +
                temp3 * ((3 : α) - (36 : α) * theta2 + (49 : α) * theta4)
  let xhdot1 := -temp1 * cosio
  let xnodot := xhdot1 + ((0.5 : α) * temp2 * ((4 : α) - (19 : α) * theta2) + (2 : α) * temp3 * ((3 : α) - (7 : α) * theta2)) * cosio
  let omgcof := l.bstar * c3 * Num.cos l.omegao
  let xmcof := if Num.gt eo (1e-4 : α) then -TOTHRD * coef * l.bstar / eeta else (0 : α)
  let xnodcf := (3.5 : α) * betao2 * xhdot1 * c1
  let t2cof := (1.5 : α) * c1
  let dd := (1 : α) + cosio
  let dd := if Num.lt (Num.abs dd) (1.5e-12 : α) then Num.sign dd * (1.5e-12 : α) else dd
  let xlcof := (0.125 : α) * A3OVK2 * sinio * ((3 : α) + (5 : α) * cosio) / dd
  let aycof := (0.25 : α) * A3OVK2 * sinio
  let delmo := cube ((1 : α) + eta * Num.cos l.xmo)
  let sinmo := Num.sin l.xmo
  let c1sq := c1 * c1
  let d2 := (4 : α) * aodp * tsi * c1sq
  let temp := d2 * tsi * c1 / (3 : α)
  let d3 := ((17 : α) * aodp + s4) * temp
  let d4 := (0.5 : α) * temp * aodp * tsi * ((221 : α) * aodp + (31 : α) * s4) * c1
  let t3cof := d2 + (2 : α) * c1sq
  let t4cof := (0.25 : α) * ((3 : α) * d3 + c1 * ((12 : α) * d2 + (10 : α) * c1sq))
  let t5cof := (0.2 : α) * ((3 : α) * d4 + (12 : α) * c1 * d3 + (6 : α) * d2 * d2 + (15 : α) * c1sq * ((2 : α) * d2 + c1sq))
  { xnodp := xnodp, aodp := aodp, isimp := isimp l, cosio := cosio, sinio := sinio, x3thm1 := x3thm1, x1mth2 := x1mth2,
    x7thm1 := x7thm1, eta := eta, c1 := c1, c2 := c2, c3 := c3, c4 := c4, c5 := c5, xmdot := xmdot, omgdot := omgdot,
    xnodot := xnodot, omgcof := omgcof, xmcof := xmcof, xnodcf := xnodcf, t2cof := t2cof, xlcof := xlcof,
    aycof := aycof, delmo := delmo, sinmo := sinmo, d2 := d2, d3 := d3, d4 := d4, t3cof := t3cof, t4cof := t4cof,
    t5cof := t5cof }

/-- secular + drag + long-period quantities at TSINCE (report's explicit powers) -/
structure Mean (α : Type) where
  xmp : α
  omega : α
  xnode : α
  a : α
  e : α
  axn : α
  ayn : α
  capu : α     -- U = L_T − Ω (not reduced)
  xn : α

def mean (l : El α) (c : Co α) (t : α) : Mean α :=
  let xmdf := l.xmo + c.xmdot * t
  let omgadf := l.omegao + c.omgdot * t
  let xnoddf := l.xnodeo + c.xnodot * t
  let tsq := t * t
  let xnode := xnoddf + c.xnodcf * tsq
  let tcube := tsq * t
  let tfour := t * tcube
  let delomg := c.omgcof * t
  let delm := c.xmcof * (cube ((1 : α) + c.eta * Num.cos xmdf) - c.delmo)
  let xmp := if c.isimp then xmdf else xmdf + (delomg + delm)
  let omega := if c.isimp then omgadf else omgadf - (delomg + delm)
  let tempa := if c.isimp then (1 : α) - c.c1 * t else (1 : α) - c.c1 * t - c.d2 * tsq - c.d3 * tcube - c.d4 * tfour
  let tempe := if c.isimp then l.bstar * c.c4 * t else l.bstar * c.c4 * t + l.bstar * c.c5 * (Num.sin xmp - c.sinmo)
  let templ := if c.isimp then c.t2cof * tsq else c.t2cof * tsq + c.t3cof * tcube + tfour * (c.t4cof + t * c.t5cof)
  let a := c.aodp * (tempa * tempa)
  let e0 := l.eo - tempe
  let e := Num.min (Num.max e0 (1e-6 : α)) ((1 : α) - (1e-6 : α))
  let xl := xmp + omega + xnode + c.xnodp * templ
  let beta2 := (1 : α) - e * e
  let xn := XKE / Num.rpow a (1.5 : α)
  let axn := e * Num.cos omega
  let temp := (1 : α) / (a * beta2)
  let xll := temp * c.xlcof * axn
  let aynl := temp * c.aycof
  let xlt := xl + xll
  let ayn := e * Num.sin omega + aynl
  { xmp := xmp, omega := omega, xnode := xnode, a := a, e := e, axn := axn, ayn := ayn, capu := xlt - xnode, xn := xn }

/-- Kepler's equation for (E + ω): U = (E+ω) − a_yN cos(E+ω) + a_xN sin(E+ω) … in the report's sign convention
    `U = EPW − AXN sin EPW + AYN cos EPW` -/
def keplerResidual (m : Mean α) (epw : α) : α := m.capu - epw + m.axn * Num.sin epw - m.ayn * Num.cos epw

/-- executable stand-in for "the solution of Kepler's equation": Newton from U, `n` steps -/
def solveKepler (m : Mean α) : Nat → α → α
  | 0, epw => epw
  | n + 1, epw =>
    let f := keplerResidual m epw
    let df := (1 : α) - m.axn * Num.cos epw - m.ayn * Num.sin epw
    let nw := epw + f / df
    if Num.le (Num.abs (nw - epw)) (1e-15 : α) then nw else solveKepler m n nw

/-- position (km) and velocity (km/s) from the mean quantities and a Kepler solution `epw` -/
def state (l : El α) (c : Co α) (m : Mean α) (epw : α) : V3 α × V3 α :=
  let sinepw := Num.sin epw
  let cosepw := Num.cos epw
  let ecose := m.axn * cosepw + m.ayn * sinepw
  let esine := m.axn * sinepw - m.ayn * cosepw
  let elsq := m.axn * m.axn + m.ayn * m.ayn
  let temp := (1 : α) - elsq
  let pl := m.a * temp
  let r := m.a * ((1 : α) - ecose)
  let temp1 := (1 : α) / r
  let rdot := XKE * Num.sqrt m.a * esine * temp1
  let rfdot := XKE * Num.sqrt pl * temp1
  let temp2 := m.a * temp1
  let betal := Num.sqrt temp
  let temp3 := (1 : α) / ((1 : α) + betal)
  let cosu := temp2 * (cosepw - m.axn + m.ayn * esine * temp3)
  let sinu := temp2 * (sinepw - m.ayn - m.axn * esine * temp3)
  let u := Num.atan2 sinu cosu
  let sin2u := (2 : α) * sinu * cosu
  let cos2u := (2 : α) * cosu * cosu - (1 : α)
  let tp := (1 : α) / pl
  let tp1 := CK2 * tp
  let tp2 := tp1 * tp
  let rk := r * ((1 : α) - (1.5 : α) * tp2 * betal * c.x3thm1) + (0.5 : α) * tp1 * c.x1mth2 * cos2u
  let uk := u - (0.25 : α) * tp2 * c.x7thm1 * sin2u
  let xnodek := m.xnode + (1.5 : α) * tp2 * c.cosio * sin2u
  let xinck := l.xincl + (1.5 : α) * tp2 * c.cosio * c.sinio * cos2u
  let rdotk := rdot - m.xn * tp1 * c.x1mth2 * sin2u
  let rfdotk := rfdot + m.xn * tp1 * (c.x1mth2 * cos2u + (1.5 : α) * c.x3thm1)
  let sinuk := Num.sin uk
  let cosuk := Num.cos uk
  let sinik := Num.sin xinck
  let cosik := Num.cos xinck
  let sinnok := Num.sin xnodek
  let cosnok := Num.cos xnodek
  let xmx := -sinnok * cosik
  let xmy := cosnok * cosik
  let ux := xmx * sinuk + cosnok * cosuk
  let uy := xmy * sinuk + sinnok * cosuk
  let uz := sinik * sinuk
  let vx := xmx * cosuk - cosnok * sinuk
  let vy := xmy * cosuk - sinnok * sinuk
  let vz := sinik * cosuk
  let kv := XKMPER * XMNPDA / (86400 : α)
  ( ⟨rk * ux * XKMPER, rk * uy * XKMPER, rk * uz * XKMPER⟩,
    ⟨(rdotk * ux + rfdotk * vx) * kv, (rdotk * uy + rfdotk * vy) * kv, (rdotk * uz + rfdotk * vz) * kv⟩ )

/-- the published model, end to end, with the executable Kepler solver -/
def sgp4 (l : El α) (t : α) : V3 α × V3 α × α × Bool :=
  let c := consts l
  let m := mean l c t
  let u := Num.fmod m.capu ((2 : α) * Num.pi)
  let m' := { m with capu := u }
  let epw := solveKepler m' 60 u
  let (p, v) := state l c m' epw
  (p, v, m.a / c.aodp, c.isimp)

/-- decay indicators of the published model at TSINCE: (a, e before clamping, e_L², r_k) in earth radii -/
def decay (l : El α) (t : α) : α × α × α × α :=
  let c := consts l
  let m := mean l c t
  let u := Num.fmod m.capu ((2 : α) * Num.pi)
  let m' := { m with capu := u }
  let epw := solveKepler m' 60 u
  let (p, _) := state l c m' epw
  let tempe := if c.isimp then l.bstar * c.c4 * t else l.bstar * c.c4 * t + l.bstar * c.c5 * (Num.sin m.xmp - c.sinmo)
  (m.a, l.eo - tempe, m.axn * m.axn + m.ayn * m.ayn, Num.sqrt (p.x * p.x + p.y * p.y + p.z * p.z) / XKMPER)

end PV.Str3
