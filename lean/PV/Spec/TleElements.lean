/-
  PV.Spec.TleElements — the element set a two-line element set PRINTS, as the input of the published model.

  Written over ℝ with Mathlib's own operations, from the printed characters only (PV.Spec.TleLayout's
  field values: digits and the position of the decimal point), independently of pyorbital's parser and of
  `OrbitElements`.  Conversions as Spacetrack Report #3 prescribes for its input cards:
    mean motion  rev/day → rad/min:  · 2π / 1440
    inclination, right ascension, argument of perigee, mean anomaly  degrees → radians:  · π / 180
    eccentricity: seven digits, decimal point assumed in front;   B*: ±0.ddddd · 10^(±e), in 1/earth-radii (AE = 1)
-/
import PV.Spec.TleLayout
import PV.Spec.Str3
import Mathlib.Analysis.SpecialFunctions.Trigonometric.Basic
namespace PV.Spec.TleElements
open PV.Text PV.Spec.TleLayout Real

/-- the real number an exact decimal `mant · 10^exp` denotes -/
noncomputable def decVal (d : Dec) : ℝ := (d.mant : ℝ) * (10 : ℝ) ^ d.exp

/-- the report's element set for the numbers printed in the lines -/
noncomputable def printedEl (f : Fields) : Str3.El ℝ where
  xno := decVal (fixedVal f.mmInt f.mmFrac 8) * (2 * π / 1440)
  eo := decVal (eccVal f)
  xincl := decVal (fixedVal f.inclInt f.inclFrac 4) * (π / 180)
  omegao := decVal (fixedVal f.argpInt f.argpFrac 4) * (π / 180)
  xmo := decVal (fixedVal f.manomInt f.manomFrac 4) * (π / 180)
  xnodeo := decVal (fixedVal f.raanInt f.raanFrac 4) * (π / 180)
  bstar := decVal (expoVal f.bstarSign f.bstarMant f.bstarExpSign f.bstarExp)

/-- minutes from the instant `epochUs` (µs since 1970-01-01T00:00) to the instant held as `ticks` ticks of
    `nsTick` nanoseconds since 1970-01-01T00:00: (instant − epoch) / 60 s, in exact arithmetic -/
noncomputable def minutesFrom (epochUs nsTick ticks : ℤ) : ℝ :=
  ((ticks * nsTick - epochUs * 1000 : ℤ) : ℝ) / 60000000000

end PV.Spec.TleElements
