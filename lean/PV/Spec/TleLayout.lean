/-
  PV.Spec.TleLayout — the standard two-line element set layout, written as an ENCODER,
  independently of pyorbital's parser: a well-formed record of printed fields is laid out in
  fixed-width columns with single blanks between them and a modulo-10 check digit appended.

      1 NNNNNC YYLLLPPP YYDDD.DDDDDDDD S.DDDDDDDD SDDDDDSE SDDDDDSE E NNNNc
      2 NNNNN III.IIII RRR.RRRR EEEEEEE AAA.AAAA MMM.MMMM NN.NNNNNNNNRRRRRc

  (Space-Track / CelesTrak "NORAD Two-Line Element Set Format"; column numbers in `layout` are the
  published 1-based inclusive ranges.)  Core Lean only.
-/
import PV.Model.Text
import PV.Model.Checksum
import PV.Model.Time
namespace PV.Spec.TleLayout
open PV.Text

/-- the printed fields of an element set; numeric fields are kept as the characters printed -/
structure Fields where
  satnum : List Char          -- 5 columns, catalogue number (same on both lines)
  classification : Char
  launchYear : List Char      -- 2 columns
  launchNumber : List Char    -- 3 columns
  launchPiece : List Char     -- 3 columns
  epochYear : List Char       -- 2 digits
  epochDayInt : List Char     -- 3 columns: day of year, leading zeros or blanks
  epochDayFrac : List Char    -- 8 digits after the printed point
  ndotSign : Char             -- ' ', '+' or '-'
  ndotFrac : List Char        -- 8 digits after the printed point (no integer part)
  nddotSign : Char
  nddotMant : List Char       -- 5 digits, decimal point implied in front
  nddotExpSign : Char         -- '+' or '-'
  nddotExp : Char             -- one digit
  bstarSign : Char
  bstarMant : List Char
  bstarExpSign : Char
  bstarExp : Char
  ephemeris : Char            -- blank or a digit
  elnum : List Char           -- 4 columns, leading zeros or blanks
  inclInt : List Char         -- 3 columns, leading zeros or blanks
  inclFrac : List Char        -- 4 digits
  raanInt : List Char
  raanFrac : List Char
  ecc : List Char             -- 7 digits, decimal point implied in front
  argpInt : List Char
  argpFrac : List Char
  manomInt : List Char
  manomFrac : List Char
  mmInt : List Char           -- 2 columns
  mmFrac : List Char          -- 8 digits
  rev : List Char             -- 5 columns, leading zeros or blanks
deriving Repr, DecidableEq

/-! ### well-formedness (decidable: a Boolean function) -/

/-- exactly `n` digits -/
def digitsN (n : Nat) (s : List Char) : Bool := s.length == n && s.all isAsciiDigit

/-- the digits of a right-justified number: leading blanks removed -/
def unpad (s : List Char) : List Char := s.dropWhile (· == ' ')

/-- `n` columns holding a right-justified unsigned integer: blanks, then at least one digit -/
def padNum (n : Nat) (s : List Char) : Bool :=
  s.length == n && !(unpad s).isEmpty && (unpad s).all isAsciiDigit

def isSign (c : Char) : Bool := c == ' ' || c == '+' || c == '-'
def isExpSign (c : Char) : Bool := c == '+' || c == '-'

/-- value of a right-justified unsigned integer column -/
def padVal (s : List Char) : Nat := natOfDigits (unpad s)

def wf (f : Fields) : Bool :=
  f.satnum.length == 5 && f.launchYear.length == 2 && f.launchNumber.length == 3 && f.launchPiece.length == 3 &&
  digitsN 2 f.epochYear &&
  padNum 3 f.epochDayInt && digitsN 8 f.epochDayFrac &&
  decide (1 ≤ padVal f.epochDayInt) && decide (padVal f.epochDayInt ≤ 366) &&      -- 001.00000000 … 366.99999999
  isSign f.ndotSign && digitsN 8 f.ndotFrac &&
  isSign f.nddotSign && digitsN 5 f.nddotMant && isExpSign f.nddotExpSign && isAsciiDigit f.nddotExp &&
  isSign f.bstarSign && digitsN 5 f.bstarMant && isExpSign f.bstarExpSign && isAsciiDigit f.bstarExp &&
  (f.ephemeris == ' ' || isAsciiDigit f.ephemeris) &&
  padNum 4 f.elnum &&
  padNum 3 f.inclInt && digitsN 4 f.inclFrac &&
  padNum 3 f.raanInt && digitsN 4 f.raanFrac &&
  digitsN 7 f.ecc &&
  padNum 3 f.argpInt && digitsN 4 f.argpFrac &&
  padNum 3 f.manomInt && digitsN 4 f.manomFrac &&
  padNum 2 f.mmInt && digitsN 8 f.mmFrac &&
  padNum 5 f.rev

def WellFormed (f : Fields) : Prop := wf f = true
instance (f : Fields) : Decidable (WellFormed f) := inferInstanceAs (Decidable (wf f = true))

/-! ### the encoder -/

/-- `iii.ffff` -/
def fixedCol (ip fr : List Char) : List Char := ip ++ '.' :: fr
/-- `s.dddddddd` -/
def ndotCol (f : Fields) : List Char := f.ndotSign :: '.' :: f.ndotFrac
/-- `sdddddSe` : sign, five mantissa digits (point implied in front), exponent sign, exponent digit -/
def expoCol (sign : Char) (mant : List Char) (es e : Char) : List Char := sign :: (mant ++ [es, e])

/-- line 1 without its check digit, as the list of its columns (separators included) -/
def cols1 (f : Fields) : List (List Char) :=
  [['1'], [' '], f.satnum, [f.classification], [' '],
   f.launchYear, f.launchNumber, f.launchPiece, [' '],
   f.epochYear, fixedCol f.epochDayInt f.epochDayFrac, [' '],
   ndotCol f, [' '],
   expoCol f.nddotSign f.nddotMant f.nddotExpSign f.nddotExp, [' '],
   expoCol f.bstarSign f.bstarMant f.bstarExpSign f.bstarExp, [' '],
   [f.ephemeris], [' '], f.elnum]

/-- line 2 without its check digit -/
def cols2 (f : Fields) : List (List Char) :=
  [['2'], [' '], f.satnum, [' '],
   fixedCol f.inclInt f.inclFrac, [' '],
   fixedCol f.raanInt f.raanFrac, [' '],
   f.ecc, [' '],
   fixedCol f.argpInt f.argpFrac, [' '],
   fixedCol f.manomInt f.manomFrac, [' '],
   fixedCol f.mmInt f.mmFrac, f.rev]

def concatCols (cols : List (List Char)) : List Char := cols.flatten

/-- offset of column `k`: total width of the columns before it -/
def offset (cols : List (List Char)) (k : Nat) : Nat := ((cols.take k).map List.length).sum

def digitChar (n : Nat) : Char := Char.ofNat (48 + n)

/-- append the modulo-10 check digit: sum of the digits, each '-' counting 1 -/
def withCheck (body : List Char) : List Char := body ++ [digitChar (PV.Checksum.sumW body % 10)]

def encode (f : Fields) : List Char × List Char :=
  (withCheck (concatCols (cols1 f)), withCheck (concatCols (cols2 f)))

/-! ### the published column table (1-based, inclusive), hand-written -/

structure Entry where
  attr : String
  line : Nat
  first : Nat
  last : Nat
deriving Repr, DecidableEq

def layout : List Entry := [
  ⟨"satnumber", 1, 3, 7⟩, ⟨"classification", 1, 8, 8⟩,
  ⟨"id_launch_year", 1, 10, 11⟩, ⟨"id_launch_number", 1, 12, 14⟩, ⟨"id_launch_piece", 1, 15, 17⟩,
  ⟨"epoch_year", 1, 19, 20⟩, ⟨"epoch_day", 1, 21, 32⟩,
  ⟨"mean_motion_derivative", 1, 34, 43⟩, ⟨"mean_motion_sec_derivative", 1, 45, 52⟩, ⟨"bstar", 1, 54, 61⟩,
  ⟨"ephemeris_type", 1, 63, 63⟩, ⟨"element_number", 1, 65, 68⟩,
  ⟨"inclination", 2, 9, 16⟩, ⟨"right_ascension", 2, 18, 25⟩, ⟨"excentricity", 2, 27, 33⟩,
  ⟨"arg_perigee", 2, 35, 42⟩, ⟨"mean_anomaly", 2, 44, 51⟩, ⟨"mean_motion", 2, 53, 63⟩, ⟨"orbit", 2, 64, 68⟩]

/-- the printed text of an attribute's column -/
def column (f : Fields) (attr : String) : List Char :=
  if attr = "satnumber" then f.satnum
  else if attr = "classification" then [f.classification]
  else if attr = "id_launch_year" then f.launchYear
  else if attr = "id_launch_number" then f.launchNumber
  else if attr = "id_launch_piece" then f.launchPiece
  else if attr = "epoch_year" then f.epochYear
  else if attr = "epoch_day" then fixedCol f.epochDayInt f.epochDayFrac
  else if attr = "mean_motion_derivative" then ndotCol f
  else if attr = "mean_motion_sec_derivative" then expoCol f.nddotSign f.nddotMant f.nddotExpSign f.nddotExp
  else if attr = "bstar" then expoCol f.bstarSign f.bstarMant f.bstarExpSign f.bstarExp
  else if attr = "ephemeris_type" then [f.ephemeris]
  else if attr = "element_number" then f.elnum
  else if attr = "inclination" then fixedCol f.inclInt f.inclFrac
  else if attr = "right_ascension" then fixedCol f.raanInt f.raanFrac
  else if attr = "excentricity" then f.ecc
  else if attr = "arg_perigee" then fixedCol f.argpInt f.argpFrac
  else if attr = "mean_anomaly" then fixedCol f.manomInt f.manomFrac
  else if attr = "mean_motion" then fixedCol f.mmInt f.mmFrac
  else if attr = "orbit" then f.rev
  else []

/-! ### the values the printed fields denote -/

/-- `iii.ffff…` : the number `digits(iii fff…) · 10^(−k)`, k the number of printed decimals -/
def fixedVal (ip fr : List Char) (k : Nat) : Dec := ⟨natOfDigits (unpad ip ++ fr), -(k : Int)⟩

def signed (sign : Char) (n : Nat) : Int := if sign = '-' then -(n : Int) else n

/-- `sdddddSe` : ± 0.ddddd · 10^(±e) = ± ddddd · 10^(±e − 5) -/
def expoVal (sign : Char) (mant : List Char) (es e : Char) : Dec :=
  ⟨signed sign (natOfDigits mant), signed es (digitVal e) - 5⟩

/-- `s.dddddddd` -/
def ndotVal (f : Fields) : Dec := ⟨signed f.ndotSign (natOfDigits f.ndotFrac), -8⟩
/-- seven digits with the decimal point implied in front -/
def eccVal (f : Fields) : Dec := ⟨natOfDigits f.ecc, -7⟩
/-- a blank ephemeris type reads as 0 -/
def ephemerisVal (f : Fields) : Int := if f.ephemeris = ' ' then 0 else (digitVal f.ephemeris : Int)

/-- epoch day of year in units of 10⁻⁸ day -/
def doyE8 (f : Fields) : Nat := natOfDigits (unpad f.epochDayInt ++ f.epochDayFrac)

def yy (f : Fields) : Nat := natOfDigits f.epochYear

/-- µs from 1970-01-01T00:00 to `year`-01-01T00:00, by the Fliegel–Van Flandern Julian day number
    (JDN of 1970-01-01 is 2440588) -/
def jan1Us (year : Int) : Int := (PV.Time.jdnFVF year 1 1 - 2440588) * 86400000000

/-- the statement's epoch: 1 January of 20yy (yy ≤ 56) / 19yy (otherwise; the statement covers yy ≥ 69)
    plus (day of year − 1) days; one 10⁻⁸ day is exactly 864 µs -/
def epochUs (f : Fields) : Int :=
  jan1Us (if yy f ≤ 56 then 2000 + (yy f : Int) else 1900 + (yy f : Int)) + ((doyE8 f : Int) - 100000000) * 864

end PV.Spec.TleLayout
