/-
  Driver handlers for C03 (pass prediction).

    c03 <n> <e_0> … <e_{n-1}> <k> <g_0> <r_0> … <g_{k-1}> <r_{k-1}> <m> <lo_0> <hi_0> <v_0> …
      samples (elevation − horizon, binary64 hex), the root values the real code obtained per
      crossing index (`_get_root(…, guess, guess+1)`), and the maximiser's answers per bracket.
      → "Z <zcs…> P <rise> <fall> <middle> <lo> <hi> <culm> <int_start> <int_end> P …"
      A root (or a maximiser value) the real code never computed reads as NaN.

    c03parab <a> <b> <c> <fa> <fb> <fc> <x>  → one update of `_get_max_parab`
-/
import PV.Drv.Codec
import PV.NumFloat
import PV.Model.Passes
namespace PV.Drv.C03
open PV.Drv PV PV.Passes

def nan : Float := 0.0 / 0.0

def takeFloats (n : Nat) (xs : List String) : List Float × List String :=
  ((xs.take n).map parseF, xs.drop n)

def pairsNF : List String → List (Nat × Float)
  | g :: r :: rest => (parseN g, parseF r) :: pairsNF rest
  | _ => []

def triples : List String → List (UInt64 × UInt64 × Float)
  | a :: b :: v :: rest => ((parseF a).toBits, (parseF b).toBits, parseF v) :: triples rest
  | _ => []

def fmtPass (e : List Float) (p : Pass Float) : String :=
  "P " ++ fmtF p.rise ++ " " ++ fmtF p.fall ++ " " ++ toString p.middle ++ " " ++ fmtF p.lo ++ " " ++ fmtF p.hi
    ++ " " ++ fmtF p.culm ++ " " ++ toString (intStart p.rise) ++ " " ++ toString (intEnd e p.fall)

def hPasses : Handler
  | n :: rest =>
    let n := parseN n
    let (e, rest) := takeFloats n rest
    match rest with
    | k :: rest =>
      let k := parseN k
      let roots := pairsNF (rest.take (2 * k))
      match rest.drop (2 * k) with
      | _m :: rest =>
        let mx := triples rest
        let root : Nat → Float := fun g => ((roots.find? (·.1 == g)).map (·.2)).getD nan
        let maxim : Float → Float → Float := fun lo hi =>
          ((mx.find? (fun t => t.1 == lo.toBits && t.2.1 == hi.toBits)).map (·.2.2)).getD nan
        let zs := zeroCrossings e
        let ps := passes e root maxim
        " ".intercalate (("Z" :: zs.map toString) ++ ps.map (fmtPass e))
      | _ => "bad-args"
    | _ => "bad-args"
  | _ => "bad-args"

def hParab : Handler
  | [a, b, c, fa, fb, fc, x] =>
    fmtF (parabStep (parseF a) (parseF b) (parseF c) (parseF fa) (parseF fb) (parseF fc) (parseF x))
  | _ => "bad-args"

def handlers : List (String × Handler) := [("c03", hPasses), ("c03parab", hParab)]

end PV.Drv.C03
