/-
  Line-protocol helpers for the correspondence driver.
  Floats travel as 16 hex digits (the binary64 bit pattern), strings as hex of
  their UTF-8 bytes (`-` for the empty string), integers in decimal.
-/
namespace PV.Drv

def hexDigit (c : Char) : Option Nat :=
  if '0' ≤ c ∧ c ≤ '9' then some (c.toNat - '0'.toNat)
  else if 'a' ≤ c ∧ c ≤ 'f' then some (c.toNat - 'a'.toNat + 10)
  else if 'A' ≤ c ∧ c ≤ 'F' then some (c.toNat - 'A'.toNat + 10)
  else none

def parseHexNat (s : String) : Option Nat :=
  s.toList.foldl (fun acc c => do let a ← acc; let d ← hexDigit c; pure (a * 16 + d)) (some 0)

def parseF (s : String) : Float :=
  match parseHexNat s with
  | some n => Float.ofBits (UInt64.ofNat n)
  | none => 0.0 / 0.0

def hexChar (n : Nat) : Char :=
  if n < 10 then Char.ofNat (n + '0'.toNat) else Char.ofNat (n - 10 + 'a'.toNat)

def natToHex (n : Nat) (width : Nat) : String :=
  let rec go (k : Nat) (n : Nat) (acc : List Char) : List Char :=
    match k with
    | 0 => acc
    | k+1 => go k (n / 16) (hexChar (n % 16) :: acc)
  String.ofList (go width n [])

def fmtF (x : Float) : String := natToHex x.toBits.toNat 16

def fmtFs (xs : List Float) : String := " ".intercalate (xs.map fmtF)

/-- strings: hex of UTF-8 bytes, "-" for empty -/
def parseS (s : String) : String :=
  if s == "-" then "" else
  let cs := s.toList
  let rec go : List Char → List UInt8 → List UInt8
    | a :: b :: rest, acc =>
      match hexDigit a, hexDigit b with
      | some x, some y => go rest (UInt8.ofNat (x * 16 + y) :: acc)
      | _, _ => acc
    | _, acc => acc
  let bytes := (go cs []).reverse
  match String.fromUTF8? (ByteArray.mk bytes.toArray) with
  | some s => s
  | none => ""

def fmtS (s : String) : String :=
  if s.isEmpty then "-" else
  String.join (s.toUTF8.toList.map fun b => natToHex b.toNat 2)

def parseI (s : String) : Int := s.toInt?.getD 0
def parseN (s : String) : Nat := s.toNat?.getD 0

abbrev Handler := List String → String

end PV.Drv
