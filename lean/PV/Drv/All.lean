import PV.Drv.Codec
import PV.NumFloat
import PV.Drv.C09
import PV.Drv.Sgp4
import PV.Drv.Numeric
import PV.Drv.C10
import PV.Drv.C02
import PV.Drv.C15
import PV.Drv.C19
import PV.Drv.C1617
import PV.Drv.C08
import PV.Drv.C18
import PV.Drv.C03
import PV.Drv.C11
namespace PV.Drv

def echoF : Handler := fun args => fmtFs (args.map parseF)
def echoS : Handler := fun args => " ".intercalate (args.map (fmtS ∘ parseS))

def table : List (String × Handler) :=
  [("echoF", echoF), ("echoS", echoS)] ++ C09.handlers ++ Sgp4.handlers ++ Numeric.handlers ++ C10.handlers ++ C02.handlers ++ C15.handlers ++ C19.handlers ++ C1617.handlers ++ C08.handlers ++ C18.handlers ++ C03.handlers ++ C11.handlers

def lookup (op : String) : Option Handler := (table.find? (·.1 == op)).map (·.2)

end PV.Drv
