import PV.Drv.Codec
import PV.Model.Cache
/-
  Driver op for C18: replay a run of PV.Model.Cache by the thread order of its visible (load/store) events.

  `c18vis <branch> <cache0> <calls> <order>`
     branch : `e` (epoch at the ascending node: an_time := tle.epoch) | `n` (an_time := get_last_an_time(epoch))
     cache0 : two characters, slot an_time then an_period, `_` empty / `c` canonical (`__` = fresh object)
     calls  : comma-separated, one per thread: `o<k>` get_orbit_number, `q<k>` any other query
     order  : comma-separated thread ids, one per observed load/store event, in observed order (`-` = none)
  Thread `order[k]` runs up to and including its next load/store (`visStep`); afterwards every thread runs to
  completion (`finishAll`) — a real run whose threads all returned has no event left for that phase, so extra
  events there show up as a disagreement.
  Output: `ev=<tid>:<LT+|LT-|LP+|LP-|STe|STn|SP>,... res=<D:i.t.p | D:i | R:i | U:i>,... cache=<t>/<p>`
  (values of the instance `demo`: canonical an_time 7, an_period 128; `_` = empty slot).
-/
namespace PV.Drv.C18
open PV.Drv PV.Cache

def fmtEvent : Event Nat Nat → String
  | .loadT i (some _) => s!"{i}:LT+"
  | .loadT i none => s!"{i}:LT-"
  | .loadP i (some _) => s!"{i}:LP+"
  | .loadP i none => s!"{i}:LP-"
  | .storeT i true _ => s!"{i}:STe"
  | .storeT i false _ => s!"{i}:STn"
  | .storeP i _ => s!"{i}:SP"

def fmtThread (i : Nat) (th : Thread Nat Nat Nat (Nat × Nat × Nat)) : String :=
  match th.pc with
  | .done (a, t, p) => if th.kind == .orbit then s!"D:{a}.{t}.{p}" else s!"D:{a}"
  | .raised => s!"R:{i}"
  | _ => s!"U:{i}"

def fmtSlot : Option Nat → String
  | some v => toString v
  | none => "_"

def parseCall (s : String) : Kind × Nat :=
  match s.toList with
  | 'o' :: rest => (.orbit, parseN (String.ofList rest))
  | _ :: rest => (.other, parseN (String.ofList rest))
  | [] => (.other, 0)

def parseList (s : String) : List String := if s == "-" then [] else s.splitOn ","

def parseCache (branch : Bool) (s : String) : Shared Nat Nat :=
  let t := demo.canonT branch
  let p := demo.canonP branch
  match s.toList with
  | [a, b] => ⟨if a == 'c' then some t else none, if b == 'c' then some p else none⟩
  | _ => emptyCache

def enumFrom {α : Type} : Nat → List α → List (Nat × α)
  | _, [] => []
  | n, x :: xs => (n, x) :: enumFrom (n + 1) xs

def vis : Handler
  | [br, c0, calls, order] =>
    let branch := br == "e"
    let qs := (parseList calls).map parseCall
    let s0 : State Bool Nat Nat Nat (Nat × Nat × Nat) := start branch (parseCache branch c0) qs
    let s1 := runVis demo s0 ((parseList order).map parseN)
    let s2 := finishAll demo s1
    let ev := if s2.trace.isEmpty then "-" else ",".intercalate (s2.trace.map fmtEvent)
    let res := ",".intercalate ((enumFrom 0 s2.threads).map fun (i, th) => fmtThread i th)
    s!"ev={ev} res={res} cache={fmtSlot s2.sh.anTime}/{fmtSlot s2.sh.anPeriod}"
  | _ => "bad-args"

def handlers : List (String × Handler) := [("c18vis", vis)]

end PV.Drv.C18
