import PV.Drv.Codec
import PV.NumFloat
import PV.Model.Time
import PV.Model.NodeSearch
import PV.Model.OrbitNum
namespace PV.Drv.C11
open PV.Drv PV PV.NodeSearch PV.OrbitNum

def unitOf : String → Time.Unit
  | "ns" => .ns | "us" => .us | "ms" => .ms | "s" => .s | _ => .m

def nan : Float := 0.0 / 0.0

/-- `(tick, z)` pairs as the implementation observed them → a lookup function (NaN where it never asked) -/
def parseTable : List String → List (Int × Float)
  | t :: z :: rest => (parseI t, parseF z) :: parseTable rest
  | _ => []

def lookup (tbl : List (Int × Float)) (t : Int) : Float :=
  match tbl.find? (·.1 == t) with
  | some p => p.2
  | none => nan

def errStr : Err → String
  | .stepFuel => "stepFuel" | .bisectFuel => "bisectFuel" | .unbound => "unbound"

def bool (s : String) : Bool := s == "1"

/-- `c11orbit <rev> <dt> <P> <nd> <ndd>` (floats) → float, int, tbus float, tbus int -/
def hOrbit : Handler
  | [rev, dt, p, nd, ndd] =>
    let f (tb af : Bool) : Float := orbitNumber (parseF rev) (parseF dt) (parseF p) (parseF nd) (parseF ndd) tb af
    fmtFs [f false true, f false false, f true true, f true false]
  | _ => "bad-args"

/-- `c11days <unit> <ticks> <anUs> <periodUs>` → dt in days, period in days -/
def hDays : Handler
  | [u, t, an, p] => fmtFs [(dtDays (unitOf u) (parseI t) (parseI an) : Float), (periodDays (parseI p) : Float)]
  | _ => "bad-args"

def fmtFound (t0 step : Int) (r : Except Err Found) : String :=
  match r with
  | .error e => "err " ++ errStr e
  | .ok f => "ok " ++ toString f.t ++ " " ++ toString f.steps ++ " " ++ toString f.mids.length ++ " " ++
      " ".intercalate ((f.queries t0 step).map toString)

/-- `c11an <unit> <ticks> <fuelS> <fuelB> (<tick> <z>)*` : get_last_an_time of an instant held as `ticks` of `unit`,
    the z table indexed by ticks of the search unit → `ok <t> <steps> <nmids> <queried ticks…>` | `err <kind>` -/
def hAn : Handler
  | u :: t :: fs :: fb :: rest =>
    let u := unitOf u
    let z := lookup (parseTable rest)
    fmtFound (toSearchTicks u (parseI t)) (stepTicks u) (lastAnOf z u (parseN fs) (parseN fb) (parseI t))
  | _ => "bad-args"

/-- `c11num <epochUs> <rev> <nd> <ndd> <vzEpoch> <unit> <ticks> <tbus> <asfloat> <fuelS> <fuelB> (<tick> <z>)*` :
    get_orbit_number on a fresh object → `ok <value> <anTime> <anPeriod> <queried µs ticks…>` | `err <kind> <anTime|-> <anPeriod|-> <ticks…>` -/
def hNum : Handler
  | ep :: rev :: nd :: ndd :: vz :: u :: t :: tb :: af :: fs :: fb :: rest =>
    let e : Env Float := { z := lookup (parseTable rest), vz := fun _ => parseF vz, epoch := parseI ep, rev := parseF rev,
                           nd := parseF nd, ndd := parseF ndd, fuelS := parseN fs, fuelB := parseN fb }
    let q : Query := ⟨unitOf u, parseI t, bool tb, bool af⟩
    let (r, s) := getOrbitNumber e fresh q
    let so (x : Option Int) : String := match x with | some v => toString v | none => "-"
    let qs := " ".intercalate ((initQueries e).map toString)
    match r with
    | .ok v => "ok " ++ fmtF v ++ " " ++ so s.anTime ++ " " ++ so s.anPeriod ++ " " ++ qs
    | .error er => "err " ++ errStr er ++ " " ++ so s.anTime ++ " " ++ so s.anPeriod ++ " " ++ qs
  | _ => "bad-args"

/-- `c11cross <nStart> <nEnd> <descending>` → `none` | the offset -/
def hCross : Handler
  | [a, b, d] =>
    match crossingOffset (parseF a) (parseF b) (bool d) with
    | none => "none"
    | some o => fmtF o
  | _ => "bad-args"

def handlers : List (String × Handler) :=
  [("c11orbit", hOrbit), ("c11days", hDays), ("c11an", hAn), ("c11num", hNum), ("c11cross", hCross)]

end PV.Drv.C11
