/-
  Driver handler for C19:
    c19 <instrument> <lines|scans> <point> <point> ...
  → "<L> <P> | <row 0: L·P angles> | <row 1: L·P angles> | <L·P times in integer ns>"
  angles as binary64 hex, times as decimal integers (the Float reading of `timesNs`).
  For olci / slstr_nadir only the number of points matters (they resample).
-/
import PV.Drv.Codec
import PV.NumFloat
import PV.Model.Instruments
namespace PV.Drv.C19
open PV.Drv PV PV.Instr

def instOf : String → Option Inst
  | "avhrr" => some .avhrr | "avhrr_gac" => some .avhrrGac | "amsua" => some .amsua | "mhs" => some .mhs
  | "hirs4" => some .hirs4 | "atms" => some .atms | "mwhs2" => some .mwhs2 | "ascat" => some .ascat
  | _ => none

def fmtRow (r : List (List Float)) : String := " ".intercalate (r.map fmtFs)
def fmtNs (r : List (List Float)) : String :=
  " ".intercalate (r.map fun l => " ".intercalate (l.map fun x => toString x.toInt64))

def render (f : List (List (List Float))) (t : List (List Float)) : String :=
  let L := t.length
  let P := (t.head?.map List.length).getD 0
  toString L ++ " " ++ toString P ++ " | " ++ " | ".intercalate (f.map fmtRow) ++ " | " ++ fmtNs t

def hC19 : Handler
  | name :: lines :: pts =>
    let n := parseN lines
    let ps := pts.map parseN
    match name with
    | "viirs" => render (viirsFovs n ps) (viirsTimesNs n ps)
    | "olci" => render (resampFovs .olci n ps) (resampTimesNs .olci n ps)
    | "slstr_nadir" => render (resampFovs .slstr n ps) (resampTimesNs .slstr n ps)
    | _ =>
      match instOf name with
      | some i => render (fovs i n ps) (timesNs i n ps)
      | none => "bad-instrument"
  | _ => "bad-args"

def handlers : List (String × Handler) := [("c19", hC19)]

end PV.Drv.C19
