import PV.Drv.Codec
import PV.Model.Db
/-
  Driver for the TLE-archive model (C15).

  `c15 P <sat> <name> P <sat> <name> … ; <op> ; <op> ; …`    (one history per line)
     ops:  U <sat> <y> <mo> <d> <h> <mi> <s> <us> <line1> <line2> <source>
           C <k> <sat> <y> <mo> <d> <h> <mi> <s> <us> <line1> <line2> <source>
           E <writeAlways 0|1> <writeName 0|1>
           R
  →  `O <out>… T <ntables> {<sat> <nrows> {<epoch> <tle> <source>}…}… N (- | <n> {<sat> <name>}…)`
     out per op: status letter (d done, x raised, n nothing written, f file) + updated flag (0/1) [+ `:`file text hex]
  Strings travel as hex (Codec).
-/
namespace PV.Drv.C15
open PV.Drv PV.Db

def splitOnTok (sep : String) : List String → List (List String)
  | [] => [[]]
  | t :: ts =>
    match splitOnTok sep ts with
    | [] => [[t]]
    | g :: gs => if t == sep then [] :: g :: gs else (t :: g) :: gs

def pS (s : String) : List Char := (parseS s).toList
def fS (l : List Char) : String := fmtS (String.ofList l)

def parseCfg : List String → List (Nat × List Char)
  | "P" :: sat :: name :: rest => (parseN sat, pS name) :: parseCfg rest
  | _ => []

def parseOp : List String → Option Op
  | ["U", sat, y, mo, d, h, mi, s, us, l1, l2, src] =>
    some (.update (parseN sat) ⟨parseN y, parseN mo, parseN d, parseN h, parseN mi, parseN s, parseN us⟩ (pS l1) (pS l2) (pS src))
  | ["C", k, sat, y, mo, d, h, mi, s, us, l1, l2, src] =>
    some (.crashedUpdate (parseN k) (parseN sat) ⟨parseN y, parseN mo, parseN d, parseN h, parseN mi, parseN s, parseN us⟩
      (pS l1) (pS l2) (pS src))
  | ["E", wa, wn] => some (.export (wa == "1") (wn == "1"))
  | ["R"] => some .reopen
  | _ => none

def fmtOut (r : Conn × Out) : String :=
  let u := if r.1.updated then "1" else "0"
  match r.2 with
  | .done => "d" ++ u
  | .raised => "x" ++ u
  | .nothing => "n" ++ u
  | .file data => "f" ++ u ++ ":" ++ fS (fileText data)

def fmtDb (db : Db) : String :=
  let tabs := db.tables.map fun (sat, rows) =>
    " ".intercalate ([toString sat, toString rows.length] ++ rows.flatMap fun r => [fS r.epoch, fS r.tle, fS r.source])
  let names := match db.names with
    | none => "-"
    | some ns => " ".intercalate (toString ns.length :: ns.flatMap fun (sat, n) => [toString sat, fS n])
  " ".intercalate (["T", toString db.tables.length] ++ tabs ++ ["N", names])

def history : Handler := fun args =>
  match splitOnTok ";" args with
  | [] => "bad-args"
  | cfgToks :: opToks =>
    let cfg : Cfg := ⟨parseCfg cfgToks⟩
    match opToks.mapM parseOp with
    | none => "bad-op-args"
    | some ops =>
      let tr := trace cfg init ops
      let final := run cfg ops
      " ".intercalate (["O"] ++ tr.map fmtOut ++ [fmtDb final.db])

/-- `c15iso y mo d h mi s us` → isoformat text (hex) -/
def isoH : Handler
  | [y, mo, d, h, mi, s, us] => fS (iso ⟨parseN y, parseN mo, parseN d, parseN h, parseN mi, parseN s, parseN us⟩)
  | _ => "bad-args"

def handlers : List (String × Handler) := [("c15", history), ("c15iso", isoH)]

end PV.Drv.C15
