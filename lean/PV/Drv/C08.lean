import PV.Drv.Codec
import PV.Model.Kinds
import PV.Model.Joint
namespace PV.Drv.C08
open PV.Drv PV.Kinds

def dtStr : DT → String
  | .f32 => "float32"
  | .f64 => "float64"
  | .i64 => "int64"

def errStr : Err → String
  | .attributeError => "error:AttributeError"
  | .typeError => "error:TypeError"

def parseDT : String → Option DT
  | "f32" => some .f32 | "float32" => some .f32
  | "f64" => some .f64 | "float64" => some .f64
  | "i64" => some .i64 | "int64" => some .i64
  | _ => none

def parseFn : String → Option Fn
  | "sun_zenith_angle" => some .sunZenithAngle
  | "cos_zen" => some .cosZen
  | "get_alt_az" => some .getAltAz
  | "observer_position" => some .observerPosition
  | "gmst" => some .gmst
  | "jdays" => some .jdays
  | _ => none

def parseTK : String → Option TK
  | "datetime" => some .datetime
  | "dt64ns" => some (.dt64 .ns)
  | "dt64us" => some (.dt64 .us)
  | "dt64ms" => some (.dt64 .ms)
  | "dt64s" => some (.dt64 .s)
  | "dt64m" => some (.dt64 .m)
  | "objarr1" => some (.objarr .r1)
  | "objarr2" => some (.objarr .r2)
  | "dtarr1" => some (.dtarr .r1)
  | "dtarr2" => some (.dtarr .r2)
  | _ => none

def parseRk : String → Option Rk
  | "0" => some .r0 | "1" => some .r1 | "2" => some .r2 | _ => none

/-- `pyint`, `pyfloat`, `npf32`, `arr1_f64`, `dask2_i64`, ... -/
def parseCK (s : String) : Option CK :=
  match s with
  | "pyint" => some .pyint
  | "pyfloat" => some .pyfloat
  | "npf32" => some (.nps .f32)
  | "npf64" => some (.nps .f64)
  | "npi64" => some (.nps .i64)
  | _ =>
    match s.splitOn "_" with
    | [a, d] =>
      if a.startsWith "arr" then do
        let r ← parseRk (a.drop 3).toString
        let d ← parseDT d
        pure (.arr d r)
      else if a.startsWith "dask" then do
        let r ← parseRk (a.drop 4).toString
        let d ← parseDT d
        pure (.dask d r)
      else none
    | _ => none

/-- rendering of a returned value, as harness/props/c08.py `descr` renders the real one -/
def avStr : AV → String
  | .pyint => "pyscalar:int:0"
  | .pyfloat => "pyscalar:float64:0"
  | .np d => "scalar:" ++ dtStr d ++ ":0"
  | .nd d r => "ndarray:" ++ dtStr d ++ ":" ++ toString r
  | .da d r => "dask:" ++ dtStr d ++ ":" ++ toString r
  | .err e => errStr e

def guardStr : Guard → String
  | .skip => "skip"
  | .cast _ => "cast"
  | .fail _ => "fail"

def outStr (o : Out) : String :=
  match firstErr o.vals with
  | some e => errStr e
  | none =>
    let a := match o.dt2np with | .direct => "direct" | .astypeNs => "astype"
    let b := match o.days with | .direct => "direct" | .split => "split"
    let g := if o.guards.isEmpty then "-" else ",".intercalate (o.guards.map guardStr)
    a ++ "/" ++ b ++ " " ++ g ++ " " ++ " ".intercalate (o.vals.map avStr)

/-- `c08kind <fn> <timekind> <coordkind>` → branches taken, guards, descriptors of the results -/
def hKind : Handler
  | [f, t, c] =>
    match parseFn f, parseTK t, parseCK c with
    | some f, some t, some c => outStr (run f t c)
    | _, _, _ => "bad-args"
  | _ => "bad-args"

/-- abstract value tokens of `c08op`: `pyint`, `pyfloat`, `np:float32`, `nd:int64:1`, `da:float64:2` -/
def parseAV (s : String) : Option AV :=
  match s.splitOn ":" with
  | ["pyint"] => some .pyint
  | ["pyfloat"] => some .pyfloat
  | ["np", d] => (parseDT d).map .np
  | ["nd", d, r] => (parseDT d).map fun d => .nd d (parseN r)
  | ["da", d, r] => (parseDT d).map fun d => .da d (parseN r)
  | _ => none

def avTok : AV → String
  | .pyint => "pyint"
  | .pyfloat => "pyfloat"
  | .np d => "np:" ++ dtStr d
  | .nd d r => "nd:" ++ dtStr d ++ ":" ++ toString r
  | .da d r => "da:" ++ dtStr d ++ ":" ++ toString r
  | .err e => errStr e

/-- `c08op <op> <a> [<b>]`: one transfer function of the abstract domain -/
def hOp : Handler
  | [op, a] =>
    match parseAV a with
    | none => "bad-args"
    | some a =>
      match op with
      | "ufl" => avTok (ufl a)
      | "neg" => avTok (neg a)
      | "isfloat" => if isFloat a then "true" else "false"
      | "dtype" => match dtypeOf a with | .ok d => dtStr d | .error e => errStr e
      | "astype32" => avTok (astype .f32 a)
      | "astype64" => avTok (astype .f64 a)
      | "sibling" => avTok (floatToSibling a)
      | _ => "bad-op"
  | [op, a, b] =>
    match parseAV a, parseAV b with
    | some a, some b =>
      match op with
      | "arith" => avTok (arith a b)
      | "tdiv" => avTok (tdiv a b)
      | "ufl2" => avTok (ufl2 a b)
      | _ => "bad-op"
    | _, _ => "bad-args"
  | _ => "bad-args"

/-- `c08joint <fuel> <thr> <mode> <x1> ... <xn>`: the joint do-while loop of `PV.Joint` run on the toy
    contraction x ↦ x / 2 (integers; a negative start value is a stuck, NaN-like element that never
    passes the test), exit test |x' - x| < thr; mode `u` = unrepaired `np.all(conv)`, `r` = repaired
    `np.all(conv | stuck)`.  Output: `<steps> <values>` or `none`. -/
def hJoint : Handler
  | fuel :: thr :: mode :: xs =>
    let thr := parseI thr
    let start := xs.map parseI
    let idx := List.range start.length
    let S : Nat → Int := fun i => start.getD i 0
    let f : Int → Int := fun x => if x < 0 then x else x / 2
    let stuck : Int → Bool := fun x => x < 0
    let conv : Int → Int → Bool := fun a b => !(stuck b) && decide ((a - b).natAbs < thr.toNat)
    let test : Int → Int → Bool := if mode == "r" then fun a b => conv a b || stuck b else conv
    match PV.Joint.jointDoWhile idx f test (parseN fuel) S with
    | none => "none"
    | some (n, R) => toString n ++ " " ++ " ".intercalate (idx.map fun i => toString (R i))
  | _ => "bad-args"

def handlers : List (String × Handler) := [("c08kind", hKind), ("c08op", hOp), ("c08joint", hJoint)]

end PV.Drv.C08
