import PV.Drv.Codec
import PV.Drv.C09
import PV.Model.Checksum
import PV.Model.TleParse
namespace PV.Drv.C02
open PV.Drv PV.Text PV.TleParse

def fS (s : List Char) : String := fmtS (String.ofList s)
def fD (d : Dec) : String := s!"{d.mant} {d.exp}"

def errStr : Err → String
  | .valueError => "valueError"
  | .indexError => "indexError"
  | .outOfModel => "outOfModel"
  | .badTable => "badTable"

def fmtTle (t : Tle) : String :=
  " ".intercalate [
    fS t.satnumber, fS t.classification, fS t.id_launch_year, fS t.id_launch_number, fS t.id_launch_piece,
    fS t.epoch_year, fD t.epoch_day, fD t.mean_motion_derivative, fD t.mean_motion_sec_derivative, fD t.bstar,
    toString t.ephemeris_type, toString t.element_number, fD t.inclination, fD t.right_ascension,
    fD t.excentricity, fD t.arg_perigee, fD t.mean_anomaly, fD t.mean_motion, toString t.orbit,
    toString t.epochUs]

/-- `c02 <l1> <l2>` → `Tle(line1=, line2=)`: strip, checksum, parse with the generated column table.
    `ok <stored l1> <stored l2> <19 attributes> <epoch µs>` | `err <class>` (parser) | `rej <class>` (checksum stage) -/
def c02 : Handler
  | [a, b] =>
    let l1 := (parseS a).toList
    let l2 := (parseS b).toList
    match PV.Checksum.tleOfLines (fun x y => (x, y, parse PV.Gen.tleColumns x y)) l1 l2 with
    | .error o => "rej " ++ PV.Drv.C09.outcomeStr o
    | .ok (s1, s2, .ok t) => "ok " ++ fS s1 ++ " " ++ fS s2 ++ " " ++ fmtTle t
    | .ok (_, _, .error e) => "err " ++ errStr e
  | _ => "bad-args"

/-- `c02epoch <yy hex> <mant> <exp>` → the epoch rule alone: `<µs>` | `err <class>` -/
def c02epoch : Handler
  | [y, m, e] =>
    match epochOf (parseS y).toList ⟨parseI m, parseI e⟩ with
    | .ok v => toString v
    | .error er => "err " ++ errStr er
  | _ => "bad-args"

def handlers : List (String × Handler) := [("c02", c02), ("c02epoch", c02epoch)]

end PV.Drv.C02
