import PV.Drv.Codec
import PV.NumFloat
import PV.Model.Astro
import PV.Model.Time
import PV.Model.Look
import PV.Model.Geoloc
namespace PV.Drv.Numeric
open PV.Drv PV

def unitOf : String → Time.Unit
  | "ns" => .ns | "us" => .us | "ms" => .ms | "s" => .s | _ => .m

def v3 (a b c : String) : V3 Float := ⟨parseF a, parseF b, parseF c⟩
def fmtV (v : V3 Float) : String := fmtFs [v.x, v.y, v.z]

def hGmst : Handler
  | [d] => fmtFs [Astro.gmst (parseF d), Astro.gmstTheta (parseF d), Astro.jdays (parseF d)]
  | _ => "bad-args"

def hJd : Handler
  | [u, t] => fmtF (Time.jdays2000 (unitOf u) (parseI t) : Float)
  | _ => "bad-args"

def hTsince : Handler
  | [u, t, e] => fmtF (Time.tsinceMinutes (unitOf u) (parseI t) (parseI e) : Float)
  | _ => "bad-args"

def hCivil : Handler
  | [y, m, d] => toString (Time.daysFromCivil (parseI y) (parseN m) (parseN d)) ++ " " ++
                 toString (Time.jdnFVF (parseI y) (parseN m) (parseN d))
  | _ => "bad-args"

def hSun : Handler
  | [d, lon, lat] =>
    let d := parseF d; let lon := parseF lon; let lat := parseF lat
    let (ra, dec) := Astro.sunRaDec d
    let (alt, az) := Astro.altAz d lon lat
    fmtFs [Astro.sunEclipticLongitude d, ra, dec, Astro.cosZen d lon lat, Astro.sunZenithAngle d lon lat, alt, az,
           Astro.sunEarthDistanceCorrection d, Astro.obliquity d, Astro.sunMeanAnomaly d]
  | _ => "bad-args"

def hObs : Handler
  | [d, lon, lat, alt] =>
    let (p, v) := Astro.observerPosition (parseF d) (parseF lon) (parseF lat) (parseF alt)
    fmtV p ++ " " ++ fmtV v
  | _ => "bad-args"

def hLookMod : Handler
  | [d, sl, sa, sh, lon, lat, alt] =>
    let (az, el) := Look.lookModule (parseF d) (parseF sl) (parseF sa) (parseF sh) (parseF lon) (parseF lat) (parseF alt)
    fmtFs [az, el]
  | _ => "bad-args"

def hLookMeth : Handler
  | [d, px, py, pz, lon, lat, alt] =>
    let d := parseF d
    let pos := v3 px py pz
    let (az, el) := Look.lookMethodOfPos d pos (parseF lon) (parseF lat) (parseF alt)
    let o := (Astro.observerPosition d (parseF lon) (parseF lat) (parseF alt)).1
    let t := Look.topo d (Num.deg2rad (parseF lon)) (Num.deg2rad (parseF lat)) (V3.sub pos o)
    fmtFs [az, el, t.s, t.e, t.z]
  | _ => "bad-args"

def hLla : Handler
  | [d, px, py, pz] =>
    match Look.lonLatAlt (parseF d) (v3 px py pz) with
    | some (lon, lat, alt, n) => fmtFs [lon, lat, alt] ++ " " ++ toString n
    | none => "diverged"
  | _ => "bad-args"

def hLlaKm : Handler
  | [d, px, py, pz] =>
    match Look.lonLatAltKm (parseF d) (v3 px py pz) with
    | some (lon, lat, alt, n) => fmtFs [lon, lat, alt] ++ " " ++ toString n
    | none => "diverged"
  | _ => "bad-args"

def hQrot : Handler
  | [vx, vy, vz, ax, ay, az, ang] => fmtV (Geoloc.qrotate (v3 vx vy vz) (v3 ax ay az) (parseF ang))
  | _ => "bad-args"

def hGeodLat : Handler
  | [px, py, pz, a, b] =>
    match Geoloc.geodeticLat (v3 px py pz) (parseF a) (parseF b) with
    | some (lat, n) => fmtF lat ++ " " ++ toString n
    | none => "diverged"
  | _ => "bad-args"

def hSubpoint : Handler
  | [px, py, pz, a, b] =>
    match Geoloc.subpoint (v3 px py pz) (parseF a) (parseF b) with
    | some p => fmtV p
    | none => "diverged"
  | _ => "bad-args"

def hView : Handler
  | [px, py, pz, vx, vy, vz, fx, fy, r, p, y] =>
    match Geoloc.viewVector (v3 px py pz) (v3 vx vy vz) (parseF fx) (parseF fy) (parseF r) (parseF p) (parseF y) with
    | some v => fmtV v
    | none => "diverged"
  | _ => "bad-args"

def hHit : Handler
  | [px, py, pz, vx, vy, vz] =>
    let h := Geoloc.intersect (v3 px py pz) (v3 vx vy vz)
    fmtFs [h.ldotc, h.lsq, h.csq, h.disc, h.d1] ++ " " ++ fmtV h.pixel
  | _ => "bad-args"

def handlers : List (String × Handler) :=
  [("gmst", hGmst), ("jd", hJd), ("tsince", hTsince), ("civil", hCivil), ("sun", hSun), ("obs", hObs),
   ("lookmod", hLookMod), ("lookmeth", hLookMeth), ("lla", hLla), ("llakm", hLlaKm), ("qrot", hQrot),
   ("geodlat", hGeodLat), ("subpoint", hSubpoint), ("view", hView), ("hit", hHit)]

end PV.Drv.Numeric
