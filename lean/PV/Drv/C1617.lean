import PV.Drv.Codec
import PV.Model.Sources
import PV.Model.Download
/-!
  Driver handlers of C16 / C17.

  `c16 <l1> <l2> <tf> <tles> <cfg> <ppp>`
     l1,l2,ppp : 0|1          tf : n | e | s | p:<hexpath> | x:<hexpath>
     tles : u | e | g | g:<hexpath>=<ctime>,<hexpath>=<ctime>,…   (glob order; ctime a decimal Nat)
     cfg : u | f | d
     → `<source> <registry>`, source = lines | stream | network | error | path:<hex> | xml:<hex> | newest:<hex>

  `c17 <src> …`, src = `<name>=<uri>:<out>,<uri>:<out>,…`, out = `T` | `<status>~N` | `<status>~<id>.<id>…`
     → `dict <name>=<id>.<id>;<name>=;…` or `timeout <uri>`
  `c17st <login> <query> <body>`, body = `N` | `-` | `<id>.<id>…` → `<ids or -> <req,req>`
-/
namespace PV.Drv.C1617
open PV.Drv

def splitNonEmpty (s : String) (sep : String) : List String := (s.splitOn sep).filter (· ≠ "")

/-! ### C16 -/
open PV.Sources in
def parseTf (s : String) : TleFile :=
  if s == "n" then .none else if s == "e" then .falsy else if s == "s" then .stringIO
  else match s.splitOn ":" with
    | ["p", h] => .path (parseS h)
    | ["x", h] => .adminXml (parseS h)
    | _ => .none

open PV.Sources in
def parseTles (s : String) : TlesEnv :=
  if s == "u" then .unset else if s == "e" then .emptyString else if s == "g" then .glob []
  else match s.splitOn ":" with
    | ["g", body] =>
      .glob ((splitNonEmpty body ",").map fun item =>
        match item.splitOn "=" with
        | [h, ct] => (parseS h, parseN ct)
        | _ => ("", 0))
    | _ => .unset

open PV.Sources in
def parseCfg (s : String) : CfgPathEnv :=
  if s == "f" then .dirWithFile else if s == "d" then .dirWithout else .unset

open PV.Sources in
def fmtSource : Source → String
  | .lines => "lines"
  | .stream => "stream"
  | .xml p => "xml:" ++ fmtS p
  | .path p => "path:" ++ fmtS p
  | .newestByCtime p => "newest:" ++ fmtS p
  | .network => "network"
  | .error => "error"

open PV.Sources in
def c16 : Handler
  | [l1, l2, tf, tles, cfg, ppp] =>
    let c : Config := ⟨l1 == "1", l2 == "1", parseTf tf, parseTles tles, parseCfg cfg, ppp == "1"⟩
    fmtSource (choose c) ++ " " ++ (match registryFrom c with | .packaged => "packaged" | .custom => "custom")
  | _ => "bad-args"

/-! ### C17 -/
open PV.Download in
def parseBody (s : String) : Body Nat :=
  if s == "N" then .nonTle else .tles ((splitNonEmpty s ".").map parseN)

open PV.Download in
def parseOutcome (s : String) : Outcome Nat :=
  if s == "T" then .timeout
  else match s.splitOn "~" with
    | [st, b] => .resp (parseN st) (parseBody b)
    | _ => .timeout

open PV.Download in
def parseSource (s : String) : String × List (String × Outcome Nat) :=
  match s.splitOn "=" with
  | [name, body] =>
    (name, (splitNonEmpty body ",").map fun item =>
      match item.splitOn ":" with
      | [u, o] => (u, parseOutcome o)
      | _ => ("?", .timeout))
  | _ => (s, [])

def fmtIds (es : List Nat) : String := ".".intercalate (es.map toString)

open PV.Download in
def c17 : Handler := fun args =>
  match fetchPlain (args.map parseSource) with
  | .dict d => "dict " ++ ";".intercalate (d.map fun p => p.1 ++ "=" ++ fmtIds p.2)
  | .timeoutError u => "timeout " ++ u

open PV.Download in
def c17st : Handler
  | [login, query, body] =>
    let b := if body == "-" then Body.tles [] else parseBody body
    let r := fetchSpacetrack (parseN login) (parseN query) b
    (if r.1.isEmpty then "-" else fmtIds r.1) ++ " " ++
      ",".intercalate (r.2.map fun q => match q with | .login => "login" | .query => "query")
  | _ => "bad-args"

def handlers : List (String × Handler) := [("c16", c16), ("c17", c17), ("c17st", c17st)]

end PV.Drv.C1617
