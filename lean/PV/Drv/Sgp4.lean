import PV.Drv.Codec
import PV.NumFloat
import PV.Model.Sgp4
import PV.Spec.Str3
namespace PV.Drv.Sgp4
open PV.Drv PV.Sgp4

def kv (n : String) (x : Float) : String := n ++ "=" ++ fmtF x

def initErrStr : InitErr → String
  | .eccRange => "eccRange" | .mmRange => "mmRange" | .inclRange => "inclRange" | .deepSpace => "deepSpace"
def propErrStr : PropErr → String
  | .notImplemented => "notImplemented" | .crashedA => "crashedA" | .eccLow => "eccLow"
  | .elsqGe1 => "elsqGe1" | .crashedRk => "crashedRk"

def dumpElements (e : Elements Float) : List String :=
  [kv "eo" e.eo, kv "xincl" e.xincl, kv "xnodeo" e.xnodeo, kv "omegao" e.omegao, kv "xmo" e.xmo, kv "xn_0" e.xn_0,
   kv "xno" e.xno, kv "bstar" e.bstar, kv "oe_sma" e.sma, kv "oe_period" e.period, kv "oe_perigee" e.perigee]

def dumpParams (p : Params Float) : List String :=
  ["mode=" ++ (if p.mode == .nearNorm then "nearNorm" else "nearSimp"),
   kv "cosIO" p.cosIO, kv "sinIO" p.sinIO, kv "x3thm1" p.x3thm1, kv "x1mth2" p.x1mth2, kv "x7thm1" p.x7thm1,
   kv "xnodp" p.xnodp, kv "aodp" p.aodp, kv "perigee" p.perigee, kv "apogee" p.apogee, kv "period" p.period,
   kv "betao" p.betao, kv "betao2" p.betao2, kv "eta" p.eta,
   kv "c1" p.c1, kv "c2" p.c2, kv "c3" p.c3, kv "c4" p.c4, kv "c5" p.c5, kv "omgcof" p.omgcof,
   kv "xmdot" p.xmdot, kv "omgdot" p.omgdot, kv "xnodot" p.xnodot, kv "xhdot1" p.xhdot1, kv "xmcof" p.xmcof,
   kv "xnodcf" p.xnodcf, kv "t2cof" p.t2cof, kv "xlcof" p.xlcof, kv "aycof" p.aycof, kv "cosXMO" p.cosXMO,
   kv "sinXMO" p.sinXMO, kv "delmo" p.delmo, kv "d2" p.d2, kv "d3" p.d3, kv "d4" p.d4, kv "t3cof" p.t3cof,
   kv "t4cof" p.t4cof, kv "t5cof" p.t5cof]

def dumpKep (k : Kep Float) : List String :=
  [kv "ecc" k.ecc, kv "radius" k.radius, kv "theta" k.theta, kv "eqinc" k.eqinc, kv "ascn" k.ascn, kv "argp" k.argp,
   kv "smjaxs" k.smjaxs, kv "rdotk" k.rdotk, kv "rfdotk" k.rfdotk, kv "xmp" k.xmp, kv "xnode" k.xnode,
   kv "tempe" k.tempe, kv "templ" k.templ, kv "a" k.a, kv "e" k.e, kv "axn" k.axn, kv "ayn" k.ayn, kv "xlt" k.xlt,
   kv "capu" k.capu, kv "epw" k.epw, "nrIters=" ++ toString k.nrIters, kv "elsq" k.elsq, kv "pl" k.pl, kv "r" k.r,
   kv "u" k.u, kv "rk" k.rk]

def tleOf : List String → Option (TleNum Float × List String)
  | e :: i :: ra :: ap :: ma :: mm :: bs :: rest =>
    some ({ excentricity := parseF e, inclination := parseF i, right_ascension := parseF ra, arg_perigee := parseF ap,
            mean_anomaly := parseF ma, mean_motion := parseF mm, bstar := parseF bs }, rest)
  | _ => none

/-- `sgp4 e incl raan argp M mm bstar normalize(0|1) force(0|1) ts...`
    force=1 evaluates `calculate` even in NEAR_SIMP mode (the simplified-drag branch the statement mentions) -/
def sgp4 : Handler := fun args =>
  match tleOf args with
  | none => "bad-args"
  | some (t, rest) =>
    match rest with
    | norm :: force :: tss =>
      match elementsChecked t with
      | .error err => "init=" ++ initErrStr err
      | .ok el =>
      let head := dumpElements el
      match init el with
      | .error err => " ".intercalate (head ++ ["init=" ++ initErrStr err])
      | .ok p =>
        let per (s : String) : String :=
          let ts := parseF s
          let res := if force == "1" then calculate p ts else propagate p ts
          match res with
          | .error e => "| prop=" ++ propErrStr e
          | .ok k =>
            let (pos, vel) := kep2xyz k
            let (pos, vel) := if norm == "1" then
                (match getPosition p ts true with | .ok pv => pv | .error _ => (pos, vel)) else (pos, vel)
            "| prop=ok " ++ " ".intercalate (dumpKep k ++
              [kv "px" pos.x, kv "py" pos.y, kv "pz" pos.z, kv "vx" vel.x, kv "vy" vel.y, kv "vz" vel.z])
        " ".intercalate (head ++ ["init=ok"] ++ dumpParams p ++ tss.map per)
    | _ => "bad-args"

/-- `str3 e incl raan argp M mm bstar ts...` → the published model (Spec.Str3) executed on Float:
    per ts `px py pz vx vy vz a/a0 isimp`, after `perigee period` -/
def str3 : Handler := fun args =>
  match tleOf args with
  | none => "bad-args"
  | some (t, tss) =>
    let d2r (x : Float) : Float := x * (3.141592653589793 / 180.0)
    let l : Str3.El Float :=
      { xno := t.mean_motion * (2.0 * 3.141592653589793 / 1440.0), eo := t.excentricity, xincl := d2r t.inclination,
        omegao := d2r t.arg_perigee, xmo := d2r t.mean_anomaly, xnodeo := d2r t.right_ascension, bstar := t.bstar }
    let per (s : String) : String :=
      let (p, v, ratio, simp) := Str3.sgp4 l (parseF s)
      let (a, e0, elsq, rk) := Str3.decay l (parseF s)
      "| " ++ fmtFs [p.x, p.y, p.z, v.x, v.y, v.z, ratio] ++ (if simp then " 1 " else " 0 ") ++ fmtFs [a, e0, elsq, rk]
    let r := Str3.recover l
    " ".intercalate ([fmtF (Str3.perigeeKm l), fmtF (Str3.periodMin l), fmtF r.aodp, fmtF r.xnodp] ++ tss.map per)

def handlers : List (String × Handler) := [("sgp4", sgp4), ("str3", str3)]
end PV.Drv.Sgp4
