import PV.Drv.Codec
import PV.Model.Collection
namespace PV.Drv.C10
open PV.Drv PV.Collection

def ls (s : String) : List Char := (parseS s).toList
def hx (l : List Char) : String := fmtS (String.ofList l)

def readStr : ReadOutcome → String
  | .tle a b => "tle " ++ hx a ++ " " ++ hx b
  | .keyError => "keyerror"
  | .stopIteration => "stopiteration"
  | .logKeyError => "logkeyerror"

def pairsStr (ps : List (Line × Line)) : String :=
  " ".intercalate ("ok" :: ps.flatMap fun p => [hx p.1, hx p.2])

/-- `c10first <platform> <regid|-> <isStream> <line>...`: `Tle(platform, tle_file=…)._read_tle()`;
    the platform is given as typed by the caller (normalised here), `-` = the name is not registered -/
def first : Handler
  | p :: rid :: st :: lines =>
    let plat := normPlatform (ls p)
    let reg : Line → Option Line := fun n => if rid == "-" then none else if n = plat then some (ls rid) else none
    readStr (readTle { platform := plat, reg := reg, dummy := st == "1" } (lines.map ls))
  | _ => "bad-args"

/-- `c10all <line>...`: `_get_tles_from_uris((src,), …, platform="", only_first=False)` -/
def all : Handler := fun lines =>
  match allTles false (lines.map ls) with
  | .ok ps => pairsStr ps
  | .stopIteration => "stopiteration"
  | .logKeyError => "logkeyerror"

def firstBad : List ReadOutcome → Option ReadOutcome
  | [] => none
  | .tle _ _ :: t => firstBad t
  | o :: _ => some o

def tlesOf : List ReadOutcome → List (Line × Line)
  | [] => []
  | .tle a b :: t => (a, b) :: tlesOf t
  | _ :: t => tlesOf t

def rereadAll (ps : List (Line × Line)) : String :=
  let rs := ps.map reread
  match firstBad rs with
  | some o => readStr o
  | none => pairsStr (tlesOf rs)

/-- `c10bulk <line>...`: `_parse_tles_for_downloader((src,), open)` up to `_read_tle` of every element -/
def bulk : Handler := fun lines =>
  match allTles false (lines.map ls) with
  | .ok ps => rereadAll ps
  | .stopIteration => "stopiteration"
  | .logKeyError => "logkeyerror"

/-- `c10xml <text>...` (line-1, line-2 texts alternating): `read_tles_from_mmam_xml_files([f])` up to `_read_tle` -/
def xml : Handler := fun ts =>
  let rec pairs : List String → List (Line × Line)
    | a :: b :: t => (ls a, ls b) :: pairs t
    | _ => []
  let rs := xmlBulk (pairs ts)
  match firstBad rs with
  | some o => readStr o
  | none => pairsStr (tlesOf rs)

/-- `c10plat <inUpper> <row>...`: items of `read_platform_numbers` in dict order -/
def plat : Handler
  | u :: rows => pairsStr (readPlatformNumbers (u == "1") (rows.map ls))
  | _ => "bad-args"

def handlers : List (String × Handler) :=
  [("c10first", first), ("c10all", all), ("c10bulk", bulk), ("c10xml", xml), ("c10plat", plat)]

end PV.Drv.C10
