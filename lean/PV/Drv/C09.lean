import PV.Drv.Codec
import PV.Model.Checksum
namespace PV.Drv.C09
open PV.Drv PV.Checksum

def outcomeStr : Outcome → String
  | .accepted => "accepted"
  | .checksumError => "checksumError"
  | .valueError => "valueError"
  | .indexError => "indexError"

/-- `c09 <l1> <l2>` → outcome of read+checksum on the two given lines -/
def accept : Handler
  | [a, b] => outcomeStr (PV.Checksum.accept (parseS a).toList (parseS b).toList)
  | _ => "bad-args"

/-- `c09table <l1> <l2> <lo> <hi>`: the complete single-character corruption table: for line ∈ {1,2}, position i,
    replacement char code c ∈ [lo,hi], one letter per case (a accepted, c checksumError, v valueError, i indexError) -/
def table : Handler
  | [a, b, lo, hi] =>
    let l1 := (parseS a).toList
    let l2 := (parseS b).toList
    let lo := parseN lo
    let hi := parseN hi
    let codes := (List.range (hi - lo + 1)).map (· + lo)
    let letter : Outcome → Char
      | .accepted => 'a' | .checksumError => 'c' | .valueError => 'v' | .indexError => 'i'
    let row (which : Nat) : List Char :=
      let l := if which == 1 then l1 else l2
      (List.range l.length).flatMap fun i =>
        codes.map fun c =>
          let l' := l.set i (Char.ofNat c)
          letter (if which == 1 then PV.Checksum.accept l' l2 else PV.Checksum.accept l1 l')
    String.ofList (row 1 ++ row 2)
  | _ => "bad-args"

def handlers : List (String × Handler) := [("c09", accept), ("c09table", table)]

end PV.Drv.C09
