/-
  PV.Num — the small numeric signature every numeric model is written against.

  One model, several readings:
    * `Float`  (PV/NumFloat.lean)  — executed by the correspondence driver,
    * `ℝ`      (PV/NumReal.lean)   — what the theorems are about (needs Mathlib),
  The class deliberately contains only the operations pyorbital's numeric code
  uses (numpy ufuncs on float64).  No Mathlib import here.
-/
namespace PV

class Num (α : Type) extends Add α, Sub α, Mul α, Div α, Neg α where
  /-- integer literal -/
  ofNat : Nat → α
  /-- decimal literal `m * 10^(±e)` exactly as written in the source text -/
  ofSci : Nat → Bool → Nat → α
  sqrt : α → α
  sin : α → α
  cos : α → α
  tan : α → α
  asin : α → α
  acos : α → α
  atan : α → α
  /-- `atan2 y x` (numpy argument order) -/
  atan2 : α → α → α
  abs : α → α
  floor : α → α
  /-- `np.sign` -/
  sign : α → α
  /-- real power `x ** y` for non-integer exponents (`psisq ** 3.5`, `(…) ** (2/3)`) -/
  rpow : α → α → α
  /-- C `fmod` (result has the sign of the dividend): `np.fmod` -/
  fmod : α → α → α
  /-- Python / numpy `%` (result has the sign of the divisor) -/
  pymod : α → α → α
  pi : α
  /-- `a < b` as numpy evaluates it (false when either side is NaN) -/
  lt : α → α → Bool
  /-- `a <= b` -/
  le : α → α → Bool

instance (priority := low) instOfNatNum {α : Type} [Num α] {n : Nat} : OfNat α n := ⟨Num.ofNat n⟩
instance (priority := low) instOfScientificNum {α : Type} [Num α] : OfScientific α := ⟨Num.ofSci⟩

namespace Num
variable {α : Type} [Num α]

/-- `x ** 2` (numpy squares exactly) -/
@[inline] def sq (x : α) : α := x * x
/-- `x ** 3` -/
@[inline] def cube (x : α) : α := x * x * x
/-- `x ** 4` -/
@[inline] def pow4 (x : α) : α := (x * x) * (x * x)

@[inline] def gt (a b : α) : Bool := Num.lt b a
@[inline] def ge (a b : α) : Bool := Num.le b a

/-- `np.deg2rad` : multiplication by the double nearest to π/180; read over ℝ as `x·π/180`. -/
@[inline] def deg2rad (x : α) : α := x * (Num.pi / (180 : α))
/-- `np.rad2deg` -/
@[inline] def rad2deg (x : α) : α := x * ((180 : α) / Num.pi)

@[inline] def twoPi : α := (2 : α) * Num.pi

/-- `np.where(c, a, b)` on scalars -/
@[inline] def sel (c : Bool) (a b : α) : α := if c then a else b

@[inline] def max (a b : α) : α := if Num.lt a b then b else a
@[inline] def min (a b : α) : α := if Num.lt b a then b else a

end Num

/-- A 3-vector -/
structure V3 (α : Type) where
  x : α
  y : α
  z : α
deriving Repr

namespace V3
variable {α : Type} [Num α]
@[inline] def add (a b : V3 α) : V3 α := ⟨a.x + b.x, a.y + b.y, a.z + b.z⟩
@[inline] def sub (a b : V3 α) : V3 α := ⟨a.x - b.x, a.y - b.y, a.z - b.z⟩
@[inline] def smul (k : α) (a : V3 α) : V3 α := ⟨k * a.x, k * a.y, k * a.z⟩
@[inline] def neg (a : V3 α) : V3 α := ⟨-a.x, -a.y, -a.z⟩
@[inline] def dot (a b : V3 α) : α := a.x * b.x + a.y * b.y + a.z * b.z
@[inline] def cross (a b : V3 α) : V3 α :=
  ⟨a.y * b.z - a.z * b.y, a.z * b.x - a.x * b.z, a.x * b.y - a.y * b.x⟩
/-- `vnorm`: `sqrt((m**2).sum(0))` -/
@[inline] def norm (a : V3 α) : α := Num.sqrt (a.x * a.x + a.y * a.y + a.z * a.z)
end V3

end PV
