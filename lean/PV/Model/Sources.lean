/-
  PV.Model.Sources — which source a `Tle` is read from, and which platforms registry is loaded.
  Hand-written from pyorbital/tlefile.py:
    `Tle._read_tle`                  (both lines given? else `_get_uris_and_open_func`)
    `_get_uris_and_open_func`        (`if tle_file:` / `elif local_tle_path:` / else TLE_URLS + urlopen)
    `_get_local_tle_path_from_env`   (`os.environ.get("TLES")`)
    `_get_config_path`, `get_platforms_filepath`, module-level `SATELLITES`.
  Strings are abstracted to the classes the code distinguishes (None / falsy / StringIO / contains "ADMIN_MESSAGE" /
  other truthy value); the glob result is an arbitrary list of (file, ctime) in glob order.  Core Lean only.
-/
namespace PV.Sources

/-- the `tle_file` argument, by the classes `_get_uris_and_open_func` distinguishes -/
inductive TleFile
  | none                      -- `tle_file=None` (the default)
  | falsy                     -- any other falsy value, e.g. `""`: `if tle_file:` is false
  | path (p : String)         -- truthy, not a StringIO, `"ADMIN_MESSAGE" not in tle_file`
  | stringIO                  -- `isinstance(tle_file, io.StringIO)` (objects are truthy)
  | adminXml (p : String)     -- truthy str with `"ADMIN_MESSAGE" in tle_file`
deriving Repr, DecidableEq

/-- `os.environ.get("TLES")` together with what `glob.glob` finds for it:
    `glob fs` = set to a non-empty pattern whose matches are `fs` (file, ctime) in glob order; `glob []` = matches nothing -/
inductive TlesEnv
  | unset                     -- `None`
  | emptyString               -- `TLES=""`: `elif local_tle_path:` is false
  | glob (files : List (String × Nat))
deriving Repr, DecidableEq

/-- a set, non-empty pattern that matches no file -/
abbrev TlesEnv.matchesNothing : TlesEnv := .glob []

inductive CfgPathEnv
  | unset
  | dirWithFile               -- set; `<dir>/platforms.txt` is a file
  | dirWithout                -- set; `<dir>/platforms.txt` is not a file (missing dir included)
deriving Repr, DecidableEq

structure Config where
  line1 : Bool                -- `line1 is not None`
  line2 : Bool                -- `line2 is not None`
  tleFile : TleFile
  tles : TlesEnv
  cfgPath : CfgPathEnv        -- PYORBITAL_CONFIG_PATH
  ppp : Bool                  -- `"PPP_CONFIG_DIR" in os.environ`
deriving Repr, DecidableEq

inductive Source
  | lines                             -- the two given lines
  | stream                            -- the given StringIO, opened by `_dummy_open_stringio`
  | xml (p : String)                  -- StringIO built by `read_tle_from_mmam_xml_file(p)`
  | path (p : String)                 -- `io.open(p, "rb")`
  | newestByCtime (p : String)        -- `max(glob(TLES), key=getctime)` = p, `io.open(p, "rb")`
  | network                           -- `TLE_URLS` with `urlopen`
  | error                             -- `max([])`: ValueError, nothing is opened
deriving Repr, DecidableEq

/-- Python's `max(iterable, key=k)` loop: keep the current best, replace it only by a strictly larger key
    (so of several maximal items the first one wins); `none` = ValueError on an empty iterable. -/
def pyMaxLoop {α : Type} (key : α → Nat) (best : α) : List α → α
  | [] => best
  | y :: ys => if key best < key y then pyMaxLoop key y ys else pyMaxLoop key best ys

def pyMaxBy {α : Type} (key : α → Nat) : List α → Option α
  | [] => none
  | x :: xs => some (pyMaxLoop key x xs)

/-- `_get_uris_and_open_func(tle_file)` with `local_tle_path = os.environ.get("TLES")` -/
def urisAndOpen (tf : TleFile) (tles : TlesEnv) : Source :=
  match tf with
  | .stringIO => .stream                       -- if tle_file: isinstance StringIO
  | .adminXml p => .xml p                      --              "ADMIN_MESSAGE" in tle_file
  | .path p => .path p                         --              else
  | .none | .falsy =>
    match tles with
    | .glob files =>                           -- elif local_tle_path:
      match pyMaxBy (fun f => f.2) files with
      | some f => .newestByCtime f.1
      | none => .error
    | .unset | .emptyString => .network        -- else

/-- `Tle._read_tle`: `if self._line1 is not None and self._line2 is not None` -/
def choose (c : Config) : Source :=
  if c.line1 && c.line2 then .lines else urisAndOpen c.tleFile c.tles

inductive CfgDir
  | pkg                        -- PKG_CONFIG_DIR
  | env (hasFile : Bool)       -- the value of PYORBITAL_CONFIG_PATH
deriving Repr, DecidableEq

/-- `_get_config_path()` -/
def configPath (c : Config) : CfgDir :=
  if c.ppp && c.cfgPath == .unset then .pkg     -- "PPP_CONFIG_DIR" in environ and "PYORBITAL_CONFIG_PATH" not in environ
  else match c.cfgPath with                      -- os.getenv("PYORBITAL_CONFIG_PATH", PKG_CONFIG_DIR)
    | .unset => .pkg
    | .dirWithFile => .env true
    | .dirWithout => .env false

inductive Registry
  | packaged
  | custom
deriving Repr, DecidableEq

/-- `get_platforms_filepath()` (the file `SATELLITES` is read from at import): the configured directory's
    platforms.txt when it is a file, else the packaged one -/
def registryFrom (c : Config) : Registry :=
  match configPath c with
  | .pkg => .packaged
  | .env true => .custom
  | .env false => .packaged

end PV.Sources
