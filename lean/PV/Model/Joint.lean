/-
  PV.Model.Joint — vectorised iterations that leave their loop on a *joint* test.

  numpy code iterates all elements of an array in lock step and leaves the loop when
  `np.all(test)` holds, so an element that has already converged on its own keeps being
  iterated until the slowest element is done:

    * `Orbital.get_lonlatalt` (orbital.py) and `geoloc.get_lonlatalt`:
        while True:
            lat2 = lat
            c = ...; lat = np.arctan2(pos_z + c * e2 * np.sin(lat2), r)
            if np.all(abs(lat - lat2) < 1e-10):                       # orbital.py
            if np.all((abs(lat - lat2) < 1e-10) | np.isnan(lat)):     # geoloc.py (repaired, 5907b7c)
                break
      → `doWhile` / `jointDoWhile`
    * `_SGDP4._iterate_newton_raphson` (orbital.py):
        for i in range(10):
            <pre: sinEPW, cosEPW, ecosE, esinE, f from epw>
            if np.all(np.abs(f) < NR_EPS): break
            <post: Newton correction of epw>
      → `newtonLoop`, a transition system run by `run` / `jointRun`

  A joint run is the same loop at the product type `ι → σ` (element-wise step, test
  `idx.all`), so scalar and array calls are instances of one definition.  Core Lean only.
-/
namespace PV.Joint

variable {σ : Type} {ι : Type}

/-- `n` applications of `f` -/
def iter (f : σ → σ) : Nat → σ → σ
  | 0, s => s
  | n + 1, s => iter f n (f s)

/-- `while not halt(s): s = step(s)` with a step budget; returns the number of steps and the final state -/
def run (step : σ → σ) (halt : σ → Bool) : Nat → σ → Option (Nat × σ)
  | 0, s => if halt s then some (0, s) else none
  | fuel + 1, s =>
    if halt s then some (0, s)
    else match run step halt fuel (step s) with
      | some (n, r) => some (n + 1, r)
      | none => none

/-- `while True: s' = f(s); if conv(s, s'): break` (the latitude iteration), with a step budget -/
def doWhile (f : σ → σ) (conv : σ → σ → Bool) : Nat → σ → Option (Nat × σ)
  | 0, _ => none
  | fuel + 1, s =>
    if conv s (f s) then some (1, f s)
    else match doWhile f conv fuel (f s) with
      | some (n, r) => some (n + 1, r)
      | none => none

/-- element-wise lifting of a step function to arrays indexed by `ι` -/
def liftStep (f : σ → σ) : (ι → σ) → (ι → σ) := fun S i => f (S i)

/-- `np.all(halt(S))` over the index list `idx` -/
def allHalt (idx : List ι) (halt : σ → Bool) : (ι → σ) → Bool := fun S => idx.all fun i => halt (S i)

/-- `np.all(conv(S, S'))` -/
def allConv (idx : List ι) (conv : σ → σ → Bool) : (ι → σ) → (ι → σ) → Bool :=
  fun S S' => idx.all fun i => conv (S i) (S' i)

/-- the array version of `run`: the same loop on `ι → σ` with the joint test -/
def jointRun (idx : List ι) (step : σ → σ) (halt : σ → Bool) : Nat → (ι → σ) → Option (Nat × (ι → σ)) :=
  run (liftStep step) (allHalt idx halt)

/-- the array version of `doWhile` -/
def jointDoWhile (idx : List ι) (f : σ → σ) (conv : σ → σ → Bool) : Nat → (ι → σ) → Option (Nat × (ι → σ)) :=
  doWhile (liftStep f) (allConv idx conv)

/-- the repaired exit test of geoloc.get_lonlatalt: `conv | isnan(new)` -/
def repaired (conv : σ → σ → Bool) (stuck : σ → Bool) : σ → σ → Bool := fun a b => conv a b || stuck b

/-! ### the Newton loop as a transition system -/

/-- control point inside the body of `for i in range(bound)` -/
inductive Phase | top | mid
deriving DecidableEq, Repr

/-- control state: where we are, how many passes of `range` remain, the variables -/
structure Ctl (σ : Type) where
  phase : Phase
  remaining : Nat
  vars : σ

/-- one control step: `top → mid` runs the statements before the test, `mid → top` those after it -/
def newtonStep (pre post : σ → σ) (c : Ctl σ) : Ctl σ :=
  match c.phase with
  | .top => ⟨.mid, c.remaining, pre c.vars⟩
  | .mid => ⟨.top, c.remaining - 1, post c.vars⟩

/-- the loop is left at `mid` when the test holds (`break`) and at `top` when `range` is exhausted -/
def newtonHalt (done : σ → Bool) (c : Ctl σ) : Bool :=
  match c.phase with
  | .top => c.remaining == 0
  | .mid => done c.vars

/-- `for i in range(bound): pre; if done: break; post` -/
def newtonLoop (pre post : σ → σ) (done : σ → Bool) (bound : Nat) (s : σ) : Option (Nat × Ctl σ) :=
  run (newtonStep pre post) (newtonHalt done) (2 * bound + 1) ⟨.top, bound, s⟩

def jointNewtonLoop (idx : List ι) (pre post : σ → σ) (done : σ → Bool) (bound : Nat) (S : ι → σ) :
    Option (Nat × (ι → Ctl σ)) :=
  jointRun idx (newtonStep pre post) (newtonHalt done) (2 * bound + 1) fun i => ⟨.top, bound, S i⟩

end PV.Joint
