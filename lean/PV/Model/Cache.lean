/-
  PV.Model.Cache — small-step interleaving model of the one piece of mutable state an
  `Orbital` object has: the lazily initialised `orbit_elements.an_time` /
  `orbit_elements.an_period` of `Orbital.get_orbit_number` (orbital.py, the
  `try: ... except AttributeError:` block).  Every other query is a pure function of
  the TLE and its arguments (one silent step).

  Granularity: one step = one attribute load or store of a cache slot (atomic under the
  GIL), in exactly the order the Python code performs them, plus silent steps for the
  computations in between (they touch thread-local data only):

      try:     load an_time ; load an_period
      except:  compute (get_position at epoch, branch on |z|, v_z)
               store an_time            (one of two branches: get_last_an_time(epoch) | epoch)
               (node_shift: a thread-local value computed from the TLE only, in the same branch; silent)
               load an_time             (left operand of the subtraction)
               load an_time             (argument of get_last_an_time(... + node_shift - 10 min))
               store an_period
               load an_time ; load an_period
      result (pure arithmetic on the loaded values, the TLE and the arguments)

  A load that finds its slot empty raises AttributeError: inside `try` control passes to
  the handler, inside the handler the exception escapes (`PC.raised`).

  Values are abstract: `E` = everything a query reads besides its arguments and the two
  slots (Tle attributes, the SGP4 coefficient object, module-level constants), `A` =
  arguments (including which query), `T`/`P` = the slot values, `R` = results.
  No Mathlib.
-/
namespace PV.Cache

/-- What the code computes, as functions of the TLE (and arguments / loaded values) only. -/
structure Sem (E A T P R : Type) where
  /-- `not (abs(pos_epoch[2]) > 1 or not vel_epoch[2] > 0)` -/
  atNode : E → Bool
  /-- `self.tle.epoch` -/
  epoch  : E → T
  /-- `self.get_last_an_time(self.tle.epoch)` -/
  lastAn : E → T
  /-- `(t1 + node_shift) - self.get_last_an_time(t2 + node_shift - 10 min)` for the two loaded values of `an_time`
      (`node_shift` is computed from the TLE alone, in the branch that stores `an_time`) -/
  period : E → T → T → P
  /-- the arithmetic after the try/except, from the loaded `an_time`, `an_period` -/
  orbit  : E → A → T → P → R
  /-- any other query (position, sub-point, look angles, node time, passes) -/
  other  : E → A → R

inductive Kind
  | orbit   -- get_orbit_number
  | other   -- any other query
deriving DecidableEq, Repr

/-- program counter of one call, with the thread-local values it holds -/
inductive PC (T P R : Type)
  | tryT                       -- try: about to load an_time
  | tryP (t : T)               -- try: an_time loaded, about to load an_period
  | compute                    -- handler: pos/vel at epoch, choose the branch
  | storeTn                    -- handler: about to store an_time := get_last_an_time(epoch)
  | storeTe                    -- handler: about to store an_time := epoch
  | loadT1                     -- handler: about to load an_time (left operand)
  | loadT2 (t1 : T)            -- handler: about to load an_time (argument)
  | storeP (t1 t2 : T)         -- handler: about to store an_period := period t1 t2
  | loadT3                     -- handler: about to load an_time
  | loadP3 (t : T)             -- handler: about to load an_period
  | ret (t : T) (p : P)        -- compute the orbit number from the loaded values
  | pureCall                   -- another query: compute its result
  | done (r : R)               -- returned r
  | raised                     -- AttributeError escaped the handler
deriving DecidableEq, Repr

/-- the two optional cache slots of `orbit_elements` -/
structure Shared (T P : Type) where
  anTime   : Option T
  anPeriod : Option P
deriving DecidableEq, Repr

inductive Event (T P : Type)
  | loadT  (tid : Nat) (v : Option T)              -- `none`: AttributeError
  | loadP  (tid : Nat) (v : Option P)
  | storeT (tid : Nat) (atNode : Bool) (v : T)     -- which of the two store statements
  | storeP (tid : Nat) (v : P)
deriving DecidableEq, Repr

structure Thread (A T P R : Type) where
  kind : Kind
  args : A
  pc   : PC T P R
deriving Repr

def initPC {T P R : Type} : Kind → PC T P R
  | .orbit => .tryT
  | .other => .pureCall

variable {E A T P R : Type}

/-- One step of one thread: new shared state, new program counter, the visible event (if any). -/
def stepThread (sem : Sem E A T P R) (e : E) (i : Nat) (sh : Shared T P) (th : Thread A T P R) :
    Shared T P × PC T P R × Option (Event T P) :=
  match th.pc with
  | .tryT =>
    match sh.anTime with
    | some t => (sh, .tryP t, some (.loadT i (some t)))
    | none   => (sh, .compute, some (.loadT i none))
  | .tryP t =>
    match sh.anPeriod with
    | some p => (sh, .ret t p, some (.loadP i (some p)))
    | none   => (sh, .compute, some (.loadP i none))
  | .compute => (sh, if sem.atNode e then .storeTe else .storeTn, none)
  | .storeTn => ({ sh with anTime := some (sem.lastAn e) }, .loadT1, some (.storeT i false (sem.lastAn e)))
  | .storeTe => ({ sh with anTime := some (sem.epoch e) }, .loadT1, some (.storeT i true (sem.epoch e)))
  | .loadT1 =>
    match sh.anTime with
    | some t => (sh, .loadT2 t, some (.loadT i (some t)))
    | none   => (sh, .raised, some (.loadT i none))
  | .loadT2 t1 =>
    match sh.anTime with
    | some t => (sh, .storeP t1 t, some (.loadT i (some t)))
    | none   => (sh, .raised, some (.loadT i none))
  | .storeP t1 t2 =>
    ({ sh with anPeriod := some (sem.period e t1 t2) }, .loadT3, some (.storeP i (sem.period e t1 t2)))
  | .loadT3 =>
    match sh.anTime with
    | some t => (sh, .loadP3 t, some (.loadT i (some t)))
    | none   => (sh, .raised, some (.loadT i none))
  | .loadP3 t =>
    match sh.anPeriod with
    | some p => (sh, .ret t p, some (.loadP i (some p)))
    | none   => (sh, .raised, some (.loadP i none))
  | .ret t p   => (sh, .done (sem.orbit e th.args t p), none)
  | .pureCall  => (sh, .done (sem.other e th.args), none)
  | .done r    => (sh, .done r, none)
  | .raised    => (sh, .raised, none)

/-- the object and the calls in flight on it -/
structure State (E A T P R : Type) where
  tle     : E
  sh      : Shared T P
  threads : List (Thread A T P R)
  trace   : List (Event T P)          -- oldest first

/-- thread `i` performs one step (nothing happens when there is no such thread) -/
def step (sem : Sem E A T P R) (s : State E A T P R) (i : Nat) : State E A T P R :=
  match s.threads[i]? with
  | none => s
  | some th =>
    let r := stepThread sem s.tle i s.sh th
    { s with sh := r.1, threads := s.threads.set i { th with pc := r.2.1 }, trace := s.trace ++ r.2.2.toList }

/-- the scheduler picks the threads in the given order -/
def run (sem : Sem E A T P R) (s : State E A T P R) (sched : List Nat) : State E A T P R :=
  sched.foldl (step sem) s

def emptyCache : Shared T P := ⟨none, none⟩

def mkThread (q : Kind × A) : Thread A T P R := ⟨q.1, q.2, initPC q.1⟩

/-- calls `qs` started on an object whose cache is `sh` -/
def start (e : E) (sh : Shared T P) (qs : List (Kind × A)) : State E A T P R :=
  ⟨e, sh, qs.map mkThread, []⟩

/-- calls `qs` started on a fresh object -/
def init (e : E) (qs : List (Kind × A)) : State E A T P R := start e emptyCache qs

/-- upper bound on the number of own steps of one call (try: 2, handler: 7, result: 1) -/
def maxSteps : Nat := 10

def resultOf (s : State E A T P R) (i : Nat) : Option R :=
  match s.threads[i]? with
  | some ⟨_, _, .done r⟩ => some r
  | _ => none

/-- one call, alone, on an object whose cache is `sh`: new cache, result (if it returned) -/
def callOn (sem : Sem E A T P R) (e : E) (sh : Shared T P) (q : Kind × A) : Shared T P × Option R :=
  let s := run sem (start e sh [q]) (List.replicate maxSteps 0)
  (s.sh, resultOf s 0)

/-- the reference: the same call on a fresh object, single-threaded -/
def fresh (sem : Sem E A T P R) (e : E) (q : Kind × A) : Option R := (callOn sem e emptyCache q).2

/-- a history of completed calls, one after the other, on one object -/
def history (sem : Sem E A T P R) (e : E) : Shared T P → List (Kind × A) → Shared T P × List (Option R)
  | sh, [] => (sh, [])
  | sh, q :: qs =>
    let r := callOn sem e sh q
    let h := history sem e r.1 qs
    (h.1, r.2 :: h.2)

/-- canonical slot values: functions of the TLE only -/
def Sem.canonT (sem : Sem E A T P R) (e : E) : T := if sem.atNode e then sem.epoch e else sem.lastAn e
def Sem.canonP (sem : Sem E A T P R) (e : E) : P := sem.period e (sem.canonT e) (sem.canonT e)

/-- closed form of the answer of a call: a function of the TLE and the arguments only -/
def Sem.answer (sem : Sem E A T P R) (e : E) : Kind × A → R
  | (.orbit, a) => sem.orbit e a (sem.canonT e) (sem.canonP e)
  | (.other, a) => sem.other e a

/-- steps that neither read nor write the cache and emit no event -/
def PC.silent : PC T P R → Bool
  | .compute | .ret _ _ | .pureCall | .done _ | .raised => true
  | _ => false

/-- own steps left at most -/
def PC.remaining : PC T P R → Nat
  | .tryT => 10 | .tryP _ => 9 | .compute => 8 | .storeTn => 7 | .storeTe => 7 | .loadT1 => 6
  | .loadT2 _ => 5 | .storeP _ _ => 4 | .loadT3 => 3 | .loadP3 _ => 2 | .ret _ _ => 1 | .pureCall => 1
  | .done _ => 0 | .raised => 0

/-- Replay by visible events (what the correspondence driver does): thread `i` runs up to and including its
    next load/store (at most one silent step precedes it). -/
def visStep (sem : Sem E A T P R) (s : State E A T P R) (i : Nat) : State E A T P R :=
  let s1 := step sem s i
  if s1.trace.length > s.trace.length then s1 else step sem s1 i

def runVis (sem : Sem E A T P R) (s : State E A T P R) (order : List Nat) : State E A T P R :=
  order.foldl (visStep sem) s

/-- every thread in turn runs to completion -/
def finishAll (sem : Sem E A T P R) (s : State E A T P R) : State E A T P R :=
  run sem s ((List.range s.threads.length).flatMap fun i => List.replicate maxSteps i)

/-- Concrete instance used by the correspondence driver and by the non-vacuity examples.  The "TLE" is just
    the branch its epoch selects; in both branches the canonical `an_time` is 7 and `an_period` is 128, but a
    store through the wrong store statement, or a period computed from a non-canonical `an_time`, is visible. -/
def demo : Sem Bool Nat Nat Nat (Nat × Nat × Nat) where
  atNode := id
  epoch  := fun b => if b then 7 else 5
  lastAn := fun b => if b then 3 else 7
  period := fun _ t1 t2 => 100 + 3 * t1 + t2
  orbit  := fun _ a t p => (a, t, p)
  other  := fun _ a => (a, 0, 0)

end PV.Cache
