/-
  PV.Model.Checksum — `tlefile.Tle._checksum` and the order
  read → checksum → parse of `Tle.__init__` (tlefile.py:195-225).
-/
import PV.Model.Text
namespace PV.Checksum
open PV.Text

/-- contribution of one character: digits count their value, '-' counts 1 -/
def weight (c : Char) : Nat :=
  if isAsciiDigit c then digitVal c else if c = '-' then 1 else 0

def sumW : List Char → Nat
  | [] => 0
  | c :: cs => weight c + sumW cs

inductive LineOutcome
  | good          -- last char is the digit `sumW body % 10`
  | checksumError
  | valueError    -- `int(line[-1])` fails: last character is not a digit
  | indexError    -- empty line: `line[-1]`
deriving Repr, DecidableEq

/-- one pass of the loop body on a (stripped) line -/
def lineCheck (l : List Char) : LineOutcome :=
  match l.getLast? with
  | none => .indexError
  | some d =>
    if isAsciiDigit d then
      (if sumW l.dropLast % 10 = digitVal d then .good else .checksumError)
    else .valueError

inductive Outcome
  | accepted
  | checksumError
  | valueError
  | indexError
deriving Repr, DecidableEq

def ofLine : LineOutcome → Outcome
  | .good => .accepted
  | .checksumError => .checksumError
  | .valueError => .valueError
  | .indexError => .indexError

/-- `_read_tle` with both lines given, then `_checksum`: lines are stripped first, line 1 is judged first -/
def accept (l1 l2 : List Char) : Outcome :=
  match lineCheck (strip l1) with
  | .good => ofLine (lineCheck (strip l2))
  | o => ofLine o

/-- a line is good when it ends in the digit equal to the weighted sum of the rest mod 10 -/
def goodLine (l : List Char) : Prop :=
  ∃ d, l.getLast? = some d ∧ isAsciiDigit d = true ∧ sumW l.dropLast % 10 = digitVal d

/-- `Tle.__init__`: `_read_tle(); _checksum(); _parse_tle()` — parsing happens only after acceptance -/
def tleOfLines {β : Type} (parse : List Char → List Char → β) (l1 l2 : List Char) : Except Outcome β :=
  match accept l1 l2 with
  | .accepted => .ok (parse (strip l1) (strip l2))
  | o => .error o

end PV.Checksum
