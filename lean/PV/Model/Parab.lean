/-
  PV.Model.Parab — the loop of `_get_max_parab` (pyorbital/orbital.py), successive parabolic interpolation with the
  acceptance test of commit 0a8290c and the bounded-search fallback:

  ```python
  a = float(start); c = float(end); b = (a + c) / 2.0
  f_a = fun(a); f_b = fun(b); f_c = fun(c)
  x = b
  with np.errstate(invalid="raise"):
      while True:
          try:
              x = x - 0.5 * (((b - a) ** 2 * (f_b - f_c) - (b - c) ** 2 * (f_b - f_a)) /
                             ((b - a) * (f_b - f_c) - (b - c) * (f_b - f_a)))
          except FloatingPointError:
              return _get_min_bounded(fun, start, end, tol)
          if abs(b - x) <= tol:
              step = 10 * tol
              if min(fun(max(x - step, float(start))), fun(min(x + step, float(end)))) >= fun(x) - 1e-4:
                  return x
              return _get_min_bounded(fun, start, end, tol)
          f_x = fun(x)
          if f_x > f_b:
              return _get_min_bounded(fun, start, end, tol)
          a, b, c = (a + x) / 2.0, x, (x + c) / 2.0
          f_a, f_b, f_c = fun(a), f_x, fun(c)
  ```

  `fun` is the function that is MINIMISED (`get_next_passes` passes the negated elevation).  At the head of every pass
  `x == b`, so the state is (a, b, c, f_a, f_b, f_c).  One pass uses `parabStep` / `parabShrink` of PV.Model.Passes, the
  start is `parabInit`.  How the call ends is an explicit `Outcome`: the estimate is returned, the bounded search is
  called (because the update signalled `invalid` — FloatingPointError under `np.errstate(invalid="raise")` —, because the
  neighbourhood is lower, or because the estimate got worse), a FloatingPointError of an operation outside the `try`
  leaves the function, or the fuel of the model ran out (`while True` has no bound of its own).

  Which operations signal `invalid` is a parameter (`Flags`): over the reals none does.  No Mathlib import.
-/
import PV.Model.Passes
namespace PV.Parab
open PV.Passes

/-- whether numpy signals `invalid` for an arithmetic operation on these operands -/
structure Flags (α : Type) where
  add : α → α → Bool
  sub : α → α → Bool
  mul : α → α → Bool
  div : α → α → Bool
  sq : α → Bool

/-- no operation signals (the reading over ℝ) -/
def Flags.never (α : Type) : Flags α := ⟨fun _ _ => false, fun _ _ => false, fun _ _ => false, fun _ _ => false, fun _ => false⟩

/-- why the bounded search is called -/
inductive Why
  | invalid      -- the parabolic update raised FloatingPointError
  | notMinimum   -- two estimates agree within `tol` but a neighbour at ± 10 tol is lower by more than 1e-4
  | diverged     -- the new estimate is worse than the previous one
deriving DecidableEq, Repr

/-- how `_get_max_parab` ends -/
inductive Outcome (α : Type)
  | accept (x : α)            -- `return x`
  | fallback (w : Why)        -- `return _get_min_bounded(fun, start, end, tol)`
  | raised                    -- FloatingPointError from an operation outside the `try`: leaves the function
  | outOfFuel
deriving Repr

structure St (α : Type) where
  a : α
  b : α
  c : α
  fa : α
  fb : α
  fc : α
deriving Repr

inductive Step (α : Type)
  | done (o : Outcome α)
  | next (s : St α)

variable {α : Type} [Num α]

/-- some operation of the update signals `invalid` (the operations in the order Python evaluates them) -/
def updateInvalid (I : Flags α) (s : St α) : Bool :=
  let ba := s.b - s.a
  let bc := s.b - s.c
  let fbc := s.fb - s.fc
  let fba := s.fb - s.fa
  let num := Num.sq ba * fbc - Num.sq bc * fba
  let den := ba * fbc - bc * fba
  I.sub s.b s.a || I.sq ba || I.sub s.fb s.fc || I.mul (Num.sq ba) fbc ||
  I.sub s.b s.c || I.sq bc || I.sub s.fb s.fa || I.mul (Num.sq bc) fba ||
  I.sub (Num.sq ba * fbc) (Num.sq bc * fba) ||
  I.mul ba fbc || I.mul bc fba || I.sub (ba * fbc) (bc * fba) ||
  I.div num den || I.mul (0.5 : α) (num / den) || I.sub s.b ((0.5 : α) * (num / den))

/-- the new estimate; `none`: FloatingPointError -/
def update (I : Flags α) (s : St α) : Option α :=
  if updateInvalid I s then none else some (parabStep s.a s.b s.c s.fa s.fb s.fc s.b)

/-- one pass of the loop -/
def step (I : Flags α) (f : α → α) (lo hi tol : α) (s : St α) : Step α :=
  match update I s with
  | none => .done (.fallback .invalid)
  | some x =>
    if I.sub s.b x then .done .raised
    else if Num.le (Num.abs (s.b - x)) tol then
      let stp := (10 : α) * tol
      if I.mul (10 : α) tol || I.sub x stp || I.add x stp || I.sub (f x) (1e-4 : α) then .done .raised
      else if Num.ge (Num.min (f (Num.max (x - stp) lo)) (f (Num.min (x + stp) hi))) (f x - (1e-4 : α)) then .done (.accept x)
      else .done (.fallback .notMinimum)
    else if Num.gt (f x) s.fb then .done (.fallback .diverged)
    else if I.add s.a x || I.div (s.a + x) (2.0 : α) || I.add x s.c || I.div (x + s.c) (2.0 : α) then .done .raised
    else
      let abc := parabShrink s.a s.c x
      .next ⟨abc.1, abc.2.1, abc.2.2, f abc.1, f x, f abc.2.2⟩

/- (`step` is not unfolded when `run` is: its body is large) -/
attribute [irreducible] step

/-- at most `fuel` passes -/
def run (I : Flags α) (f : α → α) (lo hi tol : α) : Nat → St α → Outcome α
  | 0, _ => .outOfFuel
  | n + 1, s =>
    match step I f lo hi tol s with
    | .done o => o
    | .next s' => run I f lo hi tol n s'

theorem run_zero (I : Flags α) (f : α → α) (lo hi tol : α) (s : St α) : run I f lo hi tol 0 s = .outOfFuel := rfl

theorem run_succ (I : Flags α) (f : α → α) (lo hi tol : α) (n : Nat) (s : St α) :
    run I f lo hi tol (n + 1) s =
      match step I f lo hi tol s with
      | .done o => o
      | .next s' => run I f lo hi tol n s' := rfl

/-- the state before the first pass -/
def init (f : α → α) (lo hi : α) : St α :=
  let abc := parabInit lo hi
  ⟨abc.1, abc.2.1, abc.2.2, f abc.1, f abc.2.1, f abc.2.2⟩

/-- `_get_max_parab(fun, start, end, tol)` -/
def maxParab (I : Flags α) (f : α → α) (lo hi tol : α) (fuel : Nat) : Outcome α :=
  run I f lo hi tol fuel (init f lo hi)

end PV.Parab
