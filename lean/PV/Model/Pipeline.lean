/-
  PV.Model.Pipeline — the data flow of `pyorbital.orbital.Orbital`, composed from the per-stage models
  exactly as the constructor and the three query methods compose the stages.  No Mathlib; generic over
  `Num` wherever a number is computed (`Float`: executable, `ℝ`: the theorems of PV/Props/Pipeline.lean).

    Orbital.__init__(line1=, line2=)            orbital.py:156-163
      tlefile.read → Tle.__init__               tlefile.py:195-199   strip → _checksum → _parse_tle
                                                                     (PV.Checksum.tleOfLines, PV.TleParse.parse on
                                                                      the GENERATED column table)
      OrbitElements(tle)                        orbital.py:602-630   excentricity, deg2rad(inclination, right_ascension,
                                                                     arg_perigee, mean_anomaly), mean_motion·2π/XMNPDA,
                                                                     bstar·AE, epoch      (PV.Sgp4.elementsChecked)
      _SGDP4(orbit_elements)                    orbital.py:646-720   guards, coefficients  (PV.Sgp4.init)
    Orbital.get_position(t, normalize)          orbital.py:212-221   propagate(t) → kep2xyz → optional division
      _get_timedelta_in_minutes                 orbital.py:1095      (dt2np(t) − t_0) / timedelta64(1, "m")
                                                                     (PV.Time.tsinceMinutes, epoch held in µs)
    Orbital.get_lonlatalt(t)                    orbital.py:223-250   get_position(t, normalize=True), gmst(t)
    Orbital.get_observer_look(t, lon, lat, alt) orbital.py:260-307   get_position(t, normalize=False),
                                                                     observer_position(t, …), gmst(t)

  Which parsed attribute feeds which element (`tleNumOfTle`, then `Sgp4.elements`):
    tle.excentricity = int(line2[26:33]) * 10 ** -7   → eo            (no unit change)
    tle.inclination / right_ascension / arg_perigee / mean_anomaly = float(col)  [degrees]  → np.deg2rad
    tle.mean_motion = float(line2[52:63]) [rev/day]   → · (2π / XMNPDA) [rad/min]
    tle.bstar = _read_tle_decimal(line1[53:61])       → · AE
    tle.epoch (datetime64[us])                        → t_0; minutes since epoch at query time
  `mean_motion_derivative`, `mean_motion_sec_derivative`, `ephemeris_type`, `element_number`, `orbit`, the
  identification strings do not enter the propagated state (they are parsed — a malformed one still refuses the
  whole element set with the parser's exception class — and then unused by `get_position`).
-/
import PV.Generated.TleColumns
import PV.Model.TleParse
import PV.Model.Checksum
import PV.Model.Sgp4
import PV.Model.Look
import PV.Model.Time
import PV.Spec.TleLayout
namespace PV.Pipeline
open PV.Text
variable {α : Type} [Num α]

/-! ### exact decimals read as numbers -/

/-- the number the exact decimal `mant · 10^exp` denotes — what `float(text)` returns before rounding.
    Over ℝ it is exactly `mant · 10^exp`; on `Float` it is Lean's decimal-literal conversion of the same
    digits (CPython's `float()` is correctly rounded; the two agree to an ulp). -/
def ofDec (d : Dec) : α :=
  if d.exp ≥ 0 then Time.ofInt (d.mant * 10 ^ d.exp.toNat)
  else if d.mant ≥ 0 then Num.ofSci d.mant.toNat true (-d.exp).toNat
  else -(Num.ofSci (-d.mant).toNat true (-d.exp).toNat)

/-- `int(text) * 10 ** -7` (tlefile.py: excentricity): the integer times the number `10^exp`, one multiplication.
    The parser's conversion `intE7` always produces `exp = -7`. -/
def ofIntTimesPow (d : Dec) : α := (Time.ofInt d.mant : α) * ofDec ⟨1, d.exp⟩

/-- the attributes of a parsed `Tle` that `OrbitElements` reads, as numbers (units as printed:
    degrees, revolutions per day) -/
def tleNumOfTle (t : TleParse.Tle) : Sgp4.TleNum α where
  excentricity := ofIntTimesPow t.excentricity
  inclination := ofDec t.inclination
  right_ascension := ofDec t.right_ascension
  arg_perigee := ofDec t.arg_perigee
  mean_anomaly := ofDec t.mean_anomaly
  mean_motion := ofDec t.mean_motion
  bstar := ofDec t.bstar

open PV.Spec.TleLayout in
/-- the same seven numbers taken directly from the PRINTED fields of an element set (no parser involved):
    `iii.ffff` is `digits·10⁻⁴`, the mean motion `nn.nnnnnnnn` is `digits·10⁻⁸`, the eccentricity is its seven digits
    times `10⁻⁷`, B* `sdddddSe` is `±ddddd·10^(±e−5)` -/
def tleNumOfFields (f : Fields) : Sgp4.TleNum α where
  excentricity := ofIntTimesPow (eccVal f)
  inclination := ofDec (fixedVal f.inclInt f.inclFrac 4)
  right_ascension := ofDec (fixedVal f.raanInt f.raanFrac 4)
  arg_perigee := ofDec (fixedVal f.argpInt f.argpFrac 4)
  mean_anomaly := ofDec (fixedVal f.manomInt f.manomFrac 4)
  mean_motion := ofDec (fixedVal f.mmInt f.mmFrac 8)
  bstar := ofDec (expoVal f.bstarSign f.bstarMant f.bstarExpSign f.bstarExp)

/-! ### `Orbital.__init__` -/

/-- why no `Orbital` object came into being: the stage that raised, with that stage's own class -/
inductive Refusal
  /-- `Tle._checksum`: ChecksumError, or ValueError / IndexError of `int(line[-1])`; never `.accepted` -/
  | checksum (o : Checksum.Outcome)
  /-- `Tle._parse_tle`: ValueError / IndexError of a column conversion (or input outside the text model) -/
  | parse (e : TleParse.Err)
  /-- `OrbitElements.__init__` / `_SGDP4Base.__init__`: OrbitalError (eccentricity, mean motion, inclination
      out of range) or NotImplementedError (deep space) -/
  | init (e : Sgp4.InitErr)
deriving Repr, DecidableEq

/-- the state of an `Orbital` object that the queries read: `self.tle`, `self.orbit_elements`, `self._sgdp4` -/
structure Orbital (α : Type) where
  tle : TleParse.Tle
  elements : Sgp4.Elements α
  params : Sgp4.Params α

/-- `orbit_elements.epoch` = `_sgdp4.t_0` (datetime64[us]) as µs since 1970 -/
def Orbital.epochUs (o : Orbital α) : Int := o.tle.epochUs

/-- `OrbitElements(tle)` then `_SGDP4(orbit_elements)` on a parsed element set: the mean-motion refusal of
    `OrbitElements.__init__` first, then the guards of `_SGDP4Base.__init__` in source order -/
def orbitalOfTle (t : TleParse.Tle) : Except Refusal (Orbital α) :=
  match Sgp4.elementsChecked (tleNumOfTle t : Sgp4.TleNum α) with
  | .error e => .error (.init e)
  | .ok el =>
    match Sgp4.init el with
    | .error e => .error (.init e)
    | .ok p => .ok ⟨t, el, p⟩

/-- `Orbital(name, line1=l1, line2=l2)` with a given column table: checksum accept → parse → OrbitElements
    (refusing a non-positive mean motion) → `_SGDP4Base.__init__`.  The first stage that raises decides. -/
def orbitalOfLinesWith (tbl : List Gen.Col) (l1 l2 : List Char) : Except Refusal (Orbital α) :=
  match Checksum.tleOfLines (TleParse.parse tbl) l1 l2 with
  | .error o => .error (.checksum o)
  | .ok (.error e) => .error (.parse e)
  | .ok (.ok t) => orbitalOfTle t

/-- … with the column table extracted from the source of `_parse_tle` -/
def orbitalOfLines (l1 l2 : List Char) : Except Refusal (Orbital α) :=
  orbitalOfLinesWith Gen.tleColumns l1 l2

/-! ### query times -/

/-- a query time after `dt2np`: a datetime64 of some unit, i.e. a tick count since 1970-01-01T00:00.
    `datetime.datetime` arrives as µs ticks, a `datetime64[u]` scalar keeps `u`, arrays arrive as ns
    (PV.Kinds.dt2np / PV.C08L.unitOfKind). -/
structure Instant where
  unit : Time.Unit
  ticks : Int
deriving Repr, DecidableEq

/-- a `datetime.datetime(y, mo, d, h, mi, s, us)` (naive UTC) -/
def Instant.ofCivil (y : Int) (mo d h mi s us : Nat) : Instant := ⟨.us, Time.usOfCivil y mo d h mi s us⟩

/-- `self._ts`: minutes since the element set's epoch -/
def minutesSinceEpoch (o : Orbital α) (i : Instant) : α := Time.tsinceMinutes i.unit i.ticks o.epochUs

/-- `astronomy.jdays2000(utc_time)` -/
def daysOf (i : Instant) : α := Time.jdays2000 i.unit i.ticks

/-! ### the three queries -/

/-- `Orbital.get_position(utc_time, normalize)` -/
def positionAt (o : Orbital α) (i : Instant) (normalize : Bool) : Except Sgp4.PropErr (V3 α × V3 α) :=
  Sgp4.getPosition o.params (minutesSinceEpoch o i) normalize

/-- `Orbital.get_lonlatalt(utc_time)` → (lon°, lat°, alt km, passes of the latitude loop); `.ok none` is the
    model's "loop did not exit within `fuel` passes" (the source's `while True` has no bound) -/
def lonLatAltAt (o : Orbital α) (i : Instant) (fuel : Nat := 200) :
    Except Sgp4.PropErr (Option (α × α × α × Nat)) :=
  match positionAt o i true with
  | .error e => .error e
  | .ok (pn, _) => .ok (Look.lonLatAlt (daysOf i) pn fuel)

/-- `Orbital.get_observer_look(utc_time, lon, lat, alt)` → (azimuth°, elevation°) -/
def observerLookAt (o : Orbital α) (i : Instant) (lonDeg latDeg alt : α) : Except Sgp4.PropErr (α × α) :=
  match positionAt o i false with
  | .error e => .error e
  | .ok (pos, _) => .ok (Look.lookMethodOfPos (daysOf i) pos lonDeg latDeg alt)

end PV.Pipeline
