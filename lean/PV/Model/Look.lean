/-
  PV.Model.Look — look angles (both implementations), sub-satellite point
  (Orbital.get_lonlatalt / geoloc.get_lonlatalt), utc2local.  Generic over `Num`.
-/
import PV.Model.Astro
namespace PV.Look
variable {α : Type} [Num α]
open PV.Num PV.Astro

/-- south / east / zenith components of `r` at geodetic (lon, lat) [radians], sidereal angle from `d` -/
structure Topo (α : Type) where
  s : α
  e : α
  z : α
  theta : α

def topo (d lon lat : α) (r : V3 α) : Topo α :=
  let theta := Num.pymod (gmst d + lon) ((2 : α) * Num.pi)
  let sinLat := Num.sin lat
  let cosLat := Num.cos lat
  let sinTh := Num.sin theta
  let cosTh := Num.cos theta
  { s := sinLat * cosTh * r.x + sinLat * sinTh * r.y - cosLat * r.z,
    e := -sinTh * r.x + cosTh * r.y,
    z := cosLat * cosTh * r.x + cosLat * sinTh * r.y + sinLat * r.z,
    theta := theta }

/-- `clip(min=-1, max=1)` (NaN stays NaN) -/
def clip1 (x : α) : α := if Num.gt x (1 : α) then (1 : α) else if Num.lt x (-(1 : α)) then -(1 : α) else x

/-- azimuth / elevation (degrees) of the module-level `orbital.get_observer_look` given the ECI difference vector -/
def lookModuleOfDiff (d lonDeg latDeg : α) (r : V3 α) : α × α :=
  let t := topo d (deg2rad lonDeg) (deg2rad latDeg) r
  let az := Num.pymod (Num.atan2 (-t.e) t.s + Num.pi) ((2 : α) * Num.pi)
  let rg := Num.sqrt (r.x * r.x + r.y * r.y + r.z * r.z)
  let el := Num.asin (clip1 (t.z / rg))
  (rad2deg az, rad2deg el)

/-- module-level `get_observer_look(sat_lon, sat_lat, sat_alt, t, lon, lat, alt)` -/
def lookModule (d satLon satLat satAlt lonDeg latDeg alt : α) : α × α :=
  let p := (observerPosition d satLon satLat satAlt).1
  let o := (observerPosition d lonDeg latDeg alt).1
  lookModuleOfDiff d lonDeg latDeg (V3.sub p o)

/-- `Orbital.get_observer_look` given the satellite ECI position in km (arctan2 + clip, as the module function) -/
def lookMethodOfPos (d : α) (pos : V3 α) (lonDeg latDeg alt : α) : α × α :=
  let o := (observerPosition d lonDeg latDeg alt).1
  lookModuleOfDiff d lonDeg latDeg (V3.sub pos o)

/-! ### sub-satellite point -/

def F : α := Gen.orbital_F
def A : α := Gen.orbital_A
def e2 : α := (F : α) * ((2 : α) - F)

/-- longitude wrap of `get_lonlatalt`: `% 2π` then the two `np.where` -/
def wrapLon (x : α) : α :=
  let l := Num.pymod x ((2 : α) * Num.pi)
  let l := if Num.gt l Num.pi then l - Num.pi * (2 : α) else l
  if Num.le l (-(Num.pi : α)) then l + Num.pi * (2 : α) else l

/-- one pass of the latitude fixed-point body: returns (new lat, c) -/
def latStep (z r lat2 : α) : α × α :=
  let c := (1 : α) / Num.sqrt ((1 : α) - e2 * sq (Num.sin lat2))
  (Num.atan2 (z + c * e2 * Num.sin lat2) r, c)

/-- `while True: … if abs(lat - lat2) < 1e-10: break` with fuel; `none` = fuel exhausted -/
def latLoop (z r : α) : Nat → α → Option (α × α × Nat)
  | 0, _ => none
  | fuel + 1, lat2 =>
    let (lat, c) := latStep z r lat2
    if Num.lt (Num.abs (lat - lat2)) (1e-10 : α) then some (lat, c, 1)
    else match latLoop z r fuel lat with
      | some (l, c', n) => some (l, c', n + 1)
      | none => none

/-- altitude in earth radii after the loop: `r cos φ + z sin φ − √(1 − e² sin² φ)`
    (equal to `r / cos φ − c(φ)` at the fixed point, but regular on and near the polar axis) -/
def altOf (z r lat : α) : α :=
  r * Num.cos lat + z * Num.sin lat - Num.sqrt ((1 : α) - e2 * Num.sin lat * Num.sin lat)

/-- `get_lonlatalt` from the *normalised* position (earth radii) → (lon°, lat°, alt km, iterations) -/
def lonLatAlt (d : α) (pn : V3 α) (fuel : Nat := 200) : Option (α × α × α × Nat) :=
  let k : α := Gen.orbital_XKMPER
  let lon := wrapLon (Num.atan2 (pn.y * k) (pn.x * k) - gmst d)
  let r := Num.sqrt (sq pn.x + sq pn.y)
  let lat0 := Num.atan2 pn.z r
  match latLoop pn.z r fuel lat0 with
  | none => none
  | some (lat, _, n) =>
    let alt := altOf pn.z r lat * A
    some (rad2deg lon, rad2deg lat, alt, n)

/-- `geoloc.get_lonlatalt(pos_km, t)`: divides by XKMPER first, then identical -/
def lonLatAltKm (d : α) (p : V3 α) (fuel : Nat := 200) : Option (α × α × α × Nat) :=
  let k : α := Gen.orbital_XKMPER
  lonLatAlt d ⟨p.x / k, p.y / k, p.z / k⟩ fuel

/-- `utc2local`: hours to add -/
def localHours (lonDeg : α) : α := lonDeg * (24 : α) / (360 : α)

end PV.Look
