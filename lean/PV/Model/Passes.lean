/-
  PV.Model.Passes — the discrete logic of `Orbital.get_next_passes`
  (pyorbital/orbital.py:341-388) and one step of `_get_max_parab` (orbital.py:542-570).

  ```python
  times = utc_time + np.array([dt.timedelta(minutes=minutes) for minutes in range(length * 60)])
  elev = self.get_observer_look(times, lon, lat, alt)[1] - horizon
  zcs = np.where(np.diff(np.sign(elev)))[0]
  res = []; risetime = None; risemins = None
  for guess in zcs:
      horizon_mins = _get_root(elev_func, guess, guess + 1.0, tol=tol / 60.0)
      if elev[guess] < 0:
          risetime = ...; risemins = horizon_mins
      else:
          falltime = ...; fallmins = horizon_mins
          if risetime is None: continue
          int_start = max(0, int(np.floor(risemins)))
          int_end = min(len(elev), int(np.ceil(fallmins) + 1))
          middle = int_start + np.argmax(elev[int_start:int_end])
          highest = _get_max_parab(elev_inv_func, max(risemins, middle - 1), min(fallmins, middle + 1), tol=tol / 60.0)
          res += [(risetime, falltime, highest)]
  ```

  The model works in minutes since `utc_time` (the code adds `utc_time` to every reported number).
  `elev` is the list of samples *minus the horizon* (NaN-free: an observer exactly under the satellite
  is clipped since fix 149f9ac).  The root finder (`_get_root` = `scipy.optimize.brentq` on
  `[guess, guess+1]`) and the maximiser (`_get_max_parab`, with its bounded-Brent fallback since
  e71b68a) are PARAMETERS: `root : Nat → α` (one call per crossing index, in the order of `zcs`),
  `maxim : α → α → α` (bracket ↦ culmination).  Note that `risetime` is *not* reset after a pass has
  been emitted — the model keeps that.

  No Mathlib import.
-/
import PV.Num
namespace PV.Passes

/-- `int(np.floor(x))`, `int(np.ceil(x))` -/
class FloorCeil (α : Type) where
  floorI : α → Int
  ceilI : α → Int

instance : FloorCeil Float where
  floorI x := (Float.floor x).toInt64.toInt
  ceilI x := (Float.ceil x).toInt64.toInt

variable {α : Type} [Num α]

/-- a Python `int` used where a float is expected (`max(risemins, middle - 1)`) -/
def ofInt (i : Int) : α := if i ≥ 0 then Num.ofNat i.toNat else -(Num.ofNat (-i).toNat)

/-- `np.sign` of a NaN-free sample, as the integer −1, 0, 1 -/
def sgn (x : α) : Int := if Num.lt (0 : α) x then 1 else if Num.lt x (0 : α) then -1 else 0

/-- entry `i` of `np.diff(np.sign(elev))` is non-zero (`np.where` keeps exactly those `i`);
    `i` ranges over `range(len(elev) - 1)`, so both samples exist -/
def crossAt (e : List α) (i : Nat) : Bool :=
  match e[i]?, e[i+1]? with
  | some x, some y => sgn y - sgn x != 0
  | _, _ => false

/-- `zcs = np.where(np.diff(np.sign(elev)))[0]` -/
def zeroCrossings (e : List α) : List Nat := (List.range (e.length - 1)).filter (crossAt e)

/-- `np.argmax` of a non-empty 1-d array: index of the FIRST maximum -/
def argmaxGo : List α → α → Nat → Nat → Nat
  | [], _, bi, _ => bi
  | y :: ys, best, bi, i => if Num.lt best y then argmaxGo ys y i (i + 1) else argmaxGo ys best bi (i + 1)

/-- `np.argmax(l)`; numpy raises ValueError on an empty array — the slice of `get_next_passes` is never
    empty when the root finder answers inside its bracket (theorem `slice_nonempty`); 0 is returned here
    for the empty list and no theorem uses that value. -/
def argmax : List α → Nat
  | [] => 0
  | x :: xs => argmaxGo xs x 0 1

/-- one reported pass with the intermediate quantities of the loop body -/
structure Pass (α : Type) where
  rise : α          -- risemins
  fall : α          -- fallmins
  middle : Nat      -- index of the best minute sample
  lo : α            -- max(risemins, middle - 1)
  hi : α            -- min(fallmins, middle + 1)
  culm : α          -- _get_max_parab(..., lo, hi)

variable [FloorCeil α]

/-- `int_start = max(0, int(np.floor(risemins)))` -/
def intStart (r : α) : Nat := (FloorCeil.floorI r).toNat

/-- `int_end = min(len(elev), int(np.ceil(fallmins) + 1))`
    (a negative `ceil + 1` cannot occur: roots are ≥ guess ≥ 0, theorem `rise_fall_are_roots`) -/
def intEnd (e : List α) (h : α) : Nat := min e.length (FloorCeil.ceilI h + 1).toNat

/-- `elev[int_start:int_end]` -/
def slice (e : List α) (s t : Nat) : List α := (e.take t).drop s

/-- the body of the `else` branch once a rise is known -/
def mkPass (e : List α) (maxim : α → α → α) (r h : α) : Pass α :=
  let s := intStart r
  let t := intEnd e h
  let middle := s + argmax (slice e s t)
  let lo := Num.max r (ofInt ((middle : Int) - 1))
  let hi := Num.min h (ofInt ((middle : Int) + 1))
  ⟨r, h, middle, lo, hi, maxim lo hi⟩

/-- the `for guess in zcs` loop; state = `risemins` (`none` = `risetime is None`) -/
def loop (e : List α) (root : Nat → α) (maxim : α → α → α) : List Nat → Option α → List (Pass α)
  | [], _ => []
  | g :: gs, rise =>
    let h := root g
    match e[g]? with
    | none => []                                   -- IndexError; unreachable: every guess is < len(elev) - 1
    | some x =>
      if Num.lt x (0 : α) then loop e root maxim gs (some h)
      else
        match rise with
        | none => loop e root maxim gs none          -- `continue`
        | some r => mkPass e maxim r h :: loop e root maxim gs (some r)

/-- `get_next_passes` in minutes since the start of the search -/
def passes (e : List α) (root : Nat → α) (maxim : α → α → α) : List (Pass α) :=
  loop e root maxim (zeroCrossings e) none

/-- one update of `_get_max_parab`:
    `x - 0.5 * (((b - a) ** 2 * (f_b - f_c) - (b - c) ** 2 * (f_b - f_a)) / ((b - a) * (f_b - f_c) - (b - c) * (f_b - f_a)))`
    (in the code `x` equals `b` whenever the update is evaluated) -/
def parabStep (a b c fa fb fc x : α) : α :=
  x - (0.5 : α) * ((Num.sq (b - a) * (fb - fc) - Num.sq (b - c) * (fb - fa)) /
                   ((b - a) * (fb - fc) - (b - c) * (fb - fa)))

/-- the three abscissae `_get_max_parab` starts from: `a = start, c = end, b = (a + c) / 2.0` -/
def parabInit (lo hi : α) : α × α × α := (lo, (lo + hi) / (2.0 : α), hi)

/-- the re-bracketing after an accepted step: `a, b, c = (a + x) / 2.0, x, (x + c) / 2.0` -/
def parabShrink (a c x : α) : α × α × α := ((a + x) / (2.0 : α), x, (x + c) / (2.0 : α))

end PV.Passes
