/-
  PV.Model.Instruments — pyorbital/geoloc_instrument_definitions.py and the
  seconds → timedelta64[ns] conversion of geoloc.ScanGeometry.__init__,
  generic over `Num`.  Every constant is the regenerated `Gen.instr__…`.

  Per-point formulas (functions of the scan-point value / index and of the
  line number), then the arrays the definition functions build:
    fovs  : shape (2, lines, positions)   as  List (List (List α))
    times : shape (lines, positions)      as  List (List α)      (seconds)
    timesNs                               the same in integer nanoseconds
  Operation order follows the source so that the `Float` reading reproduces numpy.

  Scan points are natural numbers (indices already resolved: the harness turns
  slices / negative indices into the point values, as `np.arange(n)[idx]` does).
-/
import PV.Num
import PV.Generated.Consts
namespace PV.Instr
variable {α : Type} [Num α]
open PV.Num PV.Gen

/-- int64 → float64 conversion of a scan point / line number -/
@[inline] def nat (n : Nat) : α := Num.ofNat n

/-- `(scan_points / c - 1) * amp` : the across-track ramp of the symmetric scanners -/
def rampAngle (c amp p : α) : α := (p / c - (1 : α)) * amp

/-- `scan_points * si + offset[line]` with `offset = arange(n) * period` -/
def time2 (si period line p : α) : α := p * si + line * period

/-- `(scan_points * si + sync_time) + offset[line]` -/
def time3 (si sync period line p : α) : α := (p * si + sync) + line * period

/-- `np.linspace(a, b, n)[i]` (i < n): numpy computes `arange(n) * step + a` with
    `step = (b - a) / (n - 1)` and then overwrites the last element by `b`;
    for n = 1 (div = 0) it computes `arange(1) * (b - a) + a`.  (The `step == 0`
    branch of numpy is not reachable here: a ≠ b for every use.) -/
def linspace (a b : α) (n i : Nat) : α :=
  if n ≤ 1 then nat i * (b - a) + a
  else if i + 1 = n then b
  else nat i * ((b - a) / nat (n - 1)) + a

/-- `np.array(times) * np.timedelta64(1000000000, "ns")` : numpy multiplies in float64 and
    casts to int64 (truncation toward zero).  All modelled times are ≥ 0 (theorem
    `C19.time_nonneg`), where truncation is `floor`. -/
def toNs (x : α) : α := Num.floor (x * (instr__ScanGeometry___init___L3 : α))

-- ------------------------------------------------------------------ AVHRR
/-- avhrr: `(scan_points / 1023.5 - 1) * np.deg2rad(-scan_angle)` -/
def avhrrAngle (p : α) : α := rampAngle instr__avhrr_L3 (deg2rad (-(instr__avhrr__scan_angle : α))) p
/-- avhrr: `scan_points * 0.000025` + `arange(scans_nb) * frequency` -/
def avhrrTime (line p : α) : α := time2 instr__avhrr_L7 instr__avhrr__frequency line p

def avhrrGacAngle (p : α) : α := rampAngle instr__avhrr_gac_L5 (deg2rad (-(instr__avhrr_gac__scan_angle : α))) p
/-- avhrr_gac called with an integer `scan_times` (the `except TypeError` branch) -/
def avhrrGacTime (line p : α) : α := time2 instr__avhrr_gac_L9 instr__avhrr_gac__frequency line p

-- ------------------------------------------------------------------ VIIRS
/-- `(scan_points / (chn_pixels / 2. - 0.5) - 1) * np.deg2rad(-56.28)` -/
def viirsAcross (p : α) : α :=
  rampAngle ((instr__viirs__chn_pixels : α) / instr__viirs_L4 - instr__viirs_L5) (deg2rad (-(instr__viirs_L7 : α))) p
/-- `-(np.arange(scan_lines) / (scan_lines / 2. - 0.5) - 1) * y_max_angle` for detector `d` -/
def viirsAlong (d : α) : α :=
  (-(d / ((instr__viirs__scan_lines : α) / instr__viirs_L11 - instr__viirs_L12) - (1 : α))) * instr__viirs__y_max_angle
/-- `scan_points * SEC_EACH_SCANCOLUMN + (arange(scans_nb) * sec_scan_duration * scan_step)[scan]` -/
def viirsTime (scan p : α) : α :=
  p * instr__viirs__SEC_EACH_SCANCOLUMN + scan * instr__viirs__sec_scan_duration * instr__viirs__scan_step

/-- detectors per scan (default `scan_lines`) -/
def viirsDet : Nat := instr__viirs__scan_lines_N
/-- pixels per line (default `chn_pixels`) -/
def viirsWidth : Nat := instr__viirs__chn_pixels_N

-- ------------------------------------------------------------------ sounders
def amsuaAngle (p : α) : α :=
  rampAngle ((instr__amsua__scan_len : α) * instr__amsua_L6 - instr__amsua_L7) (deg2rad instr__amsua__scan_angle) p
def amsuaTime (line p : α) : α :=
  time3 instr__amsua__sampling_interval instr__amsua__sync_time instr__amsua__scan_rate line p

def mhsAngle (p : α) : α :=
  rampAngle ((instr__mhs__scan_len : α) * instr__mhs_L10 - instr__mhs_L11) (deg2rad instr__mhs__scan_angle) p
def mhsTime (line p : α) : α :=
  time3 instr__mhs__sampling_interval instr__mhs__sync_time instr__mhs__scan_rate line p

def hirs4Angle (p : α) : α :=
  rampAngle ((instr__hirs4__scan_len : α) * instr__hirs4_L4 - instr__hirs4_L5) (deg2rad instr__hirs4__scan_angle) p
def hirs4Time (line p : α) : α := time2 instr__hirs4__sampling_interval instr__hirs4__scan_rate line p

/-- atms: `np.linspace(-np.deg2rad(scan_angle), np.deg2rad(scan_angle), scan_len)[scan_points]` -/
def atmsAngle (p : Nat) : α :=
  linspace (-(deg2rad (instr__atms__scan_angle : α))) (deg2rad instr__atms__scan_angle) instr__atms__scan_len_N p
def atmsTime (line p : α) : α := time2 instr__atms__sampling_interval instr__atms__scan_rate line p

def mwhs2Angle (p : α) : α :=
  rampAngle ((instr__mwhs2__scan_len : α) * instr__mwhs2_L10 - instr__mwhs2_L11) (deg2rad instr__mwhs2__scan_angle) p
def mwhs2Time (line p : α) : α :=
  time3 instr__mwhs2__sampling_interval instr__mwhs2__sync_time instr__mwhs2__scan_rate line p

-- ------------------------------------------------------------------ ASCAT
/-- points per half swath (`np.linspace(…, 21)`, twice) -/
def ascatHalf : Nat := instr__ascat_L7_N
def ascatHalf2 : Nat := instr__ascat_L8_N
/-- `np.concatenate([linspace(-d2r(outer), -d2r(inner), 21), linspace(d2r(inner), d2r(outer), 21)])[scan_points]` -/
def ascatAngle (p : Nat) : α :=
  if p < ascatHalf then
    linspace (-(deg2rad (instr__ascat__scan_angle_outer : α))) (-(deg2rad (instr__ascat__scan_angle_inner : α))) ascatHalf p
  else
    linspace (deg2rad (instr__ascat__scan_angle_inner : α)) (deg2rad instr__ascat__scan_angle_outer) ascatHalf2 (p - ascatHalf)
/-- `sampling_interval = scan_rate / float(np.max(scan_points) + 1)`; `mx = np.max(scan_points)` -/
def ascatTime (mx : Nat) (line p : α) : α :=
  time2 ((instr__ascat__scan_rate : α) / nat (mx + 1)) instr__ascat__scan_rate line p

-- ------------------------------------------------------------------ OLCI / SLSTR (resampling: only the COUNT of points matters)
/-- olci: `np.linspace(np.deg2rad(46.5), np.deg2rad(-22.1), len(scan_points))[j]` -/
def olciAngle (n j : Nat) : α :=
  linspace (deg2rad (instr__olci__scan_angle_west : α)) (deg2rad instr__olci__scan_angle_east) n j
def slstrAngle (n j : Nat) : α :=
  linspace (deg2rad (instr__slstr_nadir__scan_angle_west : α)) (deg2rad instr__slstr_nadir__scan_angle_east) n j

-- ------------------------------------------------------------------ the line scanners as one table
/-- the line scanners whose angle is a function of the scan point alone -/
inductive Inst | avhrr | avhrrGac | amsua | mhs | hirs4 | atms | mwhs2 | ascat
deriving DecidableEq, Repr

namespace Inst
/-- across-track angle of scan point `p` -/
def angle : Inst → Nat → α
  | avhrr, p => avhrrAngle (nat p)
  | avhrrGac, p => avhrrGacAngle (nat p)
  | amsua, p => amsuaAngle (nat p)
  | mhs, p => mhsAngle (nat p)
  | hirs4, p => hirs4Angle (nat p)
  | atms, p => atmsAngle p
  | mwhs2, p => mwhs2Angle (nat p)
  | ascat, p => ascatAngle p

/-- sample time (seconds) of scan point `p` on line `line`; `mx` (the largest selected point) is used by ASCAT only -/
def time : Inst → Nat → Nat → Nat → α
  | avhrr, _, l, p => avhrrTime (nat l) (nat p)
  | avhrrGac, _, l, p => avhrrGacTime (nat l) (nat p)
  | amsua, _, l, p => amsuaTime (nat l) (nat p)
  | mhs, _, l, p => mhsTime (nat l) (nat p)
  | hirs4, _, l, p => hirs4Time (nat l) (nat p)
  | atms, _, l, p => atmsTime (nat l) (nat p)
  | mwhs2, _, l, p => mwhs2Time (nat l) (nat p)
  | ascat, mx, l, p => ascatTime mx (nat l) (nat p)

/-- number of scan positions of the full set (`scan_len`; for AVHRR the 2048 of `avhrr_all_geom`) -/
def npos : Inst → Nat
  | avhrr => instr__avhrr_all_geom_L0_N
  | avhrrGac => instr__avhrr_all_geom_L0_N
  | amsua => instr__amsua__scan_len_N
  | mhs => instr__mhs__scan_len_N
  | hirs4 => instr__hirs4__scan_len_N
  | atms => instr__atms__scan_len_N
  | mwhs2 => instr__mwhs2__scan_len_N
  | ascat => instr__ascat__scan_len_N

/-- swath half-width (radians): `|deg2rad(scan_angle)|` (ASCAT: the outer angle) -/
def swath : Inst → α
  | avhrr => Num.abs (deg2rad (instr__avhrr__scan_angle : α))
  | avhrrGac => Num.abs (deg2rad (instr__avhrr_gac__scan_angle : α))
  | amsua => Num.abs (deg2rad (instr__amsua__scan_angle : α))
  | mhs => Num.abs (deg2rad (instr__mhs__scan_angle : α))
  | hirs4 => Num.abs (deg2rad (instr__hirs4__scan_angle : α))
  | atms => Num.abs (deg2rad (instr__atms__scan_angle : α))
  | mwhs2 => Num.abs (deg2rad (instr__mwhs2__scan_angle : α))
  | ascat => Num.abs (deg2rad (instr__ascat__scan_angle_outer : α))

/-- scan period (seconds between successive lines) -/
def period : Inst → α
  | avhrr => instr__avhrr__frequency
  | avhrrGac => instr__avhrr_gac__frequency
  | amsua => instr__amsua__scan_rate
  | mhs => instr__mhs__scan_rate
  | hirs4 => instr__hirs4__scan_rate
  | atms => instr__atms__scan_rate
  | mwhs2 => instr__mwhs2__scan_rate
  | ascat => instr__ascat__scan_rate
end Inst

/-- `np.max(scan_points)` (0 for the empty list; ASCAT refuses fewer than two points) -/
def maxPoint (pts : List Nat) : Nat := pts.foldl Nat.max 0

/-- `np.vstack((angles, zeros))` tiled over the lines: shape (2, lines, positions) -/
def fovs (i : Inst) (lines : Nat) (pts : List Nat) : List (List (List α)) :=
  [List.replicate lines (pts.map (i.angle)), List.replicate lines (pts.map fun _ => (0 : α))]

/-- `np.tile(per-point times, [lines, 1]) + offset[:, None]` : shape (lines, positions), seconds -/
def times (i : Inst) (lines : Nat) (pts : List Nat) : List (List α) :=
  (List.range lines).map fun l => pts.map (i.time (maxPoint pts) l)

def timesNs (i : Inst) (lines : Nat) (pts : List Nat) : List (List α) :=
  (times i lines pts).map (·.map toNs)

-- VIIRS: lines = scans × detectors
/-- `np.tile(np.dstack((tile(across).T, tile(along))), [scans_nb, 1]).T` : shape (2, scans·32, positions) -/
def viirsFovs (scans : Nat) (pts : List Nat) : List (List (List α)) :=
  [ (List.range (scans * viirsDet)).map (fun _ => pts.map fun p => viirsAcross (nat p)),
    (List.range (scans * viirsDet)).map (fun l => pts.map fun _ => viirsAlong (nat (l % viirsDet))) ]

/-- `tile(scan_points * SEC, [scans·32, 1]) + np.repeat(arange(scans) * dur * step, 32)[:, None]` -/
def viirsTimes (scans : Nat) (pts : List Nat) : List (List α) :=
  (List.range (scans * viirsDet)).map fun l => pts.map fun p => viirsTime (nat (l / viirsDet)) (nat p)

def viirsTimesNs (scans : Nat) (pts : List Nat) : List (List α) :=
  (viirsTimes scans pts).map (·.map toNs)

-- OLCI / SLSTR
/-- the two resampling imagers -/
inductive Resamp | olci | slstr
deriving DecidableEq, Repr

def Resamp.angle : Resamp → Nat → Nat → α
  | .olci, n, j => olciAngle n j
  | .slstr, n, j => slstrAngle n j

/-- default number of positions (`scan_points=None`) -/
def Resamp.npos : Resamp → Nat
  | .olci => instr__olci__scan_len_N
  | .slstr => instr__slstr_nadir__scan_len_N

def resampFovs (r : Resamp) (lines : Nat) (pts : List Nat) : List (List (List α)) :=
  [List.replicate lines ((List.range pts.length).map (r.angle pts.length)),
   List.replicate lines ((List.range pts.length).map fun _ => (0 : α))]

/-- `np.tile(np.zeros_like(scanline_angles), [lines, 1])` -/
def resampTimes (_r : Resamp) (lines : Nat) (pts : List Nat) : List (List α) :=
  List.replicate lines ((List.range pts.length).map fun _ => (0 : α))

def resampTimesNs (r : Resamp) (lines : Nat) (pts : List Nat) : List (List α) :=
  (resampTimes r lines pts).map (·.map toNs)

end PV.Instr
