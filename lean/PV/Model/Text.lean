/-
  PV.Model.Text — the ASCII fragment of the Python `str` operations pyorbital's
  TLE code uses, over `List Char`.  (Non-ASCII input is outside the model; the
  correspondence check records such inputs without comparing them.)
-/
namespace PV.Text

/-- whitespace as `str.strip()` / `str.split()` see it, ASCII part -/
def isPyWs (c : Char) : Bool :=
  c = ' ' || c = '\t' || c = '\n' || c = '\r' || c = '\x0b' || c = '\x0c' ||
  c = '\x1c' || c = '\x1d' || c = '\x1e' || c = '\x1f'

def lstrip : List Char → List Char
  | [] => []
  | c :: cs => if isPyWs c then lstrip cs else c :: cs

def rstrip (s : List Char) : List Char := (lstrip s.reverse).reverse

/-- `str.strip()` -/
def strip (s : List Char) : List Char := rstrip (lstrip s)

/-- whitespace as `int(s)` / `float(s)` strip it, ASCII part: `\t \n \v \f \r` and the blank.  Unlike `str.strip()`, the
    conversions do NOT strip the separators 0x1c–0x1f (`int("\x1c5")` raises ValueError; measured on CPython 3.12 for
    every code point: harness/pytrans_selftest.py) -/
def isNumWs (c : Char) : Bool :=
  c = ' ' || c = '\t' || c = '\n' || c = '\r' || c = '\x0b' || c = '\x0c'

def nlstrip : List Char → List Char
  | [] => []
  | c :: cs => if isNumWs c then nlstrip cs else c :: cs

def nrstrip (s : List Char) : List Char := (nlstrip s.reverse).reverse

/-- what `int()` / `float()` remove from both ends before they read the number -/
def numStrip (s : List Char) : List Char := nrstrip (nlstrip s)

/-- `s[a:b]` for `0 ≤ a`, `0 ≤ b` (Python clamps to the length) -/
def slice (s : List Char) (a b : Nat) : List Char := (s.take b).drop a

/-- ASCII `str.upper()` -/
def upperChar (c : Char) : Char :=
  if 97 ≤ c.toNat ∧ c.toNat ≤ 122 then Char.ofNat (c.toNat - 32) else c
def upper (s : List Char) : List Char := s.map upperChar

def isAsciiDigit (c : Char) : Bool := decide (48 ≤ c.toNat ∧ c.toNat ≤ 57)
def digitVal (c : Char) : Nat := c.toNat - 48

def startsWith : List Char → List Char → Bool
  | _, [] => true
  | [], _ :: _ => false
  | c :: cs, p :: ps => c == p && startsWith cs ps

/-- `str.split()` (whitespace runs) -/
def splitWs (s : List Char) : List (List Char) :=
  let rec go : List Char → List Char → List (List Char) → List (List Char)
    | [], cur, acc => (if cur.isEmpty then acc else cur.reverse :: acc).reverse
    | c :: cs, cur, acc =>
      if isPyWs c then go cs [] (if cur.isEmpty then acc else cur.reverse :: acc)
      else go cs (c :: cur) acc
  go s [] []

/-- `str.split("\n")` -/
def splitNl (s : List Char) : List (List Char) :=
  let rec go : List Char → List Char → List (List Char) → List (List Char)
    | [], cur, acc => (cur.reverse :: acc).reverse
    | c :: cs, cur, acc => if c = '\n' then go cs [] (cur.reverse :: acc) else go cs (c :: cur) acc
  go s [] []

def allDigits (s : List Char) : Bool := !s.isEmpty && s.all isAsciiDigit
def natOfDigits (s : List Char) : Nat := s.foldl (fun a c => a * 10 + digitVal c) 0

/-- result of a Python conversion -/
inductive Py (α : Type)
  | ok (a : α)
  | valueError
  | outOfModel   -- grammar the model does not cover (inf/nan/underscores/non-ASCII); counted, not compared
deriving Repr, DecidableEq

/-- `int(s)` for ASCII `[ws][+-]digits[ws]` (`ws` = `isNumWs`) -/
def pyInt (s : List Char) : Py Int :=
  let t := numStrip s
  if t.any (fun c => c = '_' || c.toNat ≥ 128) then .outOfModel else
  match t with
  | '-' :: r => if allDigits r then .ok (-(natOfDigits r : Int)) else .valueError
  | '+' :: r => if allDigits r then .ok (natOfDigits r) else .valueError
  | r => if allDigits r then .ok (natOfDigits r) else .valueError

/-- exact decimal `mant * 10^exp` -/
structure Dec where
  mant : Int
  exp : Int
deriving Repr, DecidableEq

/-- split a digit string `ddd[.ddd]` into (all digits, number of fraction digits); at least one digit overall -/
def parseFixed (s : List Char) : Option (List Char × Nat) :=
  let ip := s.takeWhile isAsciiDigit
  let rest := s.dropWhile isAsciiDigit
  match rest with
  | [] => if ip.isEmpty then none else some (ip, 0)
  | '.' :: fr =>
    if fr.all isAsciiDigit && !(ip.isEmpty && fr.isEmpty) then some (ip ++ fr, fr.length) else none
  | _ => none

/-- `float(s)` on the decimal grammar `[ws][+-](d+[.d*]|.d+)[(e|E)[+-]d+][ws]`, as an exact decimal -/
def pyFloat (s : List Char) : Py Dec :=
  let t := numStrip s
  if t.any (fun c => c = '_' || c.toNat ≥ 128) then .outOfModel else
  let lower := t.map (fun c => if 65 ≤ c.toNat ∧ c.toNat ≤ 90 then Char.ofNat (c.toNat + 32) else c)
  let (neg, body) := match lower with
    | '-' :: r => (true, r)
    | '+' :: r => (false, r)
    | r => (false, r)
  if body.any (fun c => c = 'n' || c = 'i') then .outOfModel else   -- nan / inf / infinity
  let mantS := body.takeWhile (· ≠ 'e')
  let expS := body.dropWhile (· ≠ 'e')
  match parseFixed mantS with
  | none => .valueError
  | some (ds, nfrac) =>
    let m : Int := natOfDigits ds
    let m := if neg then -m else m
    match expS with
    | [] => .ok ⟨m, -(nfrac : Int)⟩
    | _ :: e =>
      match pyIntNoWs e with
      | some k => .ok ⟨m, k - nfrac⟩
      | none => .valueError
where
  pyIntNoWs (e : List Char) : Option Int :=
    match e with
    | '-' :: r => if allDigits r then some (-(natOfDigits r : Int)) else none
    | '+' :: r => if allDigits r then some (natOfDigits r) else none
    | r => if allDigits r then some (natOfDigits r) else none

end PV.Text
