/-
  PV.Model.FetchRun — the driver loop of `pyorbital/fetch_tles.py: run()`: which entries are offered to the archive, in
  which order and under which source name.

  ```python
  for dl_ in config["downloaders"]:
      fetcher = getattr(downloader, dl_)
      tles = fetcher()
      if isinstance(tles, dict):
          for source in tles:
              for tle in tles[source]:
                  db.update_db(tle, source)
      else:
          source = "file"
          if "spacetrack" in dl_:
              source = "spacetrack"
          for tle in tles:
              db.update_db(tle, source)
  db.write_tle_txt()
  db.close()
  ```

  A downloader method delivers a dict source name ↦ entries (`fetch_plain_tle`: the entries are stored under the
  dict's key) or a list (stored under "spacetrack" when the METHOD NAME contains that word, else under "file").
  The archive keeps the first row of an epoch (PV.Model.Db: the INSERT of a second one is an IntegrityError that is
  swallowed), so a row carries the source of the first update of this sequence that offered it.
  Core Lean only.
-/
namespace PV.FetchRun

/-- what a downloader method delivers -/
inductive Fetched (E : Type)
  | bySource (d : List (List Char × List E))      -- a Python dict, in insertion order
  | plain (l : List E)

/-- `sub in s` on strings -/
def contains (sub : List Char) : List Char → Bool
  | [] => sub.isEmpty
  | c :: cs => sub.isPrefixOf (c :: cs) || contains sub cs

/-- the source name of a downloader method that delivers a list -/
def sourceOfName (dl : List Char) : List Char :=
  if contains "spacetrack".toList dl then "spacetrack".toList else "file".toList

/-- `d[k]` -/
def lookup {E : Type} : List (List Char × List E) → List Char → Option (List E)
  | [], _ => none
  | (k, v) :: rest, key => if k = key then some v else lookup rest key

/-- the `update_db(tle, source)` calls one downloader's delivery leads to, in order -/
def updatesOf {E : Type} (dl : List Char) : Fetched E → List (E × List Char)
  | .bySource d => d.flatMap fun kv => ((lookup d kv.1).getD []).map fun e => (e, kv.1)
  | .plain l => l.map fun e => (e, sourceOfName dl)

/-- all `update_db` calls of one run, in order -/
def updates {E : Type} (dls : List (List Char)) (fetch : List Char → Fetched E) : List (E × List Char) :=
  dls.flatMap fun dl => updatesOf dl (fetch dl)

/-- for a dict (distinct keys) the entries of a key are stored under that key -/
def KeysDistinct {E : Type} (d : List (List Char × List E)) : Prop := (d.map Prod.fst).Nodup

end PV.FetchRun
