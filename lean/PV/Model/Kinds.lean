/-
  PV.Model.Kinds — abstract interpretation of the astronomy entry points of
  pyorbital/astronomy.py (jdays2000, jdays, _days, gmst, sun_ra_dec, cos_zen,
  sun_zenith_angle, get_alt_az, observer_position, _float_to_sibling_result) and of
  pyorbital/__init__.py dt2np over *kinds* of values: Python int / float, numpy scalar,
  ndarray (0-d .. 2-d), dask array, each with a dtype; datetime, datetime64[unit] scalars,
  object arrays and datetime64 arrays for the time argument.

  The abstract domain keeps exactly what the dtype / scalar guards of the code look at:
    * `isinstance(x, float)`  (true for Python float and numpy.float64, which subclasses float),
    * `x.dtype`, `x.astype(d)` (AttributeError on Python int / float),
    * `hasattr(x, "__array_function__")`, `np.asarray(0.0, like=x)`,
    * the result type of numpy ufuncs and operators (numpy >= 2 promotion: Python scalars are
      weak, numpy scalars and arrays are strong; an all-0-d result is a numpy scalar),
    * `np.datetime64(x)` succeeding (datetime, datetime64 scalar) or raising ValueError (arrays),
      and the unit of the resulting timedelta (which selects the branch of `_days`).
  The function bodies below are transcriptions of the Python bodies with every operator read
  in the abstract domain.  Core Lean only; every type is finite and every function decidable.
-/
import PV.Model.Time
namespace PV.Kinds

/-! ### the abstract domain -/

inductive DT | f32 | f64 | i64
deriving DecidableEq, Repr

inductive Err | attributeError | typeError
deriving DecidableEq, Repr

/-- abstract value: what kind of Python object an expression evaluates to -/
inductive AV
  | pyint | pyfloat                 -- Python builtins
  | np (d : DT)                     -- numpy scalar (np.generic)
  | nd (d : DT) (r : Nat)           -- numpy.ndarray of rank r (r = 0: 0-d array)
  | da (d : DT) (r : Nat)           -- dask.array.Array of rank r (lazy)
  | err (e : Err)                   -- the evaluation raised
deriving DecidableEq, Repr

/-- float dtype a float ufunc / true division gives for an input dtype -/
def flt : DT → DT
  | .i64 => .f64
  | d => d

/-- numpy promotion of two strong dtypes -/
def promote : DT → DT → DT
  | .f32, .f32 => .f32
  | .i64, .i64 => .i64
  | _, _ => .f64

def AV.rank : AV → Nat
  | .nd _ r => r
  | .da _ r => r
  | _ => 0

def AV.isDask : AV → Bool
  | .da _ _ => true
  | _ => false

/-- a numpy-side result of dtype `d`, broadcast rank `r`: dask if an operand was dask,
    a numpy *scalar* when everything was 0-d, an ndarray otherwise -/
def mk (dask : Bool) (d : DT) (r : Nat) : AV :=
  if dask then .da d r else if r = 0 then .np d else .nd d r

/-- unary float ufunc (deg2rad, rad2deg, sin, cos, tan, sqrt, arcsin, arccos) -/
def ufl : AV → AV
  | .pyint => .np .f64
  | .pyfloat => .np .f64
  | .np d => .np (flt d)
  | .nd d r => mk false (flt d) r
  | .da d r => .da (flt d) r
  | .err e => .err e

/-- binary operator `+ - * % **` (and the arithmetic inside binary ufuncs) -/
def arith : AV → AV → AV
  | .err e, _ => .err e
  | _, .err e => .err e
  | .pyint, .pyint => .pyint
  | .pyint, .pyfloat => .pyfloat
  | .pyfloat, .pyint => .pyfloat
  | .pyfloat, .pyfloat => .pyfloat
  | .pyint, .np d => .np d
  | .pyint, .nd d r => mk false d r
  | .pyint, .da d r => .da d r
  | .np d, .pyint => .np d
  | .nd d r, .pyint => mk false d r
  | .da d r, .pyint => .da d r
  | .pyfloat, .np d => .np (flt d)
  | .pyfloat, .nd d r => mk false (flt d) r
  | .pyfloat, .da d r => .da (flt d) r
  | .np d, .pyfloat => .np (flt d)
  | .nd d r, .pyfloat => mk false (flt d) r
  | .da d r, .pyfloat => .da (flt d) r
  | .np d, .np e => .np (promote d e)
  | .np d, .nd e r => mk false (promote d e) r
  | .nd d r, .np e => mk false (promote d e) r
  | .nd d r, .nd e s => mk false (promote d e) (max r s)
  | .da d r, .np e => .da (promote d e) r
  | .np d, .da e r => .da (promote d e) r
  | .da d r, .nd e s => .da (promote d e) (max r s)
  | .nd d r, .da e s => .da (promote d e) (max r s)
  | .da d r, .da e s => .da (promote d e) (max r s)

/-- make an integer-typed result float (true division, binary float ufuncs) -/
def toFloat : AV → AV
  | .pyint => .pyfloat
  | .np d => .np (flt d)
  | .nd d r => .nd (flt d) r
  | .da d r => .da (flt d) r
  | x => x

/-- true division `/` -/
def tdiv (a b : AV) : AV := toFloat (arith a b)

/-- binary float ufunc (arctan2): numpy output even for two Python scalars -/
def ufl2 (a b : AV) : AV := ufl (arith a b)

/-- unary minus -/
def neg : AV → AV
  | .nd d r => mk false d r
  | x => x

/-- `isinstance(x, float)`: Python float and numpy.float64 (a subclass of float) -/
def isFloat : AV → Bool
  | .pyfloat => true
  | .np .f64 => true
  | _ => false

/-- `x.dtype` -/
def dtypeOf : AV → Except Err DT
  | .np d => .ok d
  | .nd d _ => .ok d
  | .da d _ => .ok d
  | .err e => .error e
  | _ => .error .attributeError        -- Python int / float have no dtype

/-- `x.astype(d)` (also with `copy=False`) -/
def astype (d : DT) : AV → AV
  | .np _ => .np d
  | .nd _ r => .nd d r
  | .da _ r => .da d r
  | .err e => .err e
  | _ => .err .attributeError          -- Python int / float have no astype

instance : Add AV := ⟨arith⟩
instance : Sub AV := ⟨arith⟩
instance : Mul AV := ⟨arith⟩
instance : Mod AV := ⟨arith⟩
instance : HPow AV AV AV := ⟨arith⟩
instance : Div AV := ⟨tdiv⟩
instance : Neg AV := ⟨neg⟩
/-- Python literals: `3` is an int, `3.0` / `1e-6` a float -/
instance (n : Nat) : OfNat AV n := ⟨.pyint⟩
instance : OfScientific AV := ⟨fun _ _ _ => .pyfloat⟩

/-! ### time kinds: `dt2np`, the subtraction of the reference, `_days` -/

/-- rank of a time array in the enumerated product -/
inductive Rk12 | r1 | r2
deriving DecidableEq, Repr

def Rk12.toNat : Rk12 → Nat
  | .r1 => 1
  | .r2 => 2

/-- kinds of the `utc_time` argument -/
inductive TK
  | datetime                      -- datetime.datetime
  | dt64 (u : Time.Unit)          -- numpy.datetime64 scalar of unit ns/us/ms/s/m
  | objarr (r : Rk12)             -- object ndarray of datetimes
  | dtarr (r : Rk12)              -- ndarray of datetime64
deriving DecidableEq, Repr

/-- abstract datetime64 / timedelta64 value: unit, and rank when it is an array -/
inductive TV
  | scalar (u : Time.Unit)
  | array (u : Time.Unit) (r : Nat)
deriving DecidableEq, Repr

/-- which branch of `dt2np` produced the value -/
inductive Dt2npBranch | direct | astypeNs
deriving DecidableEq, Repr

/-- `dt2np`: `try: np.datetime64(t)  except ValueError: t.astype("datetime64[ns]")` -/
def dt2np : TK → Dt2npBranch × TV
  | .datetime => (.direct, .scalar .us)       -- a datetime converts with microsecond unit
  | .dt64 u => (.direct, .scalar u)           -- a datetime64 scalar is returned unchanged
  | .objarr r => (.astypeNs, .array .ns r.toNat)  -- np.datetime64(ndarray) raises ValueError
  | .dtarr r => (.astypeNs, .array .ns r.toNat)

def TV.unit : TV → Time.Unit
  | .scalar u => u
  | .array u _ => u

/-- which branch of `_days` ran -/
inductive DaysBranch | direct | split
deriving DecidableEq, Repr

/-- `np.datetime_data(dt.dtype)[0] in ("ns", "ps", "fs", "as")`; the reference
    `np.datetime64("2000-01-01T12:00")` has unit minutes, so the difference keeps the (finer) unit
    of the instant -/
def daysBranch (tv : TV) : DaysBranch :=
  match tv.unit with
  | .ns => .split
  | _ => .direct

/-- timedelta64 / timedelta64: float64; `_days` first makes the difference an array
    (`np.asanyarray`, numpy scalars have `shape`), a 0-d quotient is a numpy scalar -/
def tdQuot : TV → AV
  | .scalar _ => .np .f64
  | .array _ r => mk false .f64 r

/-- `_days(dt2np(utc_time) - np.datetime64("2000-01-01T12:00"))` -/
def days (tv : TV) : AV :=
  match daysBranch tv with
  | .direct => tdQuot tv
  | .split => tdQuot tv + tdQuot tv       -- whole / day + (dt - whole) / day

def jdays2000 (t : TK) : AV := days (dt2np t).2

def jdays (t : TK) : AV := jdays2000 t + 2451545.0

/-- `np.pi` is a Python float -/
def pi : AV := .pyfloat

def gmst (t : TK) : AV :=
  let ut1 := jdays2000 t / 36525.0
  let theta := 67310.54841 + ut1 * (876600 * 3600 + 8640184.812866 + ut1 * (0.093104 - ut1 * 6.2 * 10e-6))
  ufl (theta / 240.0) % (2 * pi)

def lmst (t : TK) (lon : AV) : AV := gmst t + lon

def sunEclipticLongitude (t : TK) : AV :=
  let jdate := jdays2000 t / 36525.0
  let m_a := ufl (357.52910 + 35999.05030 * jdate - 0.0001559 * jdate * jdate - 0.00000048 * jdate * jdate * jdate)
  let l_0 := 280.46645 + 36000.76983 * jdate + 0.0003032 * jdate * jdate
  let d_l := (1.914600 - 0.004817 * jdate - 0.000014 * jdate * jdate) * ufl m_a
              + (0.019993 - 0.000101 * jdate) * ufl (2 * m_a) + 0.000290 * ufl (3 * m_a)
  ufl (l_0 + d_l)

def sunRaDec (t : TK) : AV × AV :=
  let jdate := jdays2000 t / 36525.0
  let eps := ufl (23.0 + 26.0 / 60.0 + 21.448 / 3600.0
                  - (46.8150 * jdate + 0.00059 * jdate * jdate - 0.001813 * jdate * jdate * jdate) / 3600)
  let eclon := sunEclipticLongitude t
  let x := ufl eclon
  let y := ufl eps * ufl eclon
  let z := ufl eps * ufl eclon
  let r := ufl (1.0 - z * z)
  let declination := ufl2 z r
  let rightAscension := 2 * ufl2 y (x + r)
  (rightAscension, declination)

def localHourAngle (t : TK) (lon ra : AV) : AV := lmst t lon - ra

/-! ### the cast-back guards -/

/-- what a guard `if not isinstance(tmpl, float): x = x.astype(tmpl.dtype)` did -/
inductive Guard
  | skip                 -- `isinstance(tmpl, float)`: nothing cast
  | cast (d : DT)        -- results cast to `d`
  | fail (e : Err)       -- `tmpl.dtype` raised
deriving DecidableEq, Repr

/-- `if not isinstance(tmpl, float): xs = [x.astype(tmpl.dtype) for x in xs]` -/
def castBack (tmpl : AV) (xs : List AV) : Guard × List AV :=
  if isFloat tmpl then (.skip, xs)
  else match dtypeOf tmpl with
    | .ok d => (.cast d, xs.map (astype d))
    | .error e => (.fail e, xs.map fun _ => .err e)

/-- result of an entry point: the branches taken and the kinds of the returned values -/
structure Out where
  dt2np : Dt2npBranch
  days : DaysBranch
  guards : List Guard
  vals : List AV
deriving DecidableEq, Repr

def timeOut (t : TK) (guards : List Guard) (vals : List AV) : Out :=
  ⟨(dt2np t).1, daysBranch (dt2np t).2, guards, vals⟩

/-! ### the entry points -/

def cosZenCore (t : TK) (lon lat : AV) : Guard × AV :=
  let lon := ufl lon            -- np.deg2rad
  let lat := ufl lat
  let (r_a, dec) := sunRaDec t
  let h := localHourAngle t lon r_a
  let csza := ufl lat * ufl dec + ufl lat * ufl dec * ufl h
  let (g, r) := castBack lon [csza]
  (g, r.headD (.err .typeError))

def cosZen (t : TK) (lon lat : AV) : Out :=
  let (g, v) := cosZenCore t lon lat
  timeOut t [g] [v]

def sunZenithAngle (t : TK) (lon lat : AV) : Out :=
  let (g1, csza) := cosZenCore t lon lat
  let sza := ufl (ufl csza)     -- np.rad2deg(np.arccos(csza))
  let (g2, r) := castBack csza [sza]
  timeOut t [g1, g2] r

def getAltAz (t : TK) (lon lat : AV) : Out :=
  let lon := ufl lon
  let lat := ufl lat
  let (ra, dec) := sunRaDec t
  let h := localHourAngle t lon ra
  let alt := ufl (ufl lat * ufl dec + ufl lat * ufl dec * ufl h)
  let az := ufl2 (-(ufl h)) (ufl lat * ufl dec - ufl lat * ufl h)
  let (g, r) := castBack lon [alt, az]
  timeOut t [g] r

/-- Earth flattening, equatorial radius, rotation rate: Python floats -/
def F : AV := 1 / 298.257223563
def A : AV := 6378.137
def MFACTOR : AV := 7.292115E-5

/-- `_float_to_sibling_result(0.0, template)` -/
def floatToSibling (tmpl : AV) : AV :=
  if isFloat tmpl then
    match tmpl with
    | .pyfloat => .pyfloat          -- type(template)(0.0)
    | _ => .np .f64
  else match tmpl with
    | .nd _ _ => .nd .f64 0         -- has __array_function__: np.asarray(0.0, like=template), a 0-d array
    | .da _ _ => .da .f64 0         -- dask implements __array_function__: a lazy 0-d dask array
    | .np _ => .err .typeError      -- template.data is a memoryview: `like` rejects it
    | .err e => .err e
    | _ => .err .attributeError     -- Python int has no `.data`

def observerPosition (t : TK) (lon lat alt : AV) : Out :=
  let lon := ufl lon
  let lat := ufl lat
  let theta := (gmst t + lon) % (2 * pi)
  let c := 1 / ufl (1 + F * (F - 2) * (ufl lat) ^ (2 : AV))
  let sq := c * (1 - F) ^ (2 : AV)
  let achcp := (A * c + alt) * ufl lat
  let x := achcp * ufl theta
  let y := achcp * ufl theta
  let z := (A * sq + alt) * ufl lat
  let vx := -MFACTOR * y
  let vy := MFACTOR * x
  let vz := floatToSibling vx
  let (g, r) := castBack lon [x, y, z, vx, vy, vz]
  timeOut t [g] r

def gmstOut (t : TK) : Out := timeOut t [] [gmst t]
def jdaysOut (t : TK) : Out := timeOut t [] [jdays t]

/-! ### the enumerated product -/

inductive Fn | sunZenithAngle | cosZen | getAltAz | observerPosition | gmst | jdays
deriving DecidableEq, Repr

inductive Rk | r0 | r1 | r2
deriving DecidableEq, Repr

def Rk.toNat : Rk → Nat
  | .r0 => 0
  | .r1 => 1
  | .r2 => 2

/-- kinds of the coordinate arguments (longitude, latitude, altitude) -/
inductive CK
  | pyint | pyfloat
  | nps (d : DT)
  | arr (d : DT) (r : Rk)
  | dask (d : DT) (r : Rk)
deriving DecidableEq, Repr

def CK.av : CK → AV
  | .pyint => .pyint
  | .pyfloat => .pyfloat
  | .nps d => .np d
  | .arr d r => .nd d r.toNat
  | .dask d r => .da d r.toNat

/-- the call `fn(utc_time, lon, lat[, alt])` with all coordinates of one kind -/
def run (f : Fn) (t : TK) (c : CK) : Out :=
  match f with
  | .sunZenithAngle => sunZenithAngle t c.av c.av
  | .cosZen => cosZen t c.av c.av
  | .getAltAz => getAltAz t c.av c.av
  | .observerPosition => observerPosition t c.av c.av c.av
  | .gmst => gmstOut t
  | .jdays => jdaysOut t

def allDT : List DT := [.f32, .f64, .i64]
def allRk : List Rk := [.r0, .r1, .r2]
def allUnit : List Time.Unit := [.ns, .us, .ms, .s, .m]
def allFn : List Fn := [.sunZenithAngle, .cosZen, .getAltAz, .observerPosition, .gmst, .jdays]
def allTK : List TK :=
  [.datetime] ++ allUnit.map .dt64 ++ [.objarr .r1, .objarr .r2, .dtarr .r1, .dtarr .r2]
def allCK : List CK :=
  [.pyint, .pyfloat] ++ allDT.map .nps
    ++ allDT.flatMap (fun d => allRk.map (.arr d)) ++ allDT.flatMap (fun d => allRk.map (.dask d))

/-! ### result descriptors -/

inductive Cont | scalar | ndarray | dask
deriving DecidableEq, Repr

structure Descr where
  cont : Cont
  dt : DT
  rank : Nat
deriving DecidableEq, Repr

/-- the descriptor of a returned value; `none` for an error and for a Python int (not a real value) -/
def descr : AV → Option Descr
  | .pyfloat => some ⟨.scalar, .f64, 0⟩
  | .np d => some ⟨.scalar, d, 0⟩
  | .nd d r => some ⟨.ndarray, d, r⟩
  | .da d r => some ⟨.dask, d, r⟩
  | _ => none

def firstErr : List AV → Option Err
  | [] => none
  | .err e :: _ => some e
  | _ :: xs => firstErr xs

/-! ### the statement's table

  Written from the text of property C08, not from the code: "Python int or float and
  integer-typed arrays are taken at their real values [a float64 result], scalars give scalars,
  float32 arrays give float32 results, and dask arrays stay lazy dask arrays"; results have the
  broadcast shape of the inputs they depend on. -/
namespace Spec

def coordRank : CK → Nat
  | .arr _ r => r.toNat
  | .dask _ r => r.toNat
  | _ => 0

def timeRank : TK → Nat
  | .objarr r => r.toNat
  | .dtarr r => r.toNat
  | _ => 0

def isDask : CK → Bool
  | .dask _ _ => true
  | _ => false

def isF32 : CK → Bool
  | .nps .f32 => true
  | .arr .f32 _ => true
  | .dask .f32 _ => true
  | _ => false

def isInt : CK → Bool
  | .pyint => true
  | .nps .i64 => true
  | .arr .i64 _ => true
  | .dask .i64 _ => true
  | _ => false

/-- float32 inputs give float32 results; everything else (ints included) is real-valued float64 -/
def dtype (c : CK) : DT := if isF32 c then .f32 else .f64

/-- which arguments a returned component depends on -/
structure Dep where
  time : Bool
  coords : Bool

/-- one returned component: dtype of the coordinates; rank = broadcast rank of the arguments it depends
    on; dask when the coordinates are dask; a scalar when its arguments are scalars (0-d arrays count
    as scalars); a component that depends on nothing (the constant z-velocity) is a scalar when all
    arguments are scalars and otherwise the 0-d value of its siblings' container, which broadcasts -/
def component (dep : Dep) (t : TK) (c : CK) : Descr :=
  let common := max (timeRank t) (coordRank c)
  let r := max (if dep.time then timeRank t else 0) (if dep.coords then coordRank c else 0)
  let cont : Cont :=
    if isDask c then .dask
    else if 1 ≤ r then .ndarray
    else if dep.time || dep.coords || common == 0 then .scalar
    else .ndarray
  ⟨cont, dtype c, r⟩

/-- functions of the time alone: float64, scalar for a scalar instant, array of the time's rank otherwise -/
def timeOnly (t : TK) : Descr :=
  ⟨if timeRank t = 0 then .scalar else .ndarray, .f64, timeRank t⟩

def table : Fn → TK → CK → List Descr
  | .gmst, t, _ => [timeOnly t]
  | .jdays, t, _ => [timeOnly t]
  | .sunZenithAngle, t, c => [component ⟨true, true⟩ t c]
  | .cosZen, t, c => [component ⟨true, true⟩ t c]
  | .getAltAz, t, c => [component ⟨true, true⟩ t c, component ⟨true, true⟩ t c]
  | .observerPosition, t, c =>
    -- x, y depend on time (through gmst) and on the coordinates; z on latitude and altitude only;
    -- vx, vy like y, x; vz is the constant 0
    [component ⟨true, true⟩ t c, component ⟨true, true⟩ t c, component ⟨false, true⟩ t c,
     component ⟨true, true⟩ t c, component ⟨true, true⟩ t c, component ⟨false, false⟩ t c]

/-- the cast-back guard is skipped exactly for coordinates that are float64-valued scalars after
    `np.deg2rad` (nothing to cast back); otherwise it casts to the input precision -/
def guard (c : CK) : Guard :=
  match c with
  | .pyint => .skip
  | .pyfloat => .skip
  | .nps .f64 => .skip
  | .nps .i64 => .skip
  | .arr .f64 .r0 => .skip
  | .arr .i64 .r0 => .skip
  | c => .cast (dtype c)

/-- `sun_zenith_angle` tests the `cos_zen` *result*: skipped exactly when that is a float64 scalar -/
def guardOnResult (t : TK) (c : CK) : Guard :=
  if timeRank t = 0 then guard c else .cast (dtype c)

def guards : Fn → TK → CK → List Guard
  | .gmst, _, _ => []
  | .jdays, _, _ => []
  | .sunZenithAngle, t, c => [guard c, guardOnResult t c]
  | _, _, c => [guard c]

/-- array-valued times travel as nanoseconds and take the split branch of `_days` -/
def daysBranch : TK → DaysBranch
  | .dt64 .ns => .split
  | .objarr _ => .split
  | .dtarr _ => .split
  | _ => .direct

end Spec

end PV.Kinds
