/-
  PV.Model.Download — `Downloader.fetch_plain_tle` and `Downloader.fetch_spacetrack` (pyorbital/tlefile.py).
  Every request has one of the outcomes {response with a status and a body, timeout}.  A body is abstracted to the list
  of entries `_parse_tles_for_downloader((text,), io.StringIO)` extracts from it (non-TLE text: none); the extraction
  itself is property C10's subject.  `S` sources, `U` URIs, `E` entries.  Core Lean only.
-/
namespace PV.Download

/-- the text of a response, by what `_parse_tles_for_downloader` makes of it -/
inductive Body (E : Type)
  | tles (es : List E)        -- a collection holding these entries in this order (possibly none)
  | nonTle                    -- text holding no entry
deriving Repr, DecidableEq

def Body.entries {E : Type} : Body E → List E
  | .tles es => es
  | .nonTle => []

inductive Outcome (E : Type)
  | resp (status : Nat) (body : Body E)     -- `requests.get` returned
  | timeout                                 -- `requests.get` raised `requests.exceptions.Timeout`
deriving Repr, DecidableEq

/-- success = status 200 -/
abbrev Outcome.ok {E : Type} (b : Body E) : Outcome E := .resp 200 b

inductive Result (S U E : Type)
  | dict (d : List (S × List E))            -- the returned dict, in insertion order
  | timeoutError (uri : U)                  -- `raise TleDownloadTimeoutError(... uri ...)`
deriving Repr, DecidableEq

/-- `d[k] = v` on an insertion-ordered dict -/
def dictSet {S E : Type} [DecidableEq S] (d : List (S × List E)) (k : S) (v : List E) : List (S × List E) :=
  match d with
  | [] => [(k, v)]
  | (k', v') :: rest => if k' = k then (k, v) :: rest else (k', v') :: dictSet rest k v

def dictGet {S E : Type} [DecidableEq S] (d : List (S × List E)) (k : S) : Option (List E) :=
  match d with
  | [] => none
  | (k', v') :: rest => if k' = k then some v' else dictGet rest k

/-- the inner `for uri in sources[source]` loop; state = (`tles[source]`, `failures`).
    `.error u` = the timeout raised at URI `u` (leaves both loops immediately) -/
def uriLoop {U E : Type} (acc : List E) (failures : List U) : List (U × Outcome E) → Except U (List E × List U)
  | [] => .ok (acc, failures)
  | (u, .timeout) :: _ => .error u
  | (u, .resp st b) :: rest =>
    if st = 200 then uriLoop (acc ++ b.entries) failures rest      -- tles[source] += parse(req.text)
    else uriLoop acc (failures ++ [u]) rest                         -- failures.append(uri)

/-- the outer `for source in sources` loop; `tles[source] = []` then the inner loop writes into it -/
def sourceLoop {S U E : Type} [DecidableEq S] (tles : List (S × List E)) :
    List (S × List (U × Outcome E)) → Result S U E
  | [] => .dict tles
  | (s, uris) :: rest =>
    match uriLoop [] [] uris with
    | .error u => .timeoutError u
    | .ok (es, _) => sourceLoop (dictSet tles s es) rest

/-- `fetch_plain_tle()` when `"fetch_plain_tle" in config["downloaders"]` -/
def fetchPlain {S U E : Type} [DecidableEq S] (a : List (S × List (U × Outcome E))) : Result S U E :=
  sourceLoop [] a

/-- `fetch_plain_tle()`; `none` = the downloader is not configured: `{}` -/
def fetchPlainCfg {S U E : Type} [DecidableEq S] (a : Option (List (S × List (U × Outcome E)))) : Result S U E :=
  match a with
  | none => .dict []
  | some a => fetchPlain a

/-! ### Space-Track -/

inductive Req
  | login      -- session.post(login_url, data=credentials)
  | query      -- session.get(download_url)
deriving Repr, DecidableEq

/-- `fetch_spacetrack()`: the returned list and the requests issued, in order.
    `query` is only consulted when the login answered 200. -/
def fetchSpacetrack {E : Type} (loginStatus : Nat) (queryStatus : Nat) (queryBody : Body E) : List E × List Req :=
  if loginStatus ≠ 200 then ([], [.login])
  else if queryStatus = 200 then (queryBody.entries, [.login, .query])
  else ([], [.login, .query])

end PV.Download
