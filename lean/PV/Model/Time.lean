/-
  PV.Model.Time — integer model of the time handling: `dt2np`, datetime64
  units, the civil calendar and the tick differences behind `jdays2000`,
  `_days` and "minutes since epoch".  Core Lean only.
-/
import PV.Num
namespace PV.Time

/-- days from 1970-01-01 of a proleptic-Gregorian civil date (Hinnant's `days_from_civil`;
    this is the algorithm numpy's datetime64 uses for its day count) -/
def daysFromCivil (y : Int) (m d : Nat) : Int :=
  let y' : Int := if m ≤ 2 then y - 1 else y
  -- C: `(y >= 0 ? y : y - 399) / 400` with truncating division, written with floor divisions of non-negative numbers
  let era : Int := if y' ≥ 0 then y' / 400 else -((399 - y') / 400)
  let yoe : Int := y' - era * 400
  let mp : Int := ((m : Int) + 9) % 12
  let doy : Int := (153 * mp + 2) / 5 + (d : Int) - 1
  let doe : Int := yoe * 365 + yoe / 4 - yoe / 100 + doy
  era * 146097 + doe - 719468

/-- Fliegel–Van Flandern Julian day number of a civil date (the independent integer algorithm) -/
def jdnFVF (y : Int) (m d : Nat) : Int :=
  let a : Int := (14 - (m : Int)) / 12
  let y' : Int := y + 4800 - a
  let m' : Int := (m : Int) + 12 * a - 3
  (d : Int) + (153 * m' + 2) / 5 + 365 * y' + y' / 4 - y' / 100 + y' / 400 - 32045

/-- µs since 1970-01-01T00:00 of a civil instant -/
def usOfCivil (y : Int) (mo d h mi s us : Nat) : Int :=
  (daysFromCivil y mo d) * 86400000000 + ((h * 3600 + mi * 60 + s : Nat) : Int) * 1000000 + (us : Int)

/-- datetime64 units the API accepts -/
inductive Unit | ns | us | ms | s | m
deriving Repr, DecidableEq

/-- ticks of that unit per microsecond are not integral for ns; use ns as base: ns per tick -/
def nsPerTick : Unit → Int
  | .ns => 1 | .us => 1000 | .ms => 1000000 | .s => 1000000000 | .m => 60000000000

/-- J2000 reference `np.datetime64("2000-01-01T12:00")` in µs since 1970 -/
def j2000us : Int := 946728000000000

/-- numerator/denominator of `jdays2000` when the instant is held in `unit` ticks since 1970:
    numpy subtracts in the finer unit and divides tick counts as doubles -/
def jd2000Ticks (u : Unit) (ticks : Int) : Int × Int :=
  -- reference is datetime64[m]; result unit is the finer of (u, m) = u
  (ticks - j2000us * 1000 / nsPerTick u, 86400000000000 / nsPerTick u)

variable {α : Type} [Num α]

def ofInt (i : Int) : α := if i ≥ 0 then Num.ofNat i.toNat else -(Num.ofNat (-i).toNat)

/-- `jdays2000` as numpy computes it: float(ticks) / float(ticks per day) -/
def jdays2000 (u : Unit) (ticks : Int) : α :=
  let (n, dn) := jd2000Ticks u ticks
  match u with
  | .ns =>
    -- `_days` splits nanosecond tick counts: whole microseconds (floor) and the sub-microsecond remainder
    let whole := n / 1000
    (ofInt whole : α) / (ofInt 86400000000 : α) + (ofInt (n - whole * 1000) : α) / (ofInt dn : α)
  | _ => (ofInt n : α) / (ofInt dn : α)

/-- minutes since epoch: `(dt2np(t) - t_0) / np.timedelta64(1, "m")`, epoch held in µs -/
def tsinceMinutes (u : Unit) (ticks : Int) (epochUs : Int) : α :=
  -- subtraction happens in the finer unit of (u, us)
  match u with
  | .ns => (ofInt (ticks - epochUs * 1000) : α) / (ofInt 60000000000 : α)
  | .us => (ofInt (ticks - epochUs) : α) / (ofInt 60000000 : α)
  | .ms => (ofInt (ticks * 1000 - epochUs) : α) / (ofInt 60000000 : α)
  | .s => (ofInt (ticks * 1000000 - epochUs) : α) / (ofInt 60000000 : α)
  | .m => (ofInt (ticks * 60000000 - epochUs) : α) / (ofInt 60000000 : α)

end PV.Time
