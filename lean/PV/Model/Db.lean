/-
  PV.Model.Db — the TLE archive of `pyorbital.tlefile.SQLiteTLE`
  (tlefile.py:397-402 SQL text, 544-634 class, 637-641 `table_exists`) and the
  driver loop of `fetch_tles.run`.

  SQLite is abstracted as a map from table name to rows.  Every SQL statement
  of `update_db` runs in its own transaction (`with self.db:`), so the durable
  states are exactly the states between statements.

  * table `'<satid>'`  (epoch date primary key, tle text, insertion_time date, source text)
    — `insertion_time` is wall-clock time and is not modelled;
  * table `platform_names` (satid text primary key, platform_name text);
  * `SQLiteTLE.updated`, a field of the Python object (lost when the process ends).

  Core Lean only (no Mathlib).
-/
namespace PV.Db

/-! ### epochs and their text (`datetime.isoformat()`) -/

/-- a naive `datetime.datetime` (what `tle.epoch.item()` is for a `datetime64[us]`) -/
structure Epoch where
  y : Nat
  mo : Nat
  d : Nat
  h : Nat
  mi : Nat
  s : Nat
  us : Nat
deriving DecidableEq, Repr

/-- the field ranges every `datetime` object satisfies (days per month are not needed) -/
def Epoch.validB (e : Epoch) : Bool :=
  decide (1 ≤ e.y) && decide (e.y ≤ 9999) && decide (1 ≤ e.mo) && decide (e.mo ≤ 12) && decide (1 ≤ e.d) &&
  decide (e.d ≤ 31) && decide (e.h ≤ 23) && decide (e.mi ≤ 59) && decide (e.s ≤ 59) && decide (e.us ≤ 999999)

def Epoch.valid (e : Epoch) : Prop := e.validB = true

/-- chronological order = `datetime.__lt__` of naive datetimes: lexicographic on
    (year, month, day, hour, minute, second, microsecond) -/
def Epoch.lt (a b : Epoch) : Prop :=
  a.y < b.y ∨ (a.y = b.y ∧ (a.mo < b.mo ∨ (a.mo = b.mo ∧ (a.d < b.d ∨ (a.d = b.d ∧ (a.h < b.h ∨ (a.h = b.h ∧
  (a.mi < b.mi ∨ (a.mi = b.mi ∧ (a.s < b.s ∨ (a.s = b.s ∧ a.us < b.us)))))))))))

instance (a b : Epoch) : Decidable (Epoch.lt a b) := by unfold Epoch.lt; exact inferInstance

def digitChar (d : Nat) : Char := Char.ofNat (48 + d % 10)

/-- `"%0<w>d" % n` for `n < 10^w` -/
def pad : Nat → Nat → List Char
  | 0, _ => []
  | w + 1, n => digitChar (n / 10 ^ w) :: pad w (n % 10 ^ w)

/-- `datetime.isoformat()`: `YYYY-MM-DDTHH:MM:SS`, followed by `.ffffff` only when the microsecond is not 0 -/
def iso (e : Epoch) : List Char :=
  pad 4 e.y ++ '-' :: (pad 2 e.mo ++ '-' :: (pad 2 e.d ++ 'T' :: (pad 2 e.h ++ ':' :: (pad 2 e.mi ++ ':' ::
    (pad 2 e.s ++ (if e.us = 0 then [] else '.' :: pad 6 e.us))))))

/-- byte-wise (BINARY collation / memcmp) order of texts.  For UTF-8 the byte order is the code-point order. -/
def lexLt : List Char → List Char → Bool
  | [], [] => false
  | [], _ :: _ => true
  | _ :: _, [] => false
  | a :: as, b :: bs => if a.toNat < b.toNat then true else if a.toNat = b.toNat then lexLt as bs else false

def isDigit (c : Char) : Bool := decide (48 ≤ c.toNat ∧ c.toNat ≤ 57)

/-- value of a string of ASCII digits -/
def digitsVal : List Char → Nat → Option Nat
  | [], acc => some acc
  | c :: cs, acc => if isDigit c then digitsVal cs (acc * 10 + (c.toNat - 48)) else none

/-- `datetime.fromisoformat` restricted to the two shapes `isoformat()` produces; range-checked like the constructor -/
def parseIso (t : List Char) : Option Epoch :=
  match t with
  | y1 :: y2 :: y3 :: y4 :: '-' :: m1 :: m2 :: '-' :: d1 :: d2 :: 'T' :: h1 :: h2 :: ':' :: n1 :: n2 :: ':' :: s1 :: s2 :: rest =>
    let frac : Option Nat :=
      match rest with
      | [] => some 0
      | '.' :: f => if f.length = 6 then digitsVal f 0 else none
      | _ => none
    match digitsVal [y1, y2, y3, y4] 0, digitsVal [m1, m2] 0, digitsVal [d1, d2] 0, digitsVal [h1, h2] 0,
          digitsVal [n1, n2] 0, digitsVal [s1, s2] 0, frac with
    | some y, some mo, some d, some h, some mi, some s, some us =>
      let e : Epoch := ⟨y, mo, d, h, mi, s, us⟩
      if e.validB then some e else none
    | _, _, _, _, _, _, _ => none
  | _ => none

/-! ### database state -/

structure Row where
  epoch : List Char      -- primary key
  tle : List Char
  source : List Char
deriving DecidableEq, Repr

structure Db where
  /-- per-satellite tables in creation order; a table may exist and be empty -/
  tables : List (Nat × List Row)
  /-- `platform_names`; `none` = the table does not exist (brand-new file) -/
  names : Option (List (Nat × List Char))
deriving DecidableEq, Repr

def Db.empty : Db := ⟨[], none⟩

/-- the open connection (`SQLiteTLE` object) -/
structure Conn where
  db : Db
  updated : Bool
deriving DecidableEq, Repr

/-- `config["platforms"]`: a Python dict satid ↦ name (insertion ordered) -/
structure Cfg where
  platforms : List (Nat × List Char)

def lookupNat {β : Type} : List (Nat × β) → Nat → Option β
  | [], _ => none
  | (k, v) :: rest, n => if k = n then some v else lookupNat rest n

def Cfg.nameOf (cfg : Cfg) (sat : Nat) : Option (List Char) := lookupNat cfg.platforms sat

/-- `table_exists(db, sat)` and the table's rows -/
def Db.tableOf (db : Db) (sat : Nat) : Option (List Row) := lookupNat db.tables sat

def setTable : List (Nat × List Row) → Nat → List Row → List (Nat × List Row)
  | [], _, _ => []
  | (k, v) :: rest, n, rows => if k = n then (k, rows) :: rest else (k, v) :: setTable rest n rows

def hasKey (rows : List Row) (k : List Char) : Bool := rows.any (fun r => r.epoch = k)

def hasName (ns : List (Nat × List Char)) (sat : Nat) : Bool := ns.any (fun p => p.1 = sat)

/-! ### SQL statements of `update_db` -/

inductive Stmt
  | createTable (sat : Nat)                        -- CREATE TABLE '<sat>' (...)
  | insertName (sat : Nat) (name : List Char)      -- INSERT INTO platform_names VALUES (?, ?)
  | insertRow (sat : Nat) (r : Row)                -- INSERT INTO '<sat>' VALUES (?, ?, ?, ?)
deriving DecidableEq, Repr

inductive Err
  | integrity       -- sqlite3.IntegrityError: primary key exists
  | operational     -- sqlite3.OperationalError: table exists / no such table
deriving DecidableEq, Repr

/-- one statement = one committed transaction, or an error with the database unchanged -/
def exec (db : Db) : Stmt → Except Err Db
  | .createTable sat =>
    match db.tableOf sat with
    | some _ => .error .operational
    | none => .ok { db with tables := db.tables ++ [(sat, [])] }
  | .insertName sat name =>
    match db.names with
    | none => .error .operational
    | some ns => if hasName ns sat then .error .integrity else .ok { db with names := some (ns ++ [(sat, name)]) }
  | .insertRow sat r =>
    match db.tableOf sat with
    | none => .error .operational
    | some rows =>
      if hasKey rows r.epoch then .error .integrity
      else .ok { db with tables := setTable db.tables sat (rows ++ [r]) }

/-- run statements in order, stop at the first error (reporting the failing statement) -/
def runStmts (db : Db) : List Stmt → Db × Option (Err × Stmt)
  | [] => (db, none)
  | st :: rest =>
    match exec db st with
    | .ok db' => runStmts db' rest
    | .error e => (db, some (e, st))

/-- `"\n".join([tle.line1, tle.line2])` -/
def joinLines (l1 l2 : List Char) : List Char := l1 ++ '\n' :: l2

/-- the statements one call of `update_db` issues, decided by `num in self.platforms` and `table_exists` -/
def plan (cfg : Cfg) (db : Db) (sat : Nat) (e : Epoch) (l1 l2 src : List Char) : List Stmt :=
  match cfg.nameOf sat with
  | none => []
  | some name =>
    (match db.tableOf sat with
     | some _ => []
     | none => [.createTable sat, .insertName sat name]) ++ [.insertRow sat ⟨iso e, joinLines l1 l2, src⟩]

/-! ### operations -/

inductive Op
  | update (sat : Nat) (e : Epoch) (l1 l2 src : List Char)
  /-- the process dies after the `k`-th statement of this update has committed (k = 0: before the first);
      the next thing that exists is a new `SQLiteTLE` on the same file -/
  | crashedUpdate (k : Nat) (sat : Nat) (e : Epoch) (l1 l2 src : List Char)
  | export (writeAlways writeName : Bool)
  | reopen
deriving DecidableEq, Repr

inductive Out
  | done                                  -- update / reopen returned normally
  | raised                                -- a Python exception left the call
  | nothing                               -- export: no file written
  | file (data : List (List Char))        -- export: the file holds `"\n".join(data)`
deriving DecidableEq, Repr

/-- `SQLiteTLE.__init__` on an existing file -/
def openDb (db : Db) : Conn :=
  ⟨{ db with names := match db.names with | none => some [] | some ns => some ns }, false⟩

/-- `SELECT epoch, tle FROM '<sat>' ORDER BY epoch DESC LIMIT 1` (keys are unique) -/
def newest : List Row → Option Row
  | [] => none
  | r :: rs =>
    match newest rs with
    | none => some r
    | some b => if lexLt r.epoch b.epoch then some b else some r

/-- the loop of `write_tle_txt` (repaired code): `none` = an exception left the loop, nothing is written -/
def exportData (db : Db) (writeName : Bool) : List (Nat × List Char) → Option (List (List Char))
  | [] => some []
  | (sat, name) :: rest =>
    match db.tableOf sat with
    | none => exportData db writeName rest                     -- no table: `continue`
    | some rows =>
      match newest rows with
      | none => exportData db writeName rest                   -- `row is None`: `continue`
      | some r =>
        match parseIso r.epoch with
        | none => none                                          -- `fromisoformat` raises ValueError
        | some _ =>
          match exportData db writeName rest with
          | none => none
          | some more => some ((if writeName then [name] else []) ++ r.tle :: more)

def updateOp (cfg : Cfg) (c : Conn) (sat : Nat) (e : Epoch) (l1 l2 src : List Char) : Conn × Out :=
  let p := plan cfg c.db sat e l1 l2 src
  match runStmts c.db p with
  | (db', none) => (⟨db', c.updated || !p.isEmpty⟩, .done)                 -- `self.updated = True` after the row insert
  | (db', some (.integrity, .insertRow _ _)) => (⟨db', c.updated⟩, .done)   -- `except sqlite3.IntegrityError: pass`
  | (db', some _) => (⟨db', c.updated⟩, .raised)

def step (cfg : Cfg) (c : Conn) : Op → Conn × Out
  | .update sat e l1 l2 src => updateOp cfg c sat e l1 l2 src
  | .crashedUpdate k sat e l1 l2 src =>
    (openDb (runStmts c.db ((plan cfg c.db sat e l1 l2 src).take k)).1, .raised)
  | .export wa wn =>
    if !c.updated && !wa then (c, .nothing)
    else match exportData c.db wn cfg.platforms with
      | some data => (c, .file data)
      | none => (c, .raised)
  | .reopen => (openDb c.db, .done)

/-- `SQLiteTLE(path, …)` on a new file -/
def init : Conn := openDb Db.empty

def run (cfg : Cfg) (ops : List Op) : Conn := ops.foldl (fun c op => (step cfg c op).1) init

/-- state and output of every operation -/
def trace (cfg : Cfg) : Conn → List Op → List (Conn × Out)
  | _, [] => []
  | c, op :: ops => let r := step cfg c op; r :: trace cfg r.1 ops

/-- `"\n".join(data)` -/
def fileText : List (List Char) → List Char
  | [] => []
  | [x] => x
  | x :: y :: rest => x ++ '\n' :: fileText (y :: rest)

/-! ### specification: what the history alone determines -/

structure Entry where
  sat : Nat
  epoch : Epoch
  tle : List Char
  source : List Char
deriving DecidableEq, Repr

def configured (cfg : Cfg) (sat : Nat) : Bool := (cfg.nameOf sat).isSome

/-- an operation after which the table of `sat` exists -/
def touches (cfg : Cfg) (sat : Nat) : Op → Bool
  | .update s _ _ _ _ => decide (s = sat) && configured cfg s
  | .crashedUpdate k s _ _ _ _ => decide (s = sat) && configured cfg s && decide (1 ≤ k)
  | _ => false

def tableMade (cfg : Cfg) (pre : List Op) (sat : Nat) : Bool := pre.any (touches cfg sat)

/-- the row this operation offers to the archive, judged against the history `pre` before it: an update of a
    configured satellite always reaches its INSERT; a crashed one only if the INSERT was among the first `k` statements -/
def commits (cfg : Cfg) (pre : List Op) : Op → Option Entry
  | .update s e l1 l2 src => if configured cfg s then some ⟨s, e, joinLines l1 l2, src⟩ else none
  | .crashedUpdate k s e l1 l2 src =>
    if configured cfg s && decide ((if tableMade cfg pre s then 1 else 3) ≤ k) then some ⟨s, e, joinLines l1 l2, src⟩ else none
  | _ => none

def committedAux (cfg : Cfg) (pre : List Op) : List Op → List Entry
  | [] => []
  | op :: rest => (commits cfg pre op).toList ++ committedAux cfg (pre ++ [op]) rest

/-- all rows offered to the archive, in order -/
def committed (cfg : Cfg) (ops : List Op) : List Entry := committedAux cfg [] ops

/-- first-wins: the first entry offered for (sat, epoch) -/
def seen (cfg : Cfg) (ops : List Op) (sat : Nat) (e : Epoch) : Option (List Char × List Char) :=
  ((committed cfg ops).find? (fun en => decide (en.sat = sat) && decide (en.epoch = e))).map (fun en => (en.tle, en.source))

def Op.restarts : Op → Bool
  | .reopen => true
  | .crashedUpdate .. => true
  | _ => false

def Op.epochValid : Op → Prop
  | .update _ e _ _ _ => e.valid
  | .crashedUpdate _ _ e _ _ _ => e.valid
  | _ => True

instance : DecidablePred Op.epochValid := fun op => by
  cases op <;> simp only [Op.epochValid, Epoch.valid] <;> exact inferInstance

/-- every epoch of the history is a `datetime` (the guard the real code gets from `tle.epoch.item()`) -/
def OpsValid (ops : List Op) : Prop := ∀ op ∈ ops, op.epochValid

instance (ops : List Op) : Decidable (OpsValid ops) := by unfold OpsValid; exact inferInstance

/-- rows stored for a satellite; a missing table holds none -/
def rowsOf (db : Db) (sat : Nat) : List Row :=
  match db.tableOf sat with
  | some rows => rows
  | none => []

/-- "a row has been added since the last reopen": some update after the last restart offered a pair not seen before it -/
def Added (cfg : Cfg) (ops : List Op) : Prop :=
  ∃ pre sat e l1 l2 src post, ops = pre ++ Op.update sat e l1 l2 src :: post ∧ configured cfg sat = true ∧
    seen cfg pre sat e = none ∧ ∀ op ∈ post, op.restarts = false

/-- `tle` is the first-seen text of the chronologically greatest epoch seen for `sat` -/
def IsNewest (cfg : Cfg) (ops : List Op) (sat : Nat) (tle : List Char) : Prop :=
  ∃ e src, seen cfg ops sat e = some (tle, src) ∧ ∀ e' v, seen cfg ops sat e' = some v → ¬ Epoch.lt e e'

/-- what an export must write for one configured platform -/
def Block (cfg : Cfg) (ops : List Op) (writeName : Bool) (p : Nat × List Char) (b : List (List Char)) : Prop :=
  ((∀ e, seen cfg ops p.1 e = none) ∧ b = []) ∨
  (∃ tle, IsNewest cfg ops p.1 tle ∧ b = (if writeName then [p.2] else []) ++ [tle])

end PV.Db
