/-
  PV.Model.Geoloc — pyorbital/geoloc.py: qrotate (one column), geodetic_lat,
  subpoint, ScanGeometry.vectors, compute_pixels.  Generic over `Num`.
-/
import PV.Num
import PV.Generated.Consts
namespace PV.Geoloc
variable {α : Type} [Num α]
open PV.Num

def A : α := Gen.geoloc_A
def B : α := Gen.geoloc_B

/-- `qrotate(vector, axis, angle)` for one column: normalise the axis, half-angle quaternion,
    rotation matrix rows as written in `Quaternion.rotation_matrix`, einsum "kj, ikj->ij". -/
def qrotate (v axis : V3 α) (angle : α) : V3 α :=
  let n := V3.norm axis
  let nx := axis.x / n
  let ny := axis.y / n
  let nz := axis.z / n
  let s := Num.sin (angle / (2 : α))
  let x := nx * s
  let y := ny * s
  let z := nz * s
  let w := Num.cos (angle / (2 : α))
  let m00 := sq w + sq x - sq y - sq z
  let m01 := (2 : α) * x * y + (2 : α) * z * w
  let m02 := (2 : α) * x * z - (2 : α) * y * w
  let m10 := (2 : α) * x * y - (2 : α) * z * w
  let m11 := sq w - sq x + sq y - sq z
  let m12 := (2 : α) * y * z + (2 : α) * x * w
  let m20 := (2 : α) * x * z + (2 : α) * y * w
  let m21 := (2 : α) * y * z - (2 : α) * x * w
  let m22 := sq w - sq x - sq y + sq z
  ⟨v.x * m00 + v.y * m01 + v.z * m02, v.x * m10 + v.y * m11 + v.z * m12, v.x * m20 + v.y * m21 + v.z * m22⟩

/-- `np.allclose(a, b)`: |a - b| ≤ 1e-8 + 1e-5 |b| -/
def allclose1 (a b : α) : Bool := Num.le (Num.abs (a - b)) ((1e-8 : α) + (1e-5 : α) * Num.abs b)

def geodStep (a b z r phi : α) : α :=
  let e2 := (a * a - b * b) / (a * a)
  let C := (1 : α) / Num.sqrt ((1 : α) - e2 * sq (Num.sin phi))
  Num.atan2 (z + a * C * e2 * Num.sin phi) r

def geodLoop (a b z r : α) : Nat → α → Option (α × Nat)
  | 0, _ => none
  | fuel + 1, phi =>
    let g := geodStep a b z r phi
    if allclose1 g phi then some (g, 1)
    else match geodLoop a b z r fuel g with
      | some (l, n) => some (l, n + 1)
      | none => none

/-- `geodetic_lat(point, a, b)` -/
def geodeticLat (p : V3 α) (a b : α) (fuel : Nat := 200) : Option (α × Nat) :=
  let r := Num.sqrt (p.x * p.x + p.y * p.y)
  geodLoop a b p.z r fuel (Num.atan2 p.z r)

/-- point of the ellipsoid with geodetic latitude `lat` and longitude `lon` -/
def ellipsoidPoint (a b lat lon : α) : V3 α :=
  let e2 := (a * a - b * b) / (a * a)
  let n := a / Num.sqrt ((1 : α) - e2 * sq (Num.sin lat))
  ⟨n * Num.cos lat * Num.cos lon, n * Num.cos lat * Num.sin lon, ((1 : α) - e2) * n * Num.sin lat⟩

/-- `subpoint(query_point, a, b)` (the latitude iteration always uses the default A, B, as in the source) -/
def subpoint (q : V3 α) (a b : α) (fuel : Nat := 200) : Option (V3 α) :=
  match geodeticLat q A B fuel with
  | none => none
  | some (lat, _) => some (ellipsoidPoint a b lat (Num.atan2 q.y q.x))

/-- `ScanGeometry.vectors` for one pixel: scan angles (fx across, fy along), attitude (roll, pitch, yaw) -/
def viewVector (pos vel : V3 α) (fx fy roll pitch yaw : α) : Option (V3 α) :=
  match subpoint (V3.neg pos) A B with
  | none => none
  | some nd =>
    let n := V3.norm nd
    let nadir : V3 α := ⟨nd.x / n, nd.y / n, nd.z / n⟩
    let vn := V3.norm vel
    let x : V3 α := ⟨vel.x / vn, vel.y / vn, vel.z / vn⟩
    let y0 := V3.cross nadir vel
    let yn := V3.norm y0
    let y : V3 α := ⟨y0.x / yn, y0.y / yn, y0.z / yn⟩
    let xr := qrotate nadir x (fx + roll)
    let xyr := qrotate xr y (fy + pitch)
    some (qrotate xyr nadir yaw)

/-- ellipsoid used by `compute_pixels` (literals inside the function) -/
def PA : α := Gen.geoloc__compute_pixels_L3
def PB : α := Gen.geoloc__compute_pixels_L4

/-- the quantities of the ray/ellipsoid intersection -/
structure Hit (α : Type) where
  ldotc : α
  lsq : α
  csq : α
  disc : α
  d1 : α
  pixel : V3 α

/-- `compute_pixels` for one pixel given satellite position (km) and view vector -/
def intersect (pos v : V3 α) : Hit α :=
  let c := V3.neg pos
  let xr : V3 α := ⟨v.x * ((1 : α) / PA), v.y * ((1 : α) / PA), v.z * ((1 : α) / PB)⟩
  let cr : V3 α := ⟨c.x * ((1 : α) / PA), c.y * ((1 : α) / PA), c.z * ((1 : α) / PB)⟩
  let ldotc := V3.dot xr cr
  let lsq := V3.dot xr xr
  let csq := V3.dot cr cr
  let disc := sq ldotc - csq * lsq + lsq
  let d1 := (ldotc - Num.sqrt disc) / lsq
  { ldotc := ldotc, lsq := lsq, csq := csq, disc := disc, d1 := d1,
    pixel := ⟨v.x * d1 - c.x, v.y * d1 - c.y, v.z * d1 - c.z⟩ }

end PV.Geoloc
