/-
  PV.Model.Astro — pyorbital/astronomy.py, generic over `Num`.

  Time enters as `d = jdays2000(utc_time)` (float days since 2000-01-01T12:00);
  the integer part of the time handling (datetime64 ticks, units, calendar) is
  PV.Model.Time.  Angles in radians unless a name says `Deg`.
  Operation order follows the source so that the `Float` reading reproduces numpy.
-/
import PV.Num
import PV.Generated.Consts
namespace PV.Astro
variable {α : Type} [Num α]
open PV.Num

/-- `astronomy.jdays` given `jdays2000` -/
def jdays (d : α) : α := d + (2451545 : α)

/-- `astronomy.gmst` : seconds-of-time polynomial (source: `6.2 * 10e-6`, i.e. 6.2e-5) reduced to [0, 2π) -/
def gmstTheta (d : α) : α :=
  let ut1 := d / (36525 : α)
  (67310.54841 : α) + ut1 * ((3155760000 : α) + (8640184.812866 : α) + ut1 * ((0.093104 : α) - ut1 * (6.2 : α) * (1e-5 : α)))

def gmst (d : α) : α := Num.pymod (deg2rad (gmstTheta d / (240 : α))) ((2 : α) * Num.pi)

/-- `astronomy._lmst` -/
def lmst (d lon : α) : α := gmst d + lon

/-- mean anomaly of the sun (radians) as in `sun_ecliptic_longitude` -/
def sunMeanAnomaly (d : α) : α :=
  let j := d / (36525 : α)
  deg2rad ((357.52910 : α) + (35999.05030 : α) * j - (0.0001559 : α) * j * j - (0.00000048 : α) * j * j * j)

/-- `astronomy.sun_ecliptic_longitude` (radians) -/
def sunEclipticLongitude (d : α) : α :=
  let j := d / (36525 : α)
  let m := sunMeanAnomaly d
  let l0 := (280.46645 : α) + (36000.76983 : α) * j + (0.0003032 : α) * j * j
  let dl := ((1.914600 : α) - (0.004817 : α) * j - (0.000014 : α) * j * j) * Num.sin m +
            ((0.019993 : α) - (0.000101 : α) * j) * Num.sin ((2 : α) * m) + (0.000290 : α) * Num.sin ((3 : α) * m)
  deg2rad (l0 + dl)

/-- obliquity of the ecliptic (radians) as in `sun_ra_dec` -/
def obliquity (d : α) : α :=
  let j := d / (36525 : α)
  deg2rad ((23 : α) + (26 : α) / (60 : α) + (21.448 : α) / (3600 : α) -
           ((46.8150 : α) * j + (0.00059 : α) * j * j - (0.001813 : α) * j * j * j) / (3600 : α))

/-- `astronomy.sun_ra_dec` → (right ascension, declination) -/
def sunRaDec (d : α) : α × α :=
  let eps := obliquity d
  let lam := sunEclipticLongitude d
  let x := Num.cos lam
  let y := Num.cos eps * Num.sin lam
  let z := Num.sin eps * Num.sin lam
  let r := Num.sqrt ((1 : α) - z * z)
  (  (2 : α) * Num.atan2 y (x + r), Num.atan2 z r)

/-- `_local_hour_angle` -/
def hourAngle (d lon ra : α) : α := lmst d lon - ra

/-- the common expression of `cos_zen` and of the altitude: sin φ sin δ + cos φ cos δ cos h -/
def cosZenRad (d lon lat : α) : α :=
  let (ra, dec) := sunRaDec d
  let h := hourAngle d lon ra
  Num.sin lat * Num.sin dec + Num.cos lat * Num.cos dec * Num.cos h

/-- `astronomy.cos_zen` (lon, lat in degrees) -/
def cosZen (d lonDeg latDeg : α) : α := cosZenRad d (deg2rad lonDeg) (deg2rad latDeg)

/-- `astronomy.sun_zenith_angle` (degrees) -/
def sunZenithAngle (d lonDeg latDeg : α) : α := rad2deg (Num.acos (cosZen d lonDeg latDeg))

/-- `astronomy.get_alt_az` → (altitude, azimuth) in radians -/
def altAz (d lonDeg latDeg : α) : α × α :=
  let lon := deg2rad lonDeg
  let lat := deg2rad latDeg
  let (ra, dec) := sunRaDec d
  let h := hourAngle d lon ra
  ( Num.asin (Num.sin lat * Num.sin dec + Num.cos lat * Num.cos dec * Num.cos h),
    Num.atan2 (-(Num.sin h)) (Num.cos lat * Num.tan dec - Num.sin lat * Num.cos h) )

/-- `astronomy.sun_earth_distance_correction` -/
def sunEarthDistanceCorrection (d : α) : α :=
  (1 : α) - (0.0167 : α) * Num.cos ((2 : α) * Num.pi * (d - (3 : α)) / (365.25636 : α))

/-- `astronomy.observer_position` → (position km, velocity km/s), lon/lat in degrees, alt km -/
def observerPosition (d lonDeg latDeg alt : α) : V3 α × V3 α :=
  let lon := deg2rad lonDeg
  let lat := deg2rad latDeg
  let theta := Num.pymod (gmst d + lon) ((2 : α) * Num.pi)
  let F : α := Gen.astronomy_F
  let A : α := Gen.astronomy_A
  let MF : α := Gen.astronomy_MFACTOR
  let c := (1 : α) / Num.sqrt ((1 : α) + F * (F - (2 : α)) * Num.sq (Num.sin lat))
  let sq := c * Num.sq ((1 : α) - F)
  let achcp := (A * c + alt) * Num.cos lat
  let x := achcp * Num.cos theta
  let y := achcp * Num.sin theta
  let z := (A * sq + alt) * Num.sin lat
  (⟨x, y, z⟩, ⟨-MF * y, MF * x, (0 : α)⟩)

end PV.Astro
