/-
  PV.Model.OrbitNum — `Orbital.get_orbit_number` (pyorbital/orbital.py) : the closed form
  `orbit = rev + dt / P + ndot * dt ** 2 + nddot * dt ** 3`, `int()`, the TBUS variant, the lazily cached
  reference node (`orbit_elements.an_time`, `.an_period`) and `get_equatorial_crossing_time`.
  Generic over `Num α` (Float: executed by the driver; ℝ: theorems).  Core Lean only.
-/
import PV.Num
import PV.Model.Time
import PV.Model.NodeSearch
namespace PV.OrbitNum
open PV PV.NodeSearch

variable {α : Type} [Num α]

/-! ### the number -/

/-- Python's `int(x)` on a float: truncation toward zero (held as a value of α) -/
def pyInt (x : α) : α := if Num.lt x 0 then -(Num.floor (-x)) else Num.floor x

/-- `self.tle.orbit + dt / orbit_period + ndot * dt ** 2 + nddot * dt ** 3`
    (`rev` the TLE revolution number, `dt` days since the reference node, `P` nodal period in days,
    `nd`, `ndd` the TLE fields ṅ/2 and n̈/6; `**` on a float64 scalar is libm `pow`) -/
def orbitFloat (rev dt P nd ndd : α) : α :=
  rev + dt / P + nd * Num.rpow dt 2 + ndd * Num.rpow dt 3

/-- `get_orbit_number(…, tbus_style, as_float)` once `dt` and `P` are known -/
def orbitNumber (rev dt P nd ndd : α) (tbus asFloat : Bool) : α :=
  let o := orbitFloat rev dt P nd ndd
  let o := if asFloat then o else pyInt o
  if tbus then o + 1 else o

/-! ### days -/

/-- `astronomy._days(utc_time - an_time)`: `utc_time` held as `ticks` of unit `u`, `an_time` in µs.
    numpy subtracts in the finer unit; nanosecond differences are split into whole µs + remainder -/
def dtDays (u : Time.Unit) (ticks anUs : Int) : α :=
  match u with
  | .ns =>
    let n := ticks - anUs * 1000
    let whole := n / 1000
    (Time.ofInt whole : α) / (Time.ofInt 86400000000 : α)
      + (Time.ofInt (n - whole * 1000) : α) / (Time.ofInt 86400000000000 : α)
  | _ => (Time.ofInt (ticks * (Time.nsPerTick u / 1000) - anUs) : α) / (Time.ofInt 86400000000 : α)

/-- `astronomy._days(an_period)` (a timedelta64[us]) -/
def periodDays (pUs : Int) : α := (Time.ofInt pUs : α) / (Time.ofInt 86400000000 : α)

/-! ### the lazily cached reference node -/

/-- what the object knows: the trajectory (z and its rate, km and km/s, at a µs tick), the TLE fields -/
structure Env (α : Type) where
  z : Int → α
  vz : Int → α
  /-- `tle.epoch`, µs since 1970 -/
  epoch : Int
  rev : α
  nd : α
  ndd : α
  fuelS : Nat
  fuelB : Nat

/-- ten minutes in µs -/
def tenMin : Int := 600000000

/-- `get_last_an_time` of a µs instant -/
def lastAnUs (e : Env α) (t : Int) : Except Err Int :=
  match lastAn e.z tolKm tenMin e.fuelS e.fuelB t with
  | .ok f => .ok f.t
  | .error er => .error er

/-- "epoch at the ascending node": `not (|z| > 1 or not vz > 0)` at the epoch (within 1 km of the equator, moving north) -/
def epochAtNode (e : Env α) : Bool :=
  !(Num.gt (Num.abs (e.z e.epoch)) 1 || !(Num.gt (e.vz e.epoch) 0))

/-- the reference node:
    `if |z| > 1 or not vz > 0: an_time = get_last_an_time(epoch)` else `an_time = epoch` -/
def initAnTime (e : Env α) : Except Err Int :=
  if epochAtNode e then .ok e.epoch else lastAnUs e e.epoch

/-- the node the nodal period is measured from, `an_time + node_shift`: the reference node itself when it was searched for
    (`node_shift = 0`), otherwise (epoch at the node) the node just before or just after the epoch, located precisely:
    `node_shift = get_last_an_time(epoch + 10 min) - epoch` -/
def initNode (e : Env α) (anTime : Int) : Except Err Int :=
  if epochAtNode e then
    match lastAnUs e (e.epoch + tenMin) with
    | .ok n => .ok (anTime + (n - e.epoch))
    | .error er => .error er
  else .ok (anTime + 0)

/-- `an_period = (an_time + node_shift) - get_last_an_time(an_time + node_shift - 10 min)` -/
def initPeriod (e : Env α) (anTime : Int) : Except Err Int :=
  match initNode e anTime with
  | .error er => .error er
  | .ok node =>
    match lastAnUs e (node - tenMin) with
    | .ok prev => .ok (node - prev)
    | .error er => .error er

/-- the instants the initialisation asks `get_position` for, in order (the epoch; the search for the reference node or,
    with the epoch at the node, for the node next to it; the search for the node before), as far as it gets -/
def initQueries (e : Env α) : List Int :=
  let t1 := if epochAtNode e then e.epoch + tenMin else e.epoch
  match lastAn e.z tolKm tenMin e.fuelS e.fuelB t1 with
  | .error _ => [e.epoch]
  | .ok f1 =>
    match lastAn e.z tolKm tenMin e.fuelS e.fuelB (f1.t - tenMin) with
    | .ok f2 => e.epoch :: f1.queries t1 tenMin ++ f2.queries (f1.t - tenMin) tenMin
    | .error _ => e.epoch :: f1.queries t1 tenMin

/-- the two attribute slots of `orbit_elements` (absent until first use) -/
structure Slots where
  anTime : Option Int
  anPeriod : Option Int
deriving Repr, DecidableEq

def fresh : Slots := ⟨none, none⟩

/-- a query: time representation, ticks, flags -/
structure Query where
  u : Time.Unit
  ticks : Int
  tbus : Bool
  asFloat : Bool

def answer (e : Env α) (t p : Int) (q : Query) : α :=
  orbitNumber e.rev (dtDays q.u q.ticks t) (periodDays p) e.nd e.ndd q.tbus q.asFloat

/-- `get_orbit_number` with its `try … except AttributeError` cache: result and the slots afterwards.
    An exception inside the initialisation leaves the slots as they were at that point. -/
def getOrbitNumber (e : Env α) (s : Slots) (q : Query) : Except Err α × Slots :=
  match s.anTime, s.anPeriod with
  | some t, some p => (.ok (answer e t p q), s)
  | _, _ =>
    match initAnTime e with
    | .error er => (.error er, s)
    | .ok t =>
      match initPeriod e t with
      | .error er => (.error er, { s with anTime := some t })
      | .ok p => (.ok (answer e t p q), ⟨some t, some p⟩)

/-- a history of queries on one object: the results in order -/
def runQueries (e : Env α) : Slots → List Query → List (Except Err α)
  | _, [] => []
  | s, q :: qs => (getOrbitNumber e s q).1 :: runQueries e (getOrbitNumber e s q).2 qs

/-! ### equator crossing time -/

/-- `a == b` on floats (false with a NaN) -/
def feq (a b : α) : Bool := Num.le a b && Num.le b a

/-- the offset `get_equatorial_crossing_time` subtracts from the continuous orbit number, or `none`
    when `int(n_end) - int(n_start) == 0` (no crossing in the interval) -/
def crossingOffset (nStart nEnd : α) (descending : Bool) : Option α :=
  if feq (pyInt nEnd - pyInt nStart) 0 then none
  else some (if descending then pyInt nEnd + (0.5 : α) else pyInt nEnd)

/-- `get_equatorial_crossing_time(tstart, tend)` in µs ticks, given the continuous orbit number
    `n : Int → α` of a µs tick and `scipy.optimize.bisect` as an abstract root finder
    `bis f a b = some x` / `none` (ValueError); `ofTick`/`toTick` stand for `int64 → float` and `int()` -/
def crossingTime (n : Int → α) (ofTick : Int → α) (toTick : α → Int)
    (bis : (α → α) → α → α → Option α) (tstart tend : Int) (descending : Bool) : Option Int :=
  match crossingOffset (n tstart) (n tend) descending with
  | none => none
  | some off =>
    match bis (fun x => n (toTick x) - off) (ofTick tstart) (ofTick tend) with
    | none => none
    | some x => some (toTick x)

end PV.OrbitNum
