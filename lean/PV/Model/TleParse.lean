/-
  PV.Model.TleParse — `tlefile.Tle._parse_tle` (tlefile.py:240-278) as an interpreter of the
  GENERATED column table `PV.Gen.tleColumns` (attribute, line, start, stop, conversion), which
  harness/extract.py reads off the AST of `_parse_tle` on every run.  Core Lean only.

  Values are exact: strings (`List Char`), `Int`, and exact decimals `Dec = mant·10^exp`
  (what `float(text)` denotes before CPython's correctly rounded conversion to binary64).

  Rows are executed in source order; the first failing statement decides the exception class.
  A width-1 column (`stop = start+1`) is an index access `line[i]` in the source (classification,
  ephemeris type) and raises IndexError on a short line; all other columns are slices.
  The epoch statement follows the `epoch_day` row, as in the source.
-/
import PV.Generated.TleColumns
import PV.Model.Text
import PV.Model.Time
namespace PV.TleParse
open PV.Text PV.Gen

inductive Err
  | valueError
  | indexError
  | outOfModel    -- a conversion met grammar outside the Text model (inf/nan/underscore/non-ASCII)
  | badTable      -- the generated table does not have the shape the record needs (missing attribute, wrong kind)
deriving Repr, DecidableEq

inductive Val
  | str (s : List Char)
  | int (i : Int)
  | dec (d : Dec)
deriving Repr, DecidableEq

def ofPy {α : Type} : Py α → Except Err α
  | .ok a => .ok a
  | .valueError => .error .valueError
  | .outOfModel => .error .outOfModel

/-- `_read_tle_decimal(rep)`:
    `if rep[0] in ["-"," ","+"]: val = rep[0] + "." + rep[1:-2].strip() + "e" + rep[-2:]`
    `else: val = "." + rep[:-2].strip() + "e" + rep[-2:]`; `float(val)` -/
def readTleDecimal (rep : List Char) : Except Err Dec :=
  match rep with
  | [] => .error .indexError                       -- rep[0]
  | c0 :: _ =>
    let n := rep.length
    let tail2 := rep.drop (n - 2)                  -- rep[-2:]
    let val :=
      if c0 = '-' ∨ c0 = ' ' ∨ c0 = '+' then
        c0 :: '.' :: (strip ((rep.take (n - 2)).drop 1) ++ 'e' :: tail2)
      else
        '.' :: (strip (rep.take (n - 2)) ++ 'e' :: tail2)
    ofPy (pyFloat val)

/-- one conversion applied to the text of a column -/
def convert (c : Conv) (s : List Char) : Except Err Val :=
  match c with
  | .str => .ok (.str s)
  | .int => (ofPy (pyInt s)).map .int
  | .intOr0 =>
    match pyInt s with
    | .ok i => .ok (.int i)
    | .valueError => .ok (.int 0)                  -- `except ValueError: 0`
    | .outOfModel => .error .outOfModel
  | .float => (ofPy (pyFloat s)).map .dec
  | .expo => (readTleDecimal s).map .dec
  | .intE7 => (ofPy (pyInt s)).map fun i => .dec ⟨i, -7⟩     -- int(...) * 10 ** -7

/-- right-hand side of one assignment of `_parse_tle` -/
def rowValue (c : Col) (l1 l2 : List Char) : Except Err Val :=
  if c.line = 1 ∨ c.line = 2 then
    let l := if c.line = 1 then l1 else l2
    if c.stop = c.start + 1 ∧ l.length ≤ c.start then .error .indexError     -- `line[i]`
    else convert c.conv (slice l c.start c.stop)
  else .error .badTable

/-- µs since 1970-01-01 of 1 January, 00:00 of `year` -/
def yearStartUs (year : Int) : Int := PV.Time.usOfCivil year 1 1 0 0 0 0

/-- `epoch_day` as a count of 10⁻⁸ days, when it is a multiple of 10⁻⁸ day of magnitude ≤ 1000 days
    (every 12-column `ddd.dddddddd` is); otherwise the value is outside the integer epoch model -/
def dayE8 (d : Dec) : Option Int :=
  if d.exp > 4 ∨ d.exp < -24 then none else
  let r : Option Int :=
    if d.exp ≥ -8 then some (d.mant * 10 ^ (d.exp + 8).toNat)
    else
      let k := 10 ^ (-8 - d.exp).toNat
      if d.mant % k = 0 then some (d.mant / k) else none
  match r with
  | some v => if -100000000000 ≤ v ∧ v ≤ 100000000000 then some v else none
  | none => none

/-- `datetime.strptime(epoch_year, "%y") + timedelta(days=epoch_day - 1)` in integer µs since 1970.
    `%y` wants exactly two digits; 00–68 ↦ 20yy, 69–99 ↦ 19yy.  `timedelta(days=x)` rounds the double
    `x·86400e6` to the nearest µs; for a multiple of 10⁻⁸ day (= 864 µs) of magnitude ≤ 1000 days the binary
    error is < 0.02 µs, so the result is the exact integer `(dayE8 − 10⁸)·864` (checked against CPython
    over the whole range by the correspondence run).  A day outside this range is `outOfModel`. -/
def epochOf (yy : List Char) (day : Dec) : Except Err Int :=
  if yy.any (fun c => c.toNat ≥ 128) then .error .outOfModel else
  if yy.length = 2 ∧ yy.all isAsciiDigit then
    let y : Int := natOfDigits yy
    let year : Int := if y ≤ 68 then 2000 + y else 1900 + y
    match dayE8 day with
    | some v => .ok (yearStartUs year + (v - 100000000) * 864)
    | none => .error .outOfModel
  else .error .valueError

/-- interpreter state: attributes assigned so far (latest first), epoch once computed -/
structure St where
  vals : List (String × Val) := []
  epoch : Option Int := none
deriving Repr, DecidableEq

def lookup (a : String) : List (String × Val) → Option Val
  | [] => none
  | (k, v) :: r => if k = a then some v else lookup a r

def step (l1 l2 : List Char) (st : St) (c : Col) : Except Err St :=
  match rowValue c l1 l2 with
  | .error e => .error e
  | .ok v =>
    let vals := (c.attr, v) :: st.vals
    if c.attr = "epoch_day" then
      match lookup "epoch_year" vals, v with
      | some (.str yy), .dec d =>
        match epochOf yy d with
        | .ok e => .ok { vals := vals, epoch := some e }
        | .error e => .error e
      | _, _ => .error .badTable
    else .ok { st with vals := vals }

def runRows (l1 l2 : List Char) : List Col → St → Except Err St
  | [], st => .ok st
  | c :: cs, st =>
    match step l1 l2 st c with
    | .error e => .error e
    | .ok st' => runRows l1 l2 cs st'

/-- the public attributes of a `Tle` after `_parse_tle` -/
structure Tle where
  satnumber : List Char
  classification : List Char
  id_launch_year : List Char
  id_launch_number : List Char
  id_launch_piece : List Char
  epoch_year : List Char
  epoch_day : Dec
  mean_motion_derivative : Dec
  mean_motion_sec_derivative : Dec
  bstar : Dec
  ephemeris_type : Int
  element_number : Int
  inclination : Dec
  right_ascension : Dec
  excentricity : Dec
  arg_perigee : Dec
  mean_anomaly : Dec
  mean_motion : Dec
  orbit : Int
  /-- epoch in µs since 1970-01-01 -/
  epochUs : Int
deriving Repr, DecidableEq

def getStr (a : String) (vs : List (String × Val)) : Except Err (List Char) :=
  match lookup a vs with | some (.str s) => .ok s | _ => .error .badTable
def getInt (a : String) (vs : List (String × Val)) : Except Err Int :=
  match lookup a vs with | some (.int i) => .ok i | _ => .error .badTable
def getDec (a : String) (vs : List (String × Val)) : Except Err Dec :=
  match lookup a vs with | some (.dec d) => .ok d | _ => .error .badTable

def pack (st : St) : Except Err Tle := do
  let vs := st.vals
  let a1 ← getStr "satnumber" vs
  let a2 ← getStr "classification" vs
  let a3 ← getStr "id_launch_year" vs
  let a4 ← getStr "id_launch_number" vs
  let a5 ← getStr "id_launch_piece" vs
  let a6 ← getStr "epoch_year" vs
  let a7 ← getDec "epoch_day" vs
  let a8 ← getDec "mean_motion_derivative" vs
  let a9 ← getDec "mean_motion_sec_derivative" vs
  let a10 ← getDec "bstar" vs
  let a11 ← getInt "ephemeris_type" vs
  let a12 ← getInt "element_number" vs
  let a13 ← getDec "inclination" vs
  let a14 ← getDec "right_ascension" vs
  let a15 ← getDec "excentricity" vs
  let a16 ← getDec "arg_perigee" vs
  let a17 ← getDec "mean_anomaly" vs
  let a18 ← getDec "mean_motion" vs
  let a19 ← getInt "orbit" vs
  match st.epoch with
  | some e => .ok ⟨a1, a2, a3, a4, a5, a6, a7, a8, a9, a10, a11, a12, a13, a14, a15, a16, a17, a18, a19, e⟩
  | none => .error .badTable

/-- `_parse_tle` on the two stored (stripped, checksum-accepted) lines -/
def parse (tbl : List Col) (l1 l2 : List Char) : Except Err Tle :=
  match runRows l1 l2 tbl {} with
  | .error e => .error e
  | .ok st => pack st

end PV.TleParse
