/-
  PV.Model.Sgp4 — pyorbital/orbital.py: OrbitElements, _SGDP4Base, _SGDP4.propagate,
  _Keplerians.calculate, kep2xyz, Orbital.get_position — generic over `Num`.

  Written statement by statement after the source (line numbers in comments), keeping
  the operation order so that the `Float` reading reproduces numpy to rounding.
  Every guard of the source is a constructor of `InitErr` / `PropErr`.
-/
import PV.Num
import PV.Generated.Consts
namespace PV.Sgp4
variable {α : Type} [Num α]
open PV.Num

/-! ### constants (regenerated from the source text on every run) -/
abbrev CK2 : α := Gen.orbital_CK2
abbrev CK4 : α := Gen.orbital_CK4
abbrev XKE : α := Gen.orbital_XKE
abbrev XKMPER : α := Gen.orbital_XKMPER
abbrev XMNPDA : α := Gen.orbital_XMNPDA
abbrev AE : α := Gen.orbital_AE
abbrev SECDAY : α := Gen.orbital_SECDAY
abbrev QOMS2T : α := Gen.orbital_QOMS2T
abbrev KS : α := Gen.orbital_KS
abbrev A3OVK2 : α := Gen.orbital_A3OVK2
abbrev ECC_EPS : α := Gen.orbital_ECC_EPS
abbrev ECC_LIMIT_LOW : α := Gen.orbital_ECC_LIMIT_LOW
abbrev ECC_LIMIT_HIGH : α := Gen.orbital_ECC_LIMIT_HIGH
abbrev ECC_ALL : α := Gen.orbital_ECC_ALL
abbrev EPS_COS : α := Gen.orbital_EPS_COS
abbrev NR_EPS : α := Gen.orbital_NR_EPS
/-- thresholds of `_set_mode`, `_get_s4_qoms24`, `_check_orbital_elements` -/
abbrev PERIOD_DEEP : α := Gen.orbital___SGDP4Base__set_mode_L0          -- 225
abbrev PERIGEE_SIMP : α := Gen.orbital___SGDP4Base__set_mode_L1         -- 220
abbrev PERIGEE_S4 : α := Gen.orbital___SGDP4Base__get_s4_qoms24_L0      -- 156
abbrev S4_OFFSET : α := Gen.orbital___SGDP4Base__get_s4_qoms24_L1       -- 78
abbrev S4_MIN : α := Gen.orbital___SGDP4Base__get_s4_qoms24_L2          -- 20
abbrev S4_MIN' : α := Gen.orbital___SGDP4Base__get_s4_qoms24_L3         -- 20
abbrev Q0 : α := Gen.orbital___SGDP4Base__get_s4_qoms24_L4              -- 120
abbrev MM_LOW : α := Gen.orbital___check_orbital_elements_L1            -- 0.0035
abbrev MM_HIGH : α := Gen.orbital___check_orbital_elements_L3           -- 18

/-! ### the printed TLE fields the propagator consumes -/
structure TleNum (α : Type) where
  excentricity : α
  inclination : α        -- degrees
  right_ascension : α    -- degrees
  arg_perigee : α        -- degrees
  mean_anomaly : α       -- degrees
  mean_motion : α        -- rev / day
  bstar : α

/-- `OrbitElements` (orbital.py:571-610), numeric part -/
structure Elements (α : Type) where
  eo : α
  xincl : α
  xnodeo : α
  omegao : α
  xmo : α
  xn_0 : α      -- mean_motion, rad/min
  xno : α       -- original_mean_motion (OrbitElements' own recovery)
  bstar : α
  sma : α       -- semi_major_axis (earth radii)
  period : α    -- minutes
  perigee : α   -- km

/-- `_calculate_mean_motion_and_semi_major_axis` (orbital.py:602-610; note the exponent 2/3 on (1-e²)) -/
def oeRecover (mm e incl : α) : α × α :=
  let a1 := Num.rpow (XKE / mm) ((2 : α) / (3 : α))
  let d1 := ((3 : α) / (2 : α)) * (CK2 / sq a1) *
            (((3 : α) * sq (Num.cos incl) - (1 : α)) / Num.rpow ((1 : α) - sq e) ((2 : α) / (3 : α)))
  let a0 := a1 * ((1 : α) - d1 / (3 : α) - sq d1 - ((134 : α) / (81 : α)) * cube d1)
  let d0 := ((3 : α) / (2 : α)) * (CK2 / sq a0) *
            (((3 : α) * sq (Num.cos incl) - (1 : α)) / Num.rpow ((1 : α) - sq e) ((2 : α) / (3 : α)))
  (mm / ((1 : α) + d0), a0 / ((1 : α) - d0))

def elements (t : TleNum α) : Elements α :=
  let incl := deg2rad t.inclination
  let mm := t.mean_motion * (Num.pi * (2 : α) / XMNPDA)
  let (xno, sma) := oeRecover mm t.excentricity incl
  { eo := t.excentricity, xincl := incl, xnodeo := deg2rad t.right_ascension,
    omegao := deg2rad t.arg_perigee, xmo := deg2rad t.mean_anomaly, xn_0 := mm, xno := xno,
    bstar := t.bstar * AE, sma := sma,
    period := Num.pi * (2 : α) / xno,
    perigee := (sma * ((1 : α) - t.excentricity) / AE - AE) * XKMPER }

inductive InitErr
  | eccRange      -- OrbitalError  "Eccentricity out of range"
  | mmRange       -- OrbitalError  "Mean motion out of range"
  | inclRange     -- OrbitalError  "Inclination out of range"
  | deepSpace     -- NotImplementedError at construction
deriving Repr, DecidableEq

/-- `OrbitElements.__init__` (orbital.py:574-600) with its refusal of a non-positive mean motion
    (raised before any division by it), then the conversions of `elements` -/
def elementsChecked (t : TleNum α) : Except InitErr (Elements α) :=
  let mm := t.mean_motion * (Num.pi * (2 : α) / XMNPDA)
  if Num.gt mm (0 : α) then .ok (elements t) else .error .mmRange

inductive Mode | nearSimp | nearNorm
deriving Repr, DecidableEq

/-- the immutable coefficient object `_SGDP4Base` -/
structure Params (α : Type) where
  mode : Mode
  eo : α
  xincl : α
  xno : α
  bstar : α
  omegao : α
  xmo : α
  xnodeo : α
  xn_0 : α
  cosIO : α
  sinIO : α
  x3thm1 : α
  x1mth2 : α
  x7thm1 : α
  xnodp : α
  aodp : α
  perigee : α
  apogee : α
  period : α
  betao : α
  betao2 : α
  s4 : α
  qoms24 : α
  tsi : α
  eta : α
  c1 : α
  c2 : α
  c3 : α
  c4 : α
  c5 : α
  omgcof : α
  xmdot : α
  omgdot : α
  xnodot : α
  xhdot1 : α
  xmcof : α
  xnodcf : α
  t2cof : α
  xlcof : α
  aycof : α
  cosXMO : α
  sinXMO : α
  delmo : α
  d2 : α
  d3 : α
  d4 : α
  t3cof : α
  t4cof : α
  t5cof : α

/-- `_check_orbital_elements` (orbital.py:1207-1213) -/
def checkElements (e : Elements α) : Option InitErr :=
  if !(Num.lt (0 : α) e.eo && Num.lt e.eo ECC_LIMIT_HIGH) then some .eccRange
  else if !(Num.lt (MM_LOW * (2 : α) * Num.pi / XMNPDA) e.xno && Num.lt e.xno (MM_HIGH * (2 : α) * Num.pi / XMNPDA)) then some .mmRange
  else if !(Num.lt (0 : α) e.xincl && Num.lt e.xincl Num.pi) then some .inclRange
  else none

/-- `_get_s4_qoms24` (orbital.py:744-753) -/
def s4qoms24 (perigee : α) : α × α :=
  if Num.lt perigee PERIGEE_S4 then
    let s4 := perigee - S4_OFFSET
    let s4 := if Num.lt s4 S4_MIN then S4_MIN' else s4
    let q := pow4 ((Q0 - s4) * (AE / XKMPER))
    (s4 / XKMPER + AE, q)
  else (KS, QOMS2T)

/-- quantities of `_calculate_basic_orbit_params` and the inclination terms (orbital.py:636-650, 692-704) -/
structure Basic (α : Type) where
  cosIO : α
  sinIO : α
  theta2 : α
  x3thm1 : α
  x1mth2 : α
  x7thm1 : α
  betao : α
  betao2 : α
  xnodp : α
  aodp : α
  perigee : α
  apogee : α
  period : α

def basic (e : Elements α) : Basic α :=
  let eo := e.eo
  let cosIO := Num.cos e.xincl
  let sinIO := Num.sin e.xincl
  let theta2 := sq cosIO
  let x3thm1 := (3 : α) * theta2 - (1 : α)
  let x1mth2 := (1 : α) - theta2
  let x7thm1 := (7 : α) * theta2 - (1 : α)
  -- _calculate_basic_orbit_params (692-704)
  let a1 := Num.rpow (XKE / e.xn_0) ((2 : α) / (3 : α))
  let betao2 := (1 : α) - sq eo
  let betao := Num.sqrt betao2
  let temp0 := (1.5 : α) * CK2 * x3thm1 / (betao * betao2)
  let del1 := temp0 / sq a1
  let a0 := a1 * ((1 : α) - del1 * ((1 : α) / (3 : α) + del1 * ((1 : α) + del1 * (134 : α) / (81 : α))))
  let del0 := temp0 / sq a0
  let xnodp := e.xn_0 / ((1 : α) + del0)
  let aodp := a0 / ((1 : α) - del0)
  { cosIO := cosIO, sinIO := sinIO, theta2 := theta2, x3thm1 := x3thm1, x1mth2 := x1mth2, x7thm1 := x7thm1,
    betao := betao, betao2 := betao2, xnodp := xnodp, aodp := aodp,
    perigee := (aodp * ((1 : α) - eo) - AE) * XKMPER,
    apogee := (aodp * ((1 : α) + eo) - AE) * XKMPER,
    period := ((2 : α) * Num.pi * (1440 : α) / XMNPDA) / xnodp }

/-- `_set_mode` (706-715) for the non-deep case -/
def modeOf (perigee : α) : Mode := if Num.lt perigee PERIGEE_SIMP then .nearSimp else .nearNorm

/-- all coefficients of `_SGDP4Base.__init__` after the guards (orbital.py:654-688, 717-800) -/
def coeffs (e : Elements α) (b : Basic α) (mode : Mode) : Params α :=
    let eo := e.eo
    let cosIO := b.cosIO
    let sinIO := b.sinIO
    let theta2 := b.theta2
    let x3thm1 := b.x3thm1
    let x1mth2 := b.x1mth2
    let betao := b.betao
    let betao2 := b.betao2
    let xnodp := b.xnodp
    let aodp := b.aodp
    let (s4, qoms24) := s4qoms24 b.perigee
    let tsi := (1 : α) / (aodp - s4)
    let eta := aodp * eo * tsi
    let eeta := eo * eta
    let coef := qoms24 * pow4 tsi
    -- _calculate_c_coefficients (717-742)
    let etasq := sq eta
    let psisq := Num.abs ((1 : α) - etasq)
    let coef1 := coef / Num.rpow psisq (3.5 : α)
    let c2 := coef1 * xnodp * (aodp * ((1 : α) + (1.5 : α) * etasq + eeta * ((4 : α) + etasq)) +
                ((0.75 : α) * CK2) * tsi / psisq * x3thm1 * ((8 : α) + (3 : α) * etasq * ((8 : α) + etasq)))
    let c1 := e.bstar * c2
    let c4 := (2 : α) * xnodp * coef1 * aodp * betao2 * (
                eta * ((2 : α) + (0.5 : α) * etasq) + eo * ((0.5 : α) + (2 : α) * etasq) - ((2 : α) * CK2) * tsi /
                (aodp * psisq) * (-(3 : α) * x3thm1 * ((1 : α) - (2 : α) * eeta + etasq * ((1.5 : α) - (0.5 : α) * eeta)) +
                                  (0.75 : α) * x1mth2 * ((2 : α) * etasq - eeta * ((1 : α) + etasq)) *
                                  Num.cos ((2 : α) * e.omegao)))
    let c5 := if mode == .nearNorm then
                (2 : α) * coef1 * aodp * betao2 * ((1 : α) + (2.75 : α) * (etasq + eeta) + eeta * etasq)
              else (0 : α)
    let c3 := if mode == .nearNorm && Num.gt eo ECC_ALL then
                coef * tsi * A3OVK2 * xnodp * AE * sinIO / eo
              else (0 : α)
    let omgcof := if mode == .nearNorm then e.bstar * c3 * Num.cos e.omegao else (0 : α)
    -- _calculate_dot_products (755-774)
    let pinvsq := (1 : α) / (sq aodp * sq betao2)
    let temp1 := (3 : α) * CK2 * pinvsq * xnodp
    let temp2 := temp1 * CK2 * pinvsq
    let temp3 := (1.25 : α) * CK4 * sq pinvsq * xnodp
    let theta4 := sq theta2
    let xmdot := xnodp + ((0.5 : α) * temp1 * betao * x3thm1 + (0.0625 : α) * temp2 * betao *
                   ((13 : α) - (78 : α) * theta2 + (137 : α) * theta4))
    let x1m5th := (1 : α) - (5 : α) * theta2
    let omgdot := -(0.5 : α) * temp1 * x1m5th + (0.0625 : α) * temp2 * ((7 : α) - (114 : α) * theta2 + (395 : α) * theta4) +
                  temp3 * ((3 : α) - (36 : α) * theta2 + (49 : α) * theta4)
    let xhdot1 := -temp1 * cosIO
    let xnodot := xhdot1 + ((0.5 : α) * temp2 * ((4 : α) - (19 : α) * theta2) +
                   (2 : α) * temp3 * ((3 : α) - (7 : α) * theta2)) * cosIO
    -- _calculate_xmcof (776-779)
    let xmcof := if Num.gt eo ECC_ALL then (-((2 : α) / (3 : α)) * AE) * coef * e.bstar / eeta else (0 : α)
    let xnodcf := (3.5 : α) * betao2 * xhdot1 * c1
    let t2cof := (1.5 : α) * c1
    -- _calculate_xlcof (781-787)
    let t0 := (1 : α) + cosIO
    let t0 := if Num.lt (Num.abs t0) EPS_COS then Num.sign t0 * EPS_COS else t0
    let xlcof := (0.125 : α) * A3OVK2 * sinIO * ((3 : α) + (5 : α) * cosIO) / t0
    let aycof := (0.25 : α) * A3OVK2 * sinIO
    let cosXMO := Num.cos e.xmo
    let sinXMO := Num.sin e.xmo
    let delmo := cube ((1 : α) + eta * cosXMO)
    -- _calculate_near_norm_parameters (789-800)
    let c1sq := sq c1
    let d2 := (4 : α) * aodp * tsi * c1sq
    let tmp := d2 * tsi * c1 / (3 : α)
    let d3 := ((17 : α) * aodp + s4) * tmp
    let d4 := (0.5 : α) * tmp * aodp * tsi * ((221 : α) * aodp + (31 : α) * s4) * c1
    let t3cof := d2 + (2 : α) * c1sq
    let t4cof := (0.25 : α) * ((3 : α) * d3 + c1 * ((12 : α) * d2 + (10 : α) * c1sq))
    let t5cof := (0.2 : α) * ((3 : α) * d4 + (12 : α) * c1 * d3 + (6 : α) * sq d2 + (15 : α) * c1sq * ((2 : α) * d2 + c1sq))
    { mode := mode, eo := eo, xincl := e.xincl, xno := e.xno, bstar := e.bstar, omegao := e.omegao, xmo := e.xmo,
          xnodeo := e.xnodeo, xn_0 := e.xn_0, cosIO := cosIO, sinIO := sinIO, x3thm1 := x3thm1, x1mth2 := x1mth2,
          x7thm1 := b.x7thm1, xnodp := xnodp, aodp := aodp, perigee := b.perigee, apogee := b.apogee, period := b.period,
          betao := betao, betao2 := betao2, s4 := s4, qoms24 := qoms24, tsi := tsi, eta := eta,
          c1 := c1, c2 := c2, c3 := c3, c4 := c4, c5 := c5, omgcof := omgcof,
          xmdot := xmdot, omgdot := omgdot, xnodot := xnodot, xhdot1 := xhdot1, xmcof := xmcof, xnodcf := xnodcf,
          t2cof := t2cof, xlcof := xlcof, aycof := aycof, cosXMO := cosXMO, sinXMO := sinXMO, delmo := delmo,
          d2 := d2, d3 := d3, d4 := d4, t3cof := t3cof, t4cof := t4cof, t5cof := t5cof }

/-- `_SGDP4Base.__init__` (orbital.py:616-800): guards, then `basic`, mode, `coeffs` -/
def init (e : Elements α) : Except InitErr (Params α) :=
  match checkElements e with
  | some err => .error err
  | none =>
    let b := basic e
    if Num.ge b.period PERIOD_DEEP then .error .deepSpace
    else .ok (coeffs e b (modeOf b.perigee))

/-- `Orbital.__init__` numeric part: OrbitElements then _SGDP4 -/
def construct (t : TleNum α) : Except InitErr (Params α) :=
  match elementsChecked t with
  | .error err => .error err
  | .ok e => init e

inductive PropErr
  | notImplemented   -- `propagate`: mode ≠ NEAR_NORM
  | crashedA         -- a < 1
  | eccLow           -- e < ECC_LIMIT_LOW
  | elsqGe1          -- e_L² ≥ 1
  | crashedRk        -- r_k < 1
deriving Repr, DecidableEq

/-- state of the Kepler iteration (orbital.py:1146-1169) -/
structure Newton (α : Type) where
  epw : α
  sinEPW : α
  cosEPW : α
  ecosE : α
  esinE : α
  iters : Nat
  converged : Bool

/-- the loop `for i in range(10)` with its `break`; `i` counts up from `10 - fuel` -/
def newtonLoop (axn ayn capu ecc : α) : Nat → Nat → α → Newton α → Newton α
  | 0, _, _, st => st
  | fuel + 1, i, epw, _ =>
    let sinE := Num.sin epw
    let cosE := Num.cos epw
    let ecosE := axn * cosE + ayn * sinE
    let esinE := axn * sinE - ayn * cosE
    let f := capu - epw + esinE
    let st : Newton α := ⟨epw, sinE, cosE, ecosE, esinE, i + 1, false⟩
    if Num.lt (Num.abs f) NR_EPS then { st with converged := true }
    else
      let df := (1 : α) - ecosE
      let nr := f / df
      let nr := if i == 0 && Num.gt (Num.abs nr) ((1.25 : α) * ecc) then Num.sign nr * ecc
                else f / (df + (0.5 : α) * esinE * nr)
      let epw' := epw + nr
      newtonLoop axn ayn capu ecc fuel (i + 1) epw' { st with epw := epw' }

def newton (axn ayn capu ecc : α) : Newton α :=
  newtonLoop axn ayn capu ecc 10 0 capu ⟨capu, (0 : α), (0 : α), (0 : α), (0 : α), 0, false⟩

/-- the dict returned by `_Keplerians.calculate` plus named intermediates -/
structure Kep (α : Type) where
  ecc : α
  radius : α      -- km
  theta : α
  eqinc : α
  ascn : α
  argp : α
  smjaxs : α      -- km
  rdotk : α       -- km/s
  rfdotk : α      -- km/s
  -- intermediates (compared by the correspondence check)
  xmp : α
  xnode : α
  omega : α
  tempe : α
  templ : α
  a : α
  e : α
  axn : α
  ayn : α
  xlt : α
  capu : α
  epw : α
  nrIters : Nat
  elsq : α
  pl : α
  r : α
  u : α
  rk : α

/-- secular gravity and drag update (orbital.py:1040-1093) -/
structure Secular (α : Type) where
  xmp : α
  xnode : α
  omega : α
  tempe : α
  templ : α
  a : α
  e0 : α     -- eo - tempe, before clamping

def secular (p : Params α) (ts : α) : Secular α :=
  let xmp0 := p.xmo + p.xmdot * ts
  let xnode := p.xnodeo + ts * (p.xnodot + ts * p.xnodcf)
  let delm := p.xmcof * (cube ((1 : α) + p.eta * Num.cos xmp0) - p.delmo)
  let temp0 := ts * p.omgcof + delm
  let xmp := xmp0 + temp0
  let omega := p.omegao + p.omgdot * ts - temp0
  let tempe := if p.mode == .nearSimp then p.bstar * ts * p.c4
               else p.bstar * (p.c4 * ts + p.c5 * (Num.sin xmp - p.sinXMO))
  let templ := if p.mode == .nearSimp then ts * ts * p.t2cof
               else ts * ts * (p.t2cof + ts * (p.t3cof + ts * (p.t4cof + ts * p.t5cof)))
  let tempa := if p.mode == .nearSimp then (1 : α) - ts * p.c1
               else (1 : α) - (ts * (p.c1 + ts * (p.d2 + ts * (p.d3 + ts * p.d4))))
  { xmp := xmp, xnode := xnode, omega := omega, tempe := tempe, templ := templ,
    a := p.aodp * sq tempa, e0 := p.eo - tempe }

/-- `_calculate_e`: clamp into [ECC_EPS, ECC_LIMIT_HIGH] -/
def clampE (e0 : α) : α :=
  let e1 := if Num.lt e0 ECC_EPS then ECC_EPS else e0
  if Num.gt e1 ECC_LIMIT_HIGH then ECC_LIMIT_HIGH else e1

/-- long-period periodics and the argument of Kepler's equation (orbital.py:1098-1124, 1147) -/
structure LongPeriod (α : Type) where
  e : α
  axn : α
  ayn : α
  elsq : α
  xlt : α
  capu : α

def longPeriod (p : Params α) (s : Secular α) : LongPeriod α :=
  let e := clampE s.e0
  let beta2 := (1 : α) - sq e
  let sinOMG := Num.sin s.omega
  let cosOMG := Num.cos s.omega
  let t0 := (1 : α) / (s.a * beta2)
  let axn := e * cosOMG
  let ayn := e * sinOMG + t0 * p.aycof
  let xl := s.xmp + s.omega + s.xnode + p.xnodp * s.templ
  let xlt := xl + t0 * p.xlcof * axn
  { e := e, axn := axn, ayn := ayn, elsq := sq axn + sq ayn, xlt := xlt,
    capu := Num.fmod (xlt - s.xnode) ((2 : α) * Num.pi) }

/-- short-period periodics given the Kepler iterate (orbital.py:1128-1190) -/
def shortPeriod (p : Params α) (s : Secular α) (l : LongPeriod α) (nw : Newton α) : Kep α :=
  let a := s.a
  let t1 := (1 : α) - l.elsq
  let betal := Num.sqrt t1
  let pl := a * t1
  let r := a * ((1 : α) - nw.ecosE)
  let invR := (1 : α) / r
  let temp2 := a * invR
  let temp3 := (1 : α) / ((1 : α) + betal)
  let cosu := temp2 * (nw.cosEPW - l.axn + l.ayn * nw.esinE * temp3)
  let sinu := temp2 * (nw.sinEPW - l.ayn - l.axn * nw.esinE * temp3)
  let u := Num.atan2 sinu cosu
  let sin2u := (2 : α) * sinu * cosu
  let cos2u := (2 : α) * sq cosu - (1 : α)
  let ipl := (1 : α) / pl
  let tk1 := CK2 * ipl
  let tk2 := tk1 * ipl
  let rk := r * ((1 : α) - (1.5 : α) * tk2 * betal * p.x3thm1) + (0.5 : α) * tk1 * p.x1mth2 * cos2u
  let uk := u - (0.25 : α) * tk2 * p.x7thm1 * sin2u
  let xnodek := s.xnode + (1.5 : α) * tk2 * p.cosIO * sin2u
  let xinc := p.xincl + (1.5 : α) * tk2 * p.cosIO * p.sinIO * cos2u
  let sqa := Num.sqrt a
  let tv := XKE / (a * sqa)
  let kv := XKMPER / AE * XMNPDA / (86400 : α)
  let rdotk := (XKE * sqa * nw.esinE * invR - tv * tk1 * p.x1mth2 * sin2u) * kv
  let rfdotk := (XKE * Num.sqrt pl * invR + tv * tk1 * (p.x1mth2 * cos2u + (1.5 : α) * p.x3thm1)) * kv
  { ecc := Num.sqrt l.elsq, radius := rk * XKMPER / AE, theta := uk, eqinc := xinc, ascn := xnodek, argp := s.omega,
    smjaxs := a * XKMPER / AE, rdotk := rdotk, rfdotk := rfdotk,
    xmp := s.xmp, xnode := s.xnode, omega := s.omega, tempe := s.tempe, templ := s.templ, a := a, e := l.e,
    axn := l.axn, ayn := l.ayn, xlt := l.xlt, capu := l.capu, epw := nw.epw, nrIters := nw.iters, elsq := l.elsq,
    pl := pl, r := r, u := u, rk := rk }

/-- `_Keplerians.calculate` (orbital.py:1035-1204) for minutes-since-epoch `ts`: the four guards in source order -/
def calculate (p : Params α) (ts : α) : Except PropErr (Kep α) :=
  let s := secular p ts
  if Num.lt s.a (1 : α) then .error .crashedA else
  if Num.lt s.e0 ECC_LIMIT_LOW then .error .eccLow else
  let l := longPeriod p s
  if Num.ge l.elsq (1 : α) then .error .elsqGe1 else
  let nw := newton l.axn l.ayn l.capu (Num.sqrt l.elsq)
  let k := shortPeriod p s l nw
  if Num.lt k.rk (1 : α) then .error .crashedRk else .ok k

/-- `_SGDP4.propagate` (orbital.py:982-989): only NEAR_NORM is answered -/
def propagate (p : Params α) (ts : α) : Except PropErr (Kep α) :=
  if p.mode == .nearNorm then calculate p ts else .error .notImplemented

/-- `kep2xyz` (orbital.py:1239-1270): position km, velocity km/s -/
def kep2xyz (k : Kep α) : V3 α × V3 α :=
  let sinT := Num.sin k.theta
  let cosT := Num.cos k.theta
  let sinI := Num.sin k.eqinc
  let cosI := Num.cos k.eqinc
  let sinS := Num.sin k.ascn
  let cosS := Num.cos k.ascn
  let xmx := -sinS * cosI
  let xmy := cosS * cosI
  let ux := xmx * sinT + cosS * cosT
  let uy := xmy * sinT + sinS * cosT
  let uz := sinI * sinT
  let vx := xmx * cosT - cosS * sinT
  let vy := xmy * cosT - sinS * sinT
  let vz := sinI * cosT
  ( ⟨k.radius * ux, k.radius * uy, k.radius * uz⟩,
    ⟨k.rdotk * ux + k.rfdotk * vx, k.rdotk * uy + k.rfdotk * vy, k.rdotk * uz + k.rfdotk * vz⟩ )

/-- `Orbital.get_position` (orbital.py:203-212) -/
def getPosition (p : Params α) (ts : α) (normalize : Bool) : Except PropErr (V3 α × V3 α) :=
  match propagate p ts with
  | .error e => .error e
  | .ok k =>
    let (pos, vel) := kep2xyz k
    if normalize then
      let kv := XKMPER * XMNPDA / SECDAY
      .ok (⟨pos.x / XKMPER, pos.y / XKMPER, pos.z / XKMPER⟩, ⟨vel.x / kv, vel.y / kv, vel.z / kv⟩)
    else .ok (pos, vel)

end PV.Sgp4
