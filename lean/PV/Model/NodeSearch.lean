/-
  PV.Model.NodeSearch — `Orbital.get_last_an_time` (pyorbital/orbital.py:169-202) over integer
  ticks and an abstract `z : Int → α` (the z coordinate, km, of `get_position(t, normalize=False)`
  at tick `t`).  Core Lean only.

  The code first lifts the query time to at least microsecond resolution
  (`np.datetime64(t) + np.timedelta64(0, "us")`), so every tick below is a µs (inputs: datetime,
  datetime64[m|s|ms|us]) or a ns (datetime64[ns]) since 1970; `step` is ten minutes in that unit.
  Both loops are `while` loops in the source; the model gives them fuel so that it is executable,
  and the theorems say for which fuel the answer no longer depends on it.
-/
import PV.Num
import PV.Model.Time
namespace PV.NodeSearch
open PV

variable {α : Type} [Num α]

/-- ways the search fails to return a time -/
inductive Err
  | stepFuel    -- the backward stepping loop did not find a sign change within the fuel (source: loops on)
  | bisectFuel  -- the bisection did not exit within the fuel (source: loops on)
  | unbound     -- `return t_mid` with `t_mid` never assigned: the bisection loop's entry test `|z(t_new)| > tol` is false
                -- although `|z(t_new)| <= tol` was false too (only a NaN can do that; never over ℝ): UnboundLocalError
deriving Repr, DecidableEq

/-- what a successful search returns, with the ticks it asked `get_position` for -/
structure Found where
  /-- returned tick -/
  t : Int
  /-- iterations of the stepping loop (the loop asks for `2 + steps` positions: t0, t0-step, …) -/
  steps : Nat
  /-- `t_mid` of every bisection iteration, in order (the last one is the result when non-empty) -/
  mids : List Int
deriving Repr, DecidableEq

/-- the stepping loop
    `while not (pos0[2] > 0 and pos1[2] < 0): pos0 = pos1; t_old = t_new; t_new = t_old - dt; pos1 = …`
    started at `tOld` (with `t_new = tOld - step`): the final `t_old` and the number of iterations -/
def stepLoop (z : Int → α) (step : Int) : Nat → Int → Option (Int × Nat)
  | 0, _ => none
  | fuel + 1, tOld =>
    if Num.gt (z tOld) 0 && Num.lt (z (tOld - step)) 0 then some (tOld, 0)
    else (stepLoop z step fuel (tOld - step)).map fun r => (r.1, r.2 + 1)

/-- `t_mid = t_old - (t_old - t_new) / 2`; numpy divides a timedelta64 by an integer with C semantics
    (truncation toward zero) -/
def mid (tOld tNew : Int) : Int := tOld - Int.tdiv (tOld - tNew) 2

/-- the bisection loop, entered when `|z(t_new)| > tol`:
    `dt = (t_old - t_new) / 2; t_mid = t_old - dt; pos1 = …(t_mid); if pos1[2] > 0: t_old = t_mid else: t_new = t_mid`
    repeated while `|pos1[2]| > tol`.  Result: the final `t_mid` and every `t_mid` in order. -/
def bisectLoop (z : Int → α) (tol : α) : Nat → Int → Int → Option (Int × List Int)
  | 0, _, _ => none
  | fuel + 1, tOld, tNew =>
    let tMid := mid tOld tNew
    if Num.gt (Num.abs (z tMid)) tol then
      (bisectLoop z tol fuel (if Num.gt (z tMid) 0 then tMid else tOld)
          (if Num.gt (z tMid) 0 then tNew else tMid)).map fun r => (r.1, tMid :: r.2)
    else some (tMid, [tMid])

/-- the source's `tol = 1e-3` (km): the z tolerance of all three tests -/
def tolKm : α := 1e-3

/-- `get_last_an_time` from the lifted tick `t0` (tolerance `tol`; the source uses `tolKm`):
    `if |z0| < tol: return t_old`, `elif |z1| <= tol: return t_new`, `while |z1| > tol: …; return t_mid` -/
def lastAn (z : Int → α) (tol : α) (step : Int) (fuelS fuelB : Nat) (t0 : Int) : Except Err Found :=
  match stepLoop z step fuelS t0 with
  | none => .error .stepFuel
  | some (tOld, k) =>
    let tNew := tOld - step
    if Num.lt (Num.abs (z tOld)) tol then .ok ⟨tOld, k, []⟩
    else if Num.le (Num.abs (z tNew)) tol then .ok ⟨tNew, k, []⟩
    else if Num.gt (Num.abs (z tNew)) tol then
      match bisectLoop z tol fuelB tOld tNew with
      | none => .error .bisectFuel
      | some (r, l) => .ok ⟨r, k, l⟩
    else .error .unbound

/-- the ticks a successful search asked `get_position` for, in order: `t0, t0 - step, …` (stepping), then every `t_mid` -/
def Found.queries (f : Found) (t0 step : Int) : List Int :=
  (List.range (f.steps + 2)).map (fun (i : Nat) => t0 - (i : Int) * step) ++ f.mids

/-! ### time representations -/

/-- unit of `np.datetime64(t) + np.timedelta64(0, "us")`: the finer of the input's unit and µs -/
def searchUnit : Time.Unit → Time.Unit
  | .ns => .ns
  | _ => .us

/-- the query instant in ticks of the search unit (numpy converts to the finer unit by multiplying) -/
def toSearchTicks (u : Time.Unit) (ticks : Int) : Int :=
  ticks * (Time.nsPerTick u / Time.nsPerTick (searchUnit u))

/-- `np.timedelta64(10, "m")` in ticks of the search unit -/
def stepTicks (u : Time.Unit) : Int := 600000000000 / Time.nsPerTick (searchUnit u)

/-- ten minutes in ticks of the INPUT's unit: what the loop used before the µs lift (commit 9b39664) -/
def stepTicksOld (u : Time.Unit) : Int := 600000000000 / Time.nsPerTick u

/-- `get_last_an_time(t)` for an instant held as `ticks` of unit `u`; `z` is indexed by ticks of the search unit -/
def lastAnOf (z : Int → α) (u : Time.Unit) (fuelS fuelB : Nat) (ticks : Int) : Except Err Found :=
  lastAn z tolKm (stepTicks u) fuelS fuelB (toSearchTicks u ticks)

end PV.NodeSearch
