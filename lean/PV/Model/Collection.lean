/-
  PV.Model.Collection — reading one platform (or every entry) from a TLE
  collection, and the platforms file:  tlefile.py
    read_platform_numbers (86-106), Tle.__init__/_read_tle (170, 227-238),
    _get_first_tle/_get_tles_from_uris/_get_tles_from_url (327-362),
    _decode_lines/_merge_tle_from_two_lines (371-394),
    _parse_tles_for_downloader (489-491), read_tles_from_mmam_xml_files (509-521).
  A source is the list of lines its iterator yields (line endings included);
  the shared iterator `fid` is the remaining list.  Core Lean only.
-/
import PV.Model.Text
namespace PV.Collection
open PV.Text

abbrev Line := List Char

/-- what `_decode_lines` sees besides the lines -/
structure Cfg where
  /-- `Tle._platform` = `platform.strip().upper()` (see `normPlatform`) -/
  platform : Line
  /-- `SATELLITES` : upper-cased platform name ↦ catalogue number -/
  reg : Line → Option Line
  /-- `open_func == _dummy_open_stringio` (StringIO or MMAM XML source) -/
  dummy : Bool

/-- `Tle.__init__`: `platform.strip().upper()` -/
def normPlatform (p : Line) : Line := upper (strip p)

/-- `"1 " + SATELLITES.get(platform, "")` -/
def designator (cfg : Cfg) : Line := '1' :: ' ' :: (cfg.reg cfg.platform).getD []

/-- outcome of one call of `_decode_lines(fid, l_0, …)` -/
inductive Step
  | stop                                 -- `next(fid)` on the exhausted iterator: StopIteration
  | logKeyError                          -- `SATELLITES[platform]` inside the debug message: KeyError
  | hit (a b : Line) (used : Nat)        -- the merged TLE `a + "\n" + b`; `used` more lines were taken from `fid`
  | miss                                 -- `""`; nothing consumed
deriving Repr, DecidableEq

/-- `_decode_lines(fid, l_0, platform, only_first, open_is_dummy)` with `fid` = `rest` -/
def decodeLines (cfg : Cfg) (onlyFirst : Bool) (l0 : Line) (rest : List Line) : Step :=
  if !cfg.platform.isEmpty && strip l0 = cfg.platform then
    match rest with
    | l1 :: l2 :: _ => .hit (strip l1) (strip l2) 2
    | _ => .stop
  else if startsWith (strip l0) (designator cfg) then
    if ((cfg.reg cfg.platform).isSome || !onlyFirst) || (cfg.dummy && cfg.platform.isEmpty) then
      match rest with
      | l2 :: _ =>
        if !cfg.platform.isEmpty && (cfg.reg cfg.platform).isNone then .logKeyError
        else .hit (strip l0) (strip l2) 1
      | [] => .stop
    else .miss
  else .miss

/-- a Python call that may leave through an exception not caught inside the modelled code -/
inductive Out (α : Type)
  | ok (a : α)
  | stopIteration       -- propagates out of `_get_tles_from_url` and `Tle(...)` unchanged (measured, CPython 3.12)
  | logKeyError         -- KeyError raised by the debug message (not the "Found no TLE entry" one)
deriving Repr, DecidableEq

def Out.map {α β : Type} (f : α → β) : Out α → Out β
  | .ok a => .ok (f a)
  | .stopIteration => .stopIteration
  | .logKeyError => .logKeyError

/-- `_get_tles_from_url(url, open_func, platform, only_first=True)` on one source, then `tles[0]` or `""` -/
def firstTle (cfg : Cfg) : List Line → Out (Option (Line × Line))
  | [] => .ok none
  | l0 :: rest =>
    match decodeLines cfg true l0 rest with
    | .stop => .stopIteration
    | .logKeyError => .logKeyError
    | .hit a b _ => .ok (some (a, b))
    | .miss => firstTle cfg rest

/-- the `for l_0 in fid` loop with `only_first=False`; `skip` = lines already taken by `next(fid)` -/
def scanAll (cfg : Cfg) : Nat → List Line → Out (List (Line × Line))
  | _, [] => .ok []
  | k + 1, _ :: rest => scanAll cfg k rest
  | 0, l0 :: rest =>
    match decodeLines cfg false l0 rest with
    | .stop => .stopIteration
    | .logKeyError => .logKeyError
    | .hit a b used => (scanAll cfg used rest).map ((a, b) :: ·)
    | .miss => scanAll cfg 0 rest

/-- `_get_tles_from_uris((src,), open_func, platform="", only_first=False)`;
    `""` is never a key of `SATELLITES` (`readPlatformNumbers_key_ne_nil`) -/
def allTles (dummy : Bool) (lines : List Line) : Out (List (Line × Line)) :=
  scanAll { platform := [], reg := fun _ => none, dummy := dummy } 0 lines

/-- several sources: `tles += …` in order; the first exception wins -/
def allTlesSources (dummy : Bool) : List (List Line) → Out (List (Line × Line))
  | [] => .ok []
  | s :: ss =>
    match allTles dummy s with
    | .ok a => (allTlesSources dummy ss).map (a ++ ·)
    | .stopIteration => .stopIteration
    | .logKeyError => .logKeyError
  
/-- result of `Tle._read_tle` from a source -/
inductive ReadOutcome
  | tle (l1 l2 : Line)
  | keyError            -- "Found no TLE entry for …"
  | stopIteration
  | logKeyError
deriving Repr, DecidableEq

/-- `Tle._read_tle` with `tle_file` given (one source) -/
def readTle (cfg : Cfg) (lines : List Line) : ReadOutcome :=
  match firstTle cfg lines with
  | .ok (some (a, b)) => .tle a b
  | .ok none => .keyError
  | .stopIteration => .stopIteration
  | .logKeyError => .logKeyError

/-- the lines `io.StringIO(a + "\n" + b)` yields, for `a`, `b` without line breaks -/
def stringIOLines2 (a b : Line) : List Line :=
  if b.isEmpty then (if a.isEmpty then [['\n']] else [a ++ ['\n']]) else [a ++ ['\n'], b]

/-- `Tle("", tle_file=io.StringIO(tle))._read_tle()` for a merged `tle = a + "\n" + b` -/
def reread (ab : Line × Line) : ReadOutcome :=
  readTle { platform := [], reg := fun _ => none, dummy := true } (stringIOLines2 ab.1 ab.2)

/-! ### the platforms file -/

/-- `" ".join(parts)` -/
def joinSp : List Line → Line
  | [] => []
  | [w] => w
  | w :: ws => w ++ ' ' :: joinSp ws

/-- one row of `read_platform_numbers` (`num_as_int=False`): the pair it stores, if any -/
def platLine (inUpper : Bool) (row : Line) : Option (Line × Line) :=
  if startsWith row ['#'] then none else
  let parts := splitWs row
  if parts.length < 2 then none else
  match parts.getLast? with
  | none => none
  | some num =>
    let name := joinSp parts.dropLast
    some (if inUpper then upper name else name, num)

/-- `d[k] = v` on an insertion-ordered dict -/
def dictSet (d : List (Line × Line)) (k v : Line) : List (Line × Line) :=
  match d with
  | [] => [(k, v)]
  | (k', v') :: t => if k' = k then (k, v) :: t else (k', v') :: dictSet t k v

def dictGet (d : List (Line × Line)) (k : Line) : Option Line :=
  (d.find? (·.1 = k)).map (·.2)

/-- the body of the `for row in fid` loop -/
def platStep (inUpper : Bool) (d : List (Line × Line)) (row : Line) : List (Line × Line) :=
  match platLine inUpper row with
  | some (k, v) => dictSet d k v
  | none => d

/-- `read_platform_numbers(filename, in_upper)` over the rows of the file; items in `dict` order -/
def readPlatformNumbers (inUpper : Bool) (rows : List Line) : List (Line × Line) :=
  rows.foldl (platStep inUpper) []

/-- `SATELLITES` as a registry -/
def registry (rows : List Line) : Line → Option Line := dictGet (readPlatformNumbers true rows)

/-! ### MMAM XML bulk read -/

/-- `read_tles_from_mmam_xml_files([f])` given the `<line-1>`,`<line-2>` texts of the file in document order
    (texts without line breaks): `"\n".join(data).split("\n")`, chunks of two, each re-read as a stream
    (the first exception, if any, is what the caller sees) -/
def xmlBulk (ps : List (Line × Line)) : List ReadOutcome :=
  ps.map reread               -- an empty extracted text is skipped (`if not text: continue`)

end PV.Collection
