/-
  Helper lemmas for C19 (instrument scan definitions).
-/
import PV.NumReal
import PV.Model.Instruments
import Mathlib.Tactic.Linarith
import Mathlib.Tactic.Ring
import Mathlib.Tactic.FieldSimp
import Mathlib.Tactic.NormNum
import Mathlib.Algebra.Order.Floor.Ring
namespace PV.C19L
open PV PV.Instr

-- ------------------------------------------------------------------ lists (any carrier)
section lists
variable {β γ : Type}

/-- the `s`-th element of a mapped range -/
theorem getElem?_map_range (f : Nat → β) (n s : Nat) (h : s < n) :
    ((List.range n).map f)[s]? = some (f s) := by
  simp [List.getElem?_map, List.getElem?_range h]

/-- selecting columns `sel` of the full mapped range = mapping the selection -/
theorem cols_map_range (f : Nat → β) (n : Nat) (sel : List Nat) (h : ∀ s ∈ sel, s < n) :
    sel.map (fun s => ((List.range n).map f)[s]?) = (sel.map f).map some := by
  rw [List.map_map]
  apply List.map_congr_left
  intro s hs
  simp [getElem?_map_range f n s (h s hs)]

/-- the columns `sel` of one line (`none` where the line has no such column) -/
def cols (sel : List Nat) (ln : List β) : List (Option β) := sel.map fun s => ln[s]?

theorem cols_map (f : Nat → β) (n : Nat) (sel : List Nat) (h : ∀ s ∈ sel, s < n) :
    cols sel ((List.range n).map f) = (sel.map f).map some := cols_map_range f n sel h

theorem le_maxPoint_aux (pts : List Nat) : ∀ (a : Nat), a ≤ pts.foldl Nat.max a ∧ ∀ p ∈ pts, p ≤ pts.foldl Nat.max a := by
  induction pts with
  | nil => intro a; simp
  | cons x xs ih =>
    intro a
    simp only [List.foldl_cons, List.mem_cons]
    have h := ih (Nat.max a x)
    refine ⟨Nat.le_trans (Nat.le_max_left a x) h.1, ?_⟩
    intro p hp
    rcases hp with rfl | hp
    · exact Nat.le_trans (Nat.le_max_right a p) h.1
    · exact h.2 p hp

theorem le_maxPoint (pts : List Nat) (p : Nat) (hp : p ∈ pts) : p ≤ maxPoint pts :=
  (le_maxPoint_aux pts 0).2 p hp

/-- reversing a mapped range -/
theorem reverse_map_range (f g : Nat → β) (n : Nat) (h : ∀ p q, p + q + 1 = n → f q = g p) :
    ((List.range n).map f).reverse = (List.range n).map g := by
  apply List.ext_getElem
  · simp
  · intro i h1 h2
    simp only [List.length_reverse, List.length_map, List.length_range] at h1
    rw [List.getElem_reverse]
    simp only [List.getElem_map, List.getElem_range, List.length_map, List.length_range]
    apply h
    omega

end lists

-- ------------------------------------------------------------------ reals
section reals

theorem r_nat (n : Nat) : (nat n : ℝ) = (n : ℝ) := rfl

theorem rampAngle_eq (c amp p : ℝ) : rampAngle c amp p = (p / c - 1) * amp := by
  simp only [rampAngle, r_sub, r_mul, r_div, r_ofNat, Nat.cast_one]

theorem time2_eq (si per l p : ℝ) : time2 si per l p = p * si + l * per := by
  simp only [time2, r_add, r_mul]

theorem time3_eq (si sy per l p : ℝ) : time3 si sy per l p = p * si + sy + l * per := by
  simp only [time3, r_add, r_mul]

/-- the ramp stays inside ±|amp| for 0 ≤ p ≤ 2c -/
theorem abs_rampAngle_le {c amp p : ℝ} (hc : 0 < c) (h0 : 0 ≤ p) (h1 : p ≤ 2 * c) :
    |rampAngle c amp p| ≤ |amp| := by
  rw [rampAngle_eq, abs_mul]
  have h : |p / c - 1| ≤ 1 := by
    rw [abs_le]
    constructor
    · have : 0 ≤ p / c := div_nonneg h0 hc.le
      linarith
    · have : p / c ≤ 2 := by rw [div_le_iff₀ hc]; exact h1
      linarith
  exact mul_le_of_le_one_left (abs_nonneg _) h

/-- the ramp is antisymmetric about p = c -/
theorem rampAngle_antisymm {c amp p q : ℝ} (hc : c ≠ 0) (h : p + q = 2 * c) :
    rampAngle c amp q = -rampAngle c amp p := by
  rw [rampAngle_eq, rampAngle_eq]
  have : q = 2 * c - p := by linarith
  subst this
  field_simp
  ring

/-- closed form of `np.linspace(a, b, n)[i]` for n ≥ 2 -/
theorem linspace_eq (a b : ℝ) (n i : Nat) (hn : 2 ≤ n) (_hi : i < n) :
    linspace a b n i = a + (i : ℝ) * (b - a) / ((n : ℝ) - 1) := by
  unfold linspace
  have hn1 : ¬ n ≤ 1 := by omega
  have hne : ((n : ℝ) - 1) ≠ 0 := by
    have : (2 : ℝ) ≤ n := by exact_mod_cast hn
    intro h; linarith
  rw [if_neg hn1]
  by_cases hl : i + 1 = n
  · rw [if_pos hl]
    have : (i : ℝ) = (n : ℝ) - 1 := by
      have : ((i + 1 : Nat) : ℝ) = n := by rw [hl]
      push_cast at this; linarith
    rw [this]; field_simp; ring
  · rw [if_neg hl]
    simp only [r_add, r_mul, r_div, r_sub, r_nat]
    have : ((n - 1 : Nat) : ℝ) = (n : ℝ) - 1 := by
      rw [Nat.cast_sub (by omega)]; simp
    rw [this]; ring

/-- `np.linspace(a, b, 1) = [a]` -/
theorem linspace_one (a b : ℝ) : linspace a b 1 0 = a := by
  unfold linspace
  simp only [le_refl, if_true, r_add, r_mul, r_sub, r_nat]
  simp

/-- a linspace value is a convex combination of its end points -/
theorem linspace_convex (a b : ℝ) (n i : Nat) (hn : 2 ≤ n) (hi : i < n) :
    ∃ t : ℝ, 0 ≤ t ∧ t ≤ 1 ∧ linspace a b n i = (1 - t) * a + t * b := by
  have h2 : (2 : ℝ) ≤ n := by exact_mod_cast hn
  have hpos : (0 : ℝ) < (n : ℝ) - 1 := by linarith
  refine ⟨(i : ℝ) / ((n : ℝ) - 1), div_nonneg (Nat.cast_nonneg i) hpos.le, ?_, ?_⟩
  · rw [div_le_one hpos]
    have : ((i + 1 : Nat) : ℝ) ≤ n := by exact_mod_cast hi
    push_cast at this; linarith
  · rw [linspace_eq a b n i hn hi]; field_simp; ring

theorem linspace_between {a b : ℝ} (hab : b ≤ a) (n i : Nat) (hn : 1 ≤ n) (hi : i < n) :
    b ≤ linspace a b n i ∧ linspace a b n i ≤ a := by
  by_cases h1 : n = 1
  · subst h1
    have : i = 0 := by omega
    subst this
    rw [linspace_one]; exact ⟨hab, le_refl _⟩
  · obtain ⟨t, t0, t1, h⟩ := linspace_convex a b n i (by omega) hi
    rw [h]
    constructor <;> nlinarith

theorem linspace_between' {a b : ℝ} (hab : a ≤ b) (n i : Nat) (hn : 2 ≤ n) (hi : i < n) :
    a ≤ linspace a b n i ∧ linspace a b n i ≤ b := by
  obtain ⟨t, t0, t1, h⟩ := linspace_convex a b n i hn hi
  rw [h]
  constructor <;> nlinarith

/-- mirrored linspaces are antisymmetric -/
theorem linspace_antisymm (a b : ℝ) (n p q : Nat) (hn : 2 ≤ n) (h : p + q + 1 = n) :
    linspace (-b) (-a) n q = -linspace a b n p := by
  rw [linspace_eq _ _ n q hn (by omega), linspace_eq _ _ n p hn (by omega)]
  have h2 : (2 : ℝ) ≤ n := by exact_mod_cast hn
  have hne : ((n : ℝ) - 1) ≠ 0 := by intro h; linarith
  have hq : (q : ℝ) = (n : ℝ) - 1 - p := by
    have : ((p + q + 1 : Nat) : ℝ) = n := by rw [h]
    push_cast at this; linarith
  rw [hq]; field_simp; ring

/-- truncation to whole nanoseconds: adding an offset `P` changes the floor by `P` to within one unit -/
theorem floor_shift (x P : ℝ) : |((⌊x + P⌋ : ℤ) : ℝ) - (⌊x⌋ : ℤ) - P| < 1 := by
  have a1 := Int.floor_le (x + P)
  have a2 := Int.lt_floor_add_one (x + P)
  have b1 := Int.floor_le x
  have b2 := Int.lt_floor_add_one x
  rw [abs_lt]; constructor <;> linarith

end reals
end PV.C19L
