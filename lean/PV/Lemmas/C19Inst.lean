/-
  Per-instrument point-wise facts for C19 over ℝ (each from the regenerated constants).
-/
import PV.Lemmas.C19
namespace PV.C19L
open PV PV.Instr PV.Gen

/-- unfold every regenerated instrument constant into Mathlib numerals -/
macro "gen_simp" : tactic => `(tactic| simp only [
  instr__avhrr_L3, instr__avhrr_L7, instr__avhrr__scan_angle, instr__avhrr__frequency,
  instr__avhrr_gac_L5, instr__avhrr_gac_L9, instr__avhrr_gac__scan_angle, instr__avhrr_gac__frequency,
  instr__viirs__chn_pixels, instr__viirs__scan_lines, instr__viirs__scan_step, instr__viirs_L4, instr__viirs_L5,
  instr__viirs_L7, instr__viirs_L11, instr__viirs_L12, instr__viirs__SEC_EACH_SCANCOLUMN,
  instr__viirs__sec_scan_duration,
  instr__amsua__scan_len, instr__amsua_L6, instr__amsua_L7, instr__amsua__scan_angle, instr__amsua__scan_rate,
  instr__amsua__sampling_interval, instr__amsua__sync_time,
  instr__mhs__scan_len, instr__mhs_L10, instr__mhs_L11, instr__mhs__scan_angle, instr__mhs__scan_rate,
  instr__mhs__sampling_interval, instr__mhs__sync_time,
  instr__hirs4__scan_len, instr__hirs4_L4, instr__hirs4_L5, instr__hirs4__scan_angle, instr__hirs4__scan_rate,
  instr__hirs4__sampling_interval,
  instr__atms__scan_len, instr__atms__scan_angle, instr__atms__scan_rate, instr__atms__sampling_interval,
  instr__mwhs2__scan_len, instr__mwhs2_L10, instr__mwhs2_L11, instr__mwhs2__scan_angle, instr__mwhs2__scan_rate,
  instr__mwhs2__sampling_interval, instr__mwhs2__sync_time,
  instr__ascat__scan_angle_inner, instr__ascat__scan_angle_outer, instr__ascat__scan_rate,
  instr__olci__scan_angle_west, instr__olci__scan_angle_east,
  instr__slstr_nadir__scan_angle_west, instr__slstr_nadir__scan_angle_east,
  instr__ScanGeometry___init___L3,
  r_ofSci, r_ofNat, r_div, r_sub, r_mul, r_neg, r_abs, r_add, r_nat, r_deg2rad, r_pi])

/-- the Nat-valued regenerated constants -/
macro "gen_nat" : tactic => `(tactic| simp only [Inst.npos, Resamp.npos, viirsDet, viirsWidth, ascatHalf, ascatHalf2,
  instr__avhrr_all_geom_L0_N, instr__amsua__scan_len_N, instr__mhs__scan_len_N, instr__hirs4__scan_len_N,
  instr__atms__scan_len_N, instr__mwhs2__scan_len_N, instr__ascat__scan_len_N, instr__ascat_L7_N, instr__ascat_L8_N,
  instr__viirs__scan_lines_N, instr__viirs__chn_pixels_N, instr__olci__scan_len_N, instr__slstr_nadir__scan_len_N] at *)

theorem r_nat_succ (l : Nat) : (nat (l + 1) : ℝ) = (nat l : ℝ) + 1 := by
  simp only [r_nat]; push_cast; ring

-- ------------------------------------------------------------------ generic time lemmas
theorem time2_lt {si per l p q : ℝ} (hsi : 0 < si) (h : p < q) : time2 si per l p < time2 si per l q := by
  rw [time2_eq, time2_eq]; have := mul_lt_mul_of_pos_right h hsi; linarith

theorem time3_lt {si sy per l p q : ℝ} (hsi : 0 < si) (h : p < q) : time3 si sy per l p < time3 si sy per l q := by
  rw [time3_eq, time3_eq]; have := mul_lt_mul_of_pos_right h hsi; linarith

theorem time2_end {si per l p q : ℝ} (hsi : 0 ≤ si) (hq : 0 ≤ q) (hend : p * si < per) :
    time2 si per l p < time2 si per (l + 1) q := by
  rw [time2_eq, time2_eq]; have := mul_nonneg hq hsi; linarith

theorem time3_end {si sy per l p q : ℝ} (hsi : 0 ≤ si) (hq : 0 ≤ q) (hend : p * si < per) :
    time3 si sy per l p < time3 si sy per (l + 1) q := by
  rw [time3_eq, time3_eq]; have := mul_nonneg hq hsi; linarith

theorem time2_off (si per l p : ℝ) : time2 si per (l + 1) p - time2 si per l p = per := by
  rw [time2_eq, time2_eq]; ring

theorem time3_off (si sy per l p : ℝ) : time3 si sy per (l + 1) p - time3 si sy per l p = per := by
  rw [time3_eq, time3_eq]; ring

theorem time2_nonneg {si per l p : ℝ} (hsi : 0 ≤ si) (hper : 0 ≤ per) (hl : 0 ≤ l) (hp : 0 ≤ p) :
    0 ≤ time2 si per l p := by
  rw [time2_eq]; have := mul_nonneg hp hsi; have := mul_nonneg hl hper; linarith

theorem time3_nonneg {si sy per l p : ℝ} (hsi : 0 ≤ si) (hsy : 0 ≤ sy) (hper : 0 ≤ per) (hl : 0 ≤ l) (hp : 0 ≤ p) :
    0 ≤ time3 si sy per l p := by
  rw [time3_eq]; have := mul_nonneg hp hsi; have := mul_nonneg hl hper; linarith

-- ------------------------------------------------------------------ symmetric linspace (ATMS)
theorem abs_linspace_sym_le (r : ℝ) (hr : r ≤ 0) (n i : Nat) (hn : 1 ≤ n) (hi : i < n) :
    |linspace (-r) r n i| ≤ |r| := by
  obtain ⟨h1, h2⟩ := linspace_between (a := -r) (b := r) (by linarith) n i hn hi
  rw [abs_of_nonpos hr, abs_le]; constructor <;> linarith

theorem linspace_sym_antisymm (r : ℝ) (n p q : Nat) (hn : 2 ≤ n) (h : p + q + 1 = n) :
    linspace (-r) r n q = -linspace (-r) r n p := by
  have := linspace_antisymm (-r) r n p q hn h
  rwa [neg_neg] at this

-- ------------------------------------------------------------------ angles
macro "ramp_swath" : tactic => `(tactic| (
  refine le_trans (abs_rampAngle_le ?_ ?_ ?_) ?_
  · gen_simp; norm_num
  · gen_simp; exact Nat.cast_nonneg _
  · gen_simp; norm_num; first | linarith | omega
  · gen_simp; simp only [neg_mul, abs_neg, le_refl]))

macro "ramp_anti" : tactic => `(tactic| (
  refine rampAngle_antisymm ?_ ?_
  · gen_simp; norm_num
  · gen_simp; norm_num; linarith))

theorem ascat_ro_ri : (Num.deg2rad (instr__ascat__scan_angle_outer : ℝ)) ≤ Num.deg2rad (instr__ascat__scan_angle_inner : ℝ)
    ∧ Num.deg2rad (instr__ascat__scan_angle_inner : ℝ) ≤ 0 := by
  have := Real.pi_pos
  gen_simp; constructor <;> nlinarith

/-- every across-track angle of a position of the full set lies within the swath -/
theorem angle_abs_le (i : Inst) (p : Nat) (hp : p < i.npos) : |(i.angle p : ℝ)| ≤ i.swath := by
  have hpn : p + 1 ≤ i.npos := hp
  have hpr : ((p + 1 : ℕ) : ℝ) ≤ ((i.npos : ℕ) : ℝ) := by exact_mod_cast hp
  cases i <;> gen_nat <;> push_cast at hpr
  · simp only [Inst.angle, Inst.swath, avhrrAngle]; ramp_swath
  · simp only [Inst.angle, Inst.swath, avhrrGacAngle]; ramp_swath
  · simp only [Inst.angle, Inst.swath, amsuaAngle]; ramp_swath
  · simp only [Inst.angle, Inst.swath, mhsAngle]; ramp_swath
  · simp only [Inst.angle, Inst.swath, hirs4Angle]; ramp_swath
  · simp only [Inst.angle, Inst.swath, atmsAngle, r_neg, r_abs]
    refine abs_linspace_sym_le _ ?_ _ _ (by decide) hp
    have := Real.pi_pos
    gen_simp; nlinarith
  · simp only [Inst.angle, Inst.swath, mwhs2Angle]; ramp_swath
  · obtain ⟨h1, h2⟩ := ascat_ro_ri
    simp only [Inst.angle, Inst.swath, ascatAngle, r_neg, r_abs]
    rw [abs_of_nonpos (le_trans h1 h2)]
    split
    · rename_i hlt
      obtain ⟨a1, a2⟩ := linspace_between (a := -Num.deg2rad (instr__ascat__scan_angle_outer : ℝ))
        (b := -Num.deg2rad (instr__ascat__scan_angle_inner : ℝ)) (by linarith) ascatHalf p (by decide) hlt
      rw [abs_le]; constructor <;> linarith
    · rename_i hge
      have hq : p - ascatHalf < ascatHalf2 := by
        have : ¬ p < 21 := hge
        show p - 21 < 21
        omega
      obtain ⟨a1, a2⟩ := linspace_between (a := Num.deg2rad (instr__ascat__scan_angle_inner : ℝ))
        (b := Num.deg2rad (instr__ascat__scan_angle_outer : ℝ)) h1 ascatHalf2 (p - ascatHalf) (by decide) hq
      rw [abs_le]; constructor <;> linarith

/-- across-track angles of mirrored positions are opposite -/
theorem angle_antisymm (i : Inst) (p q : Nat) (h : p + q + 1 = i.npos) : (i.angle q : ℝ) = -i.angle p := by
  have hr : ((p + q + 1 : ℕ) : ℝ) = ((i.npos : ℕ) : ℝ) := by rw [h]
  cases i <;> gen_nat <;> push_cast at hr
  · simp only [Inst.angle, avhrrAngle]; ramp_anti
  · simp only [Inst.angle, avhrrGacAngle]; ramp_anti
  · simp only [Inst.angle, amsuaAngle]; ramp_anti
  · simp only [Inst.angle, mhsAngle]; ramp_anti
  · simp only [Inst.angle, hirs4Angle]; ramp_anti
  · simp only [Inst.angle, atmsAngle, r_neg]
    exact linspace_sym_antisymm _ _ p q (by decide) h
  · simp only [Inst.angle, mwhs2Angle]; ramp_anti
  · simp only [Inst.angle, ascatAngle, r_neg]
    by_cases hp : p < ascatHalf
    · have hq : ¬ q < ascatHalf := by
        have : p < 21 := hp
        show ¬ q < 21
        omega
      rw [if_pos hp, if_neg hq]
      have := linspace_antisymm (-Num.deg2rad (instr__ascat__scan_angle_outer : ℝ))
        (-Num.deg2rad (instr__ascat__scan_angle_inner : ℝ)) 21 p (q - 21) (by decide)
        (by have : p < 21 := hp
            omega)
      rw [neg_neg, neg_neg] at this
      exact this
    · have hq : q < ascatHalf := by
        have : ¬ p < 21 := hp
        show q < 21
        omega
      rw [if_neg hp, if_pos hq]
      have := linspace_antisymm (Num.deg2rad (instr__ascat__scan_angle_inner : ℝ))
        (Num.deg2rad (instr__ascat__scan_angle_outer : ℝ)) 21 (p - 21) q (by decide)
        (by have : ¬ p < 21 := hp
            omega)
      exact this

-- ------------------------------------------------------------------ times
theorem ascat_si_pos (mx : Nat) : (0 : ℝ) < (instr__ascat__scan_rate : ℝ) / nat (mx + 1) := by
  apply div_pos
  · gen_simp; norm_num
  · rw [r_nat]; exact_mod_cast Nat.succ_pos mx

/-- along a line sample times increase with the scan point -/
theorem time_lt (i : Inst) (mx l p q : Nat) (h : p < q) : (i.time mx l p : ℝ) < i.time mx l q := by
  have hr : (nat p : ℝ) < nat q := by rw [r_nat, r_nat]; exact_mod_cast h
  cases i <;> simp only [Inst.time, avhrrTime, avhrrGacTime, amsuaTime, mhsTime, hirs4Time, atmsTime, mwhs2Time, ascatTime]
  · exact time2_lt (by gen_simp; norm_num) hr
  · exact time2_lt (by gen_simp; norm_num) hr
  · exact time3_lt (by gen_simp; norm_num) hr
  · exact time3_lt (by gen_simp; norm_num) hr
  · exact time2_lt (by gen_simp; norm_num) hr
  · exact time2_lt (by gen_simp; norm_num) hr
  · exact time3_lt (by gen_simp; norm_num) hr
  · exact time2_lt (ascat_si_pos mx) hr

/-- the last sample of a line precedes every sample of the next line
    (ASCAT: for points not beyond the selection's maximum, which fixes its sampling interval) -/
theorem time_line_end (i : Inst) (mx l p q : Nat) (hp : p < i.npos) (hmx : i = .ascat → p ≤ mx) :
    (i.time mx l p : ℝ) < i.time mx (l + 1) q := by
  have hpn : p + 1 ≤ i.npos := hp
  have hpr : ((p + 1 : ℕ) : ℝ) ≤ ((i.npos : ℕ) : ℝ) := by exact_mod_cast hp
  have hq : (0 : ℝ) ≤ nat q := by rw [r_nat]; exact Nat.cast_nonneg q
  cases i <;> gen_nat <;> push_cast at hpr <;>
    simp only [Inst.time, avhrrTime, avhrrGacTime, amsuaTime, mhsTime, hirs4Time, atmsTime, mwhs2Time, ascatTime,
      r_nat_succ]
  · exact time2_end (by gen_simp; norm_num) hq (by gen_simp; norm_num; linarith)
  · exact time2_end (by gen_simp; norm_num) hq (by gen_simp; norm_num; linarith)
  · exact time3_end (by gen_simp; norm_num) hq (by gen_simp; norm_num; linarith)
  · exact time3_end (by gen_simp; norm_num) hq (by gen_simp; norm_num; linarith)
  · exact time2_end (by gen_simp; norm_num) hq (by gen_simp; norm_num; linarith)
  · exact time2_end (by gen_simp; norm_num) hq (by gen_simp; norm_num; linarith)
  · exact time3_end (by gen_simp; norm_num) hq (by gen_simp; norm_num; linarith)
  · have hsi := ascat_si_pos mx
    rw [r_nat_succ] at hsi
    refine time2_end hsi.le hq ?_
    have hle : (p : ℝ) ≤ mx := by exact_mod_cast hmx trivial
    have hpos : (0 : ℝ) < (mx : ℝ) + 1 := by positivity
    have hrate : (0 : ℝ) < (instr__ascat__scan_rate : ℝ) := by gen_simp; norm_num
    rw [r_nat, r_nat, mul_div_assoc', div_lt_iff₀ hpos]
    nlinarith

/-- successive lines are offset by exactly the scan period -/
theorem time_offset (i : Inst) (mx l p : Nat) : (i.time mx (l + 1) p : ℝ) - i.time mx l p = i.period := by
  cases i <;> simp only [Inst.time, Inst.period, avhrrTime, avhrrGacTime, amsuaTime, mhsTime, hirs4Time, atmsTime,
      mwhs2Time, ascatTime, r_nat_succ]
  all_goals first | exact time2_off _ _ _ _ | exact time3_off _ _ _ _ _

theorem time_nonneg (i : Inst) (mx l p : Nat) : (0 : ℝ) ≤ i.time mx l p := by
  have hl : (0 : ℝ) ≤ nat l := by rw [r_nat]; exact Nat.cast_nonneg l
  have hp : (0 : ℝ) ≤ nat p := by rw [r_nat]; exact Nat.cast_nonneg p
  cases i <;> simp only [Inst.time, avhrrTime, avhrrGacTime, amsuaTime, mhsTime, hirs4Time, atmsTime, mwhs2Time, ascatTime]
  · exact time2_nonneg (by gen_simp; norm_num) (by gen_simp; norm_num) hl hp
  · exact time2_nonneg (by gen_simp; norm_num) (by gen_simp; norm_num) hl hp
  · exact time3_nonneg (by gen_simp; norm_num) (by gen_simp; norm_num) (by gen_simp; norm_num) hl hp
  · exact time3_nonneg (by gen_simp; norm_num) (by gen_simp; norm_num) (by gen_simp; norm_num) hl hp
  · exact time2_nonneg (by gen_simp; norm_num) (by gen_simp; norm_num) hl hp
  · exact time2_nonneg (by gen_simp; norm_num) (by gen_simp; norm_num) hl hp
  · exact time3_nonneg (by gen_simp; norm_num) (by gen_simp; norm_num) (by gen_simp; norm_num) hl hp
  · exact time2_nonneg (ascat_si_pos mx).le (by gen_simp; norm_num) hl hp

-- ------------------------------------------------------------------ VIIRS
theorem viirs_ymax_nonneg : (0 : ℝ) ≤ instr__viirs__y_max_angle := by
  simp only [instr__viirs__y_max_angle, r_atan2]
  rw [Complex.arg_nonneg_iff]
  gen_simp; norm_num

theorem viirsAcross_abs_le (p : Nat) (hp : p < viirsWidth) :
    |(viirsAcross (nat p) : ℝ)| ≤ |Num.deg2rad (instr__viirs_L7 : ℝ)| := by
  have hpn : p + 1 ≤ viirsWidth := hp
  have hpr : ((p + 1 : ℕ) : ℝ) ≤ ((viirsWidth : ℕ) : ℝ) := by exact_mod_cast hp
  gen_nat; push_cast at hpr
  simp only [viirsAcross]; ramp_swath

theorem viirsAcross_antisymm (p q : Nat) (h : p + q + 1 = viirsWidth) :
    (viirsAcross (nat q) : ℝ) = -viirsAcross (nat p) := by
  have hr : ((p + q + 1 : ℕ) : ℝ) = ((viirsWidth : ℕ) : ℝ) := by rw [h]
  gen_nat; push_cast at hr
  simp only [viirsAcross]; ramp_anti

theorem viirsAlong_eq (d : ℝ) :
    viirsAlong d = -rampAngle ((instr__viirs__scan_lines : ℝ) / instr__viirs_L11 - instr__viirs_L12)
      instr__viirs__y_max_angle d := by
  rw [rampAngle_eq]
  simp only [viirsAlong, r_neg, r_mul, r_sub, r_div, r_ofNat, Nat.cast_one]
  ring

theorem viirsAlong_abs_le (d : Nat) (hd : d < viirsDet) :
    |(viirsAlong (nat d) : ℝ)| ≤ instr__viirs__y_max_angle := by
  have hpn : d + 1 ≤ viirsDet := hd
  have hpr : ((d + 1 : ℕ) : ℝ) ≤ ((viirsDet : ℕ) : ℝ) := by exact_mod_cast hd
  gen_nat; push_cast at hpr
  rw [viirsAlong_eq, abs_neg]
  refine le_trans (abs_rampAngle_le ?_ ?_ ?_) (le_of_eq (abs_of_nonneg viirs_ymax_nonneg))
  · gen_simp; norm_num
  · gen_simp; exact Nat.cast_nonneg _
  · gen_simp; norm_num; linarith

/-- the detectors of a scan are mirrored about the scan centre -/
theorem viirsAlong_antisymm (d e : Nat) (h : d + e + 1 = viirsDet) :
    (viirsAlong (nat e) : ℝ) = -viirsAlong (nat d) := by
  have hr : ((d + e + 1 : ℕ) : ℝ) = ((viirsDet : ℕ) : ℝ) := by rw [h]
  gen_nat; push_cast at hr
  rw [viirsAlong_eq, viirsAlong_eq, neg_inj]
  ramp_anti

theorem viirsTime_eq (k p : ℝ) : viirsTime k p =
    p * instr__viirs__SEC_EACH_SCANCOLUMN + k * instr__viirs__sec_scan_duration * instr__viirs__scan_step := by
  simp only [viirsTime, r_add, r_mul]

/-- VIIRS scan period: `sec_scan_duration * scan_step` -/
noncomputable def viirsPeriod : ℝ := (instr__viirs__sec_scan_duration : ℝ) * instr__viirs__scan_step

theorem viirsTime_lt (k p q : Nat) (h : p < q) : (viirsTime (nat k) (nat p) : ℝ) < viirsTime (nat k) (nat q) := by
  have hr : (p : ℝ) < q := by exact_mod_cast h
  rw [viirsTime_eq, viirsTime_eq]; gen_simp; norm_num; linarith

theorem viirsTime_end (k k' p q : Nat) (hk : k < k') (hp : p < viirsWidth) :
    (viirsTime (nat k) (nat p) : ℝ) < viirsTime (nat k') (nat q) := by
  have hpr : ((p + 1 : ℕ) : ℝ) ≤ ((viirsWidth : ℕ) : ℝ) := by exact_mod_cast hp
  have hkr : ((k + 1 : ℕ) : ℝ) ≤ ((k' : ℕ) : ℝ) := by exact_mod_cast hk
  have hq : (0 : ℝ) ≤ q := Nat.cast_nonneg q
  gen_nat; push_cast at hpr hkr
  rw [viirsTime_eq, viirsTime_eq]; gen_simp; norm_num; linarith

theorem viirsTime_offset (k p : Nat) :
    (viirsTime (nat (k + 1)) (nat p) : ℝ) - viirsTime (nat k) (nat p) = viirsPeriod := by
  rw [viirsTime_eq, viirsTime_eq, r_nat_succ, viirsPeriod]; ring

theorem viirsTime_nonneg (k p : Nat) : (0 : ℝ) ≤ viirsTime (nat k) (nat p) := by
  have hk : (0 : ℝ) ≤ k := Nat.cast_nonneg k
  have hp : (0 : ℝ) ≤ p := Nat.cast_nonneg p
  rw [viirsTime_eq]; gen_simp; norm_num; positivity

-- ------------------------------------------------------------------ OLCI / SLSTR
theorem resamp_between (r : Resamp) (n j : Nat) (hj : j < n) :
    (match r with
      | .olci => Num.deg2rad (instr__olci__scan_angle_east : ℝ)
      | .slstr => Num.deg2rad (instr__slstr_nadir__scan_angle_east : ℝ)) ≤ r.angle n j ∧
    (r.angle n j : ℝ) ≤ (match r with
      | .olci => Num.deg2rad (instr__olci__scan_angle_west : ℝ)
      | .slstr => Num.deg2rad (instr__slstr_nadir__scan_angle_west : ℝ)) := by
  have := Real.pi_pos
  cases r <;> simp only [Resamp.angle, olciAngle, slstrAngle]
  · exact linspace_between (by gen_simp; nlinarith) n j (by omega) hj
  · exact linspace_between (by gen_simp; nlinarith) n j (by omega) hj

-- ------------------------------------------------------------------ nanoseconds
theorem toNs_eq (x : ℝ) : toNs x = ((⌊x * 1000000000⌋ : ℤ) : ℝ) := by
  simp only [toNs, r_floor]; gen_simp

/-- integer-nanosecond samples one period apart differ by the period to within one nanosecond -/
theorem toNs_offset (x y P : ℝ) (h : y - x = P) : |toNs y - toNs x - P * 1000000000| < 1 := by
  rw [toNs_eq, toNs_eq]
  have : y * 1000000000 = x * 1000000000 + P * 1000000000 := by rw [← h]; ring
  rw [this]
  exact floor_shift _ _

theorem abs_d2r (x : ℝ) (hx : 0 ≤ x) : |x * (Real.pi / 180)| = x * (Real.pi / 180) :=
  abs_of_nonneg (mul_nonneg hx (div_nonneg Real.pi_pos.le (by norm_num)))

theorem abs_d2r_neg (x : ℝ) (hx : 0 ≤ x) : |-x * (Real.pi / 180)| = x * (Real.pi / 180) := by
  rw [neg_mul, abs_neg]; exact abs_d2r x hx

end PV.C19L
