/-
  Lemmas for C15: the text of `datetime.isoformat()` — byte-wise order = chronological order,
  `fromisoformat` reads it back, hence the text determines the epoch.   Core Lean only.
-/
import PV.Model.Db
namespace PV.C15
open PV.Db

theorem digitChar_toNat (d : Nat) : (digitChar d).toNat = 48 + d % 10 := by
  unfold digitChar
  have h : d % 10 < 10 := Nat.mod_lt _ (by omega)
  generalize d % 10 = r at h
  have : r = 0 ∨ r = 1 ∨ r = 2 ∨ r = 3 ∨ r = 4 ∨ r = 5 ∨ r = 6 ∨ r = 7 ∨ r = 8 ∨ r = 9 := by omega
  rcases this with h | h | h | h | h | h | h | h | h | h <;> subst h <;> rfl

theorem isDigit_digitChar (d : Nat) : isDigit (digitChar d) = true := by
  unfold isDigit
  rw [digitChar_toNat]
  have : d % 10 < 10 := Nat.mod_lt _ (by omega)
  simp only [decide_eq_true_eq]; omega

theorem lexLt_cons_same (c : Char) (x y : List Char) : lexLt (c :: x) (c :: y) = lexLt x y := by
  simp [lexLt]

theorem lexLt_nil_right (x : List Char) : lexLt x [] = false := by
  cases x <;> rfl

theorem lexLt_irrefl (x : List Char) : lexLt x x = false := by
  induction x with
  | nil => rfl
  | cons c cs ih => simp [lexLt, ih]

theorem lexLt_cons_cons (a b : Char) (as bs : List Char) :
    lexLt (a :: as) (b :: bs) = true ↔ a.toNat < b.toNat ∨ (a.toNat = b.toNat ∧ lexLt as bs = true) := by
  simp only [lexLt]
  by_cases h1 : a.toNat < b.toNat
  · simp [h1]
  · by_cases h2 : a.toNat = b.toNat
    · simp [h2]
    · simp [h1, h2]

theorem lexLt_trans : ∀ (x y z : List Char), lexLt x y = true → lexLt y z = true → lexLt x z = true := by
  intro x
  induction x with
  | nil =>
    intro y z h1 h2
    cases y with
    | nil => simp [lexLt] at h1
    | cons b bs =>
      cases z with
      | nil => simp [lexLt] at h2
      | cons c cs => rfl
  | cons a as ih =>
    intro y z h1 h2
    cases y with
    | nil => simp [lexLt] at h1
    | cons b bs =>
      cases z with
      | nil => simp [lexLt] at h2
      | cons c cs =>
        rw [lexLt_cons_cons] at h1 h2 ⊢
        rcases h1 with h1 | ⟨h1, h1'⟩ <;> rcases h2 with h2 | ⟨h2, h2'⟩
        · left; omega
        · left; omega
        · left; omega
        · right; exact ⟨by omega, ih bs cs h1' h2'⟩

theorem lexLt_asymm (x y : List Char) (h : lexLt x y = true) : lexLt y x = false := by
  cases h' : lexLt y x with
  | false => rfl
  | true => have := lexLt_trans x y x h h'; rw [lexLt_irrefl] at this; exact absurd this (by simp)

/-- two zero-padded fields of the same width compare like the numbers, then the rest decides -/
theorem lexLt_pad (w : Nat) : ∀ (a b : Nat) (x y : List Char), a < 10 ^ w → b < 10 ^ w →
    (lexLt (pad w a ++ x) (pad w b ++ y) = true ↔ a < b ∨ (a = b ∧ lexLt x y = true)) := by
  induction w with
  | zero =>
    intro a b x y ha hb
    simp only [Nat.pow_zero] at ha hb
    have : a = 0 := by omega
    have : b = 0 := by omega
    subst_vars
    simp [pad]
  | succ w ih =>
    intro a b x y ha hb
    have hp : 0 < 10 ^ w := Nat.pow_pos (by omega)
    have hpow : 10 ^ (w + 1) = 10 ^ w * 10 := Nat.pow_succ ..
    have hqa : a / 10 ^ w < 10 := (Nat.div_lt_iff_lt_mul hp).mpr (by rw [Nat.mul_comm]; omega)
    have hqb : b / 10 ^ w < 10 := (Nat.div_lt_iff_lt_mul hp).mpr (by rw [Nat.mul_comm]; omega)
    have hra : a % 10 ^ w < 10 ^ w := Nat.mod_lt _ hp
    have hrb : b % 10 ^ w < 10 ^ w := Nat.mod_lt _ hp
    have ea := Nat.div_add_mod a (10 ^ w)
    have eb := Nat.div_add_mod b (10 ^ w)
    simp only [pad, List.cons_append, lexLt, digitChar_toNat, Nat.mod_eq_of_lt hqa, Nat.mod_eq_of_lt hqb]
    generalize 10 ^ w = p at *
    generalize hqa' : a / p = qa at *
    generalize hqb' : b / p = qb at *
    generalize a % p = ra at *
    generalize b % p = rb at *
    by_cases h1 : qa < qb
    · have : p * (qa + 1) ≤ p * qb := Nat.mul_le_mul_left p h1
      rw [Nat.mul_succ] at this
      have hlt : 48 + qa < 48 + qb := by omega
      simp only [hlt, if_true, true_iff]
      left; omega
    · have hlt : ¬ 48 + qa < 48 + qb := by omega
      simp only [hlt, if_false]
      by_cases h2 : qa = qb
      · subst h2
        simp only [if_true]
        rw [ih ra rb x y hra hrb]
        constructor
        · rintro (h | ⟨h, hx⟩)
          · left; omega
          · right; exact ⟨by omega, hx⟩
        · rintro (h | ⟨h, hx⟩)
          · left; omega
          · right; exact ⟨by omega, hx⟩
      · have hne : ¬ 48 + qa = 48 + qb := by omega
        simp only [hne, if_false]
        have : p * (qb + 1) ≤ p * qa := Nat.mul_le_mul_left p (by omega)
        rw [Nat.mul_succ] at this
        constructor
        · intro h; exact absurd h (by simp)
        · rintro (h | ⟨h, _⟩) <;> omega


theorem valid_bounds {e : Epoch} (h : e.valid) :
    1 ≤ e.y ∧ e.y ≤ 9999 ∧ 1 ≤ e.mo ∧ e.mo ≤ 12 ∧ 1 ≤ e.d ∧ e.d ≤ 31 ∧ e.h ≤ 23 ∧ e.mi ≤ 59 ∧ e.s ≤ 59 ∧ e.us ≤ 999999 := by
  unfold Epoch.valid Epoch.validB at h
  simp only [Bool.and_eq_true, decide_eq_true_eq] at h
  omega

theorem lexLt_frac (ua ub : Nat) (ha : ua ≤ 999999) (hb : ub ≤ 999999) :
    lexLt (if ua = 0 then [] else '.' :: pad 6 ua) (if ub = 0 then [] else '.' :: pad 6 ub) = true ↔ ua < ub := by
  by_cases h1 : ua = 0 <;> by_cases h2 : ub = 0
  · simp [h1, h2, lexLt]
  · simp only [h1, h2, if_true, if_false, lexLt]; simp; omega
  · simp only [h1, h2, if_true, if_false, lexLt_nil_right]; simp
  · simp only [h1, h2, if_false, lexLt_cons_same]
    have := lexLt_pad 6 ua ub [] [] (by omega) (by omega)
    simp only [List.append_nil] at this
    rw [this]
    simp [lexLt]

/-- **Byte-wise order of isoformat texts is chronological order** (with and without fraction, years 1..9999). -/
theorem iso_lt_iff' (a b : Epoch) (ha : a.valid) (hb : b.valid) : lexLt (iso a) (iso b) = true ↔ Epoch.lt a b := by
  have va := valid_bounds ha
  have vb := valid_bounds hb
  unfold iso Epoch.lt
  rw [lexLt_pad 4 _ _ _ _ (by omega) (by omega), lexLt_cons_same,
      lexLt_pad 2 _ _ _ _ (by omega) (by omega), lexLt_cons_same,
      lexLt_pad 2 _ _ _ _ (by omega) (by omega), lexLt_cons_same,
      lexLt_pad 2 _ _ _ _ (by omega) (by omega), lexLt_cons_same,
      lexLt_pad 2 _ _ _ _ (by omega) (by omega), lexLt_cons_same,
      lexLt_pad 2 _ _ _ _ (by omega) (by omega), lexLt_frac _ _ (by omega) (by omega)]

theorem digitsVal_cons (c : Char) (cs : List Char) (acc : Nat) (h : isDigit c = true) :
    digitsVal (c :: cs) acc = digitsVal cs (acc * 10 + (c.toNat - 48)) := by
  simp [digitsVal, h]

theorem digitsVal_pad (w : Nat) : ∀ (n acc : Nat), n < 10 ^ w → digitsVal (pad w n) acc = some (acc * 10 ^ w + n) := by
  induction w with
  | zero => intro n acc h; simp at h; subst h; simp [pad, digitsVal]
  | succ w ih =>
    intro n acc h
    have hp : 0 < 10 ^ w := Nat.pow_pos (by omega)
    have hq : n / 10 ^ w < 10 := (Nat.div_lt_iff_lt_mul hp).mpr (by rw [Nat.mul_comm, ← Nat.pow_succ]; exact h)
    have hr : n % 10 ^ w < 10 ^ w := Nat.mod_lt _ hp
    simp only [pad]
    rw [digitsVal_cons _ _ _ (isDigit_digitChar _), digitChar_toNat, Nat.mod_eq_of_lt hq, ih _ _ hr]
    have e := Nat.div_add_mod n (10 ^ w)
    rw [Nat.pow_succ]
    congr 1
    rw [Nat.add_sub_cancel_left, Nat.add_mul, Nat.mul_assoc, Nat.mul_comm 10, Nat.add_assoc, Nat.mul_comm (n / 10 ^ w)]
    omega

theorem pad2 (n : Nat) : pad 2 n = [digitChar (n / 10), digitChar (n % 10)] := by
  simp [pad]

theorem pad4 (n : Nat) : pad 4 n = [digitChar (n / 1000), digitChar (n % 1000 / 100), digitChar (n % 1000 % 100 / 10),
    digitChar (n % 1000 % 100 % 10)] := by
  simp [pad]

theorem pad_length (w n : Nat) : (pad w n).length = w := by
  induction w generalizing n with
  | zero => rfl
  | succ w ih => simp [pad, ih]

/-- **`fromisoformat` reads back what `isoformat` wrote** — also on whole seconds. -/
theorem parseIso_iso (e : Epoch) (h : e.valid) : parseIso (iso e) = some e := by
  have v := valid_bounds h
  have hy := digitsVal_pad 4 e.y 0 (by omega)
  have hmo := digitsVal_pad 2 e.mo 0 (by omega)
  have hd := digitsVal_pad 2 e.d 0 (by omega)
  have hh := digitsVal_pad 2 e.h 0 (by omega)
  have hmi := digitsVal_pad 2 e.mi 0 (by omega)
  have hs := digitsVal_pad 2 e.s 0 (by omega)
  have hus := digitsVal_pad 6 e.us 0 (by omega)
  rw [pad4] at hy
  rw [pad2] at hmo hd hh hmi hs
  have hv : e.validB = true := h
  unfold iso
  rw [pad4, pad2, pad2, pad2, pad2, pad2]
  by_cases h0 : e.us = 0
  · simp only [h0, if_true, List.cons_append, List.nil_append, List.append_nil, parseIso, hy, hmo, hd, hh, hmi, hs]
    simp only [Nat.zero_mul, Nat.zero_add]
    have : (⟨e.y, e.mo, e.d, e.h, e.mi, e.s, 0⟩ : Epoch) = e := by cases e; simp_all
    rw [this, hv]; rfl
  · simp only [h0, if_false, List.cons_append, List.nil_append, parseIso, hy, hmo, hd, hh, hmi, hs, pad_length, if_true, hus]
    simp only [Nat.zero_mul, Nat.zero_add]
    rw [hv]; rfl

/-- the text determines the epoch -/
theorem iso_inj (a b : Epoch) (ha : a.valid) (hb : b.valid) (h : iso a = iso b) : a = b := by
  have h1 := parseIso_iso a ha
  have h2 := parseIso_iso b hb
  rw [h, h2] at h1
  exact (Option.some.inj h1).symm

theorem Epoch.lt_irrefl (a : Epoch) : ¬ Epoch.lt a a := by
  unfold Epoch.lt; omega

end PV.C15
