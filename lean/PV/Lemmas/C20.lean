/-
  Helper lemmas for C20 (physical self-consistency of the state vector): the orientation
  vectors of `kep2xyz`, restated as definitions, and their algebra over ℝ.
-/
import PV.NumReal
import PV.Model.Sgp4
import PV.Lemmas.C13
import Mathlib.Tactic.LinearCombination
import Mathlib.Tactic.Linarith
namespace PV.C20
open PV PV.Sgp4 Real

/-- radial unit vector U of `kep2xyz` (orbital.py:1253-1255), T = theta, I = eqinc, S = ascn -/
noncomputable def U (k : Kep ℝ) : V3 ℝ :=
  ⟨-sin k.ascn * cos k.eqinc * sin k.theta + cos k.ascn * cos k.theta,
   cos k.ascn * cos k.eqinc * sin k.theta + sin k.ascn * cos k.theta,
   sin k.eqinc * sin k.theta⟩

/-- transverse unit vector V of `kep2xyz` (orbital.py:1260-1262) -/
noncomputable def V (k : Kep ℝ) : V3 ℝ :=
  ⟨-sin k.ascn * cos k.eqinc * cos k.theta - cos k.ascn * sin k.theta,
   cos k.ascn * cos k.eqinc * cos k.theta - sin k.ascn * sin k.theta,
   sin k.eqinc * cos k.theta⟩

/-- orbit normal W = U × V -/
noncomputable def W (k : Kep ℝ) : V3 ℝ :=
  ⟨sin k.ascn * sin k.eqinc, -cos k.ascn * sin k.eqinc, cos k.eqinc⟩

/-- real-notation dot product / squared norm / cross product (the `V3` operations read over ℝ) -/
theorem dot_real (a b : V3 ℝ) : V3.dot a b = a.x * b.x + a.y * b.y + a.z * b.z := by
  simp only [V3.dot, r_add, r_mul]

theorem cross_real (a b : V3 ℝ) : V3.cross a b =
    ⟨a.y * b.z - a.z * b.y, a.z * b.x - a.x * b.z, a.x * b.y - a.y * b.x⟩ := by
  simp only [V3.cross, r_sub, r_mul]

theorem smul_real (c : ℝ) (a : V3 ℝ) : V3.smul c a = ⟨c * a.x, c * a.y, c * a.z⟩ := by
  simp only [V3.smul, r_mul]

theorem add_real (a b : V3 ℝ) : V3.add a b = ⟨a.x + b.x, a.y + b.y, a.z + b.z⟩ := by
  simp only [V3.add, r_add]

/-- position = radius · U -/
theorem kep2xyz_pos (k : Kep ℝ) : (kep2xyz k).1 = V3.smul k.radius (U k) := by
  simp only [kep2xyz, U, smul_real, r_add, r_sub, r_mul, r_neg, r_sin, r_cos]

/-- velocity = rdotk · U + rfdotk · V -/
theorem kep2xyz_vel (k : Kep ℝ) :
    (kep2xyz k).2 = V3.add (V3.smul k.rdotk (U k)) (V3.smul k.rfdotk (V k)) := by
  simp only [kep2xyz, U, V, smul_real, add_real, r_add, r_sub, r_mul, r_neg, r_sin, r_cos]


theorem U_dot_U (k : Kep ℝ) : V3.dot (U k) (U k) = 1 := by
  simp only [dot_real, U]
  linear_combination (1 : ℝ) * sin_sq_add_cos_sq k.theta
    + (sin k.theta ^ 2) * sin_sq_add_cos_sq k.eqinc
    + (cos k.eqinc ^ 2 * sin k.theta ^ 2 + cos k.theta ^ 2) * sin_sq_add_cos_sq k.ascn

theorem V_dot_V (k : Kep ℝ) : V3.dot (V k) (V k) = 1 := by
  simp only [dot_real, V]
  linear_combination (1 : ℝ) * sin_sq_add_cos_sq k.theta
    + (cos k.theta ^ 2) * sin_sq_add_cos_sq k.eqinc
    + (cos k.eqinc ^ 2 * cos k.theta ^ 2 + sin k.theta ^ 2) * sin_sq_add_cos_sq k.ascn

theorem U_dot_V (k : Kep ℝ) : V3.dot (U k) (V k) = 0 := by
  simp only [dot_real, V, U]
  linear_combination (sin k.theta * cos k.theta) * sin_sq_add_cos_sq k.eqinc
    + (cos k.eqinc ^ 2 * sin k.theta * cos k.theta - sin k.theta * cos k.theta) * sin_sq_add_cos_sq k.ascn

theorem U_cross_V (k : Kep ℝ) : V3.cross (U k) (V k) = W k := by
  simp only [cross_real, U, V, W]
  congr 1
  · linear_combination (sin k.ascn * sin k.eqinc) * sin_sq_add_cos_sq k.theta
  · linear_combination (-cos k.ascn * sin k.eqinc) * sin_sq_add_cos_sq k.theta
  · linear_combination (cos k.eqinc) * sin_sq_add_cos_sq k.theta
      + (cos k.eqinc * sin k.theta ^ 2 + cos k.eqinc * cos k.theta ^ 2) * sin_sq_add_cos_sq k.ascn

theorem W_dot_W (k : Kep ℝ) : V3.dot (W k) (W k) = 1 := by
  simp only [dot_real, W]
  linear_combination (1 : ℝ) * sin_sq_add_cos_sq k.eqinc
    + (sin k.eqinc ^ 2) * sin_sq_add_cos_sq k.ascn


/-! ### the short-period inclination correction -/

/-- `cosu` of `_calculate_preliminary_short_period` (orbital.py:1128-1140), restated -/
noncomputable def cosU (s : Secular ℝ) (l : LongPeriod ℝ) (nw : Newton ℝ) : ℝ :=
  s.a * (1 / (s.a * (1 - nw.ecosE))) *
    (nw.cosEPW - l.axn + l.ayn * nw.esinE * (1 / (1 + √(1 - l.elsq))))
/-- `sinu`, restated -/
noncomputable def sinU (s : Secular ℝ) (l : LongPeriod ℝ) (nw : Newton ℝ) : ℝ :=
  s.a * (1 / (s.a * (1 - nw.ecosE))) *
    (nw.sinEPW - l.ayn - l.axn * nw.esinE * (1 / (1 + √(1 - l.elsq))))

theorem shortPeriod_eqinc (p : Params ℝ) (s : Secular ℝ) (l : LongPeriod ℝ) (nw : Newton ℝ) :
    (shortPeriod p s l nw).eqinc = p.xincl +
      1.5 * (CK2 * (1 / (shortPeriod p s l nw).pl) * (1 / (shortPeriod p s l nw).pl)) * p.cosIO * p.sinIO *
        (2 * cosU s l nw ^ 2 - 1) := by
  simp only [shortPeriod, cosU, r_add, r_sub, r_mul, r_div, r_sq, r_sqrt, r_ofNat, r_ofSci]
  simp only [Nat.cast_one, Nat.cast_ofNat]

/-- `sinu² + cosu² = 1` is an algebraic identity as soon as the Kepler iterate's sin/cos belong to one angle
    (no need for the iteration to have converged) -/
theorem sinU_sq_add_cosU_sq (s : Secular ℝ) (l : LongPeriod ℝ) (nw : Newton ℝ)
    (hinv : C13.NwInv l.axn l.ayn nw) (hel : l.elsq = l.axn ^ 2 + l.ayn ^ 2) (h1 : l.elsq < 1)
    (ha : s.a ≠ 0) : sinU s l nw ^ 2 + cosU s l nw ^ 2 = 1 := by
  have hlt : nw.ecosE < 1 := hinv.ecosE_lt_one (hel ▸ h1)
  obtain ⟨θ, hs, hc, hec, hes⟩ := hinv
  have hβ : √(1 - l.elsq) ^ 2 = 1 - l.elsq := Real.sq_sqrt (by linarith)
  have hβ0 : 0 ≤ √(1 - l.elsq) := Real.sqrt_nonneg _
  set β := √(1 - l.elsq)
  have hb : (1 + β) ≠ 0 := by positivity
  have hd : (1 - nw.ecosE) ≠ 0 := by linarith
  -- t = 1/(1+β) satisfies 1 − 2t + t²·elsq = 0
  have ht : 1 - 2 * (1 / (1 + β)) + (1 / (1 + β)) ^ 2 * (l.axn ^ 2 + l.ayn ^ 2) = 0 := by
    rw [← hel]; field_simp; linear_combination (1 : ℝ) * hβ
  have hcs := sin_sq_add_cos_sq θ
  unfold sinU cosU
  set t := 1 / (1 + β)
  have hfrac : s.a * (1 / (s.a * (1 - nw.ecosE))) = 1 / (1 - nw.ecosE) := by field_simp
  rw [hfrac]
  have key : (nw.sinEPW - l.ayn - l.axn * nw.esinE * t) ^ 2 + (nw.cosEPW - l.axn + l.ayn * nw.esinE * t) ^ 2
      = (1 - nw.ecosE) ^ 2 := by
    rw [hs, hc, hec, hes]
    linear_combination (1 - (l.axn ^ 2 + l.ayn ^ 2)) * hcs + (l.axn * sin θ - l.ayn * cos θ) ^ 2 * ht
  rw [mul_pow, mul_pow, ← mul_add, key]
  field_simp

theorem cos2u_abs_le_one (s : Secular ℝ) (l : LongPeriod ℝ) (nw : Newton ℝ)
    (hinv : C13.NwInv l.axn l.ayn nw) (hel : l.elsq = l.axn ^ 2 + l.ayn ^ 2) (h1 : l.elsq < 1)
    (ha : s.a ≠ 0) : |2 * cosU s l nw ^ 2 - 1| ≤ 1 := by
  have := sinU_sq_add_cosU_sq s l nw hinv hel h1 ha
  rw [abs_le]; constructor <;> nlinarith [sq_nonneg (sinU s l nw), sq_nonneg (cosU s l nw)]

theorem sin_mul_cos_abs_le (x : ℝ) : |cos x * sin x| ≤ 1 / 2 := by
  have := sin_sq_add_cos_sq x
  rw [abs_le]; constructor <;> nlinarith [sq_nonneg (sin x - cos x), sq_nonneg (sin x + cos x)]


/-- general form: whenever the computed `cos2u = 2cosu² − 1` lies in [−1, 1] and `pl ≠ 0` -/
theorem xinc_close_of_cos2u (p : Params ℝ) (s : Secular ℝ) (l : LongPeriod ℝ) (nw : Newton ℝ)
    (hc : |2 * cosU s l nw ^ 2 - 1| ≤ 1) :
    |(shortPeriod p s l nw).eqinc - p.xincl| ≤
      1.5 * 5.41308e-4 / (shortPeriod p s l nw).pl ^ 2 * |p.cosIO * p.sinIO| := by
  rw [shortPeriod_eqinc, C13.CK2_real]
  set pl := (shortPeriod p s l nw).pl
  set c2u := 2 * cosU s l nw ^ 2 - 1
  have : p.xincl + 1.5 * (5.41308e-4 * (1 / pl) * (1 / pl)) * p.cosIO * p.sinIO * c2u - p.xincl
      = (1.5 * 5.41308e-4 / pl ^ 2 * (p.cosIO * p.sinIO)) * c2u := by
    rw [div_eq_mul_one_div _ (pl ^ 2), ← one_div_pow]; ring
  rw [this, abs_mul, abs_mul]
  have h0 : (0 : ℝ) ≤ 1.5 * 5.41308e-4 / pl ^ 2 := by positivity
  rw [abs_of_nonneg h0]
  calc 1.5 * 5.41308e-4 / pl ^ 2 * |p.cosIO * p.sinIO| * |c2u|
      ≤ 1.5 * 5.41308e-4 / pl ^ 2 * |p.cosIO * p.sinIO| * 1 :=
        mul_le_mul_of_nonneg_left hc (by positivity)
    _ = _ := by ring


/-! ### the short-period radius correction -/

theorem shortPeriod_rk (p : Params ℝ) (s : Secular ℝ) (l : LongPeriod ℝ) (nw : Newton ℝ) :
    (shortPeriod p s l nw).rk =
      (shortPeriod p s l nw).r * (1 - 1.5 * (CK2 * (1 / (shortPeriod p s l nw).pl) *
          (1 / (shortPeriod p s l nw).pl)) * √(1 - l.elsq) * p.x3thm1) +
        0.5 * (CK2 * (1 / (shortPeriod p s l nw).pl)) * p.x1mth2 * (2 * cosU s l nw ^ 2 - 1) := by
  simp only [shortPeriod, cosU, r_add, r_sub, r_mul, r_div, r_sq, r_sqrt, r_ofNat, r_ofSci]
  simp only [Nat.cast_one, Nat.cast_ofNat]

/-- Cauchy–Schwarz on the loop invariant: |ecosE| ≤ √elsq -/
theorem abs_ecosE_le (l : LongPeriod ℝ) (nw : Newton ℝ) (hinv : C13.NwInv l.axn l.ayn nw)
    (hel : l.elsq = l.axn ^ 2 + l.ayn ^ 2) : |nw.ecosE| ≤ √l.elsq := by
  have h := hinv.ecosE_sq_add
  rw [← hel] at h
  apply Real.abs_le_sqrt
  nlinarith [sq_nonneg nw.esinE]

/-- `r ∈ [a(1−e_L), a(1+e_L)]` and `|r_k − r| ≤ 1.5·CK2/p_l²·β_L·|x3thm1|·r + 0.5·CK2/p_l·|x1mth2|` -/
theorem rk_bounds_gen (p : Params ℝ) (s : Secular ℝ) (l : LongPeriod ℝ) (nw : Newton ℝ)
    (hinv : C13.NwInv l.axn l.ayn nw) (hel : l.elsq = l.axn ^ 2 + l.ayn ^ 2) (h1 : l.elsq < 1)
    (ha : 0 < s.a) :
    s.a * (1 - √l.elsq) ≤ (shortPeriod p s l nw).r ∧ (shortPeriod p s l nw).r ≤ s.a * (1 + √l.elsq) ∧
    |(shortPeriod p s l nw).rk - (shortPeriod p s l nw).r| ≤
      1.5 * 5.41308e-4 / (shortPeriod p s l nw).pl ^ 2 * √(1 - l.elsq) * |p.x3thm1| * (shortPeriod p s l nw).r
        + 0.5 * 5.41308e-4 / (shortPeriod p s l nw).pl * |p.x1mth2| := by
  have hce := abs_le.1 (abs_ecosE_le l nw hinv hel)
  have hc := cos2u_abs_le_one s l nw hinv hel h1 ha.ne'
  have hr : (shortPeriod p s l nw).r = s.a * (1 - nw.ecosE) := C13.shortPeriod_r _ _ _ _
  have hpl : (shortPeriod p s l nw).pl = s.a * (1 - l.elsq) := C13.shortPeriod_pl _ _ _ _
  have hplpos : 0 < (shortPeriod p s l nw).pl := by rw [hpl]; exact mul_pos ha (by linarith)
  have hrlo : s.a * (1 - √l.elsq) ≤ (shortPeriod p s l nw).r := by
    rw [hr]; exact mul_le_mul_of_nonneg_left (by linarith [hce.2]) ha.le
  have hrhi : (shortPeriod p s l nw).r ≤ s.a * (1 + √l.elsq) := by
    rw [hr]; exact mul_le_mul_of_nonneg_left (by linarith [hce.1]) ha.le
  have hsq1 : √l.elsq < 1 := by
    rw [show (1 : ℝ) = √1 by simp]
    exact Real.sqrt_lt_sqrt (by rw [hel]; positivity) h1
  have hrpos : 0 < (shortPeriod p s l nw).r := lt_of_lt_of_le (mul_pos ha (by linarith)) hrlo
  refine ⟨hrlo, hrhi, ?_⟩
  rw [shortPeriod_rk, C13.CK2_real]
  set r := (shortPeriod p s l nw).r
  set pl := (shortPeriod p s l nw).pl
  set c2u := 2 * cosU s l nw ^ 2 - 1
  set β := √(1 - l.elsq)
  have hβ : 0 ≤ β := Real.sqrt_nonneg _
  have e : r * (1 - 1.5 * (5.41308e-4 * (1 / pl) * (1 / pl)) * β * p.x3thm1) +
      0.5 * (5.41308e-4 * (1 / pl)) * p.x1mth2 * c2u - r
      = -(1.5 * 5.41308e-4 / pl ^ 2 * β * r) * p.x3thm1 + (0.5 * 5.41308e-4 / pl) * p.x1mth2 * c2u := by
    field_simp; ring
  rw [e]
  refine (abs_add_le _ _).trans (add_le_add ?_ ?_)
  · rw [abs_mul, abs_neg, abs_of_nonneg (by positivity)]
    apply le_of_eq; ring
  · rw [abs_mul, abs_mul, abs_of_nonneg (by positivity : (0:ℝ) ≤ 0.5 * 5.41308e-4 / pl)]
    calc 0.5 * 5.41308e-4 / pl * |p.x1mth2| * |c2u| ≤ 0.5 * 5.41308e-4 / pl * |p.x1mth2| * 1 :=
          mul_le_mul_of_nonneg_left hc (by positivity)
      _ = _ := by ring

end PV.C20
