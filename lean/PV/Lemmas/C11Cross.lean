/-
  Helper lemmas for C11 that need the intermediate value theorem: an ascending node inside the
  bracket of the stepping loop, and the root behind `get_equatorial_crossing_time`.
-/
import PV.NumReal
import PV.Model.OrbitNum
import PV.Lemmas.C11Orbit
import Mathlib.Topology.Order.IntermediateValue
import Mathlib.Topology.Order.Compact
import Mathlib.Topology.Algebra.Order.Floor
import Mathlib.Tactic.Linarith
namespace PV.C11L
open PV PV.OrbitNum Set

/-- A continuous z that is negative at `a` and positive at `b > a` has a LAST zero `c` in between, after
    which it stays positive up to `b`: an upward (south-to-north) crossing. -/
theorem ascending_root (zc : ℝ → ℝ) (hz : Continuous zc) (a b : ℝ) (hab : a < b)
    (ha : zc a < 0) (hb : 0 < zc b) :
    ∃ c, a < c ∧ c < b ∧ zc c = 0 ∧ ∀ x, c < x → x ≤ b → 0 < zc x := by
  let S : Set ℝ := Icc a b ∩ zc ⁻¹' Iic 0
  have hSc : IsClosed S := isClosed_Icc.inter (isClosed_Iic.preimage hz)
  have hSne : S.Nonempty := ⟨a, ⟨le_refl a, hab.le⟩, ha.le⟩
  have hSb : BddAbove S := ⟨b, fun x hx => hx.1.2⟩
  have hcS : sSup S ∈ S := hSc.csSup_mem hSne hSb
  set c := sSup S with hc
  have hcb : c ≠ b := by
    intro h
    have : zc c ≤ 0 := hcS.2
    rw [h] at this; linarith
  have hcltb : c < b := lt_of_le_of_ne hcS.1.2 hcb
  have hpos : ∀ x, c < x → x ≤ b → 0 < zc x := by
    intro x hx hxb
    by_contra hneg
    have hxS : x ∈ S := ⟨⟨le_trans hcS.1.1 hx.le, hxb⟩, not_lt.mp hneg⟩
    have := le_csSup hSb hxS
    linarith
  have hzero : zc c = 0 := by
    by_contra hne
    have hlt : zc c < 0 := lt_of_le_of_ne hcS.2 hne
    have hcont : ContinuousOn zc (Icc c b) := hz.continuousOn
    have : (0 : ℝ) ∈ zc '' Ioo c b := intermediate_value_Ioo hcltb.le hcont ⟨hlt, hb⟩
    obtain ⟨x, ⟨hx1, hx2⟩, hx0⟩ := this
    have := hpos x hx1 hx2.le
    linarith
  refine ⟨c, ?_, hcltb, hzero, hpos⟩
  rcases eq_or_lt_of_le hcS.1.1 with h | h
  · rw [← h] at hzero; linarith
  · exact h

/-- contract of `scipy.optimize.bisect(f, a, b)` used here: when it returns `x`, the final bracket
    `[l, r] ⊆ [a, b]` contains `x`, is at most `δ` wide (δ = 2·(xtol + rtol·|x|)) and `f` changes sign
    (or vanishes) across it -/
def BisContract (bis : (ℝ → ℝ) → ℝ → ℝ → Option ℝ) (δ : ℝ) : Prop :=
  ∀ f a b x, bis f a b = some x →
    ∃ l r, a ≤ l ∧ l ≤ x ∧ x ≤ r ∧ r ≤ b ∧ r - l ≤ δ ∧ ((f l ≤ 0 ∧ 0 ≤ f r) ∨ (f r ≤ 0 ∧ 0 ≤ f l))

/-- the returned crossing tick is within `δ + 1` ticks of a real instant where the continuous number
    equals the offset -/
theorem crossing_core (N : ℝ → ℝ) (hN : Continuous N) (bis : (ℝ → ℝ) → ℝ → ℝ → Option ℝ) (δ : ℝ)
    (hbis : BisContract bis δ) (tstart tend t : Int) (desc : Bool)
    (h : crossingTime (fun i : Int => N (i : ℝ)) (fun i : Int => (i : ℝ)) (fun x : ℝ => ⌊x⌋) bis
          tstart tend desc = some t) :
    ∃ off, crossingOffset (N (tstart : ℝ)) (N (tend : ℝ)) desc = some off ∧
      tstart ≤ t ∧ t ≤ tend ∧
      ∃ τ : ℝ, N τ = off ∧ |τ - (t : ℝ)| ≤ δ + 1 ∧ (tstart : ℝ) ≤ τ ∧ τ ≤ (tend : ℝ) := by
  unfold crossingTime at h
  cases ho : crossingOffset (N (tstart : ℝ)) (N (tend : ℝ)) desc with
  | none => simp [ho] at h
  | some off =>
    simp only [ho] at h
    cases hb : bis (fun x => N ((⌊x⌋ : ℤ) : ℝ) - off) (tstart : ℝ) (tend : ℝ) with
    | none => simp [r_sub, hb] at h
    | some x =>
      simp only [r_sub, hb, Option.some.injEq] at h
      obtain ⟨l, r, h1, h2, h3, h4, h5, h6⟩ := hbis _ _ _ _ hb
      have hfl : (tstart : ℤ) ≤ ⌊l⌋ := Int.le_floor.mpr h1
      have hfr : ⌊r⌋ ≤ tend := by
        have : ⌊r⌋ ≤ ⌊(tend : ℝ)⌋ := Int.floor_mono h4
        simpa using this
      have hlr : ⌊l⌋ ≤ ⌊r⌋ := Int.floor_mono (by linarith)
      have hlx : ⌊l⌋ ≤ ⌊x⌋ := Int.floor_mono h2
      have hxr : ⌊x⌋ ≤ ⌊r⌋ := Int.floor_mono h3
      have hlrR : ((⌊l⌋ : ℤ) : ℝ) ≤ ((⌊r⌋ : ℤ) : ℝ) := by exact_mod_cast hlr
      have hcont : ContinuousOn N (Icc ((⌊l⌋ : ℤ) : ℝ) ((⌊r⌋ : ℤ) : ℝ)) := hN.continuousOn
      have hτ : ∃ τ ∈ Icc ((⌊l⌋ : ℤ) : ℝ) ((⌊r⌋ : ℤ) : ℝ), N τ = off := by
        rcases h6 with ⟨a1, a2⟩ | ⟨a1, a2⟩
        · have : off ∈ N '' Icc ((⌊l⌋ : ℤ) : ℝ) ((⌊r⌋ : ℤ) : ℝ) :=
            intermediate_value_Icc hlrR hcont ⟨by linarith, by linarith⟩
          obtain ⟨τ, hτ1, hτ2⟩ := this; exact ⟨τ, hτ1, hτ2⟩
        · have : off ∈ N '' Icc ((⌊l⌋ : ℤ) : ℝ) ((⌊r⌋ : ℤ) : ℝ) :=
            intermediate_value_Icc' hlrR hcont ⟨by linarith, by linarith⟩
          obtain ⟨τ, hτ1, hτ2⟩ := this; exact ⟨τ, hτ1, hτ2⟩
      obtain ⟨τ, ⟨hτa, hτb⟩, hτ0⟩ := hτ
      subst h
      refine ⟨off, rfl, by omega, by omega, τ, hτ0, ?_, ?_, ?_⟩
      · have e1 := Int.floor_le l
        have e2 := Int.lt_floor_add_one l
        have e3 := Int.floor_le r
        have e5 := Int.floor_le x
        have e6 := Int.lt_floor_add_one x
        rw [abs_le]; constructor <;> linarith
      · have : ((tstart : ℤ) : ℝ) ≤ ((⌊l⌋ : ℤ) : ℝ) := by exact_mod_cast hfl
        linarith
      · have : ((⌊r⌋ : ℤ) : ℝ) ≤ ((tend : ℤ) : ℝ) := by exact_mod_cast hfr
        linarith

end PV.C11L
