/-
  Helper lemmas for C07: the ray/ellipsoid intersection of `compute_pixels` over ℝ.
-/
import PV.Lemmas.C14
import PV.Lemmas.C14Geod
namespace PV.C07L
open PV PV.C14L

theorem PA_pos : (0 : ℝ) < Geoloc.PA := by
  simp only [Geoloc.PA, Gen.geoloc__compute_pixels_L3, r_ofSci]; norm_num

theorem PB_pos : (0 : ℝ) < Geoloc.PB := by
  simp only [Geoloc.PB, Gen.geoloc__compute_pixels_L4, r_ofSci]; norm_num

/-- the constants are the published WGS 84 semi-axes -/
theorem PA_eq : (Geoloc.PA : ℝ) = Wgs84.a84 := by
  simp only [Geoloc.PA, Gen.geoloc__compute_pixels_L3, Wgs84.a84, r_ofSci]

theorem PB_eq : (Geoloc.PB : ℝ) = Wgs84.b84 := by
  simp only [Geoloc.PB, Gen.geoloc__compute_pixels_L4, Wgs84.b84, r_ofSci]

/-- scaled inner products in plain notation (`a`, `b` the semi-axes) -/
noncomputable def Lr (a b : ℝ) (pos v : V3 ℝ) : ℝ := -(v.x * pos.x / a ^ 2 + v.y * pos.y / a ^ 2 + v.z * pos.z / b ^ 2)
noncomputable def Qr (a b : ℝ) (v : V3 ℝ) : ℝ := v.x ^ 2 / a ^ 2 + v.y ^ 2 / a ^ 2 + v.z ^ 2 / b ^ 2

theorem ldotc_real (pos v : V3 ℝ) : (Geoloc.intersect pos v).ldotc = Lr Geoloc.PA Geoloc.PB pos v := by
  simp only [Geoloc.intersect, V3.dot, V3.neg, Lr, r_add, r_mul, r_div, r_neg, r_ofNat]
  simp only [Nat.cast_one]
  ring

theorem lsq_real (pos v : V3 ℝ) : (Geoloc.intersect pos v).lsq = Qr Geoloc.PA Geoloc.PB v := by
  simp only [Geoloc.intersect, V3.dot, Qr, r_add, r_mul, r_div, r_ofNat]
  simp only [Nat.cast_one]
  ring

theorem csq_real (pos v : V3 ℝ) : (Geoloc.intersect pos v).csq = Qr Geoloc.PA Geoloc.PB pos := by
  simp only [Geoloc.intersect, V3.dot, V3.neg, Qr, r_add, r_mul, r_div, r_neg, r_ofNat]
  simp only [Nat.cast_one]
  ring

theorem disc_real (pos v : V3 ℝ) : (Geoloc.intersect pos v).disc =
    (Geoloc.intersect pos v).ldotc ^ 2 - (Geoloc.intersect pos v).csq * (Geoloc.intersect pos v).lsq
      + (Geoloc.intersect pos v).lsq := by
  simp only [Geoloc.intersect, r_add, r_sub, r_mul, r_sq]

theorem d1_real (pos v : V3 ℝ) : (Geoloc.intersect pos v).d1 =
    ((Geoloc.intersect pos v).ldotc - Real.sqrt (Geoloc.intersect pos v).disc) / (Geoloc.intersect pos v).lsq := by
  simp only [Geoloc.intersect, r_sub, r_div, r_sqrt]

theorem pixel_real (pos v : V3 ℝ) : (Geoloc.intersect pos v).pixel =
    ⟨pos.x + (Geoloc.intersect pos v).d1 * v.x, pos.y + (Geoloc.intersect pos v).d1 * v.y,
     pos.z + (Geoloc.intersect pos v).d1 * v.z⟩ := by
  simp only [Geoloc.intersect, V3.neg, r_sub, r_mul, r_neg]
  apply V3.ext' <;> simp only [] <;> ring

/-- the ellipsoid equation along the line `pos + t v` is the quadratic `csq − 2 t ldotc + t² lsq` -/
theorem lhs_line (a b : ℝ) (pos v : V3 ℝ) (t : ℝ) :
    Wgs84.ellipsoidLhs a b ⟨pos.x + t * v.x, pos.y + t * v.y, pos.z + t * v.z⟩
      = Qr a b pos - 2 * t * Lr a b pos v + t ^ 2 * Qr a b v := by
  simp only [Wgs84.ellipsoidLhs, Qr, Lr, r_add, r_mul, r_div]
  ring

theorem Qr_nonneg (a b : ℝ) (v : V3 ℝ) : 0 ≤ Qr a b v := by unfold Qr; positivity

/-! ### the quadratic `C − 2 t L + t² Q = 1` -/

theorem near_root_solves (L Q C : ℝ) (hQ : Q ≠ 0) (hd : 0 ≤ L ^ 2 - C * Q + Q) :
    C - 2 * ((L - Real.sqrt (L ^ 2 - C * Q + Q)) / Q) * L + ((L - Real.sqrt (L ^ 2 - C * Q + Q)) / Q) ^ 2 * Q = 1 := by
  have hs := Real.sq_sqrt hd
  generalize Real.sqrt (L ^ 2 - C * Q + Q) = s at *
  field_simp
  linear_combination hs

theorem far_root_solves (L Q C : ℝ) (hQ : Q ≠ 0) (hd : 0 ≤ L ^ 2 - C * Q + Q) :
    C - 2 * ((L + Real.sqrt (L ^ 2 - C * Q + Q)) / Q) * L + ((L + Real.sqrt (L ^ 2 - C * Q + Q)) / Q) ^ 2 * Q = 1 := by
  have hs := Real.sq_sqrt hd
  generalize Real.sqrt (L ^ 2 - C * Q + Q) = s at *
  field_simp
  linear_combination hs

theorem disc_of_root (L Q C t : ℝ) (h : C - 2 * t * L + t ^ 2 * Q = 1) :
    L ^ 2 - C * Q + Q = (Q * t - L) ^ 2 := by
  linear_combination (-Q) * h

theorem root_ge_near (L Q C t : ℝ) (hQ : 0 < Q) (h : C - 2 * t * L + t ^ 2 * Q = 1) :
    (L - Real.sqrt (L ^ 2 - C * Q + Q)) / Q ≤ t := by
  rw [disc_of_root L Q C t h, Real.sqrt_sq_eq_abs, div_le_iff₀ hQ]
  have := neg_abs_le (Q * t - L)
  linarith

theorem root_le_far (L Q C t : ℝ) (hQ : 0 < Q) (h : C - 2 * t * L + t ^ 2 * Q = 1) :
    t ≤ (L + Real.sqrt (L ^ 2 - C * Q + Q)) / Q := by
  rw [disc_of_root L Q C t h, Real.sqrt_sq_eq_abs, le_div_iff₀ hQ]
  have := le_abs_self (Q * t - L)
  linarith

theorem near_root_pos (L Q C : ℝ) (hQ : 0 < Q) (hC : 1 < C) (hL : 0 < L) (hd : 0 ≤ L ^ 2 - C * Q + Q) :
    0 < (L - Real.sqrt (L ^ 2 - C * Q + Q)) / Q := by
  apply div_pos _ hQ
  have h1 : L ^ 2 - C * Q + Q < L ^ 2 := by nlinarith
  have h2 : Real.sqrt (L ^ 2 - C * Q + Q) < Real.sqrt (L ^ 2) := Real.sqrt_lt_sqrt hd h1
  rw [Real.sqrt_sq hL.le] at h2
  linarith

/-- inner product of the ellipsoid gradient at `pos + d v` with the direction back to `pos` -/
theorem horizon_id (a b : ℝ) (pos v : V3 ℝ) (d : ℝ) :
    V3.dot (Wgs84.gradNormal a b ⟨pos.x + d * v.x, pos.y + d * v.y, pos.z + d * v.z⟩)
      (V3.sub pos ⟨pos.x + d * v.x, pos.y + d * v.y, pos.z + d * v.z⟩) = d * (Lr a b pos v - d * Qr a b v) := by
  simp only [V3.dot, V3.sub, Wgs84.gradNormal, Lr, Qr, r_add, r_sub, r_mul, r_div]
  ring

end PV.C07L
