/-
  PV.Lemmas.C03Culm — `np.argmax`, the slice `elev[int_start:int_end]`, and the culmination bracket
  of `get_next_passes`, read over ℝ.
-/
import PV.Lemmas.C03Real
namespace PV.C03L
open PV PV.Passes

/-- `Passes.ofInt` read over ℝ is the integer cast -/
theorem r_ofIntP (i : Int) : (Passes.ofInt i : ℝ) = (i : ℝ) := by
  unfold Passes.ofInt
  split
  · rename_i h
    rw [r_ofNat']
    have h2 : ((i.toNat : Int) : ℝ) = (i : ℝ) := by rw [Int.toNat_of_nonneg h]
    exact_mod_cast h2
  · rename_i h
    rw [r_neg, r_ofNat']
    have h2 : (((-i).toNat : Int) : ℝ) = ((-i : Int) : ℝ) := by rw [Int.toNat_of_nonneg (by omega)]
    have h3 : (((-i).toNat : ℕ) : ℝ) = -(i : ℝ) := by
      have : (((-i).toNat : ℕ) : ℝ) = (((-i).toNat : Int) : ℝ) := by norm_cast
      rw [this, h2]; push_cast; ring
    rw [h3]; ring

theorem r_max (a b : ℝ) : Num.max a b = max a b := by
  unfold Num.max; rw [r_lt]
  by_cases h : a < b
  · simp [h, max_eq_right h.le]
  · simp [h, max_eq_left (not_lt.mp h)]

theorem r_min (a b : ℝ) : Num.min a b = min a b := by
  unfold Num.min; rw [r_lt]
  by_cases h : b < a
  · simp [h, min_eq_right h.le]
  · simp [h, min_eq_left (not_lt.mp h)]

/-! ### np.argmax -/

theorem argmaxGo_spec (t : ℕ → ℝ) : ∀ (ys : List ℝ) (best : ℝ) (bi i : ℕ),
    (∀ j (h : j < ys.length), ys[j] = t (i + j)) → bi < i → t bi = best →
    (∀ j, j < i → t j ≤ best) → (∀ j, j < bi → t j < best) →
      argmaxGo ys best bi i < i + ys.length ∧
      (∀ j, j < i + ys.length → t j ≤ t (argmaxGo ys best bi i)) ∧
      (∀ j, j < argmaxGo ys best bi i → t j < t (argmaxGo ys best bi i)) := by
  intro ys
  induction ys with
  | nil =>
    intro best bi i _ hbi hbest hle hlt
    simp only [argmaxGo, List.length_nil, Nat.add_zero]
    exact ⟨hbi, fun j hj => by rw [hbest]; exact hle j hj, fun j hj => by rw [hbest]; exact hlt j hj⟩
  | cons y ys ih =>
    intro best bi i hv hbi hbest hle hlt
    have hy : y = t i := by have := hv 0 (by simp); simpa using this
    have hv' : ∀ j (h : j < ys.length), ys[j] = t (i + 1 + j) := by
      intro j h
      have := hv (j + 1) (by simp; omega)
      simp only [List.getElem_cons_succ] at this
      rw [this]; congr 1; omega
    unfold argmaxGo
    rw [r_lt]
    by_cases hc : best < y
    · simp only [hc, decide_true, if_true]
      have := ih y i (i + 1) hv' (by omega) hy.symm
        (fun j hj => by
          rcases Nat.lt_succ_iff_lt_or_eq.mp hj with h | h
          · exact (lt_of_le_of_lt (hle j h) hc).le
          · rw [h, hy])
        (fun j hj => lt_of_le_of_lt (hle j hj) hc)
      simp only [List.length_cons]
      rw [show i + (ys.length + 1) = i + 1 + ys.length by omega]
      exact this
    · simp only [hc, decide_false, Bool.false_eq_true, if_false]
      have := ih best bi (i + 1) hv' (by omega) hbest
        (fun j hj => by
          rcases Nat.lt_succ_iff_lt_or_eq.mp hj with h | h
          · exact hle j h
          · rw [h, ← hy]; exact not_lt.mp hc)
        hlt
      simp only [List.length_cons]
      rw [show i + (ys.length + 1) = i + 1 + ys.length by omega]
      exact this

/-- `np.argmax` of a non-empty list: in range, a maximum, and the first one -/
theorem argmax_spec (t : ℕ → ℝ) (l : List ℝ) (hne : l ≠ []) (hv : ∀ j (h : j < l.length), l[j] = t j) :
    argmax l < l.length ∧ (∀ j, j < l.length → t j ≤ t (argmax l)) ∧
      (∀ j, j < argmax l → t j < t (argmax l)) := by
  cases l with
  | nil => exact absurd rfl hne
  | cons x xs =>
    unfold argmax
    have hx : x = t 0 := by have := hv 0 (by simp); simpa using this
    have hv' : ∀ j (h : j < xs.length), xs[j] = t (1 + j) := by
      intro j h
      have := hv (j + 1) (by simp; omega)
      simp only [List.getElem_cons_succ] at this
      rw [this]; congr 1; omega
    have := argmaxGo_spec t xs x 0 1 hv' (by omega) hx.symm
      (fun j hj => by have : j = 0 := by omega
                      rw [this, hx])
      (fun j hj => by omega)
    simp only [List.length_cons]
    rw [show xs.length + 1 = 1 + xs.length by omega]
    exact this

/-! ### the slice `elev[int_start:int_end]` -/

theorem slice_length (e : List ℝ) (s t : ℕ) (ht : t ≤ e.length) : (slice e s t).length = t - s := by
  unfold slice; rw [List.length_drop, List.length_take]; omega

theorem slice_view {e : List ℝ} {sv : ℕ → ℝ} (hs : View e sv) (s t : ℕ) (ht : t ≤ e.length)
    (j : ℕ) (h : j < (slice e s t).length) : (slice e s t)[j] = sv (s + j) := by
  have hl := slice_length e s t ht
  have hj : s + j < e.length := by rw [hl] at h; omega
  have hjt : s + j < t := by rw [hl] at h; omega
  have h1 : (slice e s t)[j]? = some (sv (s + j)) := by
    unfold slice
    rw [List.getElem?_drop, List.getElem?_take_of_lt hjt, List.getElem?_eq_getElem hj, hs _ hj]
  exact (List.getElem_eq_iff h).mpr h1

/-- `middle = int_start + np.argmax(elev[int_start:int_end])` for a non-empty slice -/
theorem middle_spec {e : List ℝ} {sv : ℕ → ℝ} (hs : View e sv) (s t : ℕ) (hst : s < t) (ht : t ≤ e.length) :
    s ≤ s + argmax (slice e s t) ∧ s + argmax (slice e s t) < t ∧
    (∀ j, s ≤ j → j < t → sv j ≤ sv (s + argmax (slice e s t))) ∧
    (∀ j, s ≤ j → j < s + argmax (slice e s t) → sv j < sv (s + argmax (slice e s t))) := by
  have hl := slice_length e s t ht
  have hne : slice e s t ≠ [] := by
    intro h; rw [h] at hl; simp at hl; omega
  obtain ⟨h1, h2, h3⟩ := argmax_spec (fun j => sv (s + j)) (slice e s t) hne (slice_view hs s t ht)
  refine ⟨by omega, by omega, ?_, ?_⟩
  · intro j hj1 hj2
    have := h2 (j - s) (by omega)
    rwa [show s + (j - s) = j by omega] at this
  · intro j hj1 hj2
    have := h3 (j - s) (by omega)
    rwa [show s + (j - s) = j by omega] at this

/-! ### int_start, int_end -/

theorem intStart_bounds {r : ℝ} {g : ℕ} (h1 : (g : ℝ) ≤ r) (h2 : r ≤ g + 1) :
    g ≤ intStart r ∧ intStart r ≤ g + 1 ∧ ((intStart r : ℕ) : ℝ) ≤ r ∧ r < (intStart r : ℕ) + 1 ∧
      (r < g + 1 → intStart r = g) := by
  unfold intStart
  rw [r_floorI]
  have hf0 : (g : ℤ) ≤ ⌊r⌋ := Int.le_floor.mpr (by exact_mod_cast h1)
  have hf1 : ⌊r⌋ ≤ (g : ℤ) + 1 := by
    have : (⌊r⌋ : ℝ) ≤ ((g : ℤ) + 1 : ℤ) := by push_cast; linarith [Int.floor_le r]
    exact_mod_cast this
  have hnn : 0 ≤ ⌊r⌋ := by omega
  have hcast : ((⌊r⌋.toNat : ℕ) : ℝ) = (⌊r⌋ : ℝ) := by
    have : ((⌊r⌋.toNat : ℕ) : ℤ) = ⌊r⌋ := Int.toNat_of_nonneg hnn
    exact_mod_cast congrArg (fun z : ℤ => (z : ℝ)) this
  refine ⟨by omega, by omega, ?_, ?_, ?_⟩
  · rw [hcast]; exact Int.floor_le r
  · rw [hcast]; exact Int.lt_floor_add_one r
  · intro h3
    have : ⌊r⌋ < (g : ℤ) + 1 := Int.floor_lt.mpr (by push_cast; exact h3)
    omega

theorem intEnd_bounds {e : List ℝ} {h : ℝ} {g : ℕ} (hN : g + 1 < e.length) (h1 : (g : ℝ) ≤ h) (h2 : h ≤ g + 1) :
    g + 1 ≤ intEnd e h ∧ intEnd e h ≤ g + 2 ∧ intEnd e h ≤ e.length ∧ h + 1 ≤ ((intEnd e h : ℕ) : ℝ) ∧
      ((intEnd e h : ℕ) : ℝ) < h + 2 ∧ ((g : ℝ) < h → intEnd e h = g + 2) := by
  unfold intEnd
  rw [r_ceilI]
  have hc0 : (g : ℤ) ≤ ⌈h⌉ := by
    have : ((g : ℤ) : ℝ) ≤ (⌈h⌉ : ℝ) := by push_cast; linarith [Int.le_ceil h]
    exact_mod_cast this
  have hc1 : ⌈h⌉ ≤ (g : ℤ) + 1 := Int.ceil_le.mpr (by push_cast; exact h2)
  have hmin : min e.length (⌈h⌉ + 1).toNat = (⌈h⌉ + 1).toNat := by
    apply Nat.min_eq_right; omega
  rw [hmin]
  have hcast : (((⌈h⌉ + 1).toNat : ℕ) : ℝ) = (⌈h⌉ : ℝ) + 1 := by
    have : (((⌈h⌉ + 1).toNat : ℕ) : ℤ) = ⌈h⌉ + 1 := Int.toNat_of_nonneg (by omega)
    have := congrArg (fun z : ℤ => (z : ℝ)) this
    simp only [Int.cast_natCast, Int.cast_add, Int.cast_one] at this
    exact this
  refine ⟨by omega, by omega, by omega, ?_, ?_, ?_⟩
  · rw [hcast]; linarith [Int.le_ceil h]
  · rw [hcast]; linarith [Int.ceil_lt_add_one h]
  · intro h3
    have : (g : ℤ) < ⌈h⌉ := Int.lt_ceil.mpr (by push_cast; exact h3)
    omega

/-! ### the body of the `else` branch -/

theorem mkPass_fields (e : List ℝ) (maxim : ℝ → ℝ → ℝ) (r h : ℝ) :
    (mkPass e maxim r h).rise = r ∧ (mkPass e maxim r h).fall = h ∧
    (mkPass e maxim r h).middle = intStart r + argmax (slice e (intStart r) (intEnd e h)) ∧
    (mkPass e maxim r h).lo = max r (((mkPass e maxim r h).middle : ℝ) - 1) ∧
    (mkPass e maxim r h).hi = min h (((mkPass e maxim r h).middle : ℝ) + 1) ∧
    (mkPass e maxim r h).culm = maxim (mkPass e maxim r h).lo (mkPass e maxim r h).hi := by
  refine ⟨rfl, rfl, rfl, ?_, ?_, rfl⟩
  · show Num.max r (Passes.ofInt _) = _
    rw [r_max, r_ofIntP]; simp only [Int.cast_sub, Int.cast_one, Int.cast_natCast]; rfl
  · show Num.min h (Passes.ofInt _) = _
    rw [r_min, r_ofIntP]; simp only [Int.cast_add, Int.cast_one, Int.cast_natCast]; rfl

/-- Facts about one emitted pass that need only the bracket part of the root contract
    (`g1 ≤ rise ≤ g1+1`, `g2 ≤ fall ≤ g2+1`, `g1 < g2`, `g2+1 < len`). -/
theorem mkPass_general {e : List ℝ} {sv : ℕ → ℝ} (hs : View e sv) (maxim : ℝ → ℝ → ℝ) {r h : ℝ} {g1 g2 : ℕ}
    (h12 : g1 < g2) (hN : g2 + 1 < e.length)
    (hr1 : (g1 : ℝ) ≤ r) (hr2 : r ≤ g1 + 1) (hh1 : (g2 : ℝ) ≤ h) (hh2 : h ≤ g2 + 1)
    (p : Pass ℝ) (hp : p = mkPass e maxim r h) :
    intStart r < intEnd e h ∧ intEnd e h ≤ e.length ∧
    intStart r ≤ p.middle ∧ p.middle < intEnd e h ∧
    (∀ j, intStart r ≤ j → j < intEnd e h → sv j ≤ sv p.middle) ∧
    (∀ j, intStart r ≤ j → j < p.middle → sv j < sv p.middle) ∧
    r ≤ h ∧ r ≤ p.lo ∧ p.hi ≤ h ∧ p.lo ≤ p.hi ∧ (r < h → p.lo < p.hi) ∧
    (p.middle : ℝ) - 1 ≤ p.lo ∧ p.hi ≤ (p.middle : ℝ) + 1 := by
  subst hp
  obtain ⟨_, _, hm, hlo, hhi, _⟩ := mkPass_fields e maxim r h
  obtain ⟨hs1, hs2, hs3, hs4, _⟩ := intStart_bounds hr1 hr2
  obtain ⟨ht1, ht2, ht3, ht4, ht5, _⟩ := intEnd_bounds hN hh1 hh2
  have hst : intStart r < intEnd e h := by omega
  obtain ⟨hm1, hm2, hm3, hm4⟩ := middle_spec hs (intStart r) (intEnd e h) hst ht3
  have hrh : r ≤ h := by
    have : (g1 : ℝ) + 1 ≤ g2 := by exact_mod_cast h12
    linarith
  have hmid1 : r < ((mkPass e maxim r h).middle : ℝ) + 1 := by
    have : ((intStart r : ℕ) : ℝ) ≤ ((mkPass e maxim r h).middle : ℝ) := by
      show _ ≤ (((mkPass e maxim r h).middle : ℕ) : ℝ)
      rw [hm]; exact_mod_cast hm1
    linarith
  have hmid2 : ((mkPass e maxim r h).middle : ℝ) - 1 < h := by
    have : ((mkPass e maxim r h).middle : ℝ) + 1 ≤ ((intEnd e h : ℕ) : ℝ) := by
      show (((mkPass e maxim r h).middle : ℕ) : ℝ) + 1 ≤ _
      rw [hm]; exact_mod_cast hm2
    linarith
  refine ⟨hst, ht3, ?_, ?_, ?_, ?_, hrh, ?_, ?_, ?_, ?_, ?_, ?_⟩
  · show _ ≤ (mkPass e maxim r h).middle; rw [hm]; exact hm1
  · show (mkPass e maxim r h).middle < _; rw [hm]; exact hm2
  · intro j hj1 hj2; show _ ≤ sv (mkPass e maxim r h).middle; rw [hm]; exact hm3 j hj1 hj2
  · intro j hj1 hj2; show _ < sv (mkPass e maxim r h).middle
    rw [hm]; exact hm4 j hj1 (by rw [hm] at hj2; exact hj2)
  · show r ≤ (mkPass e maxim r h).lo; rw [hlo]; exact le_max_left _ _
  · show (mkPass e maxim r h).hi ≤ h; rw [hhi]; exact min_le_left _ _
  · show (mkPass e maxim r h).lo ≤ (mkPass e maxim r h).hi
    rw [hlo, hhi]
    apply max_le <;> apply le_min <;> linarith
  · intro hlt
    show (mkPass e maxim r h).lo < (mkPass e maxim r h).hi
    rw [hlo, hhi]
    apply max_lt <;> apply lt_min <;> linarith
  · show _ ≤ (mkPass e maxim r h).lo; rw [hlo]; exact le_max_right _ _
  · show (mkPass e maxim r h).hi ≤ _; rw [hhi]; exact min_le_right _ _

/-- Facts about one emitted pass when the samples of the pass are a maximal positive run and the
    roots are strictly inside their minute brackets (no sample exactly on the horizon). -/
theorem mkPass_run {e : List ℝ} {sv : ℕ → ℝ} (hs : View e sv) (maxim : ℝ → ℝ → ℝ) {r h : ℝ} {g1 g2 : ℕ}
    (h12 : g1 < g2) (hN : g2 + 1 < e.length)
    (hr1 : (g1 : ℝ) < r) (hr2 : r < g1 + 1) (hh1 : (g2 : ℝ) < h) (hh2 : h < g2 + 1)
    (hneg1 : sv g1 < 0) (hpos : ∀ k, g1 < k → k ≤ g2 → 0 < sv k) (hneg2 : sv (g2 + 1) < 0)
    (p : Pass ℝ) (hp : p = mkPass e maxim r h) :
    intStart r = g1 ∧ intEnd e h = g2 + 2 ∧ g1 < p.middle ∧ p.middle ≤ g2 ∧ 0 < sv p.middle ∧
    (∀ j, g1 ≤ j → j ≤ g2 + 1 → sv j ≤ sv p.middle) ∧
    (∀ j, g1 ≤ j → j < p.middle → sv j < sv p.middle) ∧
    r < p.middle ∧ (p.middle : ℝ) < h ∧ p.lo < p.middle ∧ (p.middle : ℝ) < p.hi := by
  subst hp
  obtain ⟨_, _, _, hlo, hhi, _⟩ := mkPass_fields e maxim r h
  obtain ⟨_, _, _, _, hs5⟩ := intStart_bounds hr1.le hr2.le
  obtain ⟨_, _, _, _, _, ht6⟩ := intEnd_bounds hN hh1.le hh2.le
  have hS := hs5 hr2
  have hE := ht6 hh1
  obtain ⟨_, _, hg3, hg4, hg5, hg6, _⟩ := mkPass_general hs maxim h12 hN hr1.le hr2.le hh1.le hh2.le _ rfl
  rw [hS] at hg3 hg5 hg6
  rw [hE] at hg4 hg5
  have hp1 : 0 < sv (g1 + 1) := hpos (g1 + 1) (by omega) (by omega)
  have hmpos : 0 < sv (mkPass e maxim r h).middle := lt_of_lt_of_le hp1 (hg5 (g1 + 1) (by omega) (by omega))
  have hm1 : g1 < (mkPass e maxim r h).middle := by
    rcases Nat.lt_or_ge g1 (mkPass e maxim r h).middle with h' | h'
    · exact h'
    · have : (mkPass e maxim r h).middle = g1 := by omega
      rw [this] at hmpos; linarith
  have hm2 : (mkPass e maxim r h).middle ≤ g2 := by
    rcases Nat.lt_or_ge g2 (mkPass e maxim r h).middle with h' | h'
    · have : (mkPass e maxim r h).middle = g2 + 1 := by omega
      rw [this] at hmpos; linarith
    · exact h'
  have hc1 : (g1 : ℝ) + 1 ≤ ((mkPass e maxim r h).middle : ℝ) := by exact_mod_cast hm1
  have hc2 : ((mkPass e maxim r h).middle : ℝ) ≤ (g2 : ℝ) := by exact_mod_cast hm2
  refine ⟨hS, hE, hm1, hm2, hmpos, fun j a b => hg5 j a (by omega), hg6, by linarith, by linarith, ?_, ?_⟩
  · show (mkPass e maxim r h).lo < _
    rw [hlo]; apply max_lt
    · show r < ((mkPass e maxim r h).middle : ℝ); linarith
    · linarith
  · show _ < (mkPass e maxim r h).hi
    rw [hhi]; apply lt_min
    · show ((mkPass e maxim r h).middle : ℝ) < h; linarith
    · linarith

/-- When the elevation rises strictly up to `tstar` and falls strictly after it (one hump between rise
    and fall), the true culmination `tstar` lies in the bracket handed to the maximiser. -/
theorem peak_in_bracket {e : List ℝ} {f : ℝ → ℝ} (hs : View e (fun i => f (i : ℝ))) (maxim : ℝ → ℝ → ℝ)
    {r h : ℝ} {g1 g2 : ℕ}
    (h12 : g1 < g2) (hN : g2 + 1 < e.length)
    (hr1 : (g1 : ℝ) < r) (hr2 : r < g1 + 1) (hh1 : (g2 : ℝ) < h) (hh2 : h < g2 + 1)
    (hneg1 : f (g1 : ℕ) < 0) (hpos : ∀ k : ℕ, g1 < k → k ≤ g2 → 0 < f (k : ℝ)) (hneg2 : f ((g2 + 1 : ℕ) : ℝ) < 0)
    (tstar : ℝ) (ht1 : r ≤ tstar) (ht2 : tstar ≤ h)
    (hup : StrictMonoOn f (Set.Icc r tstar)) (hdown : StrictAntiOn f (Set.Icc tstar h))
    (p : Pass ℝ) (hp : p = mkPass e maxim r h) :
    p.lo ≤ tstar ∧ tstar ≤ p.hi := by
  obtain ⟨_, _, hm1, hm2, _, hmax, hfirst, hrm, hmh, _, _⟩ :=
    mkPass_run hs maxim h12 hN hr1 hr2 hh1 hh2 hneg1 hpos hneg2 p hp
  obtain ⟨_, _, _, hlo, hhi, _⟩ := mkPass_fields e maxim r h
  subst hp
  constructor
  · rw [hlo]
    apply max_le ht1
    by_contra hc
    have hc : tstar < ((mkPass e maxim r h).middle : ℝ) - 1 := not_le.mp hc
    obtain ⟨j, hj⟩ : ∃ j, (mkPass e maxim r h).middle = j + 1 := ⟨(mkPass e maxim r h).middle - 1, by omega⟩
    have hjc : ((mkPass e maxim r h).middle : ℝ) = (j : ℝ) + 1 := by rw [hj]; push_cast; ring
    have hjg : g1 < j := by
      have : (g1 : ℝ) < (j : ℝ) := by linarith
      exact_mod_cast this
    have h1 := hfirst j hjg.le (by omega)
    have h2 : f ((mkPass e maxim r h).middle : ℝ) < f (j : ℝ) := by
      apply hdown
      · exact ⟨by linarith, by linarith⟩
      · exact ⟨by linarith, hmh.le⟩
      · linarith
    linarith
  · rw [hhi]
    apply le_min ht2
    by_contra hc
    have hc : ((mkPass e maxim r h).middle : ℝ) + 1 < tstar := not_le.mp hc
    have h1 := hmax ((mkPass e maxim r h).middle + 1) (by omega) (by omega)
    have h2 : f ((mkPass e maxim r h).middle : ℝ) < f (((mkPass e maxim r h).middle + 1 : ℕ) : ℝ) := by
      apply hup
      · exact ⟨hrm.le, by linarith⟩
      · push_cast; exact ⟨by linarith, by linarith⟩
      · push_cast; linarith
    linarith

end PV.C03L
