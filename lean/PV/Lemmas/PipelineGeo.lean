/-
  PV.Lemmas.PipelineGeo — helper facts about `get_position` for the end-to-end composition:
  the returned position has length `radius`, the two normalisations answer/refuse alike.
-/
import PV.Lemmas.PipelineGlue
import PV.Spec.Topo
import Mathlib.Tactic.LinearCombination
namespace PV.PipelineL
open PV PV.Pipeline PV.Sgp4 PV.Spec.Topo Real

/-- `kep2xyz` puts the position on the sphere of radius `radius`: the orientation vector U is a unit vector -/
theorem kep2xyz_normSq (k : Kep ℝ) : normSq (kep2xyz k).1 = k.radius ^ 2 := by
  simp only [kep2xyz, normSq, r_mul, r_add, r_sub, r_neg, r_sin, r_cos]
  have hT := sin_sq_add_cos_sq k.theta
  have hI := sin_sq_add_cos_sq k.eqinc
  have hS := sin_sq_add_cos_sq k.ascn
  linear_combination (k.radius ^ 2 * (cos k.eqinc ^ 2 * sin k.theta ^ 2 + cos k.theta ^ 2)) * hS
    + (k.radius ^ 2 * sin k.theta ^ 2) * hI + (k.radius ^ 2) * hT

/-- `get_position(normalize=False)` is `kep2xyz` of the propagated Keplerians -/
theorem getPosition_false (p : Params ℝ) (ts : ℝ) :
    getPosition p ts false = (propagate p ts).map kep2xyz := by
  unfold getPosition
  cases propagate p ts <;> rfl

/-- whether and how `get_position` refuses does not depend on `normalize`: it is `propagate`'s refusal -/
theorem getPosition_error_iff (p : Params ℝ) (ts : ℝ) (nz : Bool) (pe : PropErr) :
    getPosition p ts nz = .error pe ↔ propagate p ts = .error pe := by
  unfold getPosition
  cases propagate p ts with
  | error e => simp only [Except.error.injEq]
  | ok k => cases nz <;> simp only [reduceCtorEq, Bool.false_eq_true, if_false, if_true]

/-- an answer of `get_position(normalize=False)` names the Keplerians it came from -/
theorem getPosition_false_ok {p : Params ℝ} {ts : ℝ} {pv : V3 ℝ × V3 ℝ} (h : getPosition p ts false = .ok pv) :
    ∃ k, propagate p ts = .ok k ∧ pv = kep2xyz k := by
  rw [getPosition_false] at h
  cases hk : propagate p ts with
  | error e => rw [hk] at h; exact absurd h (by simp [Except.map])
  | ok k => rw [hk] at h; exact ⟨k, rfl, (Except.ok.inj h).symm⟩

end PV.PipelineL
