/-
  PV.Lemmas.C12Time — rational / real readings of the tick arithmetic of `jdays2000` for C12.
-/
import PV.NumReal
import PV.Lemmas.C12Cal
namespace PV.C12L
open PV.Time

/-- `ofInt` read over ℝ is the integer cast -/
theorem r_ofInt (i : Int) : (ofInt i : ℝ) = (i : ℝ) := by
  unfold ofInt
  split
  · rename_i h
    rw [r_ofNat']
    have h2 : ((i.toNat : Int) : ℝ) = (i : ℝ) := by rw [Int.toNat_of_nonneg h]
    exact_mod_cast h2
  · rename_i h
    rw [r_neg, r_ofNat']
    have h2 : (((-i).toNat : Int) : ℝ) = ((-i : Int) : ℝ) := by rw [Int.toNat_of_nonneg (by omega)]
    have h3 : (((-i).toNat : ℕ) : ℝ) = -(i : ℝ) := by
      have : (((-i).toNat : ℕ) : ℝ) = (((-i).toNat : Int) : ℝ) := by norm_cast
      rw [this, h2]; push_cast; ring
    rw [h3]; ring

/-- the reference instant is a whole number of ticks in every unit, and a day is too -/
theorem ticks_exact (u : Time.Unit) :
    (j2000us * 1000 / nsPerTick u) * nsPerTick u = j2000us * 1000 ∧
    (86400000000000 / nsPerTick u) * nsPerTick u = 86400000000000 := by
  cases u <;> simp [j2000us, nsPerTick]

theorem nsPerTick_pos (u : Time.Unit) : 0 < nsPerTick u := by cases u <;> simp [nsPerTick]

/-- canonical value of the numerator/denominator pair: (instant in ns − J2000 in ns) / (ns per day) -/
theorem jd2000Ticks_value (u : Time.Unit) (t : Int) :
    ((jd2000Ticks u t).1 : ℚ) / ((jd2000Ticks u t).2 : ℚ) =
      ((t * nsPerTick u - j2000us * 1000 : Int) : ℚ) / 86400000000000 := by
  cases u <;> simp only [jd2000Ticks, nsPerTick, j2000us] <;> norm_num <;>
    first | rfl | (field_simp; ring)

/-- the same over ℝ for the model's `jdays2000` -/
theorem jdays2000_value (u : Time.Unit) (t : Int) :
    (jdays2000 u t : ℝ) = ((t * nsPerTick u - j2000us * 1000 : Int) : ℝ) / 86400000000000 := by
  unfold jdays2000
  simp only [r_div, r_ofInt]
  cases u <;> simp only [jd2000Ticks, nsPerTick, j2000us] <;> norm_num <;>
    first | rfl | (field_simp; ring)

end PV.C12L
