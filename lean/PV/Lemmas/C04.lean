/-
  Helper lemmas for C04: longitude wrap, latitude range, exit condition of the latitude loop,
  `observer_position` against the WGS-84 geodetic→cartesian formulas, fixed-point round trip.
-/
import PV.Lemmas.C05

namespace PV.C04
open PV PV.Look PV.Spec.Topo PV.C05 Real

/-! ### longitude wrap -/

theorem wrapLon_eq (x : ℝ) :
    wrapLon x =
      if (if π < mod2pi x then mod2pi x - π * 2 else mod2pi x) ≤ -π
      then (if π < mod2pi x then mod2pi x - π * 2 else mod2pi x) + π * 2
      else (if π < mod2pi x then mod2pi x - π * 2 else mod2pi x) := by
  simp only [wrapLon, r_gt, r_le, r_neg, r_pi, r_sub, r_add, r_mul, r_ofNat, decide_eq_true_eq]
  simp only [Nat.cast_ofNat, pymod_two_pi]

/-- the value after the first `np.where`; the second `np.where` never fires over ℝ -/
theorem wrapLon_eq' (x : ℝ) :
    wrapLon x = if π < mod2pi x then mod2pi x - 2 * π else mod2pi x := by
  rw [wrapLon_eq]
  have h0 := mod2pi_nonneg x
  have hp := pi_pos
  split_ifs with h1 h2 <;> first | rfl | ring1 | (exfalso; linarith)

theorem wrapLon_gt (x : ℝ) : -π < wrapLon x := by
  rw [wrapLon_eq']
  have h0 := mod2pi_nonneg x
  have hp := pi_pos
  split_ifs with h1 <;> linarith

theorem wrapLon_le (x : ℝ) : wrapLon x ≤ π := by
  rw [wrapLon_eq']
  have h1 := mod2pi_lt x
  split_ifs with h <;> linarith

theorem cos_wrapLon (x : ℝ) : cos (wrapLon x) = cos x := by
  rw [wrapLon_eq']
  split_ifs with h
  · rw [cos_sub_two_pi, cos_mod2pi]
  · rw [cos_mod2pi]

theorem sin_wrapLon (x : ℝ) : sin (wrapLon x) = sin x := by
  rw [wrapLon_eq']
  split_ifs with h
  · rw [sin_sub_two_pi, sin_mod2pi]
  · rw [sin_mod2pi]

/-! ### latitude range -/

theorem arg_range_of_re_nonneg {r : ℝ} (hr : 0 ≤ r) (z : ℝ) :
    -(π / 2) ≤ Complex.arg ⟨r, z⟩ ∧ Complex.arg ⟨r, z⟩ ≤ π / 2 := by
  have : |Complex.arg ⟨r, z⟩| ≤ π / 2 := Complex.abs_arg_le_pi_div_two_iff.2 hr
  exact abs_le.1 this

theorem arg_range_of_re_pos {r : ℝ} (hr : 0 < r) (z : ℝ) :
    -(π / 2) < Complex.arg ⟨r, z⟩ ∧ Complex.arg ⟨r, z⟩ < π / 2 := by
  have : |Complex.arg ⟨r, z⟩| < π / 2 := Complex.abs_arg_lt_pi_div_two_iff.2 (Or.inl hr)
  exact abs_lt.1 this

theorem e2_eq : (e2 : ℝ) = ecc2 wgs84F := by
  simp only [e2, F, Gen.orbital_F, ecc2, wgs84F, r_mul, r_sub, r_div, r_ofSci, r_ofNat]
  simp only [Nat.cast_ofNat, Nat.cast_one]

theorem latStep_fst (z r lat : ℝ) :
    (latStep z r lat).1 =
      Complex.arg ⟨r, z + (latStep z r lat).2 * ecc2 wgs84F * sin lat⟩ := by
  simp only [latStep, r_atan2, r_add, r_mul, r_sin, e2_eq]

theorem latStep_snd (z r lat : ℝ) :
    (latStep z r lat).2 = 1 / √(1 - ecc2 wgs84F * sin lat ^ 2) := by
  simp only [latStep, r_sqrt, r_sub, r_div, r_mul, r_sin, r_sq, e2_eq, r_ofNat]
  simp only [Nat.cast_one]

/-- every successful exit of the loop returns the output of a body pass whose input was within
    `1e-10` of the output -/
theorem latLoop_some (z r : ℝ) : ∀ (fuel : ℕ) (lat0 lat c : ℝ) (n : ℕ),
    latLoop z r fuel lat0 = some (lat, c, n) →
      ∃ lat2 : ℝ, latStep z r lat2 = (lat, c) ∧ |lat - lat2| < 1e-10 := by
  intro fuel
  induction fuel with
  | zero => intro lat0 lat c n h; simp [latLoop] at h
  | succ k ih =>
    intro lat0 lat c n h
    rw [latLoop] at h
    by_cases hc : Num.lt (Num.abs ((latStep z r lat0).1 - lat0)) (1e-10 : ℝ) = true
    · simp only [hc, if_true, Option.some.injEq, Prod.mk.injEq] at h
      refine ⟨lat0, Prod.ext h.1 h.2.1, ?_⟩
      rw [← h.1]
      simpa only [r_lt, r_abs, r_sub, r_ofSci, decide_eq_true_eq] using hc
    · simp only [hc] at h
      cases hrec : latLoop z r k (latStep z r lat0).1 with
      | none => simp [hrec] at h
      | some res =>
        obtain ⟨l, c', m⟩ := res
        simp only [hrec, Bool.false_eq_true, if_false, Option.some.injEq, Prod.mk.injEq] at h
        obtain ⟨rfl, rfl, _⟩ := h
        exact ih _ _ _ _ hrec

/-! ### observer position -/

theorem observer_core (A F h φ θ : ℝ) :
    (⟨(A * (1 / √(1 + F * (F - 2) * sin φ ^ 2)) + h) * cos φ * cos θ,
      (A * (1 / √(1 + F * (F - 2) * sin φ ^ 2)) + h) * cos φ * sin θ,
      (A * (1 / √(1 + F * (F - 2) * sin φ ^ 2) * (1 - F) ^ 2) + h) * sin φ⟩ : V3 ℝ) =
    geodeticToCartesian A F φ θ h := by
  have hD : 1 + F * (F - 2) * sin φ ^ 2 = 1 - ecc2 F * sin φ ^ 2 := by unfold ecc2; ring
  rw [hD]
  simp only [geodeticToCartesian, primeVertical]
  congr 1
  · ring
  · ring
  · unfold ecc2; ring

/-- the quantity under the square root is positive for the WGS-84 flattening: the `1/√·` of the code
    is a genuine division -/
theorem ecc2_lt_one : ecc2 wgs84F < 1 ∧ 0 < ecc2 wgs84F := by
  unfold ecc2 wgs84F; constructor <;> norm_num

theorem denominator_pos (φ : ℝ) : 0 < 1 - ecc2 wgs84F * sin φ ^ 2 := by
  have h1 := ecc2_lt_one
  have h2 : sin φ ^ 2 ≤ 1 := sin_sq_le_one φ
  have h3 : 0 ≤ sin φ ^ 2 := sq_nonneg _
  nlinarith

/-! ### sanity of the spec: the formulas describe the ellipsoid and its normal -/

/-- height is measured along `up`: the point at height `h` is the surface point plus `h · up` -/
theorem geodetic_height_along_up (a f φ θ h : ℝ) :
    geodeticToCartesian a f φ θ h =
      ⟨(geodeticToCartesian a f φ θ 0).x + h * (up φ θ).x,
       (geodeticToCartesian a f φ θ 0).y + h * (up φ θ).y,
       (geodeticToCartesian a f φ θ 0).z + h * (up φ θ).z⟩ := by
  simp only [geodeticToCartesian, up]
  congr 1 <;> ring

/-- the surface point (h = 0) lies on the ellipsoid `x²/a² + y²/a² + z²/b² = 1`, `b = a(1−f)`, and the
    gradient of that quadratic form there is a positive multiple of `up` (so `up` is the ellipsoid normal) -/
theorem geodetic_on_ellipsoid (a f φ θ : ℝ) (ha : 0 < a) (hf : f < 1)
    (hD : 0 < 1 - ecc2 f * sin φ ^ 2) :
    (geodeticToCartesian a f φ θ 0).x ^ 2 / a ^ 2 + (geodeticToCartesian a f φ θ 0).y ^ 2 / a ^ 2
        + (geodeticToCartesian a f φ θ 0).z ^ 2 / (a * (1 - f)) ^ 2 = 1 ∧
    (geodeticToCartesian a f φ θ 0).x / a ^ 2 = primeVertical a f φ / a ^ 2 * (up φ θ).x ∧
    (geodeticToCartesian a f φ θ 0).y / a ^ 2 = primeVertical a f φ / a ^ 2 * (up φ θ).y ∧
    (geodeticToCartesian a f φ θ 0).z / (a * (1 - f)) ^ 2 = primeVertical a f φ / a ^ 2 * (up φ θ).z ∧
    0 < primeVertical a f φ / a ^ 2 := by
  have hs : 0 < √(1 - ecc2 f * sin φ ^ 2) := Real.sqrt_pos.2 hD
  have hs2 : √(1 - ecc2 f * sin φ ^ 2) ^ 2 = 1 - ecc2 f * sin φ ^ 2 := Real.sq_sqrt hD.le
  have hf' : (1 - f) ≠ 0 := by linarith
  have he : 1 - ecc2 f = (1 - f) ^ 2 := by unfold ecc2; ring
  have h1 := sin_sq_add_cos_sq φ
  have h2 := sin_sq_add_cos_sq θ
  simp only [geodeticToCartesian, primeVertical, up, add_zero, he]
  set s := √(1 - ecc2 f * sin φ ^ 2)
  have hss : s ^ 2 = 1 - (1 - (1 - f) ^ 2) * sin φ ^ 2 := by rw [hs2, ← he]; ring
  refine ⟨?_, ?_, ?_, ?_, by positivity⟩
  · field_simp
    linear_combination (-1 : ℝ) * hss + (cos φ ^ 2) * h2 + (1 : ℝ) * h1
  · ring
  · ring
  · field_simp

/-! ### fixed point of the latitude body -/

/-- the model's altitude expression over ℝ -/
theorem altOf_real (z r lat : ℝ) :
    altOf z r lat = r * cos lat + z * sin lat - √(1 - ecc2 wgs84F * sin lat ^ 2) := by
  simp only [altOf, r_sub, r_add, r_mul, r_sqrt, r_sin, r_cos, r_ofNat, e2_eq]
  simp only [Nat.cast_one]
  congr 3
  ring

/-- polar form of `atan2(w, r)`: `r = ρ cos`, `w = ρ sin` with `ρ = |(r, w)| > 0` (any quadrant, polar axis included) -/
theorem arg_polar_form (r w : ℝ) (h : r ≠ 0 ∨ w ≠ 0) :
    ∃ ρ : ℝ, 0 < ρ ∧ r = ρ * cos (Complex.arg ⟨r, w⟩) ∧ w = ρ * sin (Complex.arg ⟨r, w⟩) := by
  have hne : (⟨r, w⟩ : ℂ) ≠ 0 := by
    intro h0
    have h1 := congrArg Complex.re h0
    have h2 := congrArg Complex.im h0
    simp only [Complex.zero_re, Complex.zero_im] at h1 h2
    rcases h with h | h
    · exact h h1
    · exact h h2
  have hpos : 0 < ‖(⟨r, w⟩ : ℂ)‖ := norm_pos_iff.2 hne
  refine ⟨‖(⟨r, w⟩ : ℂ)‖, hpos, ?_, ?_⟩
  · rw [Complex.cos_arg hne]; simp only; field_simp
  · rw [Complex.sin_arg]; simp only; field_simp

/-- algebra of one pass: with `r = ρ co`, `z + c₂ e s₂ = ρ s` (`s, co` = sin, cos of the new latitude),
    `q² = 1 − e s²`, `c = 1/q` and `alt = r co + z s − q`, the WGS-84 meridian formulas give back `(r, z)` up to
    `e (c s − c₂ s₂)` times `s co` resp. `−co²` — exactly `(r, z)` when `(c, s) = (c₂, s₂)` (fixed point) -/
theorem residual_algebra (e ρ s co q c2 s2 : ℝ) (h1 : s ^ 2 + co ^ 2 = 1) (hq : q ^ 2 = 1 - e * s ^ 2)
    (hq0 : q ≠ 0) :
    (1 / q + (ρ * co * co + (ρ * s - c2 * e * s2) * s - q)) * co - ρ * co
        = e * (1 / q * s - c2 * s2) * s * co ∧
    (1 / q * (1 - e) + (ρ * co * co + (ρ * s - c2 * e * s2) * s - q)) * s - (ρ * s - c2 * e * s2)
        = -(e * (1 / q * s - c2 * s2) * co ^ 2) := by
  constructor
  · field_simp
    linear_combination (co * q * ρ) * h1 + (-co) * hq
  · field_simp
    linear_combination (s * q * ρ - e * c2 * s2 * q + s * e) * h1 + (-s) * hq

/-- one pass of the body from `lat2` (new latitude `lat`, `c₂ = c(lat2)`), converted back with the
    altitude the code forms: residuals in the meridian plane.  `(r, z + c₂ e sin lat2) ≠ 0` only. -/
theorem step_residual_core (e c2 z r lat2 : ℝ)
    (hne : r ≠ 0 ∨ z + c2 * e * sin lat2 ≠ 0)
    (hW : 0 < 1 - e * sin (Complex.arg ⟨r, z + c2 * e * sin lat2⟩) ^ 2) :
    (1 / √(1 - e * sin (Complex.arg ⟨r, z + c2 * e * sin lat2⟩) ^ 2)
        + (r * cos (Complex.arg ⟨r, z + c2 * e * sin lat2⟩)
            + z * sin (Complex.arg ⟨r, z + c2 * e * sin lat2⟩)
            - √(1 - e * sin (Complex.arg ⟨r, z + c2 * e * sin lat2⟩) ^ 2)))
        * cos (Complex.arg ⟨r, z + c2 * e * sin lat2⟩) - r
      = e * (1 / √(1 - e * sin (Complex.arg ⟨r, z + c2 * e * sin lat2⟩) ^ 2)
              * sin (Complex.arg ⟨r, z + c2 * e * sin lat2⟩) - c2 * sin lat2)
          * sin (Complex.arg ⟨r, z + c2 * e * sin lat2⟩) * cos (Complex.arg ⟨r, z + c2 * e * sin lat2⟩) ∧
    (1 / √(1 - e * sin (Complex.arg ⟨r, z + c2 * e * sin lat2⟩) ^ 2) * (1 - e)
        + (r * cos (Complex.arg ⟨r, z + c2 * e * sin lat2⟩)
            + z * sin (Complex.arg ⟨r, z + c2 * e * sin lat2⟩)
            - √(1 - e * sin (Complex.arg ⟨r, z + c2 * e * sin lat2⟩) ^ 2)))
        * sin (Complex.arg ⟨r, z + c2 * e * sin lat2⟩) - z
      = -(e * (1 / √(1 - e * sin (Complex.arg ⟨r, z + c2 * e * sin lat2⟩) ^ 2)
              * sin (Complex.arg ⟨r, z + c2 * e * sin lat2⟩) - c2 * sin lat2)
          * cos (Complex.arg ⟨r, z + c2 * e * sin lat2⟩) ^ 2) := by
  obtain ⟨ρ, -, hr, hw⟩ := arg_polar_form r (z + c2 * e * sin lat2) hne
  generalize Complex.arg ⟨r, z + c2 * e * sin lat2⟩ = lat at *
  have hz : z = ρ * sin lat - c2 * e * sin lat2 := by linarith
  have hq := Real.sq_sqrt hW.le
  have hq0 : √(1 - e * sin lat ^ 2) ≠ 0 := (Real.sqrt_pos.2 hW).ne'
  obtain ⟨ha, hb⟩ := residual_algebra e ρ (sin lat) (cos lat) (√(1 - e * sin lat ^ 2)) c2 (sin lat2)
    (sin_sq_add_cos_sq lat) hq hq0
  rw [← hz, ← hr] at ha hb
  exact ⟨ha, hb⟩

/-- pure-ℝ core: if `lat = atan2(z + c e² sin lat, r)` with `c = 1/√(1 − e² sin² lat)` then the
    geodetic→cartesian formulas (meridian plane, unit semi-major axis) with the altitude
    `r cos lat + z sin lat − √(1 − e² sin² lat)` give back `(r, z)`; every `(r, z)`, polar axis included -/
theorem fixpoint_core (e z r lat : ℝ) (hW : 0 < 1 - e * sin lat ^ 2)
    (hfix : Complex.arg ⟨r, z + 1 / √(1 - e * sin lat ^ 2) * e * sin lat⟩ = lat) :
    (1 / √(1 - e * sin lat ^ 2) + (r * cos lat + z * sin lat - √(1 - e * sin lat ^ 2))) * cos lat = r ∧
    (1 / √(1 - e * sin lat ^ 2) * (1 - e) + (r * cos lat + z * sin lat - √(1 - e * sin lat ^ 2))) * sin lat
      = z := by
  set c := 1 / √(1 - e * sin lat ^ 2) with hc
  by_cases hne : r ≠ 0 ∨ z + c * e * sin lat ≠ 0
  · have hW' : 0 < 1 - e * sin (Complex.arg ⟨r, z + c * e * sin lat⟩) ^ 2 := by rw [hfix]; exact hW
    obtain ⟨ha, hb⟩ := step_residual_core e c z r lat hne hW'
    rw [hfix, ← hc] at ha hb
    constructor
    · have : e * (c * sin lat - c * sin lat) * sin lat * cos lat = 0 := by ring
      linarith
    · have : -(e * (c * sin lat - c * sin lat) * cos lat ^ 2) = 0 := by ring
      linarith
  · -- the origin: lat = atan2(0, 0) = 0
    have hne' : r = 0 ∧ z + c * e * sin lat = 0 := by
      constructor
      · by_contra h; exact hne (Or.inl h)
      · by_contra h; exact hne (Or.inr h)
    obtain ⟨hr0, hw0⟩ := hne'
    have hlat : lat = 0 := by
      rw [← hfix, hr0, hw0]
      exact Complex.arg_zero
    subst hlat
    rw [sin_zero, mul_zero, add_zero] at hw0
    have hc1 : c = 1 := by rw [hc, sin_zero]; norm_num
    rw [hr0, hw0, hc1, sin_zero, cos_zero]
    norm_num

/-- `cos`/`sin` of `atan2(y·k, x·k)` for `k > 0`, `(x, y) ≠ 0` -/
theorem cos_sin_atan2_scaled {x y k : ℝ} (hk : 0 < k) (hxy : 0 < √(x ^ 2 + y ^ 2)) :
    cos (Complex.arg ⟨x * k, y * k⟩) = x / √(x ^ 2 + y ^ 2) ∧
    sin (Complex.arg ⟨x * k, y * k⟩) = y / √(x ^ 2 + y ^ 2) := by
  have hnorm : ‖(⟨x * k, y * k⟩ : ℂ)‖ = k * √(x ^ 2 + y ^ 2) := by
    rw [Complex.norm_eq_sqrt_sq_add_sq]
    simp only
    rw [show (x * k) ^ 2 + (y * k) ^ 2 = k ^ 2 * (x ^ 2 + y ^ 2) by ring,
      Real.sqrt_mul (sq_nonneg k), Real.sqrt_sq hk.le]
  have hne : (⟨x * k, y * k⟩ : ℂ) ≠ 0 := by
    intro h0
    rw [← norm_eq_zero, hnorm] at h0
    exact (mul_pos hk hxy).ne' h0
  constructor
  · rw [Complex.cos_arg hne, hnorm]; simp only; field_simp
  · rw [Complex.sin_arg, hnorm]; simp only; field_simp

/-- `(x, y) = r (cos θ, sin θ)` for `r = √(x² + y²)` and the sidereal angle `θ = gmst + wrapLon(atan2(y k, x k) − gmst)`
    that `get_lonlatalt` reports; on the polar axis both sides are 0 -/
theorem xy_polar (g x y : ℝ) :
    x = √(x ^ 2 + y ^ 2) * cos (g + wrapLon (Complex.arg ⟨x * 6378.135, y * 6378.135⟩ - g)) ∧
    y = √(x ^ 2 + y ^ 2) * sin (g + wrapLon (Complex.arg ⟨x * 6378.135, y * 6378.135⟩ - g)) := by
  have hct : ∀ a : ℝ, cos (g + wrapLon (a - g)) = cos a := fun a => by
    rw [cos_add, cos_wrapLon, sin_wrapLon, ← cos_add, add_sub_cancel]
  have hst : ∀ a : ℝ, sin (g + wrapLon (a - g)) = sin a := fun a => by
    rw [sin_add, cos_wrapLon, sin_wrapLon, ← sin_add, add_sub_cancel]
  rw [hct, hst]
  rcases (Real.sqrt_nonneg (x ^ 2 + y ^ 2)).eq_or_lt with h0 | hpos
  · have hz : x ^ 2 + y ^ 2 = 0 := by
      have := Real.sq_sqrt (by positivity : (0 : ℝ) ≤ x ^ 2 + y ^ 2)
      rw [← h0] at this; linarith
    have hx : x = 0 := by nlinarith [sq_nonneg x, sq_nonneg y]
    have hy : y = 0 := by nlinarith [sq_nonneg x, sq_nonneg y]
    rw [← h0, hx, hy]; simp
  · obtain ⟨hcos, hsin⟩ := cos_sin_atan2_scaled (x := x) (y := y) (k := 6378.135) (by norm_num) hpos
    rw [hcos, hsin]
    constructor <;> field_simp

end PV.C04
