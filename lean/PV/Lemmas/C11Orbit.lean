/-
  Helper lemmas for C11 about PV.Model.OrbitNum read over ℝ: the closed form as a polynomial,
  truncation, day counts, the cache invariant, continuity.
-/
import PV.NumReal
import PV.Model.OrbitNum
import Mathlib.Tactic.Linarith
import Mathlib.Tactic.Ring
import Mathlib.Tactic.FieldSimp
import Mathlib.Tactic.NormNum
import Mathlib.Topology.Order.IntermediateValue
import Mathlib.Topology.Algebra.Order.Floor
namespace PV.C11L
open PV PV.NodeSearch PV.OrbitNum

/-! ### reals -/

/-- `ofInt` read over ℝ is the integer cast -/
theorem r_ofInt' (i : Int) : (Time.ofInt i : ℝ) = (i : ℝ) := by
  unfold Time.ofInt
  split
  · rename_i h
    rw [r_ofNat']
    have h2 : ((i.toNat : Int) : ℝ) = (i : ℝ) := by rw [Int.toNat_of_nonneg h]
    exact_mod_cast h2
  · rename_i h
    rw [r_neg, r_ofNat']
    have h2 : (((-i).toNat : Int) : ℝ) = ((-i : Int) : ℝ) := by rw [Int.toNat_of_nonneg (by omega)]
    have h3 : (((-i).toNat : ℕ) : ℝ) = -(i : ℝ) := by
      have : (((-i).toNat : ℕ) : ℝ) = (((-i).toNat : Int) : ℝ) := by norm_cast
      rw [this, h2]; push_cast; ring
    rw [h3]; ring

/-- the closed form over ℝ is the cubic `rev + dt/P + nd·dt² + ndd·dt³` -/
theorem orbitFloat_real (rev dt P nd ndd : ℝ) :
    orbitFloat rev dt P nd ndd = rev + dt / P + nd * dt ^ 2 + ndd * dt ^ 3 := by
  unfold orbitFloat
  simp only [r_add, r_div, r_mul, r_rpow, r_ofNat]
  rw [Real.rpow_natCast, Real.rpow_natCast]

/-- factorised difference of the cubic -/
theorem orbitFloat_diff (rev a b P nd ndd : ℝ) :
    orbitFloat rev b P nd ndd - orbitFloat rev a P nd ndd
      = (b - a) * (1 / P + nd * (a + b) + ndd * (a ^ 2 + a * b + b ^ 2)) := by
  rw [orbitFloat_real, orbitFloat_real]; ring

/-- the cubic is strictly increasing on [-1.2, 5.2] days for every nodal period up to 0.16 d
    (all near-earth orbits: < 225 min = 0.15625 d) and derivative fields |ṅ/2| ≤ 0.25, |n̈/6| ≤ 0.03 -/
theorem orbit_strict_mono (rev P nd ndd a b : ℝ) (hP0 : 0 < P) (hP : P ≤ 0.16)
    (hnd : |nd| ≤ 0.25) (hndd : |ndd| ≤ 0.03) (ha : -1.2 ≤ a) (hb : b ≤ 5.2) (hab : a < b) :
    orbitFloat rev a P nd ndd < orbitFloat rev b P nd ndd := by
  have hd := orbitFloat_diff rev a b P nd ndd
  have hinv : 6.25 ≤ 1 / P := by rw [le_div_iff₀ hP0]; linarith
  have ha2 : a ≤ 5.2 := by linarith
  have hb2 : -1.2 ≤ b := by linarith
  have hs : |a + b| ≤ 10.4 := by rw [abs_le]; constructor <;> linarith
  have hs1 : |nd * (a + b)| ≤ 0.25 * 10.4 := by
    rw [abs_mul]; exact mul_le_mul hnd hs (abs_nonneg _) (by norm_num)
  have hq0 : 0 ≤ a ^ 2 + a * b + b ^ 2 := by nlinarith [sq_nonneg (a + b / 2), sq_nonneg b]
  have hq1 : a ^ 2 + a * b + b ^ 2 ≤ 81.12 := by
    nlinarith [mul_nonneg (sub_nonneg.mpr ha2) (sub_nonneg.mpr ha), mul_nonneg (sub_nonneg.mpr hb) (sub_nonneg.mpr hb2),
      mul_nonneg (sub_nonneg.mpr ha2) (sub_nonneg.mpr hb), mul_nonneg (sub_nonneg.mpr ha) (sub_nonneg.mpr hb2)]
  have hq : |a ^ 2 + a * b + b ^ 2| ≤ 81.12 := by rw [abs_of_nonneg hq0]; exact hq1
  have hs2 : |ndd * (a ^ 2 + a * b + b ^ 2)| ≤ 0.03 * 81.12 := by
    rw [abs_mul]; exact mul_le_mul hndd hq (abs_nonneg _) (by norm_num)
  have h1 := neg_abs_le (nd * (a + b))
  have h2 := neg_abs_le (ndd * (a ^ 2 + a * b + b ^ 2))
  have : 0 < (b - a) * (1 / P + nd * (a + b) + ndd * (a ^ 2 + a * b + b ^ 2)) := by
    apply mul_pos (by linarith)
    have e1 : (0.25 : ℝ) * 10.4 = 2.6 := by norm_num
    have e2 : (0.03 : ℝ) * 81.12 = 2.4336 := by norm_num
    rw [e1] at hs1
    rw [e2] at hs2
    linarith
  linarith

/-- `int()` over ℝ: ⌊x⌋ for x ≥ 0, ⌈x⌉ for x < 0 -/
theorem pyInt_real (x : ℝ) : pyInt x = if x < 0 then ((⌈x⌉ : ℤ) : ℝ) else ((⌊x⌋ : ℤ) : ℝ) := by
  unfold pyInt
  simp only [r_lt, r_ofNat, Nat.cast_zero, decide_eq_true_eq, r_neg, r_floor]
  split
  · rw [Int.floor_neg]; push_cast; ring
  · rfl

theorem pyInt_mono (x y : ℝ) (h : x ≤ y) : pyInt x ≤ pyInt y := by
  rw [pyInt_real, pyInt_real]
  by_cases hx : x < 0
  · by_cases hy : y < 0
    · simp only [hx, hy, if_true]; exact_mod_cast Int.ceil_mono h
    · simp only [hx, hy, if_true, if_false]
      have h1 : ⌈x⌉ ≤ 0 := Int.ceil_le.mpr (by simpa using hx.le)
      have h2 : 0 ≤ ⌊y⌋ := Int.floor_nonneg.mpr (not_lt.mp hy)
      exact_mod_cast h1.trans h2
  · have hy : ¬ y < 0 := by linarith
    simp only [hx, hy, if_false]; exact_mod_cast Int.floor_mono h

/-! ### days -/

theorem periodDays_real (p : Int) : (periodDays p : ℝ) = (p : ℝ) / 86400000000 := by
  unfold periodDays; rw [r_div, r_ofInt', r_ofInt']; norm_num

/-- elapsed days between the query instant (any unit) and the reference node, exactly -/
theorem dtDays_real (u : Time.Unit) (ticks an : Int) :
    (dtDays u ticks an : ℝ) = ((ticks * Time.nsPerTick u - an * 1000 : Int) : ℝ) / 86400000000000 := by
  cases u
  case ns =>
    simp only [dtDays, Time.nsPerTick, r_add, r_div, r_ofInt']
    have h : (ticks - an * 1000) = (ticks - an * 1000) / 1000 * 1000 + (ticks - an * 1000 - (ticks - an * 1000) / 1000 * 1000) := by
      omega
    have h2 : ((ticks * 1 - an * 1000 : Int) : ℝ)
        = (((ticks - an * 1000) / 1000 : Int) : ℝ) * 1000
          + ((ticks - an * 1000 - (ticks - an * 1000) / 1000 * 1000 : Int) : ℝ) := by
      have : (ticks * 1 - an * 1000 : Int) = (ticks - an * 1000) / 1000 * 1000 + (ticks - an * 1000 - (ticks - an * 1000) / 1000 * 1000) := by
        omega
      rw [this]; push_cast; ring
    rw [h2]; push_cast; ring
  all_goals
    simp only [dtDays, Time.nsPerTick, r_div, r_ofInt']
    norm_num
    ring

/-! ### continuity of the closed form in time -/

theorem orbit_continuous (rev P nd ndd : ℝ) (an : ℝ) :
    Continuous fun τ : ℝ => orbitFloat rev ((τ - an) / 86400000000) P nd ndd := by
  simp only [orbitFloat_real]
  fun_prop

/-! ### the cache -/

/-- what the two slots can hold on an object whose trajectory and TLE are `e` -/
def SlotsOk {α : Type} [Num α] (e : Env α) (s : Slots) : Prop :=
  (∀ t, s.anTime = some t → initAnTime e = .ok t) ∧
  (∀ p, s.anPeriod = some p → ∃ t, s.anTime = some t ∧ initPeriod e t = .ok p)

theorem slotsOk_fresh {α : Type} [Num α] (e : Env α) : SlotsOk e fresh := by
  constructor <;> intro x h <;> simp [fresh] at h

/-- the `except AttributeError` path of `get_orbit_number` -/
def slowPath {α : Type} [Num α] (e : Env α) (s : Slots) (q : Query) : Except Err α × Slots :=
  match initAnTime e with
  | .error er => (.error er, s)
  | .ok t =>
    match initPeriod e t with
    | .error er => (.error er, { s with anTime := some t })
    | .ok p => (.ok (answer e t p q), ⟨some t, some p⟩)

theorem getOrbitNumber_slow {α : Type} [Num α] (e : Env α) (s : Slots) (q : Query)
    (h : s.anTime = none ∨ s.anPeriod = none) : getOrbitNumber e s q = slowPath e s q := by
  obtain ⟨t, p⟩ := s
  cases t <;> cases p <;> first | rfl | simp at h

theorem getOrbitNumber_fast {α : Type} [Num α] (e : Env α) (s : Slots) (q : Query) (t p : Int)
    (ht : s.anTime = some t) (hp : s.anPeriod = some p) :
    getOrbitNumber e s q = (.ok (answer e t p q), s) := by
  obtain ⟨t', p'⟩ := s
  simp only at ht hp
  subst ht; subst hp; rfl

theorem slowPath_fst {α : Type} [Num α] (e : Env α) (s : Slots) (q : Query) :
    (slowPath e s q).1 = (slowPath e fresh q).1 := by
  unfold slowPath
  cases initAnTime e with
  | error er => rfl
  | ok t => dsimp only; cases initPeriod e t <;> rfl

theorem slowPath_ok {α : Type} [Num α] (e : Env α) (s : Slots) (q : Query) (h : SlotsOk e s) :
    SlotsOk e (slowPath e s q).2 := by
  unfold slowPath
  cases ha : initAnTime e with
  | error er => exact h
  | ok t =>
    dsimp only
    cases hp : initPeriod e t with
    | error er =>
      dsimp only
      refine ⟨?_, ?_⟩
      · intro t' ht'; simp only [Option.some.injEq] at ht'; rw [← ht']; exact ha
      · intro p hp'
        obtain ⟨t0, ht0, hp0⟩ := h.2 p hp'
        have h3 := h.1 t0 ht0
        rw [ha] at h3
        cases h3
        rw [hp] at hp0; cases hp0
    | ok p =>
      dsimp only
      refine ⟨?_, ?_⟩
      · intro t' ht'; simp only [Option.some.injEq] at ht'; rw [← ht']; exact ha
      · intro p' hp'; simp only [Option.some.injEq] at hp'; exact ⟨t, rfl, by rw [← hp']; exact hp⟩

theorem getOrbitNumber_inv {α : Type} [Num α] (e : Env α) (s : Slots) (q : Query) (h : SlotsOk e s) :
    (getOrbitNumber e s q).1 = (getOrbitNumber e fresh q).1 ∧ SlotsOk e (getOrbitNumber e s q).2 := by
  have hf : getOrbitNumber e fresh q = slowPath e fresh q := getOrbitNumber_slow e fresh q (Or.inl rfl)
  cases hT : s.anTime with
  | none =>
    rw [getOrbitNumber_slow e s q (Or.inl hT), hf]
    exact ⟨slowPath_fst e s q, slowPath_ok e s q h⟩
  | some t =>
    cases hP : s.anPeriod with
    | none =>
      rw [getOrbitNumber_slow e s q (Or.inr hP), hf]
      exact ⟨slowPath_fst e s q, slowPath_ok e s q h⟩
    | some p =>
      have ha := h.1 t hT
      obtain ⟨t', ht', hp'⟩ := h.2 p hP
      rw [hT] at ht'; cases ht'
      rw [getOrbitNumber_fast e s q t p hT hP, hf]
      refine ⟨?_, h⟩
      unfold slowPath
      simp only [ha, hp']

end PV.C11L
