/-
  Helper lemmas for C11 about PV.Model.NodeSearch read over ℝ: one-step unfoldings, the stepping
  loop's post-condition, range / termination / divergence of the bisection.
-/
import PV.NumReal
import PV.Model.NodeSearch
import Mathlib.Tactic.Linarith
import Mathlib.Tactic.Ring
import Mathlib.Tactic.Positivity
namespace PV.C11L
open PV PV.NodeSearch

/-! ### integer midpoint -/

theorem mid_eq (a b : Int) (h : b ≤ a) : mid a b = a - (a - b) / 2 := by
  unfold mid
  rw [Int.tdiv_eq_ediv_of_nonneg (by omega)]

theorem mid_range (a b : Int) (h : b ≤ a) : b ≤ mid a b ∧ mid a b ≤ a := by
  rw [mid_eq a b h]; omega

theorem mid_unit (b : Int) : mid (b + 1) b = b + 1 := by
  rw [mid_eq _ _ (by omega)]; omega

theorem mid_strict (a b : Int) (h : b + 2 ≤ a) : b < mid a b ∧ mid a b < a := by
  rw [mid_eq a b (by omega)]; omega

/-! ### one-step unfoldings over ℝ -/

theorem stepLoop_zero (z : Int → ℝ) (step t : Int) : stepLoop z step 0 t = none := rfl

theorem stepLoop_succ (z : Int → ℝ) (step : Int) (fuel : Nat) (t : Int) :
    stepLoop z step (fuel + 1) t =
      if 0 < z t ∧ z (t - step) < 0 then some (t, 0)
      else (stepLoop z step fuel (t - step)).map fun r => (r.1, r.2 + 1) := by
  simp only [stepLoop, r_gt, r_lt, r_ofNat, Nat.cast_zero, Bool.and_eq_true, decide_eq_true_eq]

theorem bisectLoop_zero (z : Int → ℝ) (tol : ℝ) (a b : Int) : bisectLoop z tol 0 a b = none := rfl

theorem bisectLoop_succ (z : Int → ℝ) (tol : ℝ) (fuel : Nat) (a b : Int) :
    bisectLoop z tol (fuel + 1) a b =
      if tol < |z (mid a b)| then
        (bisectLoop z tol fuel (if 0 < z (mid a b) then mid a b else a)
          (if 0 < z (mid a b) then b else mid a b)).map fun r => (r.1, mid a b :: r.2)
      else some (mid a b, [mid a b]) := by
  simp only [bisectLoop, r_gt, r_abs, r_ofNat, Nat.cast_zero, decide_eq_true_eq]

/-! ### the stepping loop -/

/-- post-condition of the stepping loop: the bracket it leaves has z > 0 at its late end, z < 0 at its
    early end, is exactly one step wide and lies `k` steps before the start -/
theorem stepLoop_post (z : Int → ℝ) (step : Int) :
    ∀ (fuel : Nat) (t0 tOld : Int) (k : Nat), stepLoop z step fuel t0 = some (tOld, k) →
      0 < z tOld ∧ z (tOld - step) < 0 ∧ tOld = t0 - (k : Int) * step ∧ k < fuel := by
  intro fuel
  induction fuel with
  | zero => intro t0 tOld k h; simp [stepLoop_zero] at h
  | succ f ih =>
    intro t0 tOld k h
    rw [stepLoop_succ] at h
    split at h
    · rename_i hc
      simp only [Option.some.injEq, Prod.mk.injEq] at h
      obtain ⟨h1, h2⟩ := h
      subst h1; subst h2
      exact ⟨hc.1, hc.2, by simp, by omega⟩
    · cases hr : stepLoop z step f (t0 - step) with
      | none => simp [hr] at h
      | some r =>
        obtain ⟨r1, r2⟩ := r
        simp only [hr, Option.map_some, Option.some.injEq, Prod.mk.injEq] at h
        obtain ⟨h1, h2⟩ := h
        subst h1; subst h2
        obtain ⟨a, b, c, d⟩ := ih (t0 - step) r1 r2 hr
        refine ⟨a, b, ?_, by omega⟩
        rw [c]; push_cast; ring

/-- more fuel does not change a found bracket -/
theorem stepLoop_mono (z : Int → ℝ) (step : Int) :
    ∀ (fuel : Nat) (t0 : Int) (r : Int × Nat), stepLoop z step fuel t0 = some r →
      stepLoop z step (fuel + 1) t0 = some r := by
  intro fuel
  induction fuel with
  | zero => intro t0 r h; simp [stepLoop_zero] at h
  | succ f ih =>
    intro t0 r h
    rw [stepLoop_succ] at h ⊢
    split
    · rename_i hc; simpa [hc] using h
    · rename_i hc
      simp only [hc, if_false] at h
      cases hr : stepLoop z step f (t0 - step) with
      | none => simp [hr] at h
      | some r' =>
        rw [ih _ _ hr]
        simpa [hr] using h

/-! ### the bisection: what holds for every z -/

/-- whatever z is: a returned tick lies in the bracket, has |z| ≤ tol, is the last queried tick, and
    the number of queries is at most the fuel -/
theorem bisectLoop_sound (z : Int → ℝ) (tol : ℝ) :
    ∀ (fuel : Nat) (a b r : Int) (l : List Int), b ≤ a → bisectLoop z tol fuel a b = some (r, l) →
      b ≤ r ∧ r ≤ a ∧ |z r| ≤ tol ∧ l.getLast? = some r ∧ l.length ≤ fuel ∧ (∀ x ∈ l, b ≤ x ∧ x ≤ a) := by
  intro fuel
  induction fuel with
  | zero => intro a b r l _ h; simp [bisectLoop_zero] at h
  | succ f ih =>
    intro a b r l hab h
    have hm := mid_range a b hab
    rw [bisectLoop_succ] at h
    split at h
    · cases hr : bisectLoop z tol f (if 0 < z (mid a b) then mid a b else a)
          (if 0 < z (mid a b) then b else mid a b) with
      | none => simp [hr] at h
      | some p =>
        obtain ⟨r', l'⟩ := p
        simp only [hr, Option.map_some, Option.some.injEq, Prod.mk.injEq] at h
        obtain ⟨h1, h2⟩ := h
        subst h1; subst h2
        by_cases hz : 0 < z (mid a b)
        · simp only [hz, if_true] at hr
          obtain ⟨i1, i2, i3, i4, i5, i6⟩ := ih _ _ _ _ hm.1 hr
          refine ⟨i1, by omega, i3, ?_, by simp; omega, ?_⟩
          · cases l' with
            | nil => simp at i4
            | cons x xs => simpa [List.getLast?_cons_cons] using i4
          · intro x hx
            rcases List.mem_cons.mp hx with hx | hx
            · subst hx; exact hm
            · have := i6 x hx; omega
        · simp only [hz, if_false] at hr
          obtain ⟨i1, i2, i3, i4, i5, i6⟩ := ih _ _ _ _ hm.2 hr
          refine ⟨by omega, i2, i3, ?_, by simp; omega, ?_⟩
          · cases l' with
            | nil => simp at i4
            | cons x xs => simpa [List.getLast?_cons_cons] using i4
          · intro x hx
            rcases List.mem_cons.mp hx with hx | hx
            · subst hx; exact hm
            · have := i6 x hx; omega
    · rename_i hc
      simp only [Option.some.injEq, Prod.mk.injEq] at h
      obtain ⟨h1, h2⟩ := h
      subst h1; subst h2
      refine ⟨hm.1, hm.2, not_lt.mp hc, by simp, by simp, ?_⟩
      intro x hx
      simp only [List.mem_singleton] at hx
      subst hx; exact hm

/-! ### the bisection: termination for slowly varying z -/

/-- a bracket one tick wide exits at once when z moves by at most `tol` over that tick -/
theorem bisect_unit (z : Int → ℝ) (tol : ℝ) (f : Nat) (b : Int)
    (hL : |z (b + 1) - z b| ≤ tol) (ha : 0 < z (b + 1)) (hb : z b ≤ 0) :
    bisectLoop z tol (f + 1) (b + 1) b = some (b + 1, [b + 1]) ∧ |z (b + 1)| ≤ tol := by
  have hle : |z (b + 1)| ≤ tol := by
    rw [abs_of_pos ha]
    have := (abs_le.mp hL).2
    linarith
  refine ⟨?_, hle⟩
  rw [bisectLoop_succ, mid_unit]
  simp [not_lt.mpr hle]

/-- If z moves by at most `tol` per tick inside `[lo, hi]`, a bracket `b < a` inside it with
    `z a > 0 ≥ z b` and `a - b ≤ 2^k` is resolved within `k + 1` iterations. -/
theorem bisect_core (z : Int → ℝ) (tol : ℝ) (lo hi : Int)
    (hL : ∀ t, lo ≤ t → t < hi → |z (t + 1) - z t| ≤ tol) :
    ∀ (k fuel : Nat) (a b : Int), lo ≤ b → a ≤ hi → b < a → a - b ≤ 2 ^ k → k < fuel →
      0 < z a → z b ≤ 0 →
      ∃ r l, bisectLoop z tol fuel a b = some (r, l) ∧ |z r| ≤ tol ∧ b ≤ r ∧ r ≤ a ∧
        l.length ≤ k + 1 ∧ l.getLast? = some r := by
  intro k
  induction k with
  | zero =>
    intro fuel a b hlo hhi hba hw hf ha hb
    obtain ⟨f, rfl⟩ : ∃ f, fuel = f + 1 := ⟨fuel - 1, by omega⟩
    have : a = b + 1 := by simp at hw; omega
    subst this
    obtain ⟨h1, h2⟩ := bisect_unit z tol f b (hL b hlo (by omega)) ha hb
    exact ⟨b + 1, [b + 1], h1, h2, by omega, by omega, by simp, by simp⟩
  | succ k ih =>
    intro fuel a b hlo hhi hba hw hf ha hb
    obtain ⟨f, rfl⟩ : ∃ f, fuel = f + 1 := ⟨fuel - 1, by omega⟩
    by_cases h1 : a = b + 1
    · subst h1
      obtain ⟨h1, h2⟩ := bisect_unit z tol f b (hL b hlo (by omega)) ha hb
      exact ⟨b + 1, [b + 1], h1, h2, by omega, by omega, by simp, by simp⟩
    · have hm := mid_strict a b (by omega)
      have hme := mid_eq a b (by omega)
      have hpow : (2 : Int) ^ (k + 1) = 2 * 2 ^ k := by rw [pow_succ]; ring
      generalize hX : (2 : Int) ^ k = X at hw hpow ih
      rw [hpow] at hw
      rw [bisectLoop_succ]
      by_cases hc : tol < |z (mid a b)|
      · simp only [hc, if_true]
        by_cases hz : 0 < z (mid a b)
        · simp only [hz, if_true]
          obtain ⟨r, l, e1, e2, e3, e4, e5, e6⟩ :=
            ih f (mid a b) b hlo (by omega) hm.1 (by rw [hme]; omega) (by omega) hz hb
          refine ⟨r, mid a b :: l, by simp [e1], e2, e3, by omega, by simp; omega, ?_⟩
          cases l with
          | nil => simp at e6
          | cons x xs => simpa [List.getLast?_cons_cons] using e6
        · simp only [hz, if_false]
          obtain ⟨r, l, e1, e2, e3, e4, e5, e6⟩ :=
            ih f a (mid a b) (by omega) hhi hm.2 (by rw [hme]; omega) (by omega) ha (not_lt.mp hz)
          refine ⟨r, mid a b :: l, by simp [e1], e2, by omega, e4, by simp; omega, ?_⟩
          cases l with
          | nil => simp at e6
          | cons x xs => simpa [List.getLast?_cons_cons] using e6
      · simp only [hc, if_false]
        exact ⟨mid a b, [mid a b], rfl, not_lt.mp hc, by omega, by omega, by simp, by simp⟩

/-! ### the bisection: divergence on coarse ticks -/

/-- a satellite rising through the equator at `v` km per tick, half a tick after tick 0 -/
noncomputable def zLine (v : ℝ) (t : Int) : ℝ := v * (t : ℝ) - v / 2

theorem zLine_far (v tol : ℝ) (hv : 2 * tol < v) (htol : 0 ≤ tol) (t : Int) : tol < |zLine v t| := by
  unfold zLine
  have hv0 : 0 < v := by linarith
  rcases le_or_gt t 0 with h | h
  · have ht : (t : ℝ) ≤ 0 := by exact_mod_cast h
    have : v * (t : ℝ) ≤ 0 := mul_nonpos_of_nonneg_of_nonpos hv0.le ht
    rw [abs_of_neg (by linarith)]
    linarith
  · have ht : (1 : ℝ) ≤ (t : ℝ) := by exact_mod_cast h
    have : v * 1 ≤ v * (t : ℝ) := mul_le_mul_of_nonneg_left ht hv0.le
    rw [abs_of_pos (by linarith)]
    linarith

/-- on such a z the bisection never exits, whatever the bracket and the fuel -/
theorem bisect_line_none (v tol : ℝ) (hv : 2 * tol < v) (htol : 0 ≤ tol) :
    ∀ (fuel : Nat) (a b : Int), bisectLoop (zLine v) tol fuel a b = none := by
  intro fuel
  induction fuel with
  | zero => intro a b; rfl
  | succ f ih =>
    intro a b
    rw [bisectLoop_succ]
    simp only [zLine_far v tol hv htol, if_true, ih, Option.map_none]

/-! ### the whole search -/

theorem lastAn_real (z : Int → ℝ) (tol : ℝ) (step : Int) (fS fB : Nat) (t0 : Int) :
    lastAn z tol step fS fB t0 =
      match stepLoop z step fS t0 with
      | none => .error .stepFuel
      | some (tOld, k) =>
        if |z tOld| < tol then .ok ⟨tOld, k, []⟩
        else if |z (tOld - step)| ≤ tol then .ok ⟨tOld - step, k, []⟩
        else if tol < |z (tOld - step)| then
          match bisectLoop z tol fB tOld (tOld - step) with
          | none => .error .bisectFuel
          | some (r, l) => .ok ⟨r, k, l⟩
        else .error .unbound := by
  simp only [lastAn, r_lt, r_le, r_gt, r_abs, decide_eq_true_eq]
  cases stepLoop z step fS t0 with
  | none => rfl
  | some r =>
    obtain ⟨tOld, k⟩ := r
    dsimp only
    split_ifs <;> rfl

/-- everything a returned result satisfies, for every z -/
theorem lastAn_sound (z : Int → ℝ) (tol : ℝ) (step : Int) (fS fB : Nat) (t0 : Int) (f : Found)
    (hstep : 0 ≤ step) (h : lastAn z tol step fS fB t0 = .ok f) :
    ∃ tOld : Int, stepLoop z step fS t0 = some (tOld, f.steps) ∧ 0 < z tOld ∧ z (tOld - step) < 0 ∧
      tOld = t0 - (f.steps : Int) * step ∧ tOld - step ≤ f.t ∧ f.t ≤ tOld ∧ |z f.t| ≤ tol ∧
      f.mids.length ≤ fB ∧ (∀ x ∈ f.mids, tOld - step ≤ x ∧ x ≤ tOld) ∧
      (f.mids ≠ [] → f.mids.getLast? = some f.t) := by
  rw [lastAn_real] at h
  cases hs : stepLoop z step fS t0 with
  | none => simp [hs] at h
  | some r =>
    obtain ⟨tOld, k⟩ := r
    obtain ⟨p1, p2, p3, _⟩ := stepLoop_post z step fS t0 tOld k hs
    simp only [hs] at h
    split at h
    · rename_i hc
      cases h
      exact ⟨tOld, rfl, p1, p2, p3, by simp; omega, by simp, hc.le, by simp, by simp, by simp⟩
    · split at h
      · rename_i hc
        cases h
        exact ⟨tOld, rfl, p1, p2, p3, by simp, by simp; omega, hc, by simp, by simp, by simp⟩
      · split at h
        · cases hb : bisectLoop z tol fB tOld (tOld - step) with
          | none => simp [hb] at h
          | some q =>
            obtain ⟨r, l⟩ := q
            simp only [hb] at h
            cases h
            obtain ⟨b1, b2, b3, b4, b5, b6⟩ := bisectLoop_sound z tol fB tOld (tOld - step) r l (by omega) hb
            exact ⟨tOld, rfl, p1, p2, p3, b1, b2, b3, b5, b6, fun _ => b4⟩
        · cases h

/-- over ℝ the three tests are exhaustive: `return t_mid` is never reached with `t_mid` unassigned -/
theorem lastAn_ne_unbound (z : Int → ℝ) (tol : ℝ) (step : Int) (fS fB : Nat) (t0 : Int) :
    lastAn z tol step fS fB t0 ≠ .error .unbound := by
  rw [lastAn_real]
  cases hs : stepLoop z step fS t0 with
  | none => simp
  | some r =>
    obtain ⟨tOld, k⟩ := r
    simp only
    split
    · simp
    · split
      · simp
      · rename_i h2
        rw [if_pos (not_le.mp h2)]
        cases bisectLoop z tol fB tOld (tOld - step) <;> simp

/-- once the stepping loop has found its bracket and z moves by at most `tol` per tick inside it,
    the search returns within `K + 1` bisection steps when the step is at most `2^K` ticks -/
theorem lastAn_complete (z : Int → ℝ) (tol : ℝ) (step : Int) (fS fB : Nat) (t0 tOld : Int) (k K : Nat)
    (hs : stepLoop z step fS t0 = some (tOld, k)) (hstep : 0 < step) (hK : step ≤ 2 ^ K) (hfB : K < fB)
    (hL : ∀ t, tOld - step ≤ t → t < tOld → |z (t + 1) - z t| ≤ tol) :
    ∃ f, lastAn z tol step fS fB t0 = .ok f ∧ f.steps = k ∧ f.mids.length ≤ K + 1 := by
  obtain ⟨p1, p2, _, _⟩ := stepLoop_post z step fS t0 tOld k hs
  rw [lastAn_real]
  simp only [hs]
  split
  · exact ⟨_, rfl, rfl, by simp⟩
  · split
    · exact ⟨_, rfl, rfl, by simp⟩
    · rename_i h2
      rw [if_pos (not_le.mp h2)]
      obtain ⟨r, l, e1, _, _, _, e5, _⟩ :=
        bisect_core z tol (tOld - step) tOld hL K fB tOld (tOld - step) (le_refl _) (le_refl _)
          (by omega) (by omega) hfB p1 p2.le
      simp only [e1]
      exact ⟨_, rfl, rfl, e5⟩

end PV.C11L
