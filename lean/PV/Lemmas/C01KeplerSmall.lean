/-
  C01 (stretch) helper lemmas, part 4: e_L ≤ 1/5.  The cap of the first pass (`|nr| > 1.25·ecc`) cannot be taken
  from the start value `epw = U`, the start value is within e_L of the root, and the cubic bound contracts with
  K(e_L,e_L)·e_L² ≤ 1/250; hence ten passes always reach the `break`.
-/
import PV.Lemmas.C01KeplerLoop
namespace PV.C01
open PV PV.Sgp4

/-- numeric facts about the cubic constant for 0 ≤ e ≤ 1/5 and δ = e -/
theorem halleyK_small {e : ℝ} (he0 : 0 ≤ e) (he : e ≤ 1 / 5) :
    e * (1 + e) * e / 2 < (1 - e) ^ 2 ∧ halleyK e e * e ^ 2 ≤ 1 / 250 := by
  have hx : e * (1 + e) ≤ 1 / 5 * (1 + 1 / 5) := by gcongr
  have hx0 : 0 ≤ e * (1 + e) := by positivity
  have hy : e ^ 2 ≤ (1 / 5) ^ 2 := by gcongr
  have hy0 : 0 ≤ e ^ 2 := by positivity
  have hxe : e * (1 + e) * e ≤ 1 / 5 * (1 + 1 / 5) * (1 / 5) := by gcongr
  have h1e : (1 - 1 / 5 : ℝ) ^ 2 ≤ (1 - e) ^ 2 := by
    apply pow_le_pow_left₀ (by norm_num); linarith
  have hD : (77 / 125 : ℝ) ≤ (1 - e) ^ 2 - e * (1 + e) * e / 2 := by
    norm_num at h1e hxe ⊢; linarith
  have hDpos : (0 : ℝ) < (1 - e) ^ 2 - e * (1 + e) * e / 2 := by linarith
  refine ⟨by linarith, ?_⟩
  have hz : e * (e * (1 + e) / 24 + e ^ 2 / 12) ≤ 1 / 5 * (1 / 5 * (1 + 1 / 5) / 24 + (1 / 5) ^ 2 / 12) := by gcongr
  have hN : e * (1 + e) / 6 + e ^ 2 / 4 + e * (e * (1 + e) / 24 + e ^ 2 / 12) ≤ 79 / 1500 := by
    norm_num at hx hy hz ⊢; linarith
  have hN0 : 0 ≤ e * (1 + e) / 6 + e ^ 2 / 4 + e * (e * (1 + e) / 24 + e ^ 2 / 12) := by positivity
  have hNe : (e * (1 + e) / 6 + e ^ 2 / 4 + e * (e * (1 + e) / 24 + e ^ 2 / 12)) * e ^ 2 ≤ 79 / 1500 * (1 / 5) ^ 2 := by
    gcongr
  simp only [halleyK]
  rw [div_mul_eq_mul_div, div_le_iff₀ hDpos]
  norm_num at hNe ⊢
  linarith

/-- from `epw = U` the first-order correction is at most `e_L/(1−e_L) ≤ 1.25·e_L`: the cap is not taken -/
theorem first_pass_uncapped {a b : ℝ} (he : √(a ^ 2 + b ^ 2) ≤ 1 / 5) (U : ℝ) :
    ¬ (1.25 * √(a ^ 2 + b ^ 2) < |(U - U + (a * Real.sin U - b * Real.cos U)) /
      (1 - (a * Real.cos U + b * Real.sin U))|) := by
  have hS := abs_esinE_le_sqrt a b U
  have hC := (abs_le.mp (abs_ecosE_le_sqrt a b U)).2
  have hdf : (4 / 5 : ℝ) ≤ 1 - (a * Real.cos U + b * Real.sin U) := by linarith
  have hdfpos : (0 : ℝ) < 1 - (a * Real.cos U + b * Real.sin U) := by linarith
  rw [not_lt, sub_self, zero_add, abs_div, abs_of_pos hdfpos, div_le_iff₀ hdfpos]
  have h0 := Real.sqrt_nonneg (a ^ 2 + b ^ 2)
  have : 1.25 * √(a ^ 2 + b ^ 2) * (4 / 5) ≤
      1.25 * √(a ^ 2 + b ^ 2) * (1 - (a * Real.cos U + b * Real.sin U)) := by
    apply mul_le_mul_of_nonneg_left hdf; positivity
  norm_num at this ⊢
  linarith

/-- the example used for non-vacuity: a_x = 0.1, a_y = 0 has e_L = 0.1 -/
theorem kepler_ex_sqrt : √((0.1 : ℝ) ^ 2 + (0 : ℝ) ^ 2) = 0.1 := by
  rw [show (0.1 : ℝ) ^ 2 + (0 : ℝ) ^ 2 = 0.1 ^ 2 by norm_num]
  exact Real.sqrt_sq (by norm_num)

section small
variable {a b : ℝ} (he : √(a ^ 2 + b ^ 2) ≤ 1 / 5) (U Es : ℝ) (hs : keplerF a b U Es = 0)
include he hs

omit hs in
theorem elsq_lt_one_of_small : a ^ 2 + b ^ 2 < 1 := by
  by_contra hc
  have : (1 : ℝ) ≤ √(a ^ 2 + b ^ 2) := by
    rw [← Real.sqrt_one]; exact Real.sqrt_le_sqrt (not_lt.mp hc)
  linarith

/-- for e_L ≤ 1/5 (and `ecc = e_L`, as `calculate` passes it) the model's loop always leaves through its `break`,
    and what it returns is no farther from the root than the start value was (≤ e_L) -/
theorem newton_small :
    (newton a b U (√(a ^ 2 + b ^ 2))).converged = true ∧
    |(newton a b U (√(a ^ 2 + b ^ 2))).epw - Es| ≤ √(a ^ 2 + b ^ 2) := by
  have h1 : a ^ 2 + b ^ 2 < 1 := elsq_lt_one_of_small he
  set e := √(a ^ 2 + b ^ 2) with hedef
  have he0 : 0 ≤ e := Real.sqrt_nonneg _
  obtain ⟨hsmall, hK250⟩ := halleyK_small he0 he
  have hK : halleyK e e * e ^ 2 ≤ 1 := hK250.trans (by norm_num)
  have hU : |U - Es| ≤ e := by
    rw [abs_sub_comm]; exact keplerF_root_near_U a b U Es hs
  have hKn : 0 ≤ halleyK e e := halleyK_nonneg he0 he0 hsmall
  show (newtonLoop a b U e (9 + 1) 0 U _).converged = true ∧ |(newtonLoop a b U e (9 + 1) 0 U _).epw - Es| ≤ e
  by_cases hc : |U - U + (a * Real.sin U - b * Real.cos U)| < 1e-12
  · rw [newtonLoop_break a b U e 9 0 U _ hc]
    exact ⟨rfl, hU⟩
  · rw [newtonLoop_pass a b U e 9 0 U _ hc (fun _ => first_pass_uncapped he U)]
    obtain ⟨s1, s2⟩ := halley_step_le h1 U Es e hs hsmall hK U e hU le_rfl
    constructor
    · refine newtonLoop_converges h1 U e Es e hs hsmall hK 8 1 (halley a b U U) _ _ one_ne_zero s1 s2 ?_
      -- (1+e) · (K d₁²)^3280 · d₁ < 1e-12 with d₁ = K e³ ≤ e/250, K d₁² ≤ K e² ≤ 1/250
      set d1 := halleyK e e * e ^ 3 with hd1
      have hd10 : 0 ≤ d1 := by positivity
      have hd1e : d1 ≤ 1 / 250 * (1 / 5) := by
        have : d1 = (halleyK e e * e ^ 2) * e := by rw [hd1]; ring
        rw [this]; gcongr
      have hq0 : 0 ≤ halleyK e e * d1 ^ 2 := by positivity
      have hq : halleyK e e * d1 ^ 2 ≤ 1 / 250 := by
        refine le_trans ?_ hK250
        gcongr
      have hpow : (halleyK e e * d1 ^ 2) ^ towerExp 8 ≤ (1 / 250) ^ 4 := by
        calc (halleyK e e * d1 ^ 2) ^ towerExp 8 ≤ (halleyK e e * d1 ^ 2) ^ 4 :=
              pow_le_pow_of_le_one hq0 (hq.trans (by norm_num)) (by decide)
          _ ≤ (1 / 250) ^ 4 := by gcongr
      have hprod : (1 + e) * ((halleyK e e * d1 ^ 2) ^ towerExp 8 * d1) ≤
          (1 + 1 / 5) * ((1 / 250) ^ 4 * (1 / 250 * (1 / 5))) := by
        have hP0 : 0 ≤ (halleyK e e * d1 ^ 2) ^ towerExp 8 := pow_nonneg hq0 _
        generalize (halleyK e e * d1 ^ 2) ^ towerExp 8 = P at hpow hP0 ⊢
        gcongr
      refine lt_of_le_of_lt hprod ?_
      norm_num
    · exact ((newtonLoop_close h1 U e Es e hs hsmall hK 9 1 (halley a b U U) _ _ one_ne_zero rfl s1 s2).1).trans s2

end small

end PV.C01
