/-
  PV.Lemmas.C08Kinds — the enumerations of PV.Model.Kinds are complete, so a statement decided
  over the lists `allFn × allTK × allCK` holds for every function, time kind and coordinate kind.
  Core Lean only.
-/
import PV.Model.Kinds
namespace PV.C08L
open PV.Kinds

theorem mem_allFn (f : Fn) : f ∈ allFn := by cases f <;> decide

theorem mem_allTK (t : TK) : t ∈ allTK := by
  cases t with
  | datetime => decide
  | dt64 u => cases u <;> decide
  | objarr r => cases r <;> decide
  | dtarr r => cases r <;> decide

theorem mem_allCK (c : CK) : c ∈ allCK := by
  cases c with
  | pyint => decide
  | pyfloat => decide
  | nps d => cases d <;> decide
  | arr d r => cases d <;> cases r <;> decide
  | dask d r => cases d <;> cases r <;> decide

/-- from the finite product to all kinds -/
theorem forall_kinds (P : Fn → TK → CK → Prop)
    (h : ∀ f, f ∈ allFn → ∀ t, t ∈ allTK → ∀ c, c ∈ allCK → P f t c) : ∀ f t c, P f t c :=
  fun f t c => h f (mem_allFn f) t (mem_allTK t) c (mem_allCK c)

/-- the product has 6 × 10 × 23 = 1380 cells -/
theorem product_size : allFn.length = 6 ∧ allTK.length = 10 ∧ allCK.length = 23 := by decide

end PV.C08L
