import PV.Lemmas.C01Consts
namespace PV.C01
open PV PV.Sgp4

/-- Kozai → Brouwer recovery: code form (`temp0 / a²`, `1/3`, `del1*134/81`) = report form
    (`…/(a·a·β·β²)`, `.5·TOTHRD`, `134/81·del1`).  Pure rearrangement: every denominator of one side is a
    denominator of the other, nothing is cancelled. -/
theorem basic_xnodp_eq (e : Sgp4.Elements ℝ) :
    (basic e).xnodp = (Str3.recover (toEl e)).xnodp := by
  simp only [basic, Str3.recover, toEl]
  c01_consts
  simp only [Num.sq, TOTHRD_val]
  c01_bridge
  generalize (Str3.XKE / e.xn_0) ^ ((2 : ℝ) / 3) = a1
  generalize 1.5 * Str3.CK2 * (3 * (Real.cos e.xincl * Real.cos e.xincl) - 1) = N
  generalize √(1 - e.eo * e.eo) = b
  generalize 1 - e.eo * e.eo = b2
  have h1 : N / (b * b2) / (a1 * a1) = N / (a1 * a1 * b * b2) := by ring
  rw [h1]
  generalize N / (a1 * a1 * b * b2) = d1
  have h2 : a1 * (1 - d1 * (1 / 3 + d1 * (1 + d1 * 134 / 81)))
      = a1 * (1 - d1 * (0.5 * (2 / 3) + d1 * (1 + 134 / 81 * d1))) := by norm_num1; ring
  rw [h2]
  generalize a1 * (1 - d1 * (0.5 * (2 / 3) + d1 * (1 + 134 / 81 * d1))) = a0
  ring

theorem basic_aodp_eq (e : Sgp4.Elements ℝ) :
    (basic e).aodp = (Str3.recover (toEl e)).aodp := by
  simp only [basic, Str3.recover, toEl]
  c01_consts
  simp only [Num.sq, TOTHRD_val]
  c01_bridge
  generalize (Str3.XKE / e.xn_0) ^ ((2 : ℝ) / 3) = a1
  generalize 1.5 * Str3.CK2 * (3 * (Real.cos e.xincl * Real.cos e.xincl) - 1) = N
  generalize √(1 - e.eo * e.eo) = b
  generalize 1 - e.eo * e.eo = b2
  have h1 : N / (b * b2) / (a1 * a1) = N / (a1 * a1 * b * b2) := by ring
  rw [h1]
  generalize N / (a1 * a1 * b * b2) = d1
  have h2 : a1 * (1 - d1 * (1 / 3 + d1 * (1 + d1 * 134 / 81)))
      = a1 * (1 - d1 * (0.5 * (2 / 3) + d1 * (1 + 134 / 81 * d1))) := by norm_num1; ring
  rw [h2]
  generalize a1 * (1 - d1 * (0.5 * (2 / 3) + d1 * (1 + 134 / 81 * d1))) = a0
  ring


/-- the floor of `s4`: the code tests `perigee - 78 < 20`, the report `perigee ≤ 98`; they differ only at
    `perigee = 98`, where both give 20 -/
theorem s4_floor_eq (perigee : ℝ) :
    (if decide (perigee - 78 < 20) = true then (20 : ℝ) else perigee - 78)
      = if decide (perigee ≤ 98) = true then (20 : ℝ) else perigee - 78 := by
  simp only [decide_eq_true_eq]
  by_cases h : perigee - 78 < 20
  · rw [if_pos h, if_pos (by linarith)]
  · rw [if_neg h]
    by_cases h' : perigee ≤ 98
    · rw [if_pos h']; linarith
    · rw [if_neg h']

theorem s4q_eq_of (l : Str3.El ℝ) (perigee : ℝ) (hp : perigee = Str3.perigeeKm l) :
    Sgp4.s4qoms24 perigee = Str3.s4q l := by
  simp only [s4qoms24, Str3.s4q, ← hp]
  c01_consts
  c01_bridge
  rw [s4_floor_eq, mul_one_div]


/-! ### the fields of `basic` in Mathlib notation -/
theorem basic_cosIO (e : Sgp4.Elements ℝ) : (basic e).cosIO = Real.cos e.xincl := rfl
theorem basic_sinIO (e : Sgp4.Elements ℝ) : (basic e).sinIO = Real.sin e.xincl := rfl
theorem basic_theta2 (e : Sgp4.Elements ℝ) : (basic e).theta2 = Real.cos e.xincl * Real.cos e.xincl := rfl
theorem basic_x3thm1 (e : Sgp4.Elements ℝ) : (basic e).x3thm1 = 3 * (Real.cos e.xincl * Real.cos e.xincl) - 1 := by
  simp only [basic, Num.sq]; c01_bridge
theorem basic_x1mth2 (e : Sgp4.Elements ℝ) : (basic e).x1mth2 = 1 - Real.cos e.xincl * Real.cos e.xincl := by
  simp only [basic, Num.sq]; c01_bridge
theorem basic_x7thm1 (e : Sgp4.Elements ℝ) : (basic e).x7thm1 = 7 * (Real.cos e.xincl * Real.cos e.xincl) - 1 := by
  simp only [basic, Num.sq]; c01_bridge
theorem basic_betao2 (e : Sgp4.Elements ℝ) : (basic e).betao2 = 1 - e.eo * e.eo := by
  simp only [basic, Num.sq]; c01_bridge
theorem basic_betao (e : Sgp4.Elements ℝ) : (basic e).betao = √(1 - e.eo * e.eo) := by
  simp only [basic, Num.sq]; c01_bridge
theorem basic_perigee (e : Sgp4.Elements ℝ) :
    (basic e).perigee = ((basic e).aodp * (1 - e.eo) - 1) * Str3.XKMPER := by
  simp only [basic]; c01_consts; c01_bridge
theorem basic_apogee (e : Sgp4.Elements ℝ) :
    (basic e).apogee = ((basic e).aodp * (1 + e.eo) - 1) * Str3.XKMPER := by
  simp only [basic]; c01_consts; c01_bridge
theorem basic_period (e : Sgp4.Elements ℝ) :
    (basic e).period = 2 * Real.pi * 1440 / Str3.XMNPDA / (basic e).xnodp := by
  simp only [basic]; c01_consts; c01_bridge

theorem perigee_eq' (e : Sgp4.Elements ℝ) : (basic e).perigee = Str3.perigeeKm (toEl e) := by
  rw [basic_perigee, basic_aodp_eq]; simp only [Str3.perigeeKm, toEl_eo]; c01_bridge

theorem period_eq' (e : Sgp4.Elements ℝ) : (basic e).period = Str3.periodMin (toEl e) := by
  rw [basic_period, basic_xnodp_eq, XMNPDA_val]; simp only [Str3.periodMin]; c01_bridge
  rw [mul_div_assoc, div_self (by norm_num : (1440 : ℝ) ≠ 0), mul_one]


set_option hygiene false in
/-- unfold one coefficient of model (`coeffs e (basic e) mode`) and report (`consts (toEl e)`) down to the common atoms
    `(basic e).xnodp`, `(basic e).aodp`, `s4`, `q`, `e.*`, the report's constants -/
macro "coef_unfold" : tactic => `(tactic| (
  have hs := s4q_eq_of (toEl e) (basic e).perigee (perigee_eq' e)
  rcases hm : s4qoms24 (basic e).perigee with ⟨s4, q⟩
  rw [hm] at hs
  simp only [coeffs, Str3.consts, hm, ← hs, ← basic_xnodp_eq, ← basic_aodp_eq, toEl_eo, toEl_xincl, toEl_omegao,
    toEl_xmo, toEl_xnodeo, toEl_bstar, basic_x3thm1, basic_x1mth2, basic_x7thm1, basic_betao2, basic_betao,
    basic_cosIO, basic_sinIO, basic_theta2, beq_self_eq_true, Bool.true_and, if_true]
  try c01_consts
  try simp only [Num.sq, Num.cube, Num.pow4, TOTHRD_val]
  try c01_bridge
  try simp only [mul_one]))

theorem mode_ne : (Mode.nearSimp == Mode.nearNorm) = false := by decide

/-! ### the initialisation coefficients: code = report.  `mode`-independent ones hold for both modes. -/
theorem c2_eq (e : Sgp4.Elements ℝ) (mode : Mode) :
    (coeffs e (basic e) mode).c2 = (Str3.consts (toEl e)).c2 := by
  coef_unfold
theorem c1_eq (e : Sgp4.Elements ℝ) (mode : Mode) :
    (coeffs e (basic e) mode).c1 = (Str3.consts (toEl e)).c1 := by
  coef_unfold
theorem c3_eq (e : Sgp4.Elements ℝ) :
    (coeffs e (basic e) .nearNorm).c3 = (Str3.consts (toEl e)).c3 := by
  coef_unfold
theorem c3_simp (e : Sgp4.Elements ℝ) : (coeffs e (basic e) .nearSimp).c3 = 0 := by
  rcases hm : s4qoms24 (basic e).perigee with ⟨s4, q⟩
  simp only [coeffs, hm, mode_ne, Bool.false_and, Bool.false_eq_true, if_false]
  c01_bridge
theorem c4_eq (e : Sgp4.Elements ℝ) (mode : Mode) :
    (coeffs e (basic e) mode).c4 = (Str3.consts (toEl e)).c4 := by
  coef_unfold
theorem c5_eq (e : Sgp4.Elements ℝ) :
    (coeffs e (basic e) .nearNorm).c5 = (Str3.consts (toEl e)).c5 := by
  coef_unfold
theorem c5_simp (e : Sgp4.Elements ℝ) : (coeffs e (basic e) .nearSimp).c5 = 0 := by
  rcases hm : s4qoms24 (basic e).perigee with ⟨s4, q⟩
  simp only [coeffs, hm, mode_ne, Bool.false_and, Bool.false_eq_true, if_false]
  c01_bridge
theorem xmdot_eq (e : Sgp4.Elements ℝ) (mode : Mode) :
    (coeffs e (basic e) mode).xmdot = (Str3.consts (toEl e)).xmdot := by
  coef_unfold
  norm_num1; ring
theorem omgdot_eq (e : Sgp4.Elements ℝ) (mode : Mode) :
    (coeffs e (basic e) mode).omgdot = (Str3.consts (toEl e)).omgdot := by
  coef_unfold
  norm_num1; ring
theorem xnodot_eq (e : Sgp4.Elements ℝ) (mode : Mode) :
    (coeffs e (basic e) mode).xnodot = (Str3.consts (toEl e)).xnodot := by
  coef_unfold
  norm_num1; ring
theorem omgcof_eq (e : Sgp4.Elements ℝ) :
    (coeffs e (basic e) .nearNorm).omgcof = (Str3.consts (toEl e)).omgcof := by
  coef_unfold
theorem omgcof_simp (e : Sgp4.Elements ℝ) : (coeffs e (basic e) .nearSimp).omgcof = 0 := by
  rcases hm : s4qoms24 (basic e).perigee with ⟨s4, q⟩
  simp only [coeffs, hm, mode_ne, Bool.false_and, Bool.false_eq_true, if_false]
  c01_bridge
theorem xmcof_eq (e : Sgp4.Elements ℝ) (mode : Mode) :
    (coeffs e (basic e) mode).xmcof = (Str3.consts (toEl e)).xmcof := by
  coef_unfold
theorem xnodcf_eq (e : Sgp4.Elements ℝ) (mode : Mode) :
    (coeffs e (basic e) mode).xnodcf = (Str3.consts (toEl e)).xnodcf := by
  coef_unfold
  norm_num1; ring
theorem t2cof_eq (e : Sgp4.Elements ℝ) (mode : Mode) :
    (coeffs e (basic e) mode).t2cof = (Str3.consts (toEl e)).t2cof := by
  coef_unfold
theorem xlcof_eq (e : Sgp4.Elements ℝ) (mode : Mode) :
    (coeffs e (basic e) mode).xlcof = (Str3.consts (toEl e)).xlcof := by
  coef_unfold
theorem aycof_eq (e : Sgp4.Elements ℝ) (mode : Mode) :
    (coeffs e (basic e) mode).aycof = (Str3.consts (toEl e)).aycof := by
  coef_unfold
theorem delmo_eq (e : Sgp4.Elements ℝ) (mode : Mode) :
    (coeffs e (basic e) mode).delmo = (Str3.consts (toEl e)).delmo := by
  coef_unfold
theorem sinXMO_eq (e : Sgp4.Elements ℝ) (mode : Mode) :
    (coeffs e (basic e) mode).sinXMO = (Str3.consts (toEl e)).sinmo := by
  coef_unfold
theorem eta_eq (e : Sgp4.Elements ℝ) (mode : Mode) :
    (coeffs e (basic e) mode).eta = (Str3.consts (toEl e)).eta := by
  coef_unfold
theorem x3thm1_eq (e : Sgp4.Elements ℝ) (mode : Mode) :
    (coeffs e (basic e) mode).x3thm1 = (Str3.consts (toEl e)).x3thm1 := by
  coef_unfold
theorem x1mth2_eq (e : Sgp4.Elements ℝ) (mode : Mode) :
    (coeffs e (basic e) mode).x1mth2 = (Str3.consts (toEl e)).x1mth2 := by
  coef_unfold
theorem x7thm1_eq (e : Sgp4.Elements ℝ) (mode : Mode) :
    (coeffs e (basic e) mode).x7thm1 = (Str3.consts (toEl e)).x7thm1 := by
  coef_unfold
theorem d2_eq (e : Sgp4.Elements ℝ) (mode : Mode) :
    (coeffs e (basic e) mode).d2 = (Str3.consts (toEl e)).d2 := by
  coef_unfold
theorem d3_eq (e : Sgp4.Elements ℝ) (mode : Mode) :
    (coeffs e (basic e) mode).d3 = (Str3.consts (toEl e)).d3 := by
  coef_unfold
theorem d4_eq (e : Sgp4.Elements ℝ) (mode : Mode) :
    (coeffs e (basic e) mode).d4 = (Str3.consts (toEl e)).d4 := by
  coef_unfold
theorem t3cof_eq (e : Sgp4.Elements ℝ) (mode : Mode) :
    (coeffs e (basic e) mode).t3cof = (Str3.consts (toEl e)).t3cof := by
  coef_unfold
theorem t4cof_eq (e : Sgp4.Elements ℝ) (mode : Mode) :
    (coeffs e (basic e) mode).t4cof = (Str3.consts (toEl e)).t4cof := by
  coef_unfold
theorem t5cof_eq (e : Sgp4.Elements ℝ) (mode : Mode) :
    (coeffs e (basic e) mode).t5cof = (Str3.consts (toEl e)).t5cof := by
  coef_unfold
  rw [mul_assoc (6 : ℝ)]
theorem xnodp_eq (e : Sgp4.Elements ℝ) (mode : Mode) :
    (coeffs e (basic e) mode).xnodp = (Str3.consts (toEl e)).xnodp := by
  coef_unfold
theorem aodp_eq (e : Sgp4.Elements ℝ) (mode : Mode) :
    (coeffs e (basic e) mode).aodp = (Str3.consts (toEl e)).aodp := by
  coef_unfold
theorem cosIO_eq (e : Sgp4.Elements ℝ) (mode : Mode) :
    (coeffs e (basic e) mode).cosIO = (Str3.consts (toEl e)).cosio := by
  coef_unfold
theorem sinIO_eq (e : Sgp4.Elements ℝ) (mode : Mode) :
    (coeffs e (basic e) mode).sinIO = (Str3.consts (toEl e)).sinio := by
  coef_unfold

end PV.C01
