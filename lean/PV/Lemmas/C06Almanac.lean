/-
  PV.Lemmas.C06Almanac — closeness of the code's solar series to the Astronomical-Almanac
  low-precision formulas (PV.Spec.Almanac) on |n| ≤ 18263 days (1950–2050), over ℝ.
-/
import PV.NumReal
import PV.Model.Astro
import PV.Spec.Almanac
import Mathlib.Analysis.Real.Pi.Bounds
import Mathlib.Analysis.SpecialFunctions.Trigonometric.Bounds
namespace PV.C06L
open PV.Astro
open PV

/-! ### real readings -/

/-- the code's mean anomaly in degrees, as a polynomial of j = d/36525 -/
noncomputable def anomalyDegPoly (j : ℝ) : ℝ :=
  357.52910 + 35999.05030 * j - 0.0001559 * j * j - 0.00000048 * j * j * j

theorem sunMeanAnomaly_real (d : ℝ) :
    sunMeanAnomaly d = anomalyDegPoly (d / 36525) * (Real.pi / 180) := by
  simp only [sunMeanAnomaly, anomalyDegPoly, r_deg2rad, r_add, r_sub, r_mul, r_div, r_ofNat, r_ofSci]

/-- the code's ecliptic longitude in degrees (before `deg2rad`) -/
noncomputable def eclLonDegCode (d : ℝ) : ℝ :=
  280.46645 + 36000.76983 * (d / 36525) + 0.0003032 * (d / 36525) * (d / 36525)
  + ((1.914600 - 0.004817 * (d / 36525) - 0.000014 * (d / 36525) * (d / 36525))
        * Real.sin (sunMeanAnomaly d)
     + (0.019993 - 0.000101 * (d / 36525)) * Real.sin (2 * sunMeanAnomaly d)
     + 0.000290 * Real.sin (3 * sunMeanAnomaly d))

theorem sunEclipticLongitude_real (d : ℝ) :
    sunEclipticLongitude d = eclLonDegCode d * (Real.pi / 180) := by
  simp only [sunEclipticLongitude, eclLonDegCode, r_deg2rad, r_add, r_sub, r_mul, r_div, r_ofNat,
    r_ofSci, r_sin]

/-- the code's obliquity in degrees -/
noncomputable def obliquityDegCode (d : ℝ) : ℝ :=
  23 + 26 / 60 + 21.448 / 3600
    - (46.8150 * (d / 36525) + 0.00059 * (d / 36525) * (d / 36525)
        - 0.001813 * (d / 36525) * (d / 36525) * (d / 36525)) / 3600

theorem obliquity_real (d : ℝ) : obliquity d = obliquityDegCode d * (Real.pi / 180) := by
  simp only [obliquity, obliquityDegCode, r_deg2rad, r_add, r_sub, r_mul, r_div, r_ofNat, r_ofSci]

theorem distance_real (d : ℝ) :
    sunEarthDistanceCorrection d = 1 - 0.0167 * Real.cos (2 * Real.pi * (d - 3) / 365.25636) := by
  simp only [sunEarthDistanceCorrection, r_sub, r_mul, r_div, r_ofNat, r_ofSci, r_cos, r_pi]
  simp only [Nat.cast_ofNat, Nat.cast_one]

theorem almanac_anomaly_real (n : ℝ) :
    Num.deg2rad (Almanac.meanAnomalyDeg n) = (357.528 + 0.9856003 * n) * (Real.pi / 180) := by
  simp only [Almanac.meanAnomalyDeg, r_deg2rad, r_add, r_mul, r_ofSci]

theorem almanac_eclLon_real (n : ℝ) :
    Almanac.eclLonDeg n = 280.460 + 0.9856474 * n
      + 1.915 * Real.sin ((357.528 + 0.9856003 * n) * (Real.pi / 180))
      + 0.020 * Real.sin (2 * ((357.528 + 0.9856003 * n) * (Real.pi / 180))) := by
  simp only [Almanac.eclLonDeg, Almanac.meanLongitudeDeg, Almanac.meanAnomalyDeg, r_deg2rad, r_add,
    r_mul, r_ofSci, r_ofNat, r_sin]

theorem almanac_obliquity_real (n : ℝ) : Almanac.obliquityDeg n = 23.439 - 0.0000004 * n := by
  simp only [Almanac.obliquityDeg, r_sub, r_mul, r_ofSci]

theorem almanac_distance_real (n : ℝ) :
    Almanac.distanceAU n = 1.00014
      - 0.01671 * Real.cos ((357.528 + 0.9856003 * n) * (Real.pi / 180))
      - 0.00014 * Real.cos (2 * ((357.528 + 0.9856003 * n) * (Real.pi / 180))) := by
  simp only [Almanac.distanceAU, Almanac.meanAnomalyDeg, r_deg2rad, r_add, r_sub, r_mul, r_ofSci,
    r_ofNat, r_cos]

end PV.C06L

namespace PV.C06L
open PV.Astro
open PV

/-! ### elementary bounds -/

theorem abs_mul_le' {a b A B : ℝ} (ha : |a| ≤ A) (hb : |b| ≤ B) : |a * b| ≤ A * B := by
  rw [abs_mul]; exact mul_le_mul ha hb (abs_nonneg _) (le_trans (abs_nonneg _) ha)

/-- |e·π/180| ≤ c·0.0175 when |e| ≤ c -/
theorem abs_deg2rad_le {e c : ℝ} (he : |e| ≤ c) : |e * (Real.pi / 180)| ≤ c * 0.0175 := by
  have hpi := Real.pi_lt_d2
  have hpos := Real.pi_pos
  have h := abs_mul_le' he (show |Real.pi / 180| ≤ 0.0175 by
    rw [abs_of_pos (by positivity)]; linarith)
  exact h

/-- |n| ≤ 18263 days ⇒ bounds on j = n/36525 and its powers -/
theorem j_bounds (d : ℝ) (hd : |d| ≤ 18263) :
    |d / 36525| ≤ 0.50002 ∧ (d / 36525) ^ 2 ≤ 0.2501 ∧ |(d / 36525) ^ 3| ≤ 0.1251 := by
  have h1 : |d / 36525| ≤ 0.50002 := by
    rw [abs_div, abs_of_pos (by norm_num : (0:ℝ) < 36525), div_le_iff₀ (by norm_num)]
    linarith
  have h0 := abs_nonneg (d / 36525)
  have h2 : |d / 36525| ^ 2 ≤ 0.2501 := by nlinarith
  have h3 : |d / 36525| ^ 3 ≤ 0.1251 := by nlinarith [pow_nonneg h0 2]
  refine ⟨h1, ?_, ?_⟩
  · rwa [sq_abs] at h2
  · rwa [abs_pow]

/-- the two mean anomalies differ by at most 2.7e-5 rad -/
theorem anomaly_close (d : ℝ) (hd : |d| ≤ 18263) :
    |sunMeanAnomaly d - (357.528 + 0.9856003 * d) * (Real.pi / 180)| ≤ 2.7e-5 := by
  obtain ⟨hj, hj2, hj3⟩ := j_bounds d hd
  rw [sunMeanAnomaly_real, anomalyDegPoly]
  generalize hjj : d / 36525 = j at hj hj2 hj3
  have hdj : d = 36525 * j := by rw [← hjj]; ring
  subst hdj
  obtain ⟨a1, a2⟩ := abs_le.mp hj
  obtain ⟨c1, c2⟩ := abs_le.mp hj3
  have h0 : 0 ≤ j ^ 2 := sq_nonneg j
  have he : |357.52910 + 35999.05030 * j - 0.0001559 * j * j - 0.00000048 * j * j * j
      - (357.528 + 0.9856003 * (36525 * j))| ≤ 0.0015 := by
    rw [abs_le]; constructor <;> nlinarith
  have := abs_deg2rad_le he
  rw [← sub_mul]
  refine le_trans this (by norm_num)

/-- abstract triangle-inequality core of the longitude comparison -/
theorem lon_core (t1 a1 A b1 B sg u s2g v s3m : ℝ) (ht1 : |t1| ≤ 0.0073) (ha1 : |a1| ≤ 0.00282)
    (hA : |A| ≤ 1.92) (hb1 : |b1| ≤ 0.00006) (hB : |B| ≤ 0.0201) (hsg : |sg| ≤ 1)
    (hu : |u| ≤ 2.7e-5) (hs2g : |s2g| ≤ 1) (hv : |v| ≤ 5.4e-5) (hs3 : |s3m| ≤ 1) :
    |t1 + a1 * sg + A * u + b1 * s2g + B * v + 0.00029 * s3m| ≤ 0.012 := by
  obtain ⟨p1, p1'⟩ := abs_le.mp (abs_mul_le' ha1 hsg)
  obtain ⟨p2, p2'⟩ := abs_le.mp (abs_mul_le' hA hu)
  obtain ⟨p3, p3'⟩ := abs_le.mp (abs_mul_le' hb1 hs2g)
  obtain ⟨p4, p4'⟩ := abs_le.mp (abs_mul_le' hB hv)
  obtain ⟨p5, p5'⟩ := abs_le.mp ht1
  obtain ⟨p6, p6'⟩ := abs_le.mp hs3
  rw [abs_le]; constructor <;> linarith

/-- ecliptic longitude: code vs Almanac, in degrees, before any reduction -/
theorem eclLon_close_deg (d : ℝ) (hd : |d| ≤ 18263) :
    |eclLonDegCode d - Almanac.eclLonDeg d| ≤ 0.012 := by
  obtain ⟨hj, hj2, hj3⟩ := j_bounds d hd
  have hm := anomaly_close d hd
  rw [almanac_eclLon_real, eclLonDegCode]
  generalize sunMeanAnomaly d = m at hm
  generalize hjj : d / 36525 = j at hj hj2 hj3
  have hdj : d = 36525 * j := by rw [← hjj]; ring
  subst hdj
  generalize (357.528 + 0.9856003 * (36525 * j)) * (Real.pi / 180) = g at hm
  obtain ⟨a1, a2⟩ := abs_le.mp hj
  have h0 : 0 ≤ j ^ 2 := sq_nonneg j
  have hu : |Real.sin m - Real.sin g| ≤ 2.7e-5 := le_trans (Real.abs_sin_sub_sin_le m g) hm
  have hv : |Real.sin (2 * m) - Real.sin (2 * g)| ≤ 5.4e-5 := by
    refine le_trans (Real.abs_sin_sub_sin_le _ _) ?_
    rw [← mul_sub, abs_mul, abs_of_pos (by norm_num : (0:ℝ) < 2)]
    linarith
  have ht1 : |280.46645 + 36000.76983 * j + 0.0003032 * j * j
      - (280.460 + 0.9856474 * (36525 * j))| ≤ 0.0073 := by
    rw [abs_le]; constructor <;> nlinarith
  have ha1 : |1.914600 - 0.004817 * j - 0.000014 * j * j - 1.915| ≤ 0.00282 := by
    rw [abs_le]; constructor <;> nlinarith
  have hA : |1.914600 - 0.004817 * j - 0.000014 * j * j| ≤ 1.92 := by
    rw [abs_le]; constructor <;> nlinarith
  have hb1 : |0.019993 - 0.000101 * j - 0.020| ≤ 0.00006 := by
    rw [abs_le]; constructor <;> linarith
  have hB : |0.019993 - 0.000101 * j| ≤ 0.0201 := by
    rw [abs_le]; constructor <;> linarith
  have key := lon_core _ _ _ _ _ _ _ _ _ _ ht1 ha1 hA hb1 hB (Real.abs_sin_le_one g) hu
    (Real.abs_sin_le_one (2 * g)) hv (Real.abs_sin_le_one (3 * m))
  convert key using 2
  ring

end PV.C06L

namespace PV.C06L
open PV.Astro
open PV

/-- obliquity: code vs Almanac, in degrees -/
theorem obliquity_close_deg (d : ℝ) (hd : |d| ≤ 18263) :
    |obliquityDegCode d - Almanac.obliquityDeg d| ≤ 0.0011 := by
  obtain ⟨hj, hj2, hj3⟩ := j_bounds d hd
  rw [almanac_obliquity_real, obliquityDegCode]
  generalize hjj : d / 36525 = j at hj hj2 hj3
  have hdj : d = 36525 * j := by rw [← hjj]; ring
  subst hdj
  obtain ⟨a1, a2⟩ := abs_le.mp hj
  obtain ⟨c1, c2⟩ := abs_le.mp hj3
  have h0 : 0 ≤ j ^ 2 := sq_nonneg j
  rw [abs_le]; constructor <;> nlinarith

/-- the obliquity stays between 23.43° and 23.45° on the range, hence cos ε > 0 -/
theorem obliquityDeg_range (d : ℝ) (hd : |d| ≤ 18263) :
    23.43 ≤ obliquityDegCode d ∧ obliquityDegCode d ≤ 23.45 := by
  obtain ⟨hj, hj2, hj3⟩ := j_bounds d hd
  rw [obliquityDegCode]
  generalize d / 36525 = j at hj hj2 hj3
  obtain ⟨a1, a2⟩ := abs_le.mp hj
  obtain ⟨c1, c2⟩ := abs_le.mp hj3
  have h0 : 0 ≤ j ^ 2 := sq_nonneg j
  constructor <;> nlinarith

theorem cos_obliquity_pos (d : ℝ) (hd : |d| ≤ 18263) : 0 < Real.cos (obliquity d) := by
  obtain ⟨h1, h2⟩ := obliquityDeg_range d hd
  rw [obliquity_real]
  have hpos := Real.pi_pos
  apply Real.cos_pos_of_mem_Ioo
  constructor
  · have : 0 ≤ obliquityDegCode d * (Real.pi / 180) := by positivity
    linarith
  · nlinarith

/-- distance factor: code vs Almanac R, in AU -/
theorem distance_close_au (d : ℝ) (hd : |d| ≤ 18263) :
    |sunEarthDistanceCorrection d - Almanac.distanceAU d| ≤ 0.0005 := by
  rw [distance_real, almanac_distance_real]
  obtain ⟨d1, d2⟩ := abs_le.mp hd
  have hpi := Real.pi_lt_d2
  have hpos := Real.pi_pos
  generalize hg : (357.528 + 0.9856003 * d) * (Real.pi / 180) = g
  -- the code's phase, shifted by one revolution, is within 0.0114 rad of g
  have hph : |(2 * Real.pi * (d - 3) / 365.25636 + 2 * Real.pi) - g| ≤ 0.0114 := by
    have e : (2 * Real.pi * (d - 3) / 365.25636 + 2 * Real.pi) - g
        = Real.pi * ((2 / 365.25636 - 0.9856003 / 180) * d
            + (2 - 6 / 365.25636 - 357.528 / 180)) := by
      rw [← hg]; ring
    have hlin : |(2 / 365.25636 - 0.9856003 / 180) * d
        + (2 - 6 / 365.25636 - 357.528 / 180)| ≤ 0.0036 := by
      rw [abs_le]; constructor <;> linarith
    rw [e, abs_mul, abs_of_pos hpos]
    have := abs_nonneg ((2 / 365.25636 - 0.9856003 / 180) * d
        + (2 - 6 / 365.25636 - 357.528 / 180))
    nlinarith
  have hcos : |Real.cos (2 * Real.pi * (d - 3) / 365.25636) - Real.cos g| ≤ 0.0114 := by
    rw [← Real.cos_add_two_pi (2 * Real.pi * (d - 3) / 365.25636)]
    exact le_trans (Real.abs_cos_sub_cos_le _ _) hph
  obtain ⟨q1, q2⟩ := abs_le.mp hcos
  obtain ⟨r1, r2⟩ := abs_le.mp (Real.abs_cos_le_one g)
  obtain ⟨s1, s2⟩ := abs_le.mp (Real.abs_cos_le_one (2 * g))
  rw [abs_le]; constructor <;> linarith

/-- the distance factor stays within the eccentricity band -/
theorem distance_range' (d : ℝ) :
    1 - 0.0167 ≤ sunEarthDistanceCorrection d ∧ sunEarthDistanceCorrection d ≤ 1 + 0.0167 := by
  rw [distance_real]
  obtain ⟨r1, r2⟩ := abs_le.mp (Real.abs_cos_le_one (2 * Real.pi * (d - 3) / 365.25636))
  constructor <;> linarith

end PV.C06L

namespace PV.C06L
open PV.Astro
open PV

/-- at J2000.0 the sun is not at ecliptic longitude π (mod 2π): the guard of
    `sunRaDec_eq_textbook` is satisfiable -/
theorem eclLon_zero_guard : Real.cos (sunEclipticLongitude 0) ≠ -1 := by
  rw [sunEclipticLongitude_real]
  have hb : 278 ≤ eclLonDegCode 0 ∧ eclLonDegCode 0 ≤ 283 := by
    rw [eclLonDegCode]
    simp only [zero_div, mul_zero, sub_zero, add_zero]
    obtain ⟨a1, a2⟩ := abs_le.mp (Real.abs_sin_le_one (sunMeanAnomaly 0))
    obtain ⟨b1, b2⟩ := abs_le.mp (Real.abs_sin_le_one (2 * sunMeanAnomaly 0))
    obtain ⟨c1, c2⟩ := abs_le.mp (Real.abs_sin_le_one (3 * sunMeanAnomaly 0))
    constructor <;> linarith
  obtain ⟨hb1, hb2⟩ := hb
  have hpos := Real.pi_pos
  have h1 : Real.pi < eclLonDegCode 0 * (Real.pi / 180) := by nlinarith
  have h2 : eclLonDegCode 0 * (Real.pi / 180) < 3 * Real.pi := by nlinarith
  intro hc
  have h3 : Real.cos (eclLonDegCode 0 * (Real.pi / 180) - Real.pi) = 1 := by
    rw [Real.cos_sub_pi, hc]; norm_num
  have h4 := (Real.cos_eq_one_iff_of_lt_of_lt (by linarith) (by linarith)).mp h3
  linarith

end PV.C06L
