/-
  PV.Lemmas.C08Time — one instant in every time representation: the tick counts of
  PV.Model.Time denote the same rational number of days; binary64 exactness of the tick
  counts (|n| < 2^53); the nanosecond split of `_days`; non-representable nanosecond counts.

  Floating point is kept abstract: `toF : ℤ → ℚ` is the int → double conversion (assumed exact
  below 2^53, as IEEE-754 binary64 is), `rnd : ℚ → F` the rounding of a correctly rounded
  division, `fadd` the float addition.  No property of `rnd` is used.
-/
import PV.NumReal
import PV.Model.Kinds
import PV.Lemmas.C12Time
import Mathlib.Tactic.Ring
import Mathlib.Tactic.Linarith
import Mathlib.Tactic.FieldSimp
import Mathlib.Tactic.NormNum
namespace PV.C08L
open PV.Time

/-- 2^53: integers below it in absolute value are binary64 numbers -/
def two53 : ℤ := 9007199254740992

theorem two53_eq : two53 = 2 ^ 53 := by norm_num [two53]

/-- the ticks that hold the instant `us` (µs since 1970) in unit `u` -/
def ticksOf (u : Time.Unit) (us : ℤ) : ℤ := us * 1000 / nsPerTick u

/-- the instant is a whole number of ticks of unit `u` -/
def Representable (u : Time.Unit) (us : ℤ) : Prop := us * 1000 % nsPerTick u = 0

instance (u : Time.Unit) (us : ℤ) : Decidable (Representable u us) := by
  unfold Representable; infer_instance

theorem ticksOf_mul (u : Time.Unit) (us : ℤ) (h : Representable u us) :
    ticksOf u us * nsPerTick u = us * 1000 := by
  unfold ticksOf
  exact Int.ediv_mul_cancel (Int.dvd_of_emod_eq_zero h)

/-- exact day count of a representable instant, whatever the unit: (µs − J2000 µs) / 86400e6 -/
theorem ticks_days (u : Time.Unit) (us : ℤ) (h : Representable u us) :
    ((jd2000Ticks u (ticksOf u us)).1 : ℚ) / ((jd2000Ticks u (ticksOf u us)).2 : ℚ)
      = ((us - j2000us : ℤ) : ℚ) / 86400000000 := by
  rw [PV.C12L.jd2000Ticks_value, ticksOf_mul u us h]
  push_cast
  rw [div_eq_div_iff (by norm_num) (by norm_num)]
  ring

/-! ### the abstract double-precision day count -/

section FloatModel
variable {F : Type}

/-- `float(a) / float(b)` correctly rounded -/
def fdiv (toF : ℤ → ℚ) (rnd : ℚ → F) (a b : ℤ) : F := rnd (toF a / toF b)

/-- `jdays2000` as the code computes it on doubles: the tick difference over the ticks per day; for
    nanosecond ticks the whole microseconds and the sub-microsecond remainder separately
    (`astronomy._days` after f073e48).  Same numerators / denominators as `Time.jdays2000`. -/
def fdays (toF : ℤ → ℚ) (rnd : ℚ → F) (fadd : F → F → F) (u : Time.Unit) (ticks : ℤ) : F :=
  let n := (jd2000Ticks u ticks).1
  let dn := (jd2000Ticks u ticks).2
  match u with
  | .ns => fadd (fdiv toF rnd (n / 1000) 86400000000) (fdiv toF rnd (n - n / 1000 * 1000) dn)
  | _ => fdiv toF rnd n dn

/-- the day count before f073e48: nanosecond ticks divided directly -/
def fdaysUnrepaired (toF : ℤ → ℚ) (rnd : ℚ → F) (u : Time.Unit) (ticks : ℤ) : F :=
  fdiv toF rnd (jd2000Ticks u ticks).1 (jd2000Ticks u ticks).2

theorem fdiv_eq_of_exact (toF : ℤ → ℚ) (rnd : ℚ → F)
    (hexact : ∀ n : ℤ, |n| < two53 → toF n = (n : ℚ))
    (a1 b1 a2 b2 : ℤ) (ha1 : |a1| < two53) (hb1 : |b1| < two53) (ha2 : |a2| < two53) (hb2 : |b2| < two53)
    (hq : (a1 : ℚ) / (b1 : ℚ) = (a2 : ℚ) / (b2 : ℚ)) :
    fdiv toF rnd a1 b1 = fdiv toF rnd a2 b2 := by
  unfold fdiv
  rw [hexact a1 ha1, hexact b1 hb1, hexact a2 ha2, hexact b2 hb2, hq]

end FloatModel

/-! ### tick counts between 1900 and 2100 -/

theorem range_1900_2100 :
    usOfCivil 1900 1 1 0 0 0 0 = -2208988800000000 ∧ usOfCivil 2101 1 1 0 0 0 0 = 4133980800000000 := by
  constructor <;> decide

theorem nsPerTick_cases (u : Time.Unit) :
    nsPerTick u = 1 ∨ nsPerTick u = 1000 ∨ nsPerTick u = 1000000 ∨ nsPerTick u = 1000000000 ∨
      nsPerTick u = 60000000000 := by
  cases u <;> simp [nsPerTick]

/-- numerator and denominator of the day count, for every unit except nanoseconds, are below 2^53
    for instants between 1900-01-01 and 2101-01-01 -/
theorem ticks_below_two53 (u : Time.Unit) (hu : u ≠ .ns) (us : ℤ)
    (h1 : -2208988800000000 ≤ us) (h2 : us < 4133980800000000) (h : Representable u us) :
    |(jd2000Ticks u (ticksOf u us)).1| < two53 ∧ |(jd2000Ticks u (ticksOf u us)).2| < two53 := by
  have hm := ticksOf_mul u us h
  unfold two53
  cases u with
  | ns => exact absurd rfl hu
  | us =>
    simp only [jd2000Ticks, nsPerTick, j2000us] at hm ⊢
    constructor <;> rw [abs_lt] <;> constructor <;> omega
  | ms =>
    simp only [jd2000Ticks, nsPerTick, j2000us] at hm ⊢
    constructor <;> rw [abs_lt] <;> constructor <;> omega
  | s =>
    simp only [jd2000Ticks, nsPerTick, j2000us] at hm ⊢
    constructor <;> rw [abs_lt] <;> constructor <;> omega
  | m =>
    simp only [jd2000Ticks, nsPerTick, j2000us] at hm ⊢
    constructor <;> rw [abs_lt] <;> constructor <;> omega

/-! ### the nanosecond split -/

/-- for an instant that is a whole number of microseconds the split of `_days` gives the microsecond
    numerator and a zero remainder -/
theorem ns_split (us : ℤ) :
    (jd2000Ticks .ns (us * 1000)).1 / 1000 = (jd2000Ticks .us us).1 ∧
    (jd2000Ticks .ns (us * 1000)).1 - (jd2000Ticks .ns (us * 1000)).1 / 1000 * 1000 = 0 := by
  simp only [jd2000Ticks, nsPerTick, j2000us]
  constructor <;> omega

/-! ### non-representable nanosecond counts -/

/-- `n` is a binary64 number: a 53-bit significand times a power of two (exponent range ignored) -/
def IsDouble (n : ℤ) : Prop := ∃ (m : ℤ) (e : ℕ), |m| < two53 ∧ n = m * 2 ^ e

theorem isDouble_of_small (n : ℤ) (h : |n| < two53) : IsDouble n := ⟨n, 0, h, by simp⟩

/-- an odd number of at least 54 bits, times a power of two, is not a binary64 number -/
theorem odd_big_not_double (k : ℤ) (e0 : ℕ) (hodd : k % 2 = 1) (hbig : two53 ≤ |k|) :
    ¬ IsDouble (k * 2 ^ e0) := by
  rintro ⟨m, e, hm, he⟩
  rcases Nat.lt_or_ge e0 e with hlt | hge
  · -- e > e0: k = m * 2^(e - e0) is even
    obtain ⟨d, rfl⟩ : ∃ d, e = e0 + (d + 1) := ⟨e - e0 - 1, by omega⟩
    have h2 : (2 : ℤ) ^ e0 ≠ 0 := pow_ne_zero _ (by norm_num)
    have : k = m * 2 ^ (d + 1) := by
      apply mul_right_cancel₀ h2
      rw [he, pow_add]; ring
    have hk : k = 2 * (m * 2 ^ d) := by rw [this, pow_succ]; ring
    omega
  · -- e ≤ e0: m = k * 2^(e0 - e) has at least 54 bits
    obtain ⟨d, rfl⟩ : ∃ d, e0 = e + d := ⟨e0 - e, by omega⟩
    have h2 : (2 : ℤ) ^ e ≠ 0 := pow_ne_zero _ (by norm_num)
    have hmk : m = k * 2 ^ d := by
      apply mul_right_cancel₀ h2
      rw [← he, pow_add]; ring
    have hpos : (1 : ℤ) ≤ 2 ^ d := one_le_pow₀ (by norm_num)
    have : |m| = |k| * 2 ^ d := by
      rw [hmk, abs_mul, abs_of_pos (by positivity : (0 : ℤ) < 2 ^ d)]
    have hk0 : 0 ≤ |k| := abs_nonneg k
    nlinarith

/-! ### one instant, every representation: the same double -/

section SameDouble
variable {F : Type}

theorem representable_us (us : ℤ) : Representable .us us := by
  unfold Representable; simp [nsPerTick]

theorem representable_ns (us : ℤ) : Representable .ns us := by
  unfold Representable; simp [nsPerTick]

theorem ticksOf_us (us : ℤ) : ticksOf .us us = us := by
  unfold ticksOf; simp [nsPerTick]

theorem ticksOf_ns (us : ℤ) : ticksOf .ns us = us * 1000 := by
  unfold ticksOf; simp [nsPerTick]

/-- the repaired nanosecond path gives the microsecond path's double: the first quotient *is* the
    microsecond quotient and the remainder term is `rnd 0` -/
theorem fdays_ns_eq_us (toF : ℤ → ℚ) (rnd : ℚ → F) (fadd : F → F → F)
    (hzero : toF 0 = 0) (hadd0 : ∀ x : F, fadd x (rnd 0) = x) (us : ℤ) :
    fdays toF rnd fadd .ns (us * 1000) = fdays toF rnd fadd .us us := by
  obtain ⟨h1, h2⟩ := ns_split us
  have hd : (jd2000Ticks .us us).2 = 86400000000 := by simp [jd2000Ticks, nsPerTick]
  simp only [fdays]
  rw [h2, h1, hd]
  have : fdiv toF rnd 0 (jd2000Ticks .ns (us * 1000)).2 = rnd 0 := by
    unfold fdiv; rw [hzero, zero_div]
  rw [this, hadd0]

/-- every representation of an instant between 1900 and 2100 gives the double of its microsecond
    representation -/
theorem fdays_eq_us (toF : ℤ → ℚ) (rnd : ℚ → F) (fadd : F → F → F)
    (hexact : ∀ n : ℤ, |n| < two53 → toF n = (n : ℚ)) (hadd0 : ∀ x : F, fadd x (rnd 0) = x)
    (u : Time.Unit) (us : ℤ) (h1 : -2208988800000000 ≤ us) (h2 : us < 4133980800000000)
    (hu : Representable u us) :
    fdays toF rnd fadd u (ticksOf u us) = fdays toF rnd fadd .us us := by
  have hzero : toF 0 = 0 := by
    have := hexact 0 (by norm_num [two53]); simpa using this
  have key : ∀ v : Time.Unit, v ≠ .ns → Representable v us →
      fdiv toF rnd (jd2000Ticks v (ticksOf v us)).1 (jd2000Ticks v (ticksOf v us)).2
        = fdiv toF rnd (jd2000Ticks .us us).1 (jd2000Ticks .us us).2 := by
    intro v hv hr
    obtain ⟨a1, a2⟩ := ticks_below_two53 v hv us h1 h2 hr
    obtain ⟨b1, b2⟩ := ticks_below_two53 .us (by decide) us h1 h2 (representable_us us)
    have e1 := ticks_days v us hr
    have e2 := ticks_days .us us (representable_us us)
    rw [ticksOf_us] at b1 b2 e2
    exact fdiv_eq_of_exact toF rnd hexact _ _ _ _ a1 a2 b1 b2 (e1.trans e2.symm)
  cases u with
  | ns => rw [ticksOf_ns]; exact fdays_ns_eq_us toF rnd fadd hzero hadd0 us
  | us => rw [ticksOf_us]
  | ms => exact key .ms (by decide) hu
  | s => exact key .s (by decide) hu
  | m => exact key .m (by decide) hu

/-- the unit an instant travels in after `dt2np`, per kind of the `utc_time` argument -/
def unitOfKind (t : PV.Kinds.TK) : Time.Unit := (PV.Kinds.dt2np t).2.unit

end SameDouble

/-! ### nanosecond counts around J2000 -/

/-- more than 105 days from J2000 the nanosecond tick difference exceeds 2^53 -/
theorem ns_ticks_exceed (us : ℤ) (h : 105 * 86400000000 ≤ |us - j2000us|) :
    two53 < |(jd2000Ticks .ns (us * 1000)).1| := by
  simp only [jd2000Ticks, nsPerTick, j2000us, two53] at h ⊢
  rcases le_abs'.mp h with h | h
  · rw [abs_of_neg (by omega)]; omega
  · rw [abs_of_pos (by omega)]; omega

/-- within 104 days of J2000 it does not: there the unrepaired path was exact too -/
theorem ns_ticks_small (us : ℤ) (h : |us - j2000us| ≤ 104 * 86400000000) :
    |(jd2000Ticks .ns (us * 1000)).1| < two53 := by
  simp only [jd2000Ticks, nsPerTick, j2000us, two53] at h ⊢
  obtain ⟨h1, h2⟩ := abs_le.mp h
  rw [abs_lt]; constructor <;> omega

/-- the nanosecond count of a whole-microsecond instant is 2^3 · 125 · (µs from J2000): when that
    number of microseconds is odd and 125 times it has 54 bits or more, the count is no double -/
theorem ns_ticks_not_double (us : ℤ) (hodd : (us - j2000us) % 2 = 1) (hbig : two53 ≤ |us - j2000us| * 125) :
    ¬ IsDouble (jd2000Ticks .ns (us * 1000)).1 := by
  have e : (jd2000Ticks .ns (us * 1000)).1 = ((us - j2000us) * 125) * 2 ^ 3 := by
    simp only [jd2000Ticks, nsPerTick, j2000us]; norm_num; ring
  rw [e]
  apply odd_big_not_double
  · omega
  · rw [abs_mul]; simpa using hbig

/-- the abstract double day count read with exact arithmetic is the shared model `Time.jdays2000`
    (the definition the driver executes on `Float`) read over ℝ -/
theorem fdays_real (u : Time.Unit) (t : ℤ) :
    fdays (fun n => (n : ℚ)) (fun q => (q : ℝ)) (· + ·) u t = (Time.jdays2000 u t : ℝ) := by
  cases u <;> simp only [fdays, fdiv, Time.jdays2000, r_div, r_add, PV.C12L.r_ofInt] <;> push_cast <;> rfl

end PV.C08L
