/-
  Helper lemmas for C04Conv: the model's latitude loop (`PV.Look.latStep` / `latLoop`) over ℝ is the
  contraction of PV/Lemmas/C04ContractCore.lean with e² = F(2 − F); termination within 5 passes from
  the code's initial value, the polar axis, the unique fixed point, and the distance of the exit value
  from it.
-/
import PV.Lemmas.C04
import PV.Lemmas.C04ContractCore
import Mathlib.Topology.MetricSpace.Contracting

namespace PV.C04C
open PV PV.Look PV.Spec.Topo PV.C04 Real

theorem eccOK_wgs84 : EccOK (ecc2 wgs84F) := by
  unfold EccOK ecc2 wgs84F; constructor <;> norm_num

theorem latStep_fst_eq_Tmap (z r φ : ℝ) : (latStep z r φ).1 = Tmap (ecc2 wgs84F) z r φ := by
  rw [latStep_fst, latStep_snd]
  unfold Tmap gfun Wd
  congr 2
  ring

theorem latStep_snd_eq_cfun (z r φ : ℝ) : (latStep z r φ).2 = cfun (ecc2 wgs84F) φ := by
  rw [latStep_snd]; rfl

/-- one unfolding of the model's loop over ℝ -/
theorem latLoop_succ (z r : ℝ) (fuel : ℕ) (lat2 : ℝ) :
    latLoop z r (fuel + 1) lat2 =
      if |(latStep z r lat2).1 - lat2| < 1e-10 then
        some ((latStep z r lat2).1, (latStep z r lat2).2, 1)
      else (latLoop z r fuel (latStep z r lat2).1).map (fun res => (res.1, res.2.1, res.2.2 + 1)) := by
  rw [latLoop]
  simp only [r_lt, r_abs, r_sub, r_ofSci, decide_eq_true_eq]
  split_ifs with h
  · rfl
  · cases latLoop z r fuel (latStep z r lat2).1 with
    | none => rfl
    | some res => rfl

/-- abstract termination: if the body is `7/1000`-Lipschitz and the current residual times `(7/1000)^n`
    is below the exit threshold, the loop returns within `n + 1` passes -/
theorem latLoop_terminates_aux (z r : ℝ)
    (hL : ∀ a b, |(latStep z r a).1 - (latStep z r b).1| ≤ 7 / 1000 * |a - b|) :
    ∀ (n fuel : ℕ) (lat2 : ℝ), |(latStep z r lat2).1 - lat2| * (7 / 1000) ^ n < 1e-10 → n < fuel →
      ∃ lat c m, latLoop z r fuel lat2 = some (lat, c, m) ∧ 1 ≤ m ∧ m ≤ n + 1 := by
  intro n
  induction n with
  | zero =>
    intro fuel lat2 h hf
    obtain ⟨f, rfl⟩ : ∃ f, fuel = f + 1 := ⟨fuel - 1, by omega⟩
    rw [pow_zero, mul_one] at h
    rw [latLoop_succ, if_pos h]
    exact ⟨_, _, 1, rfl, le_refl _, by omega⟩
  | succ n ih =>
    intro fuel lat2 h hf
    obtain ⟨f, rfl⟩ : ∃ f, fuel = f + 1 := ⟨fuel - 1, by omega⟩
    rw [latLoop_succ]
    split_ifs with hex
    · exact ⟨_, _, 1, rfl, le_refl _, by omega⟩
    · have hb : |(latStep z r (latStep z r lat2).1).1 - (latStep z r lat2).1| * (7 / 1000) ^ n < 1e-10 := by
        have h1 := hL (latStep z r lat2).1 lat2
        have h2 : (0 : ℝ) ≤ (7 / 1000) ^ n := by positivity
        have h3 := mul_le_mul_of_nonneg_right h1 h2
        rw [pow_succ] at h
        calc _ ≤ 7 / 1000 * |(latStep z r lat2).1 - lat2| * (7 / 1000) ^ n := h3
          _ = |(latStep z r lat2).1 - lat2| * ((7 / 1000) ^ n * (7 / 1000)) := by ring
          _ < 1e-10 := h
      obtain ⟨lat, c, m, hm, h1m, hle⟩ := ih f (latStep z r lat2).1 hb (by omega)
      rw [hm]
      exact ⟨lat, c, m + 1, rfl, by omega, by omega⟩

/-- the contraction, for the model's body -/
theorem latStep_lipschitz' {z r : ℝ} (hr : 0 ≤ r) (hp : 0.99 ^ 2 ≤ r ^ 2 + z ^ 2) (φ₁ φ₂ : ℝ) :
    |(latStep z r φ₁).1 - (latStep z r φ₂).1| ≤ 7 / 1000 * |φ₁ - φ₂| := by
  rw [latStep_fst_eq_Tmap, latStep_fst_eq_Tmap]
  exact Tmap_lipschitz eccOK_wgs84 hr hp φ₁ φ₂

theorem latStep_first_step {z r : ℝ} (hr : 0 ≤ r) (hp : 0.99 ^ 2 ≤ r ^ 2 + z ^ 2) (φ : ℝ) :
    |(latStep z r φ).1 - Complex.arg ⟨r, z⟩| ≤ 7 / 1000 := by
  rw [latStep_fst_eq_Tmap]
  exact Tmap_first_step eccOK_wgs84 hr hp φ

theorem latStep_abs_le {z r : ℝ} (hr : 0 ≤ r) (φ : ℝ) : |(latStep z r φ).1| ≤ π / 2 := by
  rw [latStep_fst_eq_Tmap]
  exact Tmap_range _ hr φ

/-- from the code's initial value `atan2(z, r)`: at most 5 passes -/
theorem latLoop_terminates_init {z r : ℝ} (hr : 0 ≤ r) (hp : 0.99 ^ 2 ≤ r ^ 2 + z ^ 2) {fuel : ℕ}
    (hf : 5 ≤ fuel) :
    ∃ lat c n, latLoop z r fuel (Complex.arg ⟨r, z⟩) = some (lat, c, n) ∧ 1 ≤ n ∧ n ≤ 5 := by
  apply latLoop_terminates_aux z r (latStep_lipschitz' hr hp) 4 fuel _ _ (by omega)
  have h := latStep_first_step hr hp (Complex.arg ⟨r, z⟩)
  have h0 := abs_nonneg ((latStep z r (Complex.arg ⟨r, z⟩)).1 - Complex.arg ⟨r, z⟩)
  calc _ ≤ 7 / 1000 * (7 / 1000 : ℝ) ^ 4 := mul_le_mul_of_nonneg_right h (by positivity)
    _ < 1e-10 := by norm_num

/-- from any start in `[−π/2, π/2]`: at most 6 passes -/
theorem latLoop_terminates_any {z r : ℝ} (hr : 0 ≤ r) (hp : 0.99 ^ 2 ≤ r ^ 2 + z ^ 2) {fuel : ℕ}
    (hf : 6 ≤ fuel) {lat0 : ℝ} (h0 : |lat0| ≤ π / 2) :
    ∃ lat c n, latLoop z r fuel lat0 = some (lat, c, n) ∧ 1 ≤ n ∧ n ≤ 6 := by
  apply latLoop_terminates_aux z r (latStep_lipschitz' hr hp) 5 fuel _ _ (by omega)
  have h1 := latStep_abs_le hr (z := z) lat0
  have h2 : |(latStep z r lat0).1 - lat0| ≤ 4 := by
    have := abs_sub (latStep z r lat0).1 lat0
    have := Real.pi_le_four
    linarith
  calc _ ≤ 4 * (7 / 1000 : ℝ) ^ 5 := mul_le_mul_of_nonneg_right h2 (by positivity)
    _ < 1e-10 := by norm_num

/-- on the polar axis the first pass already meets the exit test: `atan2(z, 0) = ±π/2` is reproduced
    exactly by the body -/
theorem latLoop_pole' {z : ℝ} (hz : 0.99 ^ 2 ≤ z ^ 2) (fuel : ℕ) :
    latLoop z 0 (fuel + 1) (Complex.arg ⟨0, z⟩) =
        some (Complex.arg ⟨0, z⟩, (latStep z 0 (Complex.arg ⟨0, z⟩)).2, 1) ∧
      (Complex.arg ⟨0, z⟩ = π / 2 ∨ Complex.arg ⟨0, z⟩ = -(π / 2)) := by
  have hT : (latStep z 0 (Complex.arg ⟨0, z⟩)).1 = Complex.arg ⟨0, z⟩ := by
    rw [latStep_fst_eq_Tmap]; unfold Tmap
    exact (arg_pole hz (gfun_abs_le eccOK_wgs84 _)).1
  refine ⟨?_, (arg_pole hz (w := 0) (by rw [abs_zero]; norm_num)).2⟩
  rw [latLoop_succ, hT, sub_self, abs_zero, if_pos (by norm_num)]

/-- Banach: the body has exactly one fixed point -/
theorem latStep_fixpoint_unique {z r : ℝ} (hr : 0 ≤ r) (hp : 0.99 ^ 2 ≤ r ^ 2 + z ^ 2) :
    ∃! φ : ℝ, (latStep z r φ).1 = φ := by
  have hL := latStep_lipschitz' hr hp
  have hc : ContractingWith (7 / 1000 : NNReal) (fun φ : ℝ => (latStep z r φ).1) := by
    refine ⟨by norm_num, LipschitzWith.of_dist_le_mul (fun a b => ?_)⟩
    rw [Real.dist_eq, Real.dist_eq]
    have := hL a b
    push_cast
    exact this
  refine ⟨ContractingWith.fixedPoint _ hc, hc.fixedPoint_isFixedPt, fun y hy => ?_⟩
  have hx : (latStep z r (ContractingWith.fixedPoint _ hc)).1 = ContractingWith.fixedPoint _ hc :=
    hc.fixedPoint_isFixedPt
  set x := ContractingWith.fixedPoint _ hc
  have h := hL y x
  simp only at hy
  rw [hy, hx] at h
  have h0 := abs_nonneg (y - x)
  have : |y - x| = 0 := by linarith
  linarith [abs_eq_zero.1 this]

/-- the exit value is within `7/993 · 1e-10` of every fixed point, and its own residual is `< 7e-13` -/
theorem latLoop_exit_close {z r : ℝ} (hr : 0 ≤ r) (hp : 0.99 ^ 2 ≤ r ^ 2 + z ^ 2)
    {fuel : ℕ} {lat0 lat c : ℝ} {n : ℕ} (h : latLoop z r fuel lat0 = some (lat, c, n))
    {φs : ℝ} (hfix : (latStep z r φs).1 = φs) :
    |lat - φs| ≤ 7 / 993 * 1e-10 ∧ |(latStep z r lat).1 - lat| ≤ 7 / 1000 * 1e-10 := by
  have hL := latStep_lipschitz' hr hp
  obtain ⟨lat2, hstep, hclose⟩ := latLoop_some z r fuel lat0 lat c n h
  have hl : (latStep z r lat2).1 = lat := by rw [hstep]
  have h1 := hL lat2 φs
  rw [hl, hfix] at h1
  have h2 : |lat2 - φs| ≤ |lat2 - lat| + |lat - φs| := by
    have := abs_add_le (lat2 - lat) (lat - φs)
    rwa [sub_add_sub_cancel] at this
  have h3 : |lat2 - lat| = |lat - lat2| := abs_sub_comm _ _
  have h4 := hL lat lat2
  rw [hl] at h4
  constructor
  · linarith
  · linarith

end PV.C04C
