/-
  Helper lemmas for C17: the two loops of `fetch_plain_tle` computed in closed form.  Core Lean only.
-/
import PV.Model.Download
namespace PV.C17
open PV.Download

variable {S U E : Type}

/-- entries contributed by one URI: its body's entries when the status is 200, nothing otherwise -/
def contrib (o : Outcome E) : List E :=
  match o with
  | .resp st b => if st = 200 then b.entries else []
  | .timeout => []

/-- in-order concatenation of the entries of the successful URIs of one source -/
def okEntries (us : List (U × Outcome E)) : List E := us.flatMap (fun p => contrib p.2)

/-- URIs answered with a status other than 200, in order -/
def failedUris (us : List (U × Outcome E)) : List U :=
  us.filterMap (fun p => match p.2 with | .resp st _ => if st = 200 then none else some p.1 | .timeout => none)

/-- the first URI (in request order) that timed out -/
def firstTimeoutUris (us : List (U × Outcome E)) : Option U :=
  us.findSome? (fun p => match p.2 with | .timeout => some p.1 | .resp _ _ => none)

def firstTimeout (a : List (S × List (U × Outcome E))) : Option U :=
  a.findSome? (fun p => firstTimeoutUris p.2)

/-- the dict the statement requires: every source, in order, with the concatenation of its ok URIs -/
def specDict (a : List (S × List (U × Outcome E))) : List (S × List E) :=
  a.map (fun p => (p.1, okEntries p.2))

theorem uriLoop_eq (acc : List E) (fl : List U) (us : List (U × Outcome E)) :
    uriLoop acc fl us =
      match firstTimeoutUris us with
      | some u => .error u
      | none => .ok (acc ++ okEntries us, fl ++ failedUris us) := by
  induction us generalizing acc fl with
  | nil => simp [uriLoop, firstTimeoutUris, okEntries, failedUris]
  | cons p rest ih =>
    obtain ⟨u, o⟩ := p
    cases o with
    | timeout => simp [uriLoop, firstTimeoutUris]
    | resp st b =>
      unfold uriLoop
      by_cases h : st = 200
      · simp only [h, if_true]
        rw [ih]
        simp only [firstTimeoutUris, List.findSome?_cons]
        cases hft : List.findSome? (fun p : U × Outcome E => match p.2 with | .timeout => some p.1 | .resp _ _ => none) rest <;>
          simp [okEntries, failedUris, contrib, List.append_assoc]
      · simp only [h, if_false]
        rw [ih]
        simp only [firstTimeoutUris, List.findSome?_cons]
        cases hft : List.findSome? (fun p : U × Outcome E => match p.2 with | .timeout => some p.1 | .resp _ _ => none) rest <;>
          simp [okEntries, failedUris, contrib, h, List.append_assoc]

theorem dictSet_of_not_mem [DecidableEq S] (d : List (S × List E)) (k : S) (v : List E)
    (h : k ∉ d.map (·.1)) : dictSet d k v = d ++ [(k, v)] := by
  induction d with
  | nil => simp [dictSet]
  | cons p rest ih =>
    obtain ⟨k', v'⟩ := p
    simp only [List.map_cons, List.mem_cons, not_or] at h
    have hne : ¬ k' = k := fun e => h.1 e.symm
    simp [dictSet, hne, ih h.2]

theorem sourceLoop_eq [DecidableEq S] (d : List (S × List E)) (a : List (S × List (U × Outcome E)))
    (hnd : (a.map (·.1)).Nodup) (hdis : ∀ k ∈ a.map (·.1), k ∉ d.map (·.1)) :
    sourceLoop d a =
      match firstTimeout a with
      | some u => .timeoutError u
      | none => .dict (d ++ specDict a) := by
  induction a generalizing d with
  | nil => simp [sourceLoop, firstTimeout, specDict]
  | cons p rest ih =>
    obtain ⟨s, us⟩ := p
    unfold sourceLoop
    rw [uriLoop_eq]
    simp only [firstTimeout, List.findSome?_cons]
    cases hft : firstTimeoutUris us with
    | some u => simp
    | none =>
      simp only [List.map_cons, List.nodup_cons] at hnd
      have hs : s ∉ d.map (·.1) := hdis s (by simp)
      simp only [List.nil_append]
      rw [dictSet_of_not_mem d s _ hs]
      rw [ih _ hnd.2]
      · simp only [firstTimeout, specDict, List.map_cons, List.nil_append, List.append_assoc, List.cons_append]
      · intro k hk
        simp only [List.map_append, List.map_cons, List.map_nil, List.mem_append, List.mem_singleton, not_or]
        refine ⟨hdis k (by simp [hk]), ?_⟩
        intro e; subst e; exact hnd.1 hk

/-- a timeout never needs distinct keys: the first timeout leaves both loops -/
theorem sourceLoop_timeout [DecidableEq S] (d : List (S × List E)) (a : List (S × List (U × Outcome E)))
    (u : U) (h : firstTimeout a = some u) : sourceLoop d a = .timeoutError u := by
  induction a generalizing d with
  | nil => simp [firstTimeout] at h
  | cons p rest ih =>
    obtain ⟨s, us⟩ := p
    unfold sourceLoop
    rw [uriLoop_eq]
    simp only [firstTimeout, List.findSome?_cons] at h
    cases hft : firstTimeoutUris us with
    | some u' => simp [hft] at h; simp [h]
    | none => simp only [hft] at h; simp only; exact ih _ h

theorem firstTimeoutUris_isSome_iff (us : List (U × Outcome E)) :
    (firstTimeoutUris us).isSome = true ↔ ∃ u, (u, Outcome.timeout) ∈ us := by
  induction us with
  | nil => simp [firstTimeoutUris]
  | cons p rest ih =>
    obtain ⟨u, o⟩ := p
    cases o with
    | timeout => simp [firstTimeoutUris]
    | resp st b =>
      simp only [firstTimeoutUris, List.findSome?_cons] at ih ⊢
      rw [ih]
      simp

theorem firstTimeout_isSome_iff (a : List (S × List (U × Outcome E))) :
    (firstTimeout a).isSome = true ↔ ∃ s us u, (s, us) ∈ a ∧ (u, Outcome.timeout) ∈ us := by
  induction a with
  | nil => simp [firstTimeout]
  | cons p rest ih =>
    obtain ⟨s, us⟩ := p
    simp only [firstTimeout, List.findSome?_cons] at ih ⊢
    cases hft : firstTimeoutUris us with
    | some u =>
      have := (firstTimeoutUris_isSome_iff us).mp (by simp [hft])
      obtain ⟨u', hu'⟩ := this
      simp only [Option.isSome_some, true_iff]
      exact ⟨s, us, u', by simp, hu'⟩
    | none =>
      have hno : ¬ ∃ u, (u, Outcome.timeout) ∈ us := by
        intro h
        have := (firstTimeoutUris_isSome_iff us).mpr h
        simp [hft] at this
      simp only
      rw [ih]
      constructor
      · rintro ⟨s', us', u', hm, hu⟩
        exact ⟨s', us', u', List.mem_cons_of_mem _ hm, hu⟩
      · rintro ⟨s', us', u', hm, hu⟩
        rcases List.mem_cons.mp hm with heq | hm
        · simp only [Prod.mk.injEq] at heq
          exact absurd ⟨u', heq.2 ▸ hu⟩ hno
        · exact ⟨s', us', u', hm, hu⟩

theorem okEntries_append (us vs : List (U × Outcome E)) : okEntries (us ++ vs) = okEntries us ++ okEntries vs := by
  simp [okEntries]

theorem firstTimeoutUris_append_none (us vs : List (U × Outcome E)) :
    firstTimeoutUris (us ++ vs) = none ↔ firstTimeoutUris us = none ∧ firstTimeoutUris vs = none := by
  simp only [firstTimeoutUris, List.findSome?_eq_none_iff, List.mem_append]
  constructor
  · intro h; exact ⟨fun x hx => h x (Or.inl hx), fun x hx => h x (Or.inr hx)⟩
  · rintro ⟨h1, h2⟩ x (hx | hx)
    · exact h1 x hx
    · exact h2 x hx

theorem firstTimeout_append_none (a b : List (S × List (U × Outcome E))) :
    firstTimeout (a ++ b) = none ↔ firstTimeout a = none ∧ firstTimeout b = none := by
  simp only [firstTimeout, List.findSome?_eq_none_iff, List.mem_append]
  constructor
  · intro h; exact ⟨fun x hx => h x (Or.inl hx), fun x hx => h x (Or.inr hx)⟩
  · rintro ⟨h1, h2⟩ x (hx | hx)
    · exact h1 x hx
    · exact h2 x hx

/-- no URI of any source times out -/
def NoTimeout (a : List (S × List (U × Outcome E))) : Prop :=
  ∀ s us u, (s, us) ∈ a → (u, Outcome.timeout) ∉ us

theorem firstTimeout_none_iff (a : List (S × List (U × Outcome E))) : firstTimeout a = none ↔ NoTimeout a := by
  have h := firstTimeout_isSome_iff a
  unfold NoTimeout
  cases hft : firstTimeout a with
  | none =>
    simp only [hft, Option.isSome_none, Bool.false_eq_true, false_iff, not_exists, not_and] at h
    simp only [true_iff]
    intro s us u hm hu
    exact h s us u hm hu
  | some t =>
    simp only [hft, Option.isSome_some, true_iff] at h
    obtain ⟨s, us, u, hm, hu⟩ := h
    simp only [reduceCtorEq, false_iff]
    intro hall
    exact hall s us u hm hu

theorem dictGet_specDict [DecidableEq S] (a : List (S × List (U × Outcome E))) (hnd : (a.map (·.1)).Nodup)
    (s : S) (us : List (U × Outcome E)) (hm : (s, us) ∈ a) : dictGet (specDict a) s = some (okEntries us) := by
  induction a with
  | nil => simp at hm
  | cons p rest ih =>
    obtain ⟨s', us'⟩ := p
    simp only [List.map_cons, List.nodup_cons] at hnd
    rcases List.mem_cons.mp hm with heq | hm'
    · simp only [Prod.mk.injEq] at heq
      obtain ⟨rfl, rfl⟩ := heq
      simp [specDict, dictGet]
    · have hne : ¬ s' = s := by
        intro e; subst e
        exact hnd.1 (List.mem_map.mpr ⟨(s', us), hm', rfl⟩)
      have := ih hnd.2 hm'
      simp only [specDict, List.map_cons, dictGet, hne, if_false]
      exact this

/-- what one successful URI contributes, and what an HTTP error contributes -/
theorem okEntries_split (us1 us2 : List (U × Outcome E)) (u : U) (o : Outcome E) :
    okEntries (us1 ++ (u, o) :: us2) = okEntries us1 ++ contrib o ++ okEntries us2 := by
  simp [okEntries]

end PV.C17
