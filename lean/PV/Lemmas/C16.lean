/-
  Helper lemmas for C16: Python's `max(iterable, key=…)` loop returns the first item of maximal key.
  Core Lean only.
-/
import PV.Model.Sources
namespace PV.C16
open PV.Sources

/-- `x` is the first item of maximal key in `l` -/
def FirstMax {α : Type} (key : α → Nat) (l : List α) (x : α) : Prop :=
  ∃ pre post, l = pre ++ x :: post ∧ (∀ y ∈ pre, key y < key x) ∧ (∀ y ∈ post, key y ≤ key x)

theorem pyMaxLoop_spec {α : Type} (key : α → Nat) (best : α) (ys : List α) :
    (pyMaxLoop key best ys = best ∧ ∀ y ∈ ys, key y ≤ key best) ∨
    (∃ pre post, ys = pre ++ pyMaxLoop key best ys :: post ∧ key best < key (pyMaxLoop key best ys) ∧
      (∀ y ∈ pre, key y < key (pyMaxLoop key best ys)) ∧ (∀ y ∈ post, key y ≤ key (pyMaxLoop key best ys))) := by
  induction ys generalizing best with
  | nil => left; simp [pyMaxLoop]
  | cons y ys ih =>
    unfold pyMaxLoop
    by_cases h : key best < key y
    · simp only [h, if_true]
      right
      rcases ih y with ⟨hr, hall⟩ | ⟨pre, post, hys, hlt, hpre, hpost⟩
      · refine ⟨[], ys, ?_, ?_, ?_, ?_⟩
        · simp [hr]
        · rw [hr]; exact h
        · simp
        · rw [hr]; exact hall
      · refine ⟨y :: pre, post, ?_, ?_, ?_, hpost⟩
        · rw [List.cons_append, ← hys]
        · omega
        · intro z hz
          rcases List.mem_cons.mp hz with rfl | hz
          · exact hlt
          · exact hpre z hz
    · simp only [h, if_false]
      rcases ih best with ⟨hr, hall⟩ | ⟨pre, post, hys, hlt, hpre, hpost⟩
      · left
        refine ⟨hr, ?_⟩
        intro z hz
        rcases List.mem_cons.mp hz with rfl | hz
        · omega
        · exact hall z hz
      · right
        refine ⟨y :: pre, post, ?_, hlt, ?_, hpost⟩
        · rw [List.cons_append, ← hys]
        · intro z hz
          rcases List.mem_cons.mp hz with rfl | hz
          · omega
          · exact hpre z hz

theorem pyMaxBy_firstMax {α : Type} (key : α → Nat) (l : List α) (x : α)
    (h : pyMaxBy key l = some x) : FirstMax key l x := by
  cases l with
  | nil => simp [pyMaxBy] at h
  | cons a as =>
    simp only [pyMaxBy, Option.some.injEq] at h
    rcases pyMaxLoop_spec key a as with ⟨hr, hall⟩ | ⟨pre, post, hys, hlt, hpre, hpost⟩
    · rw [h] at hr; subst hr
      exact ⟨[], as, by simp, by simp, hall⟩
    · rw [h] at hys hlt hpre hpost
      refine ⟨a :: pre, post, ?_, ?_, hpost⟩
      · rw [List.cons_append, ← hys]
      · intro z hz
        rcases List.mem_cons.mp hz with rfl | hz
        · exact hlt
        · exact hpre z hz

theorem pyMaxBy_none_iff {α : Type} (key : α → Nat) (l : List α) : pyMaxBy key l = none ↔ l = [] := by
  cases l <;> simp [pyMaxBy]

/-- the first maximal item is unique as a position, hence as a value -/
theorem firstMax_unique {α : Type} (key : α → Nat) (l : List α) (x y : α)
    (hx : FirstMax key l x) (hy : FirstMax key l y) : x = y := by
  obtain ⟨p1, q1, h1, hp1, hq1⟩ := hx
  obtain ⟨p2, q2, h2, hp2, hq2⟩ := hy
  induction p1 generalizing l p2 with
  | nil =>
    cases p2 with
    | nil => rw [h1] at h2; simp at h2; exact h2.1
    | cons b p2 =>
      rw [h1] at h2
      simp only [List.nil_append, List.cons_append, List.cons.injEq] at h2
      have hb := hp2 b (by simp)
      have : y ∈ q1 := by rw [h2.2]; simp
      have := hq1 y this
      rw [h2.1] at this
      omega
  | cons a p1 ih =>
    cases p2 with
    | nil =>
      rw [h1] at h2
      simp only [List.nil_append, List.cons_append, List.cons.injEq] at h2
      have ha := hp1 a (by simp)
      have : x ∈ q2 := by rw [← h2.2]; simp
      have := hq2 x this
      rw [h2.1] at ha
      omega
    | cons b p2 =>
      rw [h1] at h2
      simp only [List.cons_append, List.cons.injEq] at h2
      exact ih (p1 ++ x :: q1) rfl (fun z hz => hp1 z (List.mem_cons_of_mem _ hz)) p2 h2.2
        (fun z hz => hp2 z (List.mem_cons_of_mem _ hz))

end PV.C16
