/-
  Helper lemmas for C13 (refusals): the constants read over ℝ, the guard structure of
  `checkElements` / `init` / `calculate` / `propagate`, the invariant of the Kepler iteration,
  and the positivity facts behind "every guarded denominator is non-zero".
-/
import PV.NumReal
import PV.Model.Sgp4
import Mathlib.Tactic.LinearCombination
import Mathlib.Tactic.Linarith
import Mathlib.Tactic.NormNum
import Mathlib.Tactic.FieldSimp
import Mathlib.Tactic.Positivity
namespace PV.C13
open PV PV.Sgp4 Real

/-! ### constants, as written in the source now, read over ℝ -/
theorem ECC_EPS_real : (ECC_EPS : ℝ) = 1e-6 := by
  simp only [ECC_EPS, Gen.orbital_ECC_EPS, r_ofSci]
theorem ECC_LIMIT_HIGH_real : (ECC_LIMIT_HIGH : ℝ) = 1 - 1e-6 := by
  simp only [ECC_LIMIT_HIGH, Gen.orbital_ECC_LIMIT_HIGH, Gen.orbital_ECC_EPS, r_ofSci, r_sub, r_ofNat]; norm_num
theorem ECC_LIMIT_LOW_real : (ECC_LIMIT_LOW : ℝ) = -1e-3 := by
  simp only [ECC_LIMIT_LOW, Gen.orbital_ECC_LIMIT_LOW, r_ofSci, r_neg]
theorem MM_LOW_real : (MM_LOW : ℝ) = 0.0035 := by
  simp only [MM_LOW, Gen.orbital___check_orbital_elements_L1, r_ofSci]
theorem MM_HIGH_real : (MM_HIGH : ℝ) = 18 := by
  simp only [MM_HIGH, Gen.orbital___check_orbital_elements_L3, r_ofNat]
theorem XMNPDA_real : (XMNPDA : ℝ) = 1440 := by
  simp only [XMNPDA, Gen.orbital_XMNPDA, r_ofNat]
theorem AE_real : (AE : ℝ) = 1 := by
  simp only [AE, Gen.orbital_AE, r_ofNat]; norm_num
theorem XKMPER_real : (XKMPER : ℝ) = 6378.135 := by
  simp only [XKMPER, Gen.orbital_XKMPER, r_ofSci]
theorem CK2_real : (CK2 : ℝ) = 5.41308e-4 := by
  simp only [CK2, Gen.orbital_CK2, r_ofSci]
theorem PERIOD_DEEP_real : (PERIOD_DEEP : ℝ) = 225 := by
  simp only [PERIOD_DEEP, Gen.orbital___SGDP4Base__set_mode_L0, r_ofNat]
theorem PERIGEE_SIMP_real : (PERIGEE_SIMP : ℝ) = 220 := by
  simp only [PERIGEE_SIMP, Gen.orbital___SGDP4Base__set_mode_L1, r_ofNat]
theorem PERIGEE_S4_real : (PERIGEE_S4 : ℝ) = 156 := by
  simp only [PERIGEE_S4, Gen.orbital___SGDP4Base__get_s4_qoms24_L0, r_ofNat]
theorem KS_real : (KS : ℝ) = 1 + 78 / 6378.135 := by
  simp only [KS, Gen.orbital_KS, Gen.orbital_AE, Gen.orbital_S0, Gen.orbital_XKMPER, r_ofSci, r_ofNat,
    r_mul, r_add, r_div]; norm_num


/-! ### the construction-time guards -/

/-- eccentricity accepted by `_check_orbital_elements` -/
def EccOk (e : Elements ℝ) : Prop := 0 < e.eo ∧ e.eo < 1 - 1e-6
/-- original mean motion accepted (rad/min) -/
def MmOk (e : Elements ℝ) : Prop := 0.0035 * 2 * π / 1440 < e.xno ∧ e.xno < 18 * 2 * π / 1440
/-- inclination accepted (rad) -/
def InclOk (e : Elements ℝ) : Prop := 0 < e.xincl ∧ e.xincl < π

open Classical in
theorem checkElements_eq (e : Elements ℝ) : checkElements e =
    if ¬ EccOk e then some .eccRange else if ¬ MmOk e then some .mmRange
    else if ¬ InclOk e then some .inclRange else none := by
  unfold checkElements EccOk MmOk InclOk
  simp only [r_lt, r_mul, r_div, r_pi, r_ofNat]
  simp only [ECC_LIMIT_HIGH_real, MM_LOW_real, MM_HIGH_real, XMNPDA_real,
    Bool.not_eq_true', Bool.and_eq_false_iff, decide_eq_false_iff_not, Nat.cast_ofNat, Nat.cast_zero, not_and_or]

/-- the mode chosen by `_set_mode` for a non-deep orbit -/
noncomputable def modeSpec (e : Elements ℝ) : Mode :=
  open Classical in if (basic e).perigee < 220 then .nearSimp else .nearNorm

theorem modeOf_eq (e : Elements ℝ) : modeOf (basic e).perigee = modeSpec e := by
  unfold modeOf modeSpec
  simp only [r_lt, PERIGEE_SIMP_real, decide_eq_true_eq]

open Classical in
theorem init_eq (e : Elements ℝ) : init e =
    if ¬ EccOk e then .error .eccRange else if ¬ MmOk e then .error .mmRange
    else if ¬ InclOk e then .error .inclRange
    else if 225 ≤ (basic e).period then .error .deepSpace
    else .ok (coeffs e (basic e) (modeSpec e)) := by
  unfold init
  rw [checkElements_eq, ← modeOf_eq]
  by_cases h1 : EccOk e <;> by_cases h2 : MmOk e <;> by_cases h3 : InclOk e <;>
    simp only [h1, h2, h3, not_true_eq_false, not_false_eq_true, if_true, if_false, r_ge, PERIOD_DEEP_real,
      decide_eq_true_eq]

theorem coeffs_mode (e : Elements ℝ) (b : Basic ℝ) (m : Mode) : (coeffs e b m).mode = m := by
  unfold coeffs; rfl


/-! ### the propagation-time guards -/

/-- the Keplerian state `calculate` builds on its last leaf -/
noncomputable def kepOf (p : Params ℝ) (ts : ℝ) : Kep ℝ :=
  shortPeriod p (secular p ts) (longPeriod p (secular p ts))
    (newton (longPeriod p (secular p ts)).axn (longPeriod p (secular p ts)).ayn
      (longPeriod p (secular p ts)).capu (Real.sqrt (longPeriod p (secular p ts)).elsq))

open Classical in
theorem calculate_eq (p : Params ℝ) (ts : ℝ) : calculate p ts =
    if (secular p ts).a < 1 then .error .crashedA
    else if (secular p ts).e0 < -1e-3 then .error .eccLow
    else if 1 ≤ (longPeriod p (secular p ts)).elsq then .error .elsqGe1
    else if (kepOf p ts).rk < 1 then .error .crashedRk else .ok (kepOf p ts) := by
  unfold calculate kepOf
  simp only [r_lt, r_ge, r_sqrt, r_ofNat]
  simp only [ECC_LIMIT_LOW_real, decide_eq_true_eq, Nat.cast_one]

open Classical in
theorem propagate_eq (p : Params ℝ) (ts : ℝ) : propagate p ts =
    if p.mode ≠ .nearNorm then .error .notImplemented else calculate p ts := by
  unfold propagate
  cases p.mode <;> simp


/-! ### invariant of the Kepler iteration -/

/-- the returned `sinEPW, cosEPW, ecosE, esinE` are computed from ONE angle -/
def NwInv (axn ayn : ℝ) (st : Newton ℝ) : Prop :=
  ∃ θ : ℝ, st.sinEPW = sin θ ∧ st.cosEPW = cos θ ∧
    st.ecosE = axn * cos θ + ayn * sin θ ∧ st.esinE = axn * sin θ - ayn * cos θ

theorem newtonLoop_inv (axn ayn capu ecc : ℝ) (fuel : ℕ) :
    ∀ (i : ℕ) (epw : ℝ) (st : Newton ℝ), NwInv axn ayn (newtonLoop axn ayn capu ecc (fuel + 1) i epw st) := by
  induction fuel with
  | zero =>
    intro i epw st
    simp only [newtonLoop]
    split
    · exact ⟨epw, rfl, rfl, rfl, rfl⟩
    · exact ⟨epw, rfl, rfl, rfl, rfl⟩
  | succ n ih =>
    intro i epw st
    rw [newtonLoop]
    simp only []
    split
    · exact ⟨epw, rfl, rfl, rfl, rfl⟩
    · exact ih _ _ _

theorem newton_inv (axn ayn capu ecc : ℝ) : NwInv axn ayn (newton axn ayn capu ecc) :=
  newtonLoop_inv axn ayn capu ecc 9 0 capu _

theorem NwInv.sq_add_sq {axn ayn : ℝ} {st : Newton ℝ} (h : NwInv axn ayn st) :
    st.sinEPW ^ 2 + st.cosEPW ^ 2 = 1 := by
  obtain ⟨θ, h1, h2, -, -⟩ := h
  rw [h1, h2]; exact sin_sq_add_cos_sq θ

/-- Cauchy–Schwarz: `ecosE² + esinE² = elsq` -/
theorem NwInv.ecosE_sq_add {axn ayn : ℝ} {st : Newton ℝ} (h : NwInv axn ayn st) :
    st.ecosE ^ 2 + st.esinE ^ 2 = axn ^ 2 + ayn ^ 2 := by
  obtain ⟨θ, -, -, h3, h4⟩ := h
  rw [h3, h4]
  linear_combination (axn ^ 2 + ayn ^ 2) * sin_sq_add_cos_sq θ

theorem NwInv.ecosE_lt_one {axn ayn : ℝ} {st : Newton ℝ} (h : NwInv axn ayn st)
    (hel : axn ^ 2 + ayn ^ 2 < 1) : st.ecosE < 1 := by
  have := h.ecosE_sq_add
  nlinarith [sq_nonneg st.esinE, sq_nonneg (st.ecosE - 1)]


/-! ### field read-outs (all by unfolding) -/
section fields
variable (e : Elements ℝ) (b : Basic ℝ) (m : Mode) (p : Params ℝ) (s : Secular ℝ) (l : LongPeriod ℝ)
  (nw : Newton ℝ) (ts : ℝ)

theorem coeffs_eo : (coeffs e b m).eo = e.eo := rfl
theorem coeffs_xincl : (coeffs e b m).xincl = e.xincl := rfl
theorem coeffs_cosIO : (coeffs e b m).cosIO = b.cosIO := rfl
theorem coeffs_sinIO : (coeffs e b m).sinIO = b.sinIO := rfl
theorem coeffs_aodp : (coeffs e b m).aodp = b.aodp := rfl
theorem coeffs_betao2 : (coeffs e b m).betao2 = b.betao2 := rfl
theorem coeffs_perigee : (coeffs e b m).perigee = b.perigee := rfl
theorem coeffs_period : (coeffs e b m).period = b.period := rfl
theorem coeffs_s4 : (coeffs e b m).s4 = (s4qoms24 b.perigee).1 := rfl
theorem coeffs_tsi : (coeffs e b m).tsi = 1 / ((coeffs e b m).aodp - (coeffs e b m).s4) := by
  show (Num.ofNat 1 : ℝ) / _ = _
  rw [r_ofNat', Nat.cast_one]; rfl
theorem coeffs_eta : (coeffs e b m).eta = (coeffs e b m).aodp * (coeffs e b m).eo * (coeffs e b m).tsi := rfl
theorem basic_cosIO : (basic e).cosIO = cos e.xincl := rfl
theorem basic_sinIO : (basic e).sinIO = sin e.xincl := rfl
theorem basic_betao2 : (basic e).betao2 = 1 - e.eo ^ 2 := by
  simp only [basic, r_sq, r_sub, r_ofNat, Nat.cast_one]
theorem basic_perigee : (basic e).perigee = ((basic e).aodp * (1 - e.eo) - 1) * 6378.135 := by
  simp only [basic, r_sub, r_mul, r_ofNat, AE_real, XKMPER_real, Nat.cast_one]
theorem longPeriod_e : (longPeriod p s).e = clampE s.e0 := rfl
theorem longPeriod_elsq : (longPeriod p s).elsq = (longPeriod p s).axn ^ 2 + (longPeriod p s).ayn ^ 2 := by
  simp only [longPeriod, r_sq, r_add]
theorem shortPeriod_a : (shortPeriod p s l nw).a = s.a := rfl
theorem shortPeriod_e : (shortPeriod p s l nw).e = l.e := rfl
theorem shortPeriod_elsq : (shortPeriod p s l nw).elsq = l.elsq := rfl
theorem shortPeriod_pl : (shortPeriod p s l nw).pl = s.a * (1 - l.elsq) := by
  simp only [shortPeriod, r_mul, r_sub, r_ofNat, Nat.cast_one]
theorem shortPeriod_r : (shortPeriod p s l nw).r = s.a * (1 - nw.ecosE) := by
  simp only [shortPeriod, r_mul, r_sub, r_ofNat, Nat.cast_one]
end fields

/-- `_calculate_e` clamps into [1e-6, 1 − 1e-6] whatever its input -/
theorem clampE_bounds (e0 : ℝ) : 1e-6 ≤ clampE e0 ∧ clampE e0 ≤ 1 - 1e-6 := by
  unfold clampE
  simp only [r_lt, r_gt, ECC_EPS_real, ECC_LIMIT_HIGH_real, decide_eq_true_eq]
  split_ifs <;> constructor <;> norm_num at * <;> linarith

theorem init_ok_iff (e : Elements ℝ) (p : Params ℝ) : init e = .ok p ↔
    EccOk e ∧ MmOk e ∧ InclOk e ∧ (basic e).period < 225 ∧ p = coeffs e (basic e) (modeSpec e) := by
  rw [init_eq]
  by_cases h1 : EccOk e <;> by_cases h2 : MmOk e <;> by_cases h3 : InclOk e <;>
    by_cases h4 : 225 ≤ (basic e).period <;>
    simp [-r_ofNat, h1, h2, h3, h4, eq_comm]
  intro _; exact lt_of_not_ge h4


theorem propagate_ok_iff (p : Params ℝ) (ts : ℝ) (k : Kep ℝ) : propagate p ts = .ok k ↔
    p.mode = .nearNorm ∧ 1 ≤ (secular p ts).a ∧ -1e-3 ≤ (secular p ts).e0 ∧
    (longPeriod p (secular p ts)).elsq < 1 ∧ 1 ≤ (kepOf p ts).rk ∧ k = kepOf p ts := by
  rw [propagate_eq, calculate_eq]
  by_cases h0 : p.mode = .nearNorm <;> by_cases h1 : (secular p ts).a < 1 <;>
    by_cases h2 : (secular p ts).e0 < -1e-3 <;>
    by_cases h3 : 1 ≤ (longPeriod p (secular p ts)).elsq <;>
    by_cases h4 : (kepOf p ts).rk < 1 <;>
    simp only [h0, h1, h2, h3, h4, ne_eq, not_true_eq_false, not_false_eq_true, if_true, if_false, reduceCtorEq,
      false_iff, true_and, false_and, not_and, Except.ok.injEq] <;>
    first
    | (constructor
       · intro h; exact ⟨le_of_not_gt h1, le_of_not_gt h2, lt_of_not_ge h3, le_of_not_gt h4, h.symm⟩
       · intro h; exact h.2.2.2.2.symm)
    | (intros; linarith)

/-! ### what perigee ≥ 220 km buys: `tsi`, `eta` -/

theorem s4_of_perigee_ge (per : ℝ) (h : 156 ≤ per) : (s4qoms24 per).1 = 1 + 78 / 6378.135 := by
  unfold s4qoms24
  simp only [r_lt, PERIGEE_S4_real, decide_eq_true_eq]
  rw [if_neg (not_lt.mpr h)]
  exact KS_real

theorem modeSpec_nearNorm_iff (e : Elements ℝ) : modeSpec e = .nearNorm ↔ 220 ≤ (basic e).perigee := by
  unfold modeSpec
  split_ifs with h
  · simp only [false_iff, not_le]; exact h
  · simp only [true_iff]; exact le_of_not_gt h

/-- perigee ≥ 220 km and 0 ≤ eo < 1 give `aodp − s4 ≥ 142/6378.135 > 0` and `0 ≤ η < 1`
    (so `tsi`, `coef`, and `psisq = |1 − η²|` are well defined and `psisq > 0`) -/
theorem tsi_eta_of_perigee (e : Elements ℝ) (m : Mode) (h0 : 0 ≤ e.eo) (h1 : e.eo < 1)
    (hp : 220 ≤ (basic e).perigee) :
    0 < (coeffs e (basic e) m).aodp - (coeffs e (basic e) m).s4 ∧
    0 < (coeffs e (basic e) m).tsi ∧
    0 ≤ (coeffs e (basic e) m).eta ∧ (coeffs e (basic e) m).eta < 1 := by
  have hper := basic_perigee e
  rw [coeffs_eta, coeffs_tsi, coeffs_s4, coeffs_aodp, coeffs_eo, s4_of_perigee_ge _ (by linarith)]
  set A := (basic e).aodp
  have hA1 : 1 + 220 / 6378.135 ≤ A * (1 - e.eo) := by
    rw [hper] at hp
    have : (220 : ℝ) / 6378.135 ≤ A * (1 - e.eo) - 1 := by
      rw [div_le_iff₀ (by norm_num)]; exact hp
    linarith
  have hApos : 0 < A := by
    by_contra hneg
    have : A * (1 - e.eo) ≤ 0 := mul_nonpos_of_nonpos_of_nonneg (le_of_not_gt hneg) (by linarith)
    have : (0 : ℝ) < 1 + 220 / 6378.135 := by norm_num
    linarith
  have hks : (1 : ℝ) + 78 / 6378.135 < 1 + 220 / 6378.135 := by norm_num
  have hAe : 0 ≤ A * e.eo := mul_nonneg hApos.le h0
  have hd : 0 < A - (1 + 78 / 6378.135) := by nlinarith
  refine ⟨hd, by positivity, by positivity, ?_⟩
  rw [mul_one_div, div_lt_one hd]
  nlinarith

end PV.C13
