/-
  PV.Lemmas.C12Gmst — real-number lemmas about `Astro.gmst` and the IAU-1982 polynomial for C12.
-/
import PV.NumReal
import Mathlib.Analysis.Real.Pi.Bounds
import PV.Model.Astro
import PV.Spec.Iau82
namespace PV.C12L
open PV.Astro
open PV

/-- Python's `x % y` for `y > 0` lies in `[0, y)` -/
theorem pymod_range (x y : ℝ) (hy : 0 < y) :
    0 ≤ x - y * (⌊x / y⌋ : ℝ) ∧ x - y * (⌊x / y⌋ : ℝ) < y := by
  have h1 := Int.floor_le (x / y)
  have h2 := Int.lt_floor_add_one (x / y)
  have e : y * (x / y) = x := by field_simp
  have h3 : y * (⌊x / y⌋ : ℝ) ≤ y * (x / y) := mul_le_mul_of_nonneg_left h1 hy.le
  have h4 : y * (x / y) < y * ((⌊x / y⌋ : ℝ) + 1) := mul_lt_mul_of_pos_left h2 hy
  constructor <;> nlinarith

/-- the model's polynomial in Mathlib notation -/
theorem gmstTheta_real (d : ℝ) :
    gmstTheta d = 67310.54841 + d / 36525 * (3155760000 + 8640184.812866
      + d / 36525 * (0.093104 - d / 36525 * 6.2 * 1e-5)) := by
  simp only [gmstTheta, r_add, r_sub, r_mul, r_div, r_ofNat, r_ofSci]

theorem thetaSeconds_real (T : ℝ) :
    Iau82.thetaSeconds T = 67310.54841 + (876600 * 3600 + 8640184.812866) * T
      + 0.093104 * T ^ 2 - 6.2e-6 * T ^ 3 := by
  simp only [Iau82.thetaSeconds, r_add, r_sub, r_mul, r_ofNat, r_ofSci]
  norm_num1
  ring

theorem gmst_real (d : ℝ) :
    gmst d = gmstTheta d / 240 * (Real.pi / 180)
      - 2 * Real.pi * (⌊gmstTheta d / 240 * (Real.pi / 180) / (2 * Real.pi)⌋ : ℝ) := by
  simp only [gmst, r_pymod, r_deg2rad, r_mul, r_div, r_ofNat, r_pi]

theorem iau82_gmst_real (T : ℝ) :
    Iau82.gmst T = Iau82.thetaSeconds T / 240 * (Real.pi / 180)
      - 2 * Real.pi * (⌊Iau82.thetaSeconds T / 240 * (Real.pi / 180) / (2 * Real.pi)⌋ : ℝ) := by
  simp only [Iau82.gmst, Iau82.gmstUnreduced, r_pymod, r_deg2rad, r_mul, r_div, r_ofNat, r_pi]

/-- code polynomial = IAU-1982 polynomial − 5.58e-5·T³ -/
theorem gmstTheta_eq (d : ℝ) :
    gmstTheta d = Iau82.thetaSeconds (d / 36525) - 5.58e-5 * (d / 36525) ^ 3 := by
  rw [gmstTheta_real, thetaSeconds_real]
  norm_num1
  ring

theorem cube_abs_le_one (T : ℝ) (hT : |T| ≤ 1) : |T ^ 3| ≤ 1 := by
  rw [abs_pow]; exact pow_le_one₀ (abs_nonneg T) hT

end PV.C12L
