/-
  PV.Lemmas.C03Spec — the contracts of the two numerical parameters of the pass-prediction model
  (root finder, maximiser), the link between samples and the continuous elevation, and the data every
  reported pass carries.
-/
import PV.Lemmas.C03Culm
namespace PV.C03L
open PV PV.Passes

/-- the samples are the (elevation − horizon) function at whole minutes since the start -/
def Sampled (f : ℝ → ℝ) (e : List ℝ) : Prop := ∀ i (h : i < e.length), e[i] = f (i : ℝ)

/-- `scipy.optimize.brentq` on the brackets `get_next_passes` hands it: a point of `[guess, guess+1]`
    where the function vanishes.  Only asked for crossing indices, where the samples at both ends have
    different `np.sign` (brentq's precondition `f(a)·f(b) ≤ 0`). -/
def RootContract (f : ℝ → ℝ) (e : List ℝ) (root : ℕ → ℝ) : Prop :=
  ∀ g ∈ zeroCrossings e, (g : ℝ) ≤ root g ∧ root g ≤ (g : ℝ) + 1 ∧ f (root g) = 0

/-- no minute sample lies exactly on the horizon -/
def NoZeroSample (e : List ℝ) : Prop := ∀ i (h : i < e.length), e[i] ≠ 0

/-- the maximiser answers inside the closed bracket -/
def MaxInBracket (maxim : ℝ → ℝ → ℝ) : Prop := ∀ lo hi, lo ≤ hi → lo ≤ maxim lo hi ∧ maxim lo hi ≤ hi

/-- the maximiser answers strictly inside a non-degenerate bracket (Brent's bounded method only
    evaluates interior points) -/
def MaxInside (maxim : ℝ → ℝ → ℝ) : Prop := ∀ lo hi, lo < hi → lo < maxim lo hi ∧ maxim lo hi < hi

/-- the maximiser's value is within `tol` of the maximum over its bracket -/
def MaxAccurate (f : ℝ → ℝ) (maxim : ℝ → ℝ → ℝ) (tol : ℝ) : Prop :=
  ∀ lo hi, lo < hi → ∀ t, lo ≤ t → t ≤ hi → f t ≤ f (maxim lo hi) + tol

theorem Sampled.view {f : ℝ → ℝ} {e : List ℝ} (h : Sampled f e) : View e (fun i => f (i : ℝ)) := h

theorem NoZeroSample.view {f : ℝ → ℝ} {e : List ℝ} (hs : Sampled f e) (h : NoZeroSample e) :
    ∀ i, i < e.length → f (i : ℝ) ≠ 0 := fun i hi => by rw [← hs i hi]; exact h i hi

/-- what every reported pass is made of (no assumption on zero samples) -/
theorem pass_data {f : ℝ → ℝ} {e : List ℝ} {root : ℕ → ℝ} (maxim : ℝ → ℝ → ℝ)
    (hs : Sampled f e) (hr : RootContract f e root) {p : Pass ℝ} (hp : p ∈ passes e root maxim) :
    ∃ g1 g2, Paired e g1 g2 ∧ p = mkPass e maxim (root g1) (root g2) ∧
      g1 ∈ zeroCrossings e ∧ g2 ∈ zeroCrossings e ∧ g1 < g2 ∧ g2 + 1 < e.length ∧
      f (g1 : ℝ) < 0 ∧ 0 ≤ f (g2 : ℝ) ∧
      (g1 : ℝ) ≤ root g1 ∧ root g1 ≤ (g1 : ℝ) + 1 ∧ f (root g1) = 0 ∧
      (g2 : ℝ) ≤ root g2 ∧ root g2 ≤ (g2 : ℝ) + 1 ∧ f (root g2) = 0 := by
  obtain ⟨g1, g2, hpair, hpe⟩ := (mem_passes_iff e root maxim p).mp hp
  have hpi := (paired_iff e g1 g2).mp hpair
  obtain ⟨hz2, hR2, hz1, h12, hR1, _⟩ := hpi
  have hN := zeroCrossings_lt hz2
  obtain ⟨a1, a2, a3⟩ := hr g1 hz1
  obtain ⟨b1, b2, b3⟩ := hr g2 hz2
  refine ⟨g1, g2, hpair, hpe, hz1, hz2, h12, hN, ?_, ?_, a1, a2, a3, b1, b2, b3⟩
  · exact ((riseAt_iff hs.view g1).mp hR1).2
  · exact (riseAt_false_iff hs.view (by omega)).mp hR2

/-- with no sample on the horizon the roots are strictly inside their minute brackets -/
theorem root_strict {f : ℝ → ℝ} {e : List ℝ} {root : ℕ → ℝ}
    (hs : Sampled f e) (hr : RootContract f e root) (hnz : NoZeroSample e) {g : ℕ} (hg : g ∈ zeroCrossings e) :
    (g : ℝ) < root g ∧ root g < (g : ℝ) + 1 := by
  obtain ⟨a1, a2, a3⟩ := hr g hg
  have hN := zeroCrossings_lt hg
  have h0 := hnz.view hs g (by omega)
  have h1 := hnz.view hs (g + 1) hN
  constructor
  · rcases lt_or_eq_of_le a1 with h | h
    · exact h
    · rw [← h] at a3; exact absurd a3 h0
  · rcases lt_or_eq_of_le a2 with h | h
    · exact h
    · rw [h] at a3; push_cast at h1; exact absurd a3 h1

/-- with no sample on the horizon: every reported pass is a maximal run of positive samples between
    two negative ones, its rise and fall strictly inside the minute brackets at both ends -/
theorem pass_run {f : ℝ → ℝ} {e : List ℝ} {root : ℕ → ℝ} (maxim : ℝ → ℝ → ℝ)
    (hs : Sampled f e) (hr : RootContract f e root) (hnz : NoZeroSample e)
    {p : Pass ℝ} (hp : p ∈ passes e root maxim) :
    ∃ g1 g2, Paired e g1 g2 ∧ p = mkPass e maxim (root g1) (root g2) ∧
      g1 < g2 ∧ g2 + 1 < e.length ∧ f (g1 : ℝ) < 0 ∧ (∀ k : ℕ, g1 < k → k ≤ g2 → 0 < f (k : ℝ)) ∧
      f ((g2 + 1 : ℕ) : ℝ) < 0 ∧
      (g1 : ℝ) < root g1 ∧ root g1 < (g1 : ℝ) + 1 ∧ f (root g1) = 0 ∧
      (g2 : ℝ) < root g2 ∧ root g2 < (g2 : ℝ) + 1 ∧ f (root g2) = 0 := by
  obtain ⟨g1, g2, hpair, hpe, hz1, hz2, _, _, _, _, _, _, a3, _, _, b3⟩ := pass_data maxim hs hr hp
  obtain ⟨h12, hN, hn1, hpos, hn2⟩ := run_of_paired hs.view (hnz.view hs) hpair
  obtain ⟨a1, a2⟩ := root_strict hs hr hnz hz1
  obtain ⟨b1, b2⟩ := root_strict hs hr hnz hz2
  exact ⟨g1, g2, hpair, hpe, h12, hN, hn1, hpos, hn2, a1, a2, a3, b1, b2, b3⟩

/-- with no sample on the horizon two paired (rise, fall) index pairs do not interleave -/
theorem paired_disjoint {e : List ℝ} {s : ℕ → ℝ} (hs : View e s) (hnz : ∀ i, i < e.length → s i ≠ 0)
    {a1 a2 b1 b2 : ℕ} (ha : Paired e a1 a2) (hb : Paired e b1 b2) (hlt : a2 < b2) : a2 < b1 := by
  obtain ⟨_, _, _, _, han⟩ := run_of_paired hs hnz ha
  obtain ⟨_, _, _, hbp, _⟩ := run_of_paired hs hnz hb
  by_contra hc
  have := hbp (a2 + 1) (by omega) (by omega)
  linarith

/-- completeness with the minute marks around `a` and `b` given as naturals -/
theorem complete_nat {f : ℝ → ℝ} {e : List ℝ} {root : ℕ → ℝ} (maxim : ℝ → ℝ → ℝ)
    (hs : Sampled f e) (hr : RootContract f e root) {a b : ℝ} {na nb : ℕ}
    (hna1 : (na : ℝ) < a) (hna2 : a < na + 1) (hnb1 : (nb : ℝ) < b) (hnb2 : b < nb + 1)
    (hlen : 1 < b - a) (hN : nb + 1 < e.length)
    (hpos : ∀ t, a < t → t < b → 0 < f t)
    (hbefore : ∀ t, (na : ℝ) ≤ t → t < a → f t < 0)
    (hafter : ∀ t, b < t → t ≤ (nb : ℝ) + 1 → f t < 0) :
    ∃ p ∈ passes e root maxim, p.rise = a ∧ p.fall = b ∧ p = mkPass e maxim (root na) (root nb) := by
  have h12 : na < nb := by
    have : (na : ℝ) + 1 < (nb : ℝ) + 1 := by linarith
    have : (na : ℝ) < (nb : ℝ) := by linarith
    exact_mod_cast this
  have hposk : ∀ k : ℕ, na < k → k ≤ nb → 0 < f (k : ℝ) := by
    intro k hk1 hk2
    have h1 : (na : ℝ) + 1 ≤ (k : ℝ) := by exact_mod_cast hk1
    have h2 : (k : ℝ) ≤ (nb : ℝ) := by exact_mod_cast hk2
    exact hpos k (by linarith) (by linarith)
  have hn1 : f (na : ℝ) < 0 := hbefore na (le_refl _) hna1
  have hn2 : f ((nb + 1 : ℕ) : ℝ) < 0 := by
    push_cast; exact hafter _ (by linarith) (le_refl _)
  have hpair : Paired e na nb := paired_of_run hs.view h12 hN hn1 hposk hn2
  have hpi := (paired_iff e na nb).mp hpair
  obtain ⟨hz2, _, hz1, _⟩ := hpi
  obtain ⟨a1, a2, a3⟩ := hr na hz1
  obtain ⟨b1, b2, b3⟩ := hr nb hz2
  have hra : root na = a := by
    rcases lt_trichotomy (root na) a with h | h | h
    · have := hbefore (root na) a1 h; linarith
    · exact h
    · have := hpos (root na) h (by linarith); linarith
  have hrb : root nb = b := by
    rcases lt_trichotomy (root nb) b with h | h | h
    · have := hpos (root nb) (by linarith) h; linarith
    · exact h
    · have := hafter (root nb) h b2; linarith
  refine ⟨mkPass e maxim (root na) (root nb), ?_, hra, hrb, rfl⟩
  exact (mem_passes_iff e root maxim _).mpr ⟨na, nb, hpair, rfl⟩

end PV.C03L
