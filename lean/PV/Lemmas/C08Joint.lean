/-
  PV.Lemmas.C08Joint — loops of PV.Model.Joint: results are iterates; a joint run is the
  scalar run continued; termination / non-termination with a stuck element.  Core Lean only.
-/
import PV.Model.Joint
namespace PV.C08L
open PV.Joint

variable {σ : Type} {ι : Type}

theorem iter_succ' (f : σ → σ) (n : Nat) (s : σ) : iter f (n + 1) s = iter f n (f s) := rfl

theorem iter_add (f : σ → σ) (a b : Nat) (s : σ) : iter f (a + b) s = iter f b (iter f a s) := by
  induction a generalizing s with
  | zero => simp [iter]
  | succ a ih =>
    have : a + 1 + b = (a + b) + 1 := by omega
    rw [this, iter_succ', ih, iter_succ']

theorem iter_succ_out (f : σ → σ) (n : Nat) (s : σ) : iter f (n + 1) s = f (iter f n s) := by
  rw [iter_add f n 1 s]; rfl

theorem iter_lift (f : σ → σ) (n : Nat) (S : ι → σ) (i : ι) :
    iter (liftStep f) n S i = iter f n (S i) := by
  induction n generalizing S with
  | zero => rfl
  | succ n ih => rw [iter_succ', ih, iter_succ']; rfl

/-! ### `run` -/

theorem run_spec (step : σ → σ) (halt : σ → Bool) (fuel : Nat) (s : σ) (n : Nat) (r : σ)
    (h : run step halt fuel s = some (n, r)) :
    r = iter step n s ∧ halt r = true ∧ n ≤ fuel ∧ ∀ m, m < n → halt (iter step m s) = false := by
  induction fuel generalizing s n r with
  | zero =>
    unfold run at h
    by_cases hs : halt s = true
    · simp [hs] at h
      obtain ⟨rfl, rfl⟩ := h
      exact ⟨rfl, hs, Nat.le_refl _, fun m hm => absurd hm (Nat.not_lt_zero m)⟩
    · simp [hs] at h
  | succ fuel ih =>
    unfold run at h
    by_cases hs : halt s = true
    · simp [hs] at h
      obtain ⟨rfl, rfl⟩ := h
      exact ⟨rfl, hs, Nat.zero_le _, fun m hm => absurd hm (Nat.not_lt_zero m)⟩
    · simp only [hs] at h
      cases hr : run step halt fuel (step s) with
      | none => simp [hr] at h
      | some p =>
        obtain ⟨n', r'⟩ := p
        simp [hr] at h
        obtain ⟨rfl, rfl⟩ := h
        obtain ⟨h1, h2, h3, h4⟩ := ih (step s) n' r' hr
        refine ⟨by rw [iter_succ']; exact h1, h2, Nat.succ_le_succ h3, ?_⟩
        intro m hm
        cases m with
        | zero => simpa [iter] using hs
        | succ m => rw [iter_succ']; exact h4 m (Nat.lt_of_succ_lt_succ hm)

theorem allHalt_elem (idx : List ι) (halt : σ → Bool) (S : ι → σ) (h : allHalt idx halt S = true)
    (i : ι) (hi : i ∈ idx) : halt (S i) = true := by
  unfold allHalt at h
  exact (List.all_eq_true.mp h) i hi

/-- the joint run, seen from element `i`: its own run halts after `n ≤ N` steps and the joint
    result is that state iterated `N - n` more times -/
theorem joint_run_extra (idx : List ι) (step : σ → σ) (halt : σ → Bool) (fuel : Nat) (S : ι → σ)
    (N : Nat) (R : ι → σ) (h : jointRun idx step halt fuel S = some (N, R)) (i : ι) (hi : i ∈ idx) :
    ∃ n k, run step halt fuel (S i) = some (n, iter step n (S i)) ∧ n + k = N ∧
      R i = iter step k (iter step n (S i)) := by
  unfold jointRun at h
  induction fuel generalizing S N R with
  | zero =>
    unfold run at h
    by_cases hs : allHalt idx halt S = true
    · simp [hs] at h
      obtain ⟨rfl, rfl⟩ := h
      have hi' := allHalt_elem idx halt S hs i hi
      exact ⟨0, 0, by unfold run; simp [hi', iter], rfl, rfl⟩
    · simp [hs] at h
  | succ fuel ih =>
    unfold run at h
    by_cases hs : allHalt idx halt S = true
    · simp [hs] at h
      obtain ⟨rfl, rfl⟩ := h
      have hi' := allHalt_elem idx halt S hs i hi
      exact ⟨0, 0, by unfold run; simp [hi', iter], rfl, rfl⟩
    · simp only [hs] at h
      cases hr : run (liftStep step) (allHalt idx halt) fuel (liftStep step S) with
      | none => simp [hr] at h
      | some p =>
        obtain ⟨N', R'⟩ := p
        simp [hr] at h
        obtain ⟨rfl, rfl⟩ := h
        obtain ⟨n', k', h1, h2, h3⟩ := ih (liftStep step S) N' R' hr
        have hS : liftStep step S i = step (S i) := rfl
        rw [hS] at h1 h3
        by_cases hh : halt (S i) = true
        · refine ⟨0, N' + 1, by unfold run; simp [hh, iter], by omega, ?_⟩
          rw [h3, ← iter_add, h2]; rfl
        · refine ⟨n' + 1, k', ?_, by omega, ?_⟩
          · unfold run
            simp only [hh]
            rw [h1]; rfl
          · rw [h3]; rfl

/-! ### `doWhile` -/

theorem doWhile_spec (f : σ → σ) (conv : σ → σ → Bool) (fuel : Nat) (s : σ) (n : Nat) (r : σ)
    (h : doWhile f conv fuel s = some (n, r)) :
    r = iter f n s ∧ 1 ≤ n ∧ n ≤ fuel ∧ conv (iter f (n - 1) s) (iter f n s) = true ∧
      ∀ m, m + 1 < n → conv (iter f m s) (iter f (m + 1) s) = false := by
  induction fuel generalizing s n r with
  | zero => simp [doWhile] at h
  | succ fuel ih =>
    unfold doWhile at h
    by_cases hc : conv s (f s) = true
    · simp [hc] at h
      obtain ⟨rfl, rfl⟩ := h
      exact ⟨rfl, Nat.le_refl _, Nat.succ_le_succ (Nat.zero_le _), by simpa [iter] using hc,
        fun m hm => absurd hm (by omega)⟩
    · simp only [hc] at h
      cases hr : doWhile f conv fuel (f s) with
      | none => simp [hr] at h
      | some p =>
        obtain ⟨n', r'⟩ := p
        simp [hr] at h
        obtain ⟨rfl, rfl⟩ := h
        obtain ⟨h1, h2, h3, h4, h5⟩ := ih (f s) n' r' hr
        refine ⟨by rw [iter_succ']; exact h1, by omega, by omega, ?_, ?_⟩
        · have e : n' + 1 - 1 = (n' - 1) + 1 := by omega
          rw [e, iter_succ', iter_succ']; exact h4
        · intro m hm
          cases m with
          | zero => simpa [iter] using hc
          | succ m => rw [iter_succ', iter_succ']; exact h5 m (by omega)

theorem allConv_elem (idx : List ι) (conv : σ → σ → Bool) (S S' : ι → σ)
    (h : allConv idx conv S S' = true) (i : ι) (hi : i ∈ idx) : conv (S i) (S' i) = true := by
  unfold allConv at h
  exact (List.all_eq_true.mp h) i hi

theorem joint_dowhile_extra (idx : List ι) (f : σ → σ) (conv : σ → σ → Bool) (fuel : Nat) (S : ι → σ)
    (N : Nat) (R : ι → σ) (h : jointDoWhile idx f conv fuel S = some (N, R)) (i : ι) (hi : i ∈ idx) :
    ∃ n k, doWhile f conv fuel (S i) = some (n, iter f n (S i)) ∧ n + k = N ∧
      R i = iter f k (iter f n (S i)) := by
  unfold jointDoWhile at h
  induction fuel generalizing S N R with
  | zero => simp [doWhile] at h
  | succ fuel ih =>
    unfold doWhile at h
    by_cases hs : allConv idx conv S (liftStep f S) = true
    · simp [hs] at h
      obtain ⟨rfl, rfl⟩ := h
      have hi' : conv (S i) (f (S i)) = true := allConv_elem idx conv S (liftStep f S) hs i hi
      exact ⟨1, 0, by unfold doWhile; simp [hi', iter], rfl, rfl⟩
    · simp only [hs] at h
      cases hr : doWhile (liftStep f) (allConv idx conv) fuel (liftStep f S) with
      | none => simp [hr] at h
      | some p =>
        obtain ⟨N', R'⟩ := p
        simp [hr] at h
        obtain ⟨rfl, rfl⟩ := h
        obtain ⟨n', k', h1, h2, h3⟩ := ih (liftStep f S) N' R' hr
        have hS : liftStep f S i = f (S i) := rfl
        rw [hS] at h1 h3
        by_cases hh : conv (S i) (f (S i)) = true
        · refine ⟨1, N', by unfold doWhile; simp [hh, iter], by omega, ?_⟩
          rw [h3, ← iter_add, h2]; rfl
        · refine ⟨n' + 1, k', ?_, by omega, ?_⟩
          · unfold doWhile
            simp only [hh]
            rw [h1]; rfl
          · rw [h3]; rfl

/-- two exit tests that agree along the trajectory of `s` give the same loop -/
theorem doWhile_congr (f : σ → σ) (c1 c2 : σ → σ → Bool) (fuel : Nat) (s : σ)
    (h : ∀ n, c1 (iter f n s) (iter f (n + 1) s) = c2 (iter f n s) (iter f (n + 1) s)) :
    doWhile f c1 fuel s = doWhile f c2 fuel s := by
  induction fuel generalizing s with
  | zero => rfl
  | succ fuel ih =>
    unfold doWhile
    have h0 : c1 s (f s) = c2 s (f s) := by simpa [iter] using h 0
    rw [h0, ih (f s) (fun n => by simpa [iter_succ'] using h (n + 1))]

/-- a test that holds at step `m` makes the loop return within `m + 1` steps -/
theorem doWhile_terminates (f : σ → σ) (conv : σ → σ → Bool) (m : Nat) (s : σ)
    (h : conv (iter f m s) (iter f (m + 1) s) = true) : ∃ p, doWhile f conv (m + 1) s = some p := by
  induction m generalizing s with
  | zero =>
    have h0 : conv s (f s) = true := by simpa [iter] using h
    exact ⟨(1, f s), by unfold doWhile; simp [h0]⟩
  | succ m ih =>
    unfold doWhile
    by_cases hc : conv s (f s) = true
    · exact ⟨(1, f s), by simp [hc]⟩
    · obtain ⟨p, hp⟩ := ih (f s) (by simpa [iter_succ'] using h)
      exact ⟨(p.1 + 1, p.2), by simp [hc, hp]⟩

/-- an element whose test never holds keeps the joint (unrepaired) loop running for ever -/
theorem stuck_blocks (idx : List ι) (f : σ → σ) (conv : σ → σ → Bool) (S : ι → σ) (i : ι) (hi : i ∈ idx)
    (hstuck : ∀ n, conv (iter f n (S i)) (iter f (n + 1) (S i)) = false) (fuel : Nat) :
    jointDoWhile idx f conv fuel S = none := by
  unfold jointDoWhile
  induction fuel generalizing S with
  | zero => rfl
  | succ fuel ih =>
    unfold doWhile
    have h0 : allConv idx conv S (liftStep f S) = false := by
      cases hc : allConv idx conv S (liftStep f S) with
      | false => rfl
      | true =>
        have := allConv_elem idx conv S (liftStep f S) hc i hi
        have h' : conv (S i) (f (S i)) = false := by simpa [iter] using hstuck 0
        rw [show liftStep f S i = f (S i) from rfl, h'] at this
        exact absurd this (by simp)
    have hrec := ih (liftStep f S) (fun n => by
      have := hstuck (n + 1)
      simpa [iter_succ', liftStep] using this)
    simp [h0, hrec]

/-- a common step at which every element passes the repaired test -/
theorem common_step (idx : List ι) (f : σ → σ) (conv : σ → σ → Bool) (stuck : σ → Bool) (S : ι → σ)
    (h : ∀ i, i ∈ idx → (∃ n0, ∀ n, n0 ≤ n → conv (iter f n (S i)) (iter f (n + 1) (S i)) = true) ∨
      (∀ n, stuck (iter f (n + 1) (S i)) = true)) :
    ∃ M, ∀ n, M ≤ n → ∀ i, i ∈ idx →
      repaired conv stuck (iter f n (S i)) (iter f (n + 1) (S i)) = true := by
  induction idx with
  | nil => exact ⟨0, fun _ _ i hi => absurd hi (by simp)⟩
  | cons j js ih =>
    obtain ⟨M, hM⟩ := ih (fun i hi => h i (List.mem_cons_of_mem j hi))
    rcases h j (List.mem_cons_self) with ⟨n0, hn0⟩ | hst
    · refine ⟨max M n0, fun n hn i hi => ?_⟩
      rcases List.mem_cons.mp hi with rfl | hi'
      · unfold repaired; rw [hn0 n (by omega)]; rfl
      · exact hM n (by omega) i hi'
    · refine ⟨M, fun n hn i hi => ?_⟩
      rcases List.mem_cons.mp hi with rfl | hi'
      · unfold repaired; rw [hst n]; simp
      · exact hM n hn i hi'

end PV.C08L
