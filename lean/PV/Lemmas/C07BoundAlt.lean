/-
  Helper lemmas for C07Bound (C): the altitude `get_lonlatalt` forms for a point of the ellipsoid
  `compute_pixels` intersects with (PA = 6378.137 km, PB = 6356.752314245 km), after the
  normalisation by XKMPER = 6378.135 km and with the ellipsoid `e² = F(2 − F)`, `F = 1/298.257223563`
  of orbital.py (over PV/Lemmas/C07BoundCore.lean `Hfun_near_surface`).

  Constants that enter: the excess of the normalised point over the unit ellipsoid of flattening F is
  `Q = (1−e²)(PA²/XKMPER² − 1) + z̃² (1 − (1−e²) PA²/PB²)`; the first term is the XKMPER/A unit
  mismatch (6.27e-7 · (1−e²)), the second the difference between PB and the `b = A(1−F)` implied by F
  (`(1−F)·6378.137 = 6356.7523142452`, PB = 6356.752314245: relative 6e-14, invisible).
-/
import PV.Lemmas.C07BoundCore
import PV.Lemmas.C07

namespace PV.C07B
open PV PV.Look PV.Spec.Topo PV.C04 PV.C04C PV.GeoB Real

theorem PA_val : (Geoloc.PA : ℝ) = 6378.137 := by
  simp only [Geoloc.PA, Gen.geoloc__compute_pixels_L3, r_ofSci]

theorem PB_val : (Geoloc.PB : ℝ) = 6356.752314245 := by
  simp only [Geoloc.PB, Gen.geoloc__compute_pixels_L4, r_ofSci]

/-- the excess `Q` of a pixel on the (PA, PB) ellipsoid, normalised by XKMPER, over the unit ellipsoid of
    flattening F: `6.2e-7 ≤ Q ≤ 6.3e-7` -/
theorem pixel_excess (u v : ℝ) (hu : 0 ≤ u) (hv : 0 ≤ v)
    (h : u / (6378.137 : ℝ) ^ 2 + v / (6356.752314245 : ℝ) ^ 2 = 1) :
    6.2e-7 ≤ (1 - ecc2 wgs84F) * (u / (6378.135 : ℝ) ^ 2) + v / (6378.135 : ℝ) ^ 2 - (1 - ecc2 wgs84F) ∧
    (1 - ecc2 wgs84F) * (u / (6378.135 : ℝ) ^ 2) + v / (6378.135 : ℝ) ^ 2 - (1 - ecc2 wgs84F) ≤ 6.3e-7 := by
  have hw0 : 0 ≤ v / (6356.752314245 : ℝ) ^ 2 := by positivity
  have hw1 : v / (6356.752314245 : ℝ) ^ 2 ≤ 1 := by
    have : 0 ≤ u / (6378.137 : ℝ) ^ 2 := by positivity
    linarith
  have hv' : v = (v / (6356.752314245 : ℝ) ^ 2) * (6356.752314245 : ℝ) ^ 2 := by field_simp
  have hu' : u = (6378.137 : ℝ) ^ 2 * (1 - v / (6356.752314245 : ℝ) ^ 2) := by
    field_simp at h ⊢; linarith
  unfold ecc2 wgs84F
  rw [hu']
  generalize v / (6356.752314245 : ℝ) ^ 2 = w at *
  rw [hv']
  constructor
  · norm_num; linarith
  · norm_num; linarith

/-- the value the loop returns, for a point whose excess is in `[6.2e-7, 6.3e-7]`: the altitude expression
    (earth radii) is in `[3.089e-7, 3.172e-7]` -/
theorem altOf_on_pixel_ellipsoid {z r : ℝ} (hr : 0 ≤ r)
    (hlo : 6.2e-7 ≤ (1 - ecc2 wgs84F) * r ^ 2 + z ^ 2 - (1 - ecc2 wgs84F))
    (hhi : (1 - ecc2 wgs84F) * r ^ 2 + z ^ 2 - (1 - ecc2 wgs84F) ≤ 6.3e-7)
    {fuel : ℕ} {lat0 lat c : ℝ} {n : ℕ} (h : latLoop z r fuel lat0 = some (lat, c, n)) :
    3.089e-7 ≤ altOf z r lat ∧ altOf z r lat ≤ 3.172e-7 := by
  have he := eccOK_wgs84
  have hp : 0.99 ^ 2 ≤ r ^ 2 + z ^ 2 := outside_dist he (by linarith)
  obtain ⟨φs, hfix, -⟩ := latStep_fixpoint_unique hr hp
  have hclose := (latLoop_exit_close hr hp h hfix).1
  rw [latStep_fst_eq_Tmap] at hfix
  have hH := Hfun_near_surface he (qlo := 6.2e-7) (qhi := 6.3e-7) (by norm_num) (by norm_num) hlo hhi hfix
    (le_trans hclose (by norm_num))
  have hA : altOf z r lat = Hfun (ecc2 wgs84F) z r lat := by
    rw [altOf_real]; rfl
  rw [hA]
  constructor
  · refine le_trans ?_ hH.1; norm_num
  · refine le_trans hH.2 ?_; norm_num

end PV.C07B
